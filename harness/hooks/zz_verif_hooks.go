//go:build verifhooks

// Instrumentation for /verif, injected into package traefikoidc through `go build -overlay`
// (nothing is written into /repo). It only adds read access to the cache's three structures and a
// constructor with a chosen capacity; it changes no existing code.
package traefikoidc

import "time"

// VerifNewCache is NewCache with a chosen capacity.
func VerifNewCache(maxSize int) *Cache {
	c := NewCache()
	c.mutex.Lock()
	c.maxSize = maxSize
	c.mutex.Unlock()
	return c
}

// VerifSnapshot returns the keys of the LRU list front to back, the keys of the item map and of the element map.
func (c *Cache) VerifSnapshot() (order []string, items []string, elems []string) {
	c.mutex.Lock()
	defer c.mutex.Unlock()
	for e := c.order.Front(); e != nil; e = e.Next() {
		order = append(order, e.Value.(lruEntry).key)
	}
	for k := range c.items {
		items = append(items, k)
	}
	for k := range c.elems {
		elems = append(elems, k)
	}
	return
}

// VerifStopMetadataCleanup stops the metadata cache's 5-minute clean-up goroutine. Under testing/synctest a goroutine waiting
// for the cache's mutex (held by GetMetadata for a whole discovery round) is not "durably blocked", so virtual time could not
// advance past a clean-up tick that falls into a round. The clean-up only drops a document that is already expired.
func (t *TraefikOidc) VerifStopMetadataCleanup() {
	t.metadataCache.Close()
}

// VerifHousekeeping runs one cycle of the instance's periodic maintenance: the body of the one-minute ticker loop in
// startTokenCleanup (the regenerated fact housekeepingCalls checks that these are the calls made there).
func (t *TraefikOidc) VerifHousekeeping() {
	t.tokenCache.Cleanup()
	t.jwkCache.Cleanup()
}

// VerifEndpoints returns the provider endpoints the instance currently uses (read access only).
func (t *TraefikOidc) VerifEndpoints() map[string]string {
	return map[string]string{"auth": t.authURL, "token": t.tokenURL, "jwks": t.jwksURL, "end_session": t.endSessionURL, "revocation": t.revocationURL, "issuer": t.issuerURL}
}

// VerifDeriveBlockKey exposes the (public, deterministic) derivation of the cookie encryption key from a session key, so that the
// keyless analysis can do what anyone holding the source can do: derive block keys from keys of their own choosing.
func VerifDeriveBlockKey(key string) []byte { return deriveBlockKey(key) }

// VerifExpireKeySet lets the cached provider key set run out now (what the passing of CacheLifetime does); false if the instance
// does not use the built-in key cache.
func (t *TraefikOidc) VerifExpireKeySet() bool {
	c, ok := t.jwkCache.(*JWKCache)
	if !ok {
		return false
	}
	c.mutex.Lock()
	c.expiresAt = time.Now().Add(-time.Second)
	c.mutex.Unlock()
	return true
}

// VerifOnKeyConversion makes the start of every JWK-to-PEM conversion a point the harness can observe (and hold a request at):
// fn runs first, then the unchanged converter. To be installed and restored while no request is in flight.
func VerifOnKeyConversion(fn func(kty string)) (restore func()) {
	orig := map[string]jwkToPEMConverter{}
	for kty, conv := range jwkConverters {
		orig[kty] = conv
	}
	for kty, conv := range orig {
		kty, conv := kty, conv
		jwkConverters[kty] = func(j *JWK) ([]byte, error) {
			fn(kty)
			return conv(j)
		}
	}
	return func() {
		for kty, conv := range orig {
			jwkConverters[kty] = conv
		}
	}
}
