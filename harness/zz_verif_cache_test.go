package traefikoidc_test

// Family "cache" (C12, C13): drives the real Cache through its exported API in virtual time.
// Every operation is written as a step for the Lean driver; independent reference oracles
// (a plain map with last-write / expiry / last-use bookkeeping) judge C12 and C13 directly.

import (
	"math"
	"strings"
	"fmt"
	"sort"
	"sync"
	"testing"
	"testing/synctest"
	"time"

	oidc "github.com/lukaszraczylo/traefikoidc"
)

type refEntry struct {
	v       int
	exp     int64
	lastUse int
	stored  int // operation index of the store that produced this entry
}

// the cache under test: the generic Cache, or the TokenCache wrapper (claims maps as values, its own key derivation)
type cacheAPI interface {
	Set(k string, v interface{}, ttl time.Duration)
	Get(k string) (interface{}, bool)
	Delete(k string)
	Cleanup()
	Close()
}

type tokenCacheAPI struct{ tc *oidc.TokenCache }

func (a tokenCacheAPI) Set(k string, v interface{}, ttl time.Duration) {
	// the claims are what the caller stores: whatever they say (an exp in the past, as a float64 or an int; other registered
	// names), the entry lives for the lifetime it was given
	cl := map[string]interface{}{"v": v}
	if n, ok := v.(int); ok {
		switch n % 5 {
		case 1:
			cl["exp"] = float64(time.Now().Unix() - 100)
		case 2:
			cl["exp"] = float64(time.Now().Unix() + 5)
		case 3:
			cl["exp"], cl["nbf"], cl["iat"] = time.Now().Unix()-100, float64(time.Now().Unix()+3600), "yesterday"
		case 4:
			cl["exp"] = 0.0
		}
	}
	a.tc.Set(k, cl, ttl)
}
func (a tokenCacheAPI) Get(k string) (interface{}, bool) {
	cl, ok := a.tc.Get(k)
	if !ok {
		return nil, false
	}
	return cl["v"], true
}
func (a tokenCacheAPI) Delete(k string) { a.tc.Delete(k) }
func (a tokenCacheAPI) Cleanup()        { a.tc.Cleanup() }
func (a tokenCacheAPI) Close()          {} // (no Close in the API: its clean-up goroutine lives as long as the process)

type cacheRun struct {
	c        cacheAPI
	raw      *oidc.Cache // the generic cache itself when it is the one under test (snapshot hook), else nil
	snap     bool        // the snapshot hook is available for this run
	cap      int
	t0       time.Time
	nextTick time.Duration
	ref      map[string]*refEntry
	everSet  map[string]bool
	opIdx    int
	// operation index of the last Set at which the unexpired entries of the reference (a superset of the unexpired entries the
	// cache can hold) plus the key being stored did not fit the capacity; 0 = never
	lastExceed int
	hist     []M // operations of this history (replay)
	withOrd  bool
}

func newCacheRun(cap int) *cacheRun {
	r := &cacheRun{cap: cap, ref: map[string]*refEntry{}, everSet: map[string]bool{}, nextTick: 5 * time.Minute}
	if hooksOn {
		r.raw = newCacheCap(cap)
	} else {
		r.raw = oidc.NewCache()
		r.cap = 500
	}
	r.c, r.snap = r.raw, hooksOn
	r.t0 = time.Now()
	r.withOrd = hooksOn && r.cap <= 16
	m := M{"op": "new", "cap": r.cap}
	r.hist = append(r.hist, m)
	T.emit(m)
	return r
}

// newTokenCacheRun: the TokenCache wrapper under test (production capacity; keys are token strings)
func newTokenCacheRun() *cacheRun {
	r := &cacheRun{cap: 500, ref: map[string]*refEntry{}, everSet: map[string]bool{}, nextTick: 5 * time.Minute}
	r.c = tokenCacheAPI{oidc.NewTokenCache()}
	r.t0 = time.Now()
	m := M{"op": "new", "cap": r.cap}
	r.hist = append(r.hist, m)
	T.emit(m)
	return r
}

func (r *cacheRun) now() int64 { return int64(time.Since(r.t0)) }

func (r *cacheRun) sleep(d time.Duration) {
	if d > 0 {
		time.Sleep(d)
		synctest.Wait()
	}
	for time.Since(r.t0) >= r.nextTick { // auto-cleanup ticks that fired while sleeping
		m := M{"op": "tick", "now": int64(r.nextTick), "obs": M{"r": "ok"}}
		r.record(m)
		// reference: a cleanup removes entries whose lifetime has elapsed; nothing observable changes
		r.nextTick += 5 * time.Minute
	}
}

func (r *cacheRun) record(m M) {
	r.hist = append(r.hist, m)
	if len(r.hist) > 6000 {
		r.hist = r.hist[len(r.hist)-6000:]
	}
	T.emit(m)
}

func (r *cacheRun) replay() interface{} {
	h := r.hist
	if len(h) > 400 {
		h = h[len(h)-400:]
	}
	return M{"family": "cache", "note": "last operations of the failing history (full history in the trace file)", "ops": h}
}

func (r *cacheRun) obsState(o M) M {
	if r.snap {
		order, items, elems := cacheSnapshot(r.raw)
		o["len"] = len(items)
		if r.withOrd {
			o["order"] = order
			// the key sets of the item map and of the element map (canonical order): the model predicts all three structures
			ik := append([]string{}, items...)
			ek := append([]string{}, elems...)
			sort.Strings(ik)
			sort.Strings(ek)
			o["items"], o["elems"] = ik, ek
		}
		// internal consistency (C13): the three structures describe one key set, no duplicates
		si := append([]string(nil), items...)
		se := append([]string(nil), elems...)
		so := append([]string(nil), order...)
		sort.Strings(si)
		sort.Strings(se)
		sort.Strings(so)
		if fmt.Sprint(si) != fmt.Sprint(se) || fmt.Sprint(si) != fmt.Sprint(so) {
			T.oracle("C13", "cache structures inconsistent", M{"items": len(items), "elems": len(elems), "order": len(order)}, r.replay())
		}
		if len(items) > r.cap {
			T.oracle("C13", "cache exceeds capacity", M{"len": len(items), "cap": r.cap}, r.replay())
		}
	}
	return o
}

// satAdd: now + ttl without wrapping (an expiry beyond the representable range is "never" / "long ago")
func satAdd(a, b int64) int64 {
	c := a + b
	if b > 0 && c < a {
		return math.MaxInt64
	}
	if b < 0 && c > a {
		return math.MinInt64
	}
	return c
}

func (r *cacheRun) expiredRef(e *refEntry, now int64) bool { return now >= e.exp }

func (r *cacheRun) set(k string, v int, ttl time.Duration) {
	now := r.now()
	r.opIdx++
	var before []string
	_, existed := r.ref[k]
	r.everSet[k] = true
	if r.snap {
		before, _, _ = cacheSnapshot(r.raw)
	}
	{
		live := 0
		for o, oe := range r.ref {
			if o != k && !r.expiredRef(oe, now) {
				live++
			}
		}
		if live+1 > r.cap {
			r.lastExceed = r.opIdx
		}
	}
	r.c.Set(k, v, ttl)
	o := r.obsState(M{"r": "ok"})
	r.record(M{"op": "set", "now": now, "k": k, "v": v, "ttl": int64(ttl), "obs": o})
	// --- C13 eviction oracle (needs the snapshot hook): a new key into a full cache removes exactly one entry,
	// an expired one if any exists, otherwise the least recently used
	if r.snap && !existed {
		inBefore := false
		for _, b := range before {
			if b == k {
				inBefore = true
			}
		}
		if !inBefore && len(before) >= r.cap {
			after, _, _ := cacheSnapshot(r.raw)
			as := map[string]bool{}
			for _, a := range after {
				as[a] = true
			}
			var removed []string
			for _, b := range before {
				if !as[b] {
					removed = append(removed, b)
				}
			}
			T.stat("cache.evictions")
			if len(removed) != 1 {
				T.oracle("C13", "eviction removed != 1 entries", M{"removed": removed}, r.replay())
			} else {
				anyExpired := false
				for _, b := range before {
					if e := r.ref[b]; e != nil && r.expiredRef(e, now) {
						anyExpired = true
					}
				}
				victim := removed[0]
				ve := r.ref[victim]
				if anyExpired {
					T.stat("cache.evictions.expired-present")
					if ve != nil && !r.expiredRef(ve, now) {
						T.oracle("C13", "live entry evicted although an expired one existed", M{"victim": victim}, r.replay())
					}
				} else {
					T.stat("cache.evictions.lru")
					// least recently used by the reference's own bookkeeping
					lru, lu := "", 1<<62
					for _, b := range before {
						if e := r.ref[b]; e != nil && e.lastUse < lu {
							lru, lu = b, e.lastUse
						}
					}
					if lru != "" && victim != lru {
						T.oracle("C13", "evicted entry is not the least recently used", M{"victim": victim, "lru": lru}, r.replay())
					}
				}
			}
		}
	}
	// reference bookkeeping
	if r.snap {
		// mirror removals caused by eviction so that later misses are judged correctly
		after, _, _ := cacheSnapshot(r.raw)
		as := map[string]bool{}
		for _, a := range after {
			as[a] = true
		}
		for b := range r.ref {
			if !as[b] && b != k {
				if e := r.ref[b]; !r.expiredRef(e, now) {
					// a live entry vanished: only eviction may do that; checked above / by the distinct-keys rule below
					r.lostLive(b, now)
				}
				delete(r.ref, b)
			}
		}
	}
	r.ref[k] = &refEntry{v: v, exp: satAdd(now, int64(ttl)), lastUse: r.opIdx, stored: r.opIdx}
}

// lostLive judges the loss of an unexpired, undeleted entry: allowed only if at least cap distinct other keys were used since its last use
func (r *cacheRun) lostLive(k string, now int64) {
	e := r.ref[k]
	n := 0
	for o, oe := range r.ref {
		if o != k && oe.lastUse > e.lastUse {
			n++
		}
	}
	// keys used since then that are no longer in the reference (deleted / expired-removed) are not counted: conservative
	T.stat("cache.live-entry-lost")
	if n+1 < r.cap { // +1: the key being inserted right now is used but not yet in the reference
		T.oracle("C13", "unexpired entry lost although fewer than capacity other keys were used since its last use", M{"key": k, "otherKeysUsedSince": n, "cap": r.cap}, r.replay())
	}
	if len(r.everSet) <= r.cap {
		T.oracle("C12", "live entry not observable although capacity was never exceeded", M{"key": k}, r.replay())
	} else if r.lastExceed < e.stored {
		// since this entry was stored, every Set found the unexpired entries (plus its own key) within the capacity: a full
		// cache then holds an entry whose lifetime has elapsed, and that slot is the one to reclaim
		T.oracle("C12", "live entry not observable although the unexpired entries never exceeded the capacity since it was stored", M{"key": k, "cap": r.cap}, r.replay())
	}
}

func (r *cacheRun) get(k string) {
	now := r.now()
	r.opIdx++
	v, ok := r.c.Get(k)
	res := "miss"
	if ok {
		if iv, isInt := v.(int); isInt {
			res = fmt.Sprintf("hit %d", iv)
		} else {
			res = fmt.Sprintf("hit ?%v", v)
		}
	}
	o := r.obsState(M{"r": res})
	r.record(M{"op": "get", "now": now, "k": k, "obs": o})
	e := r.ref[k]
	if ok {
		T.stat("cache.get.hit")
		switch {
		case e == nil:
			T.oracle("C12", "lookup returned a value for a key that was never stored or was deleted", M{"key": k, "got": res}, r.replay())
		case fmt.Sprintf("hit %d", e.v) != res:
			T.oracle("C12", "lookup returned a value that is not the most recent one stored", M{"key": k, "got": res, "want": e.v}, r.replay())
		case r.expiredRef(e, now):
			T.oracle("C12", "lookup returned a value whose lifetime has elapsed", M{"key": k, "got": res, "now": now, "exp": e.exp}, r.replay())
		default:
			e.lastUse = r.opIdx
		}
	} else {
		T.stat("cache.get.miss")
		if e != nil && !r.expiredRef(e, now) {
			r.lostLive(k, now)
			delete(r.ref, k)
		} else if e != nil {
			T.stat("cache.get.miss.expired")
			delete(r.ref, k)
		}
	}
}

func (r *cacheRun) del(k string) {
	r.opIdx++
	r.c.Delete(k)
	o := r.obsState(M{"r": "ok"})
	r.record(M{"op": "del", "k": k, "obs": o})
	delete(r.ref, k)
}

func (r *cacheRun) clean() {
	now := r.now()
	r.opIdx++
	var before []string
	if r.snap {
		before, _, _ = cacheSnapshot(r.raw)
	}
	r.c.Cleanup()
	o := r.obsState(M{"r": "ok"})
	r.record(M{"op": "clean", "now": now, "obs": o})
	if r.snap {
		after, _, _ := cacheSnapshot(r.raw)
		as := map[string]bool{}
		for _, a := range after {
			as[a] = true
		}
		for _, b := range before {
			e := r.ref[b]
			if e == nil {
				continue
			}
			if !as[b] && !r.expiredRef(e, now) {
				T.oracle("C12", "Cleanup removed an entry whose lifetime has not elapsed", M{"key": b}, r.replay())
			}
			if as[b] && r.expiredRef(e, now) {
				T.oracle("C12", "Cleanup kept an entry whose lifetime has elapsed", M{"key": b}, r.replay())
			}
		}
	}
}

func (r *cacheRun) close() { r.c.Close() }

// lifetimes: negative, zero, a few nanoseconds, ordinary, and the far end of the range (centuries, the largest Duration)
var ttlChoices = []time.Duration{-5, 0, 1, 2, 50, time.Second, 30 * time.Second, 10 * time.Minute, time.Hour,
	240 * 365 * 24 * time.Hour, time.Duration(math.MaxInt64), time.Duration(math.MaxInt64 / 2), time.Duration(math.MinInt64)}

func familyCache(t *testing.T) {
	rng := T.rng
	if T.prop == "C13" || T.prop == "C12" {
		cacheConcurrent()
	}
	synctest.Test(t, func(t *testing.T) {
		defer guard()
		if rp := loadReplay(); rp != nil {
			cacheReplay(rp)
			return
		}
		nHist := T.size(60, 600)
		for h := 0; h < nHist; h++ {
			switch h % 6 {
			case 0, 1: // dense random mix on a tiny cache: every eviction has an observable consequence
				cap := 1 + rng.Intn(6)
				r := newCacheRun(cap)
				keys := cap + 1 + rng.Intn(4)
				T.stat("cache.family.dense")
				for i := 0; i < T.size(250, 600); i++ {
					var d time.Duration
					switch rng.Intn(7) {
					case 0, 1:
						d = 0
					case 2:
						d = 1
					case 3:
						d = time.Duration(rng.Intn(60))
					case 4:
						d = time.Duration(rng.Intn(2000)) * time.Millisecond
					case 5:
						d = time.Duration(rng.Intn(40)) * time.Second
					default:
						d = time.Duration(rng.Intn(8)) * time.Minute
					}
					r.sleep(d)
					k := fmt.Sprintf("k%d", rng.Intn(keys))
					switch p := rng.Intn(100); {
					case p < 42:
						r.set(k, r.opIdx+1, ttlChoices[rng.Intn(len(ttlChoices))])
					case p < 88:
						r.get(k)
					case p < 95:
						r.del(k)
					default:
						r.clean()
					}
				}
				r.close()
			case 2: // boundary: zero / negative / 1 ns lifetimes looked up at the same instant and one tick later
				r := newCacheRun(2 + rng.Intn(3))
				T.stat("cache.family.boundary")
				for i := 0; i < 60; i++ {
					k := fmt.Sprintf("b%d", rng.Intn(3))
					ttl := []time.Duration{-1, 0, 0, 1, 2, 3}[rng.Intn(6)]
					r.set(k, r.opIdx+1, ttl)
					r.get(k) // same instant
					r.sleep(time.Duration(rng.Intn(3)))
					r.get(k)
					if rng.Intn(4) == 0 {
						r.clean()
					}
					r.sleep(time.Duration(rng.Intn(2)))
				}
				r.close()
			case 3: // expired-first eviction: a full cache with a mix of elapsed and live entries, then overflow, then probe
				if h%12 == 9 { // a purge that removes more entries than it keeps: the survivors keep their order of use
					cap := 6 + rng.Intn(3)
					r := newCacheRun(cap)
					T.stat("cache.family.purge-majority")
					for round := 0; round < 6; round++ {
						nLong := 2 + rng.Intn(2)
						longAt := map[int]bool{}
						for _, i := range rng.Perm(cap)[:nLong] {
							longAt[i] = true
						}
						var longs []string
						for i := 0; i < cap; i++ {
							k := fmt.Sprintf("p%d_%d", round, i)
							if longAt[i] {
								r.set(k, r.opIdx+1, time.Hour)
								longs = append(longs, k)
							} else {
								r.set(k, r.opIdx+1, 10)
							}
							r.sleep(time.Duration(rng.Intn(2)))
						}
						for _, i := range rng.Perm(len(longs)) { // use the survivors-to-be in an order of their own
							r.get(longs[i])
						}
						r.sleep(20)
						r.clean()
						for i := 0; i < cap-nLong+1+rng.Intn(nLong); i++ { // refill and overflow: the least recently used survivor goes first
							r.set(fmt.Sprintf("q%d_%d", round, i), r.opIdx+1, time.Hour)
						}
						for _, k := range longs {
							r.get(k)
						}
						r.sleep(2 * time.Hour)
						r.clean()
					}
					r.close()
					continue
				}
				cap := 3 + rng.Intn(6)
				r := newCacheRun(cap)
				T.stat("cache.family.expired-first")
				for round := 0; round < 12; round++ {
					for i := 0; i < cap; i++ {
						ttl := []time.Duration{10, 10, time.Hour, time.Hour, 0, 20}[rng.Intn(6)]
						r.set(fmt.Sprintf("e%d_%d", round, i), r.opIdx+1, ttl)
						r.sleep(time.Duration(rng.Intn(3)))
					}
					for i := 0; i < rng.Intn(cap+1); i++ { // touch some
						r.get(fmt.Sprintf("e%d_%d", round, rng.Intn(cap)))
					}
					r.sleep([]time.Duration{0, 5, 10, 11, 20, 30}[rng.Intn(6)]) // exactly at / around the short lifetimes
					for i := 0; i < 1+rng.Intn(cap); i++ {
						r.set(fmt.Sprintf("n%d_%d", round, i), r.opIdx+1, time.Hour)
					}
					for _, i := range rng.Perm(cap) {
						r.get(fmt.Sprintf("e%d_%d", round, i))
					}
					r.sleep(2 * time.Hour) // everything lapses before the next round
				}
				r.close()
			case 4: // LRU on the production capacity: fill, read a subset, overflow, probe every key
				r := newCacheRun(500)
				T.stat("cache.family.lru500")
				tick := func() { r.sleep(time.Duration(1 + rng.Intn(20))) }
				n := r.cap
				for k := 0; k < n; k++ {
					tick()
					r.set(fmt.Sprintf("k%d", k), k+1, time.Hour)
				}
				for i := 0; i < 50+rng.Intn(300); i++ {
					tick()
					r.get(fmt.Sprintf("k%d", rng.Intn(n)))
				}
				extra := 1 + rng.Intn(120)
				for k := n; k < n+extra; k++ {
					tick()
					r.set(fmt.Sprintf("k%d", k), k+1, time.Hour)
				}
				for _, k := range rng.Perm(n + extra) {
					tick()
					r.get(fmt.Sprintf("k%d", k))
				}
				r.close()
			case 5:
				if h%12 == 11 {
					// the TokenCache wrapper is a cache keyed by the token string: keys shaped like compact JWTs that share their
					// header, their payload or their signature segment with one another, next to keys without dots
					r := newTokenCacheRun()
					T.stat("cache.family.token-cache")
					segs := []string{"eyJhbGciOiJSUzI1NiJ9", "eyJzdWIiOiJhIn0", "eyJzdWIiOiJiIn0", "c2lnLTE", "c2lnLTI", ""}
					var keys []string
					for i := 0; i < 14; i++ {
						switch rng.Intn(5) {
						case 0:
							keys = append(keys, fmt.Sprintf("opaque-%d", rng.Intn(4)))
						case 1:
							keys = append(keys, segs[rng.Intn(len(segs))]+"."+segs[rng.Intn(len(segs))])
						default:
							keys = append(keys, segs[rng.Intn(len(segs))]+"."+segs[rng.Intn(len(segs))]+"."+segs[rng.Intn(len(segs))])
						}
					}
					for i := 0; i < T.size(200, 500); i++ {
						r.sleep([]time.Duration{0, 1, time.Duration(rng.Intn(3000)) * time.Millisecond, time.Duration(rng.Intn(90)) * time.Second, time.Duration(300+rng.Intn(500)) * time.Millisecond}[rng.Intn(5)])
						k := keys[rng.Intn(len(keys))]
						switch p := rng.Intn(100); {
						case p < 40:
							r.set(k, r.opIdx+1, []time.Duration{-1, 0, time.Second, 30 * time.Second, 10 * time.Minute, time.Hour,
								400 * time.Millisecond, 600 * time.Millisecond, 1499 * time.Millisecond, 2500 * time.Millisecond, 999999999, 500000000}[rng.Intn(12)])
						case p < 88:
							r.get(k)
						case p < 96:
							r.del(k)
						default:
							r.clean()
						}
					}
					r.close()
					break
				}
				// uniform random mix on the production capacity with auto-cleanup ticks
				r := newCacheRun(500)
				T.stat("cache.family.mix500")
				keyspace := []int{8, 40, 520, 700}[rng.Intn(4)]
				for i := 0; i < T.size(400, 3000); i++ {
					var d time.Duration
					switch rng.Intn(6) {
					case 0:
						d = 0
					case 1:
						d = 1
					case 2:
						d = time.Duration(rng.Intn(1000)) * time.Millisecond
					case 3:
						d = time.Duration(rng.Intn(90)) * time.Second
					default:
						d = time.Duration(rng.Intn(50))
					}
					r.sleep(d)
					k := fmt.Sprintf("k%d", rng.Intn(keyspace))
					switch p := rng.Intn(100); {
					case p < 45:
						r.set(k, r.opIdx+1, ttlChoices[rng.Intn(len(ttlChoices))])
					case p < 88:
						r.get(k)
					case p < 95:
						r.del(k)
					default:
						r.clean()
					}
				}
				r.close()
			}
		}
		T.finish()
	})
}

func loadReplay() M {
	p := osGetenv("VERIF_REPLAY")
	if p == "" {
		return nil
	}
	return readJSONFile(p)
}

func cacheReplay(rp M) {
	var r *cacheRun
	ops, _ := rp["ops"].([]interface{})
	var last int64
	for _, x := range ops {
		m := x.(map[string]interface{})
		now := int64(0)
		if f, ok := m["now"].(float64); ok {
			now = int64(f)
		}
		switch m["op"] {
		case "new":
			r = newCacheRun(int(m["cap"].(float64)))
			last = 0
		case "tick":
			// produced by sleeping
		default:
			if r == nil {
				r = newCacheRun(500)
			}
			if now > last {
				r.sleep(time.Duration(now - int64(time.Since(r.t0))))
				last = now
			}
			k, _ := m["k"].(string)
			switch m["op"] {
			case "set":
				r.set(k, int(m["v"].(float64)), time.Duration(int64(m["ttl"].(float64))))
			case "get":
				r.get(k)
			case "del":
				r.del(k)
			case "clean":
				r.clean()
			}
		}
	}
	T.finish()
}

// cacheConcurrent: real goroutines on one cache (C13, concurrency clause). Values are tagged with their key, so a value
// returned for another key or a torn structure is detectable; after quiescence the structures must be consistent and a
// sequential suffix must behave like a cache started from the observed contents.
func cacheConcurrent() {
	rng := T.rng
	rounds := T.size(6, 40)
	for round := 0; round < rounds; round++ {
		cap := []int{3, 8, 500}[round%3]
		var c *oidc.Cache
		if hooksOn {
			c = newCacheCap(cap)
		} else {
			c = oidc.NewCache()
			cap = 500
		}
		workers := 2 + rng.Intn(15)
		keys := cap + 4
		keysFit := cap == 500 && (round/3)%2 == 0
		if keysFit {
			keys = 60 // with the owners' keys far below the capacity: no eviction can happen in this round
		}
		var wg sync.WaitGroup
		bad := make(chan string, 100)
		done := make(chan struct{})
		for w := 0; w < workers; w++ {
			wg.Add(1)
			seed := rng.Int63()
			go func(w int) {
				defer wg.Done()
				defer func() {
					if p := recover(); p != nil {
						select {
						case bad <- fmt.Sprintf("panic: %v", p):
						default:
						}
					}
				}()
				lr := newRand(seed)
				for i := 0; i < 3000; i++ {
					k := fmt.Sprintf("k%d", lr.Intn(keys))
					switch p := lr.Intn(100); {
					case p < 40:
						c.Set(k, k, []time.Duration{-1, 0, time.Microsecond, time.Hour}[lr.Intn(4)])
					case p < 85:
						if v, ok := c.Get(k); ok && v.(string) != k {
							select {
							case bad <- fmt.Sprintf("Get(%s) returned a value stored under %v", k, v):
							default:
							}
						}
					case p < 95:
						c.Delete(k)
					default:
						c.Cleanup()
					}
				}
			}(w)
		}
		// lookups count as use, also when they overlap: fill a small cache, look half of its keys up from as many goroutines at the
		// same moment, then (alone) insert as many new keys as were NOT looked up — exactly those must be the ones evicted
		if hooksOn && cap == 8 {
			for rep := 0; rep < T.size(150, 1000); rep++ {
				cc := newCacheCap(8)
				for i := 0; i < 8; i++ {
					cc.Set(fmt.Sprintf("f%d", i), i, time.Hour)
				}
				start := make(chan struct{})
				var lw sync.WaitGroup
				for g := 0; g < 4; g++ {
					lw.Add(1)
					go func(g int) {
						defer lw.Done()
						<-start
						cc.Get(fmt.Sprintf("f%d", g))
					}(g)
				}
				close(start)
				lw.Wait()
				for i := 0; i < 4; i++ {
					cc.Set(fmt.Sprintf("n%d", i), i, time.Hour)
				}
				lost := []string{}
				for g := 0; g < 4; g++ {
					if _, ok := cc.Get(fmt.Sprintf("f%d", g)); !ok {
						lost = append(lost, fmt.Sprintf("f%d", g))
					}
				}
				cc.Close()
				if len(lost) > 0 {
					T.oracle("C13", "an entry looked up (concurrently with other lookups) was evicted although fewer than capacity other keys were used since", M{"lost": lost, "cap": 8, "others_used_since": 7}, M{"family": "cache", "concurrent": true, "scenario": "overlapping lookups then overflow"})
					break
				}
			}
			T.stat("cache.concurrent.lookup-counts-as-use")
		}
		// owners and cleaners (rounds in which the key universe fits the capacity, so nothing may ever be evicted): each owner
		// re-stores its own key — first with an already elapsed lifetime, then with a long one — and must read it back, while
		// cleaners run Cleanup and the other workers churn the shared keys
		if keysFit {
			for ow := 0; ow < 4; ow++ {
				wg.Add(2)
				go func(ow int) {
					defer wg.Done()
					defer func() { recover() }()
					own := fmt.Sprintf("own%d", ow)
					for i := 0; i < 4000; i++ {
						c.Set(own, own, time.Nanosecond)
						c.Set(own, own, time.Hour)
						if v, ok := c.Get(own); !ok || v.(string) != own {
							select {
							case bad <- fmt.Sprintf("unexpired entry lost: %s stored with a one-hour lifetime by its only writer is not observable, capacity never reached", own):
							default:
							}
							return
						}
					}
				}(ow)
				go func() {
					defer wg.Done()
					defer func() { recover() }()
					for i := 0; i < 4000; i++ {
						c.Cleanup()
					}
				}()
			}
		}
		go func() { wg.Wait(); close(done) }()
		select {
		case <-done:
		case <-time.After(60 * time.Second):
			T.oracle("C13", "concurrent cache use deadlocked (60 s without completion)", M{"workers": workers, "cap": cap}, M{"family": "cache", "concurrent": true, "workers": workers, "cap": cap})
			return
		}
		close(bad)
		for b := range bad {
			tag := "C13"
			if T.prop == "C12" && strings.HasPrefix(b, "unexpired entry lost") { // C12: "a live entry is observable as long as capacity is not exceeded"
				tag = "C12"
			}
			T.oracle(tag, "concurrent cache use: "+b, M{"workers": workers, "cap": cap}, M{"family": "cache", "concurrent": true, "workers": workers, "cap": cap})
		}
		T.statN("cache.concurrent.ops", workers*3000)
		if hooksOn {
			order, items, elems := cacheSnapshot(c)
			sort.Strings(order)
			sort.Strings(items)
			sort.Strings(elems)
			if fmt.Sprint(order) != fmt.Sprint(items) || fmt.Sprint(items) != fmt.Sprint(elems) || len(items) > cap {
				T.oracle("C13", "cache structures inconsistent after concurrent use", M{"order": len(order), "items": len(items), "elems": len(elems), "cap": cap}, M{"family": "cache", "concurrent": true, "workers": workers, "cap": cap})
			}
		}
		c.Close()
	}
}
