package traefikoidc_test

// Family "discovery" (C20): New() against a scripted discovery endpoint in virtual time. One outcome per HTTP attempt
// (refused connection, 5xx, malformed JSON, slow answer then failure, slow answer then a document); requests arrive before,
// during and after recovery, some with a client that gives up early; the hourly refresh continues with the same script.

import (
	"context"
	"encoding/json"
	"fmt"
	"net/http"
	"net/http/httptest"
	"strings"
	"testing"
	"testing/synctest"
	"time"

	oidc "github.com/lukaszraczylo/traefikoidc"
)

type dOutcome struct {
	kind        string // refused | 5xx | malformed | slowfail | ok
	dur         time.Duration
	doc         string
	issuerEmpty bool
	noES        bool // the document names no end-session and no revocation endpoint
}

func familyDiscovery(t *testing.T) {
	rng := T.rng
	synctest.Test(t, func(t *testing.T) {
		defer guard()
		nScen := T.size(60, 160)
		for sc := 0; sc < nScen; sc++ {
			// ---- the fault script
			n := []int{0, 1, 3, 4, 5, 6, 9, 10, 11, 17, 26, 40}[rng.Intn(12)]
			var script []dOutcome
			for i := 0; i < n; i++ {
				switch rng.Intn(6) {
				case 0:
					script = append(script, dOutcome{kind: "refused"})
				case 1:
					script = append(script, dOutcome{kind: "5xx"})
				case 5: // 200 OK with a body that is not a JSON document at all
					script = append(script, dOutcome{kind: []string{"empty200", "ws200", "truncated", "html", "array", "typemismatch", "typemismatch"}[rng.Intn(7)]})
					if sc%3 == 1 { // ... or that is JSON but not a metadata document: a provider that is still starting, an error object, a document with a required endpoint missing
						script[len(script)-1].kind = incompleteKinds[rng.Intn(len(incompleteKinds))]
					}
				case 2:
					script = append(script, dOutcome{kind: "malformed"})
				case 3:
					script = append(script, dOutcome{kind: "slowfail", dur: time.Duration(1+rng.Intn(50)) * time.Second})
				default:
					script = append(script, dOutcome{kind: []string{"refused", "5xx"}[rng.Intn(2)], dur: time.Duration(rng.Intn(3)) * time.Second})
				}
			}
			// recovery, possibly followed by further faults and changed documents that hit the hourly refresh
			nDoc := 1
			mkDoc := func() dOutcome {
				d := dOutcome{kind: "ok", doc: fmt.Sprintf("d%d", nDoc), dur: []time.Duration{0, 0, 2 * time.Second, 20 * time.Second}[rng.Intn(4)], noES: rng.Intn(2) == 0}
				nDoc++
				return d
			}
			if rng.Intn(12) == 0 {
				// a syntactically valid document without issuer is no metadata: a failed attempt like any other
				script = append(script, dOutcome{kind: "noissuer"})
			}
			script = append(script, mkDoc())
			for i := 0; i < rng.Intn(4); i++ {
				for k := 0; k < rng.Intn(8); k++ {
					script = append(script, dOutcome{kind: []string{"refused", "5xx", "malformed", "empty200", "ws200", "truncated", "typemismatch"}[rng.Intn(7)]})
					if sc%3 == 1 && k%2 == 0 {
						script[len(script)-1].kind = incompleteKinds[rng.Intn(len(incompleteKinds))]
					}
				}
				script = append(script, mkDoc())
			}
			final := fmt.Sprintf("d%d", nDoc)
			finalNoES := rng.Intn(2) == 0
			// ---- the provider
			p := newProvider(keys()["p256a"])
			p.t0 = time.Now()
			t0 := time.Now()
			p.discovery = func(i int) (int, string, time.Duration, bool) {
				if i >= len(script) {
					return 200, docJSON(final, false, finalNoES), 0, false
				}
				o := script[i]
				switch o.kind {
				case "refused":
					return 0, "", o.dur, true
				case "5xx":
					// (a failing status is a failing status to the middleware: server errors, and the client errors a proxy, a WAF or a
					// provider that is still being deployed answers with)
					return []int{503, 404, 500, 403, 502, 401, 429, 400, 504, 410}[i%10], "unavailable", o.dur, false
				case "malformed":
					return 200, "{not json", o.dur, false
				case "empty200":
					return 200, "", o.dur, false
				case "ws200":
					return 200, " \n\t ", o.dur, false
				case "truncated":
					return 200, `{"issuer":"https://idp.test","authorization_endp`, o.dur, false
				case "html":
					return 200, "<html><body>maintenance</body></html>", o.dur, false
				case "array":
					return 200, "[]", o.dur, false
				case "typemismatch": // a JSON object naming every endpoint, one known field with the wrong type: the answer must be rejected as a whole
					return 200, fmt.Sprintf(`{"issuer":"https://idp.test","authorization_endpoint":"https://stale%d.idp.test/auth","token_endpoint":"https://stale%d.idp.test/token","jwks_uri":["https://stale%d.idp.test/jwks"],"end_session_endpoint":"https://stale%d.idp.test/logout","revocation_endpoint":"https://stale%d.idp.test/revoke"}`, i, i, i, i, i), o.dur, false
				case "slowfail":
					return 0, "", o.dur, true
				case "emptyobj":
					return 200, "{}", o.dur, false
				case "jsonnull":
					return 200, "null", o.dur, false
				case "starting":
					return 200, `{"error":"starting"}`, o.dur, false
				case "issueronly":
					return 200, `{"issuer":"` + issuerURL + `","status":"starting"}`, o.dur, false
				case "noissuer", "noauth", "notoken", "nojwks":
					var m M
					json.Unmarshal([]byte(docJSON(fmt.Sprintf("stale%d", i), false, false)), &m)
					delete(m, map[string]string{"noissuer": "issuer", "noauth": "authorization_endpoint", "notoken": "token_endpoint", "nojwks": "jwks_uri"}[o.kind])
					b, _ := json.Marshal(m)
					return 200, string(b), o.dur, false
				default:
					return 200, docJSON(o.doc, o.issuerEmpty, o.noES), o.dur, false
				}
			}
			var outs []M
			for _, o := range script {
				if o.kind == "ok" {
					outs = append(outs, M{"k": "ok", "doc": o.doc, "dur": int64(o.dur), "issuerEmpty": o.issuerEmpty, "noES": o.noES})
				} else if pres, isDoc := presentMembers[o.kind]; isDoc {
					// a 200 answer that decodes: the model is told which members it carries and decides itself whether that is metadata
					docID := ""
					if o.kind == "noissuer" || o.kind == "noauth" || o.kind == "notoken" || o.kind == "nojwks" {
						docID = fmt.Sprintf("stale%d", len(outs))
					}
					outs = append(outs, M{"k": "doc", "doc": docID, "present": pres, "dur": int64(o.dur), "kind": o.kind})
				} else {
					outs = append(outs, M{"k": "fail", "dur": int64(o.dur), "kind": o.kind})
				}
			}
			hist := []M{{"op": "dcfg", "t0": t0.UnixNano(), "outcomes": outs, "finalDoc": final, "finalNoES": finalNoES}}
			T.emit(hist[0])
			d := &down{}
			cfg := baseConfig(p)
			h, err := oidc.New(nil, d, cfg, "verif")
			if err != nil {
				panic(err)
			}
			inst := h.(*oidc.TraefikOidc)
			if !stopMetadataCleanup(inst) {
				T.emit(M{"op": "stat", "k": "discovery.hook-unavailable", "n": 1})
				T.finish() // without the hook virtual time cannot pass a clean-up tick inside a discovery round
			}
			replay := func() interface{} { return M{"family": "discovery", "seed": T.seed, "scenario": sc, "steps": hist} }
			everOK := false
			firstOKAttempt := -1
			for i, o := range script {
				if o.kind == "ok" && !o.issuerEmpty {
					firstOKAttempt = i
					break
				}
			}
			_ = firstOKAttempt
			// ---- C20 oracle (heals within a bounded time): every failed attempt costs at most its own duration plus the largest back-off
			// plus the pause between rounds; by then the first healthy answer has been obtained and the instance must serve
			healBound := time.Duration(0)
			firstHealthyHasIssuer := true
			for _, o := range script {
				if o.kind == "ok" {
					healBound += o.dur
					firstHealthyHasIssuer = !o.issuerEmpty
					break
				}
				healBound += o.dur + 60*time.Second
			}
			healBound += 5*time.Second + 137*time.Millisecond
			healProbed := false
			probeHeal := func() {
				if healProbed || !firstHealthyHasIssuer || time.Since(t0) < healBound {
					return
				}
				healProbed = true
				req := httptest.NewRequest("GET", "http://app.test/x", nil)
				rec := httptest.NewRecorder()
				at := time.Now()
				inst.ServeHTTP(rec, req)
				obs := M{"r": fmt.Sprintf("other:%d", rec.Code)}
				loc := rec.Header().Get("Location")
				if rec.Code == 302 && strings.HasPrefix(loc, "https://") {
					obs = M{"r": "serve"}
					rest := strings.TrimPrefix(loc, "https://")
					if i := strings.IndexAny(rest, "./"); i > 0 {
						obs["doc"] = rest[:i]
					}
				} else if rec.Code == 503 {
					obs = M{"r": "503"}
				}
				m := M{"op": "dreq", "at": at.UnixNano(), "giveUp": nil, "obs": obs, "note": "probe at the healing bound"}
				hist = append(hist, m)
				T.emit(m)
				T.stat("discovery.heal-probes")
				if obs["r"] != "serve" {
					T.oracle("C20", "instance does not serve within the bounded time after the provider became healthy", M{"status": rec.Code, "bound_s": healBound.Seconds(), "since_start_s": time.Since(t0).Seconds()}, replay())
				}
			}
			// ---- requests at odd instants (never exactly on a timer boundary)
			nReq := 4 + rng.Intn(8)
			crowd := 0
			if sc%5 == 2 { // first a crowd of impatient clients: each gives up a few milliseconds into its wait for the initialisation
				crowd = 140
				nReq += crowd
				T.stat("discovery.impatient-crowds")
			}
			for q := 0; q < nReq; q++ {
				gap := []time.Duration{0, 3 * time.Second, 17 * time.Second, 45 * time.Second, 2 * time.Minute, 11 * time.Minute, 50 * time.Minute, 65 * time.Minute, 3 * time.Hour}[rng.Intn(9)]
				if q < crowd {
					gap = 0
				}
				// if the healing bound falls into this gap, probe right there
				if !healProbed && firstHealthyHasIssuer && time.Since(t0) < healBound && time.Since(t0)+gap > healBound {
					d0 := healBound - time.Since(t0)
					time.Sleep(d0)
					synctest.Wait()
					probeHeal()
					gap -= d0
					if gap < 0 {
						gap = 0
					}
				}
				if q < crowd {
					time.Sleep(time.Duration(1+rng.Intn(3))*time.Millisecond + time.Duration(rng.Intn(1000))*time.Microsecond)
				} else {
					time.Sleep(gap + time.Duration(100+rng.Intn(800))*time.Millisecond + time.Duration(rng.Intn(1000))*time.Microsecond)
				}
				synctest.Wait()
				probeHeal()
				at := time.Now()
				var giveUp interface{}
				// a protected path, or one under an excluded prefix (New always excludes /favicon): the initialisation gate is in front of both
				path := []string{"/x", "/x", "/favicon.ico"}[rng.Intn(3)]
				req := httptest.NewRequest("GET", "http://app.test"+path, nil)
				var cancel context.CancelFunc
				if q < crowd {
					g := time.Duration(2+rng.Intn(9))*time.Millisecond + 333*time.Microsecond
					ctx, c := context.WithTimeout(req.Context(), g)
					cancel = c
					req = req.WithContext(ctx)
					giveUp = at.Add(g).UnixNano()
				} else if rng.Intn(3) == 0 {
					g := time.Duration(1+rng.Intn(40))*time.Second + 333*time.Millisecond
					ctx, c := context.WithTimeout(req.Context(), g)
					cancel = c
					req = req.WithContext(ctx)
					giveUp = at.Add(g).UnixNano()
				}
				rec := httptest.NewRecorder()
				before := d.calls
				inst.ServeHTTP(rec, req)
				if cancel != nil {
					cancel()
				}
				obs := M{}
				loc := rec.Header().Get("Location")
				switch {
				case rec.Code == 503:
					obs["r"] = "503"
				case rec.Code == 408:
					obs["r"] = "408"
				case rec.Code == 302 && strings.HasPrefix(loc, "https://"):
					obs["r"] = "serve"
					// which document's authorization endpoint?
					rest := strings.TrimPrefix(loc, "https://")
					if i := strings.IndexAny(rest, "./"); i > 0 {
						obs["doc"] = rest[:i]
					}
					everOK = true
				case path != "/x" && rec.Code == 200 && d.calls == before+1:
					obs["r"] = "serve" // passed to the downstream handler: normal service of an excluded path
				default:
					obs["r"] = fmt.Sprintf("other:%d", rec.Code)
				}
				if eps := endpointsOf(inst); eps != nil && obs["r"] == "serve" {
					// every endpoint in use belongs to one document — the one in force; optional endpoints the document does not name are unset
					label := func(u string) string {
						if u == "" {
							return "none"
						}
						rest := strings.TrimPrefix(u, "https://")
						if i := strings.Index(rest, ".idp.test/"); i > 0 {
							return rest[:i]
						}
						return u
					}
					obs["es"] = label(eps["end_session"])
					for _, k := range []string{"auth", "token", "end_session", "revocation"} {
						if l := label(eps[k]); strings.HasPrefix(l, "stale") {
							T.oracle("C20", "an endpoint in use was taken from a discovery answer that was rejected", M{"endpoint": k, "value": trunc(eps[k], 100)}, replay())
						}
					}
					if a, tk := label(eps["auth"]), label(eps["token"]); a != tk || (label(eps["end_session"]) != "none" && label(eps["end_session"]) != a) || (label(eps["revocation"]) != "none" && label(eps["revocation"]) != a) {
						T.oracle("C20", "the endpoints in use come from different discovery documents", M{"auth": a, "token": tk, "end_session": label(eps["end_session"]), "revocation": label(eps["revocation"])}, replay())
					}
				}
				m := M{"op": "dreq", "at": at.UnixNano(), "giveUp": giveUp, "path": path, "obs": obs}
				hist = append(hist, m)
				T.emit(m)
				T.stat("discovery.request." + fmt.Sprint(obs["r"]))
				// ---- C20 oracle (fail closed): before any successful discovery attempt has completed, only 503/408, nothing forwarded, no Location
				p.mu.Lock()
				attemptsSoFar := p.discoveryN
				p.mu.Unlock()
				okCompleted := false
				for i := 0; i < attemptsSoFar && i < len(script); i++ {
					if script[i].kind == "ok" && !script[i].issuerEmpty {
						okCompleted = true
					}
				}
				if attemptsSoFar > len(script) {
					okCompleted = true
				}
				if !okCompleted {
					if d.calls != before || loc != "" || (rec.Code != 503 && rec.Code != 408) {
						T.oracle("C20", "request served, forwarded or redirected before provider metadata was obtained", M{"status": rec.Code, "location": trunc(loc, 80)}, replay())
					}
				}
				if rec.Code == 302 && (loc == "" || !strings.Contains(loc, ".idp.test/auth?")) {
					T.oracle("C20", "redirect to an empty or partial provider URL", M{"location": trunc(loc, 120)}, replay())
				}
			}
			// ---- C20 oracle (heals): once the script is exhausted the provider is healthy; within the bound the instance must serve
			p.mu.Lock()
			consumed := p.discoveryN
			p.mu.Unlock()
			if !everOK || consumed <= len(script) {
				// wait out the remaining script: each remaining attempt costs at most its duration + maxDelay + retryInterval (initialisation) or one hour (refresh)
				time.Sleep(2*time.Hour + time.Duration(len(script))*2*time.Hour + 777*time.Millisecond)
				synctest.Wait()
				req := httptest.NewRequest("GET", "http://app.test/x", nil)
				rec := httptest.NewRecorder()
				at := time.Now()
				inst.ServeHTTP(rec, req)
				obs := M{"r": fmt.Sprintf("other:%d", rec.Code)}
				loc := rec.Header().Get("Location")
				if rec.Code == 302 && strings.HasPrefix(loc, "https://") {
					obs = M{"r": "serve"}
					rest := strings.TrimPrefix(loc, "https://")
					if i := strings.IndexAny(rest, "./"); i > 0 {
						obs["doc"] = rest[:i]
					}
				} else if rec.Code == 503 {
					obs = M{"r": "503"}
				}
				m := M{"op": "dreq", "at": at.UnixNano(), "giveUp": nil, "obs": obs, "note": "long after the provider recovered"}
				hist = append(hist, m)
				T.emit(m)
				if obs["r"] != "serve" {
					T.oracle("C20", "instance does not serve although the provider has been healthy for hours (no restart)", M{"status": rec.Code, "faults": len(script)}, replay())
				}
			}
			// attempt instants
			p.mu.Lock()
			times := []int64{}
			for _, dt := range p.discTimes {
				times = append(times, int64(dt))
			}
			p.mu.Unlock()
			m := M{"op": "dattempts", "upTo": time.Now().UnixNano(), "obs": M{"times": times}}
			hist = append(hist, m)
			T.emit(m)
			T.statN("discovery.attempts", len(times))
		}
		T.finish()
	})
}

// 200 answers that are JSON but not provider metadata (OpenID Connect Discovery 1.0 section 3 requires issuer,
// authorization_endpoint, token_endpoint and jwks_uri)
var incompleteKinds = []string{"emptyobj", "jsonnull", "starting", "issueronly", "noissuer", "noauth", "notoken", "nojwks"}

var presentMembers = map[string][]string{
	"emptyobj": {}, "jsonnull": {}, "starting": {}, "issueronly": {"issuer"},
	"noissuer": {"authorization_endpoint", "token_endpoint", "jwks_uri", "end_session_endpoint", "revocation_endpoint"},
	"noauth":   {"issuer", "token_endpoint", "jwks_uri", "end_session_endpoint", "revocation_endpoint"},
	"notoken":  {"issuer", "authorization_endpoint", "jwks_uri", "end_session_endpoint", "revocation_endpoint"},
	"nojwks":   {"issuer", "authorization_endpoint", "token_endpoint", "end_session_endpoint", "revocation_endpoint"},
}

func docJSON(doc string, issuerEmpty, noES bool) string {
	base := "https://" + doc + ".idp.test"
	m := M{"issuer": issuerURL, "authorization_endpoint": base + "/auth", "token_endpoint": base + "/token", "jwks_uri": issuerURL + "/jwks", "end_session_endpoint": base + "/logout", "revocation_endpoint": base + "/revoke"}
	if noES { // a provider without RP-initiated logout and without revocation
		delete(m, "end_session_endpoint")
		delete(m, "revocation_endpoint")
	}
	if issuerEmpty {
		m = M{"authorization_endpoint": base + "/auth"}
	}
	b, _ := json.Marshal(m)
	return string(b)
}

var _ = http.StatusOK
