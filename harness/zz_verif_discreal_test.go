package traefikoidc_test

// Family "discovery-real" (C20, thorough tier only): the instance uses its own default HTTP client (Config.HTTPClient unset)
// against a provider on a loopback socket, in real time. Exercises what a scripted RoundTripper cannot: answers that send their
// status line and headers and then stall the body, and answers that never send headers. Oracles only (no model steps).

import (
	"encoding/json"
	"net/http"
	"net/http/httptest"
	"strings"
	"sync"
	"sync/atomic"
	"testing"
	"time"

	oidc "github.com/lukaszraczylo/traefikoidc"
)

func familyDiscoveryReal(t *testing.T) {
	realTime = true
	defer guard()
	type tc struct {
		name  string
		fault func(w http.ResponseWriter) // how the FIRST discovery request is answered
	}
	cases := []tc{
		{"status line and headers at once, then the body stalls", func(w http.ResponseWriter) {
			w.Header().Set("Content-Type", "application/json")
			w.WriteHeader(200)
			w.Write([]byte(`{"issuer":`))
			if f, ok := w.(http.Flusher); ok {
				f.Flush()
			}
			time.Sleep(70 * time.Second)
		}},
		{"no answer at all for a long time", func(w http.ResponseWriter) { time.Sleep(70 * time.Second) }},
		{"5xx headers, then a stalled body", func(w http.ResponseWriter) {
			w.WriteHeader(503)
			w.Write([]byte("upstream"))
			if f, ok := w.(http.Flusher); ok {
				f.Flush()
			}
			time.Sleep(70 * time.Second)
		}},
	}
	var wg sync.WaitGroup
	for _, c := range cases {
		wg.Add(1)
		go func(c tc) {
			defer wg.Done()
			var n atomic.Int32
			var srv *httptest.Server
			srv = httptest.NewServer(http.HandlerFunc(func(w http.ResponseWriter, r *http.Request) {
				switch {
				case strings.HasSuffix(r.URL.Path, "/.well-known/openid-configuration"):
					if n.Add(1) == 1 {
						c.fault(w)
						return
					}
					json.NewEncoder(w).Encode(M{"issuer": srv.URL, "authorization_endpoint": srv.URL + "/auth", "token_endpoint": srv.URL + "/token", "jwks_uri": srv.URL + "/jwks"})
				default:
					json.NewEncoder(w).Encode(M{"keys": []interface{}{}})
				}
			}))
			defer srv.CloseClientConnections()
			cfg := oidc.CreateConfig()
			cfg.ProviderURL = srv.URL
			cfg.ClientID, cfg.ClientSecret, cfg.CallbackURL, cfg.SessionEncryptionKey, cfg.LogLevel = "cid", "sec", "/cb", sessKey, "none"
			cfg.RateLimit = 100
			h, err := oidc.New(nil, &down{}, cfg, "verif-real")
			if err != nil {
				T.oracle("C20", "instance could not be built with the default HTTP client", M{"err": err.Error()}, M{"family": "discovery-real", "case": c.name})
				return
			}
			// the provider is healthy for every new connection from the second request on: one attempt costs at most the client's
			// own time limit (15 s) plus a back-off; 40 s is far beyond that
			deadline := time.Now().Add(40 * time.Second)
			served := false
			for time.Now().Before(deadline) && !served {
				rec := httptest.NewRecorder()
				req := httptest.NewRequest("GET", "http://app.test/x", nil)
				done := make(chan struct{})
				go func() { h.ServeHTTP(rec, req); close(done) }()
				select {
				case <-done:
					if rec.Code == 302 && strings.HasPrefix(rec.Header().Get("Location"), srv.URL+"/auth") {
						served = true
					}
				case <-time.After(35 * time.Second):
				}
				if !served {
					time.Sleep(500 * time.Millisecond)
				}
			}
			T.stat("discovery-real.cases")
			if !served {
				T.oracle("C20", "instance does not start serving within a bounded time after one slow discovery answer (default HTTP client, real socket)", M{"case": c.name, "discovery_requests_seen": n.Load(), "bound_s": 40}, M{"family": "discovery-real", "case": c.name})
			}
		}(c)
	}
	wg.Wait()
}
