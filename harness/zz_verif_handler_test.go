package traefikoidc_test

// Family "handler": browsers × instances × a scripted, checking provider, in virtual time (whole seconds).
// Serves C01, C03, C04, C06, C08, C10, C11, C15, C16, C17 (and collects every Set-Cookie line for C18).
// Every request is one step for the Lean driver (`serveJar` on the model's own jar); property oracles are
// evaluated here on the implementation's observable behaviour, from construction labels only.

import (
	"crypto/tls"
	"bufio"
	mrand "math/rand"
	"bytes"
	"crypto/sha256"
	"encoding/base64"
	"encoding/json"
	"fmt"
	"net/http"
	"net/http/httptest"
	"net/url"
	"regexp"
	"sort"
	"strings"
	"text/template"
	"time"

	oidc "github.com/lukaszraczylo/traefikoidc"
)

type hTok struct {
	id       string
	raw      string
	claims   M
	valid    bool
	accFrom  int64 // seconds
	accTo    int64
	exp      int64
	email    string // string-typed e-mail claim ("" if absent / not a string)
	hasEmail bool
	nonceRaw string
	jti      string
	isJWT    bool
	key      *signKey // the provider key it was signed with
}

type tmplCfg struct {
	name string
	text string
	t    *template.Template
}

type issuedCode struct {
	code      string
	challenge string
	redirect  string
	nonce     string
	browser   int
	used      bool
	state     string
}

type initRec struct {
	state, nonce, challenge, redirect string
	step                               int
}

type world struct {
	p        *provider
	cfgMod   func(*oidc.Config)
	insts    []*oidc.TraefikOidc
	downs    []*down
	cur      int
	jars     []jar
	b        int
	sm       *oidc.SessionManager
	step     int
	syms     map[string]string
	toks     map[string]*hTok // raw -> token
	nTok     int
	sc       int
	hist     []M
	pkce     bool
	force    bool
	excluded []string
	domains  []string
	roles    []string
	tmpls    []tmplCfg
	postLogout string
	endSession bool
	actualRefresh *tokenAnswer // the answer the provider actually gave to the refresh grant of the current request
	esQuery    url.Values // parameters the published end-session endpoint carries itself
	esBad      bool       // the published end-session endpoint is not a URL (an unexpanded placeholder): logout cannot redirect there, but it still ends the session
	otherRouter http.Handler // another middleware instance of the same process with templated headers of its own (not part of the model)
	grace    int
	logout   string
	snaps    []jar
	snapBorn []map[string]int64 // per snapshot: cookie name -> birth time of the value held then
	refreshByRT map[string]tokenAnswer // family sched: the provider's answer per refresh token (requests run concurrently)
	maxAgeOf    map[string]int64       // cookie value -> Max-Age (seconds) it was set with: the browser drops it afterwards
	pkceLax          bool   // the provider does not enforce PKCE itself
	lastVerifier     string // code_verifier of the most recent token request
	lastVerifierSeen bool
	// reference bookkeeping (oracles)
	lastInit   map[int]*initRec      // browser -> most recent initiation
	allInits   map[int][]*initRec
	codes      map[string]*issuedCode
	loggedIn   map[int]bool          // browser has completed a login since its last logout/tamper (reference: own history, no tampering)
	tampered   map[int]bool
	loginTok   map[int]*hTok
	loginAt    map[int]int64
	admitted   map[int]string // browser -> id of the token its last completed login callback admitted ("" once a refresh has replaced it)
	emitted    map[string]bool       // every cookie value the deployment ever emitted (name=value)
	allRandoms map[string]string     // random value -> kind (distinctness oracle)
	pendingAnswer *tokenAnswer
	markersSent map[int][]string // values containing markup that this browser has sent in any earlier request (they may be stored in its session)
	rateLimit  int
	answerByCode map[string]tokenAnswer // concurrent batches: the provider's answer per authorization code
	schedInfo  *scheduler
	born       map[string]int64 // "browser/name" -> unix time the cookie value was set (securecookie rejects values older than 30 days)
	rng        *mrand.Rand
	actualExchange *tokenAnswer
	rtOf       map[int]string        // reference: refresh token the browser's own session should hold
	loggedOut  map[int]bool
	jtiSeen    map[string]bool
}

var uuidRe = regexp.MustCompile(`^[0-9a-f]{8}-[0-9a-f]{4}-[0-9a-f]{4}-[0-9a-f]{4}-[0-9a-f]{12}$`)
var lastIssued = map[string]string{} // the state and nonce of the previous login redirect of this process

var rawURIs = []string{"/x", "/a/b?c=d&e=f", "/", "//evil.test/p", "/\\evil.test/p", "/%2Fevil.test", "/.//evil.test", "/x/../../evil.test", "/p?next=http://evil.test/", "/@evil.test", "/deep/path/with/segments?q=1",
	"/./%5Cevil.test/", "/a/../%5Cevil.test/x", "/%09/evil.test/", "/./%2Fevil.test/", "/a/%2E%2E/%2Fevil.test", "/%5C%5Cevil.test", "/x/..%2F..%2F%5Cevil.test",
	// raw backslashes and dot segments: what the redirect helper's path cleaning may turn into a leading "/\" or "//"
	"/./\\evil.test/p", "/x/../\\evil.test", "/a/b/../../\\evil.test/?q=1", "/.//\\evil.test", "/./\\/evil.test", "/x/..\\evil.test", "/..\\..\\evil.test", "/.\\evil.test",
	// scheme-relative with a percent-encoded pseudo-authority (net/url refuses to parse such a host; browsers decode it)
	"//evil%2etest/account", "//%65vil.test/x?y=1", "//evil.test%2f@app.test/", "//evil.test:%38%30/", "/%2f%2fevil.test", "///evil.test/x", "//evil.test%00/",
	// a first path segment that is a (percent-encoded) backslash followed by a host: what a target made absolute against the
	// directory of the request path would begin with
	"/%5Cevil.test/x", "/%5cevil.test/x/y?z=1", "/%5Cevil.test/", "/%2Fevil.test/x/"}

func (w *world) sym(v string) string {
	if v == "" {
		return ""
	}
	if s, ok := w.syms[v]; ok {
		return s
	}
	return "?" + v
}

func (w *world) rec(m M) {
	w.hist = append(w.hist, m)
	T.emit(m)
}

func (w *world) replay() interface{} {
	h := w.hist
	if len(h) > 120 {
		h = append(append([]M{}, h[:30]...), h[len(h)-90:]...)
	}
	return M{"family": "handler", "scenario": w.sc, "seed": T.seed, "steps": h}
}

func s256(v string) string {
	h := sha256.Sum256([]byte(v))
	return base64.RawURLEncoding.EncodeToString(h[:])
}

func newWorld(sc int, rng interface{ Intn(int) int }) *world {
	w := &world{sc: sc, syms: map[string]string{}, toks: map[string]*hTok{}, lastInit: map[int]*initRec{}, allInits: map[int][]*initRec{}, codes: map[string]*issuedCode{},
		loggedIn: map[int]bool{}, tampered: map[int]bool{}, loginTok: map[int]*hTok{}, loginAt: map[int]int64{}, admitted: map[int]string{}, emitted: map[string]bool{}, allRandoms: map[string]string{}, rtOf: map[int]string{}, loggedOut: map[int]bool{}, jtiSeen: map[string]bool{}, born: map[string]int64{}, answerByCode: map[string]tokenAnswer{}, markersSent: map[int][]string{}}
	w.p = newProvider(keys()["p256a"], keys()["rsa2048a"])
	if T.prop == "C15" || T.prop == "C03" { // providers whose discovery document names the authorization endpoint relative to the issuer
		switch sc % 3 {
		case 1:
			w.p.doc = M{"authorization_endpoint": "auth"}
		case 2:
			w.p.doc = M{"authorization_endpoint": "/auth"}
		}
	}
	// discovery documents as providers publish them: optional metadata in legal but unusual combinations, none of which changes what
	// the middleware has to do (PKCE as configured, the endpoints as published)
	if extra := []M{
		nil,
		{"code_challenge_methods_supported": []string{"S256"}, "response_types_supported": []string{"code"}, "subject_types_supported": []string{"public"}, "id_token_signing_alg_values_supported": []string{"RS256", "ES256"}},
		{"code_challenge_methods_supported": []string{"plain"}, "token_endpoint_auth_methods_supported": []string{"client_secret_post"}, "grant_types_supported": []string{"authorization_code"}},
		{"code_challenge_methods_supported": []string{"plain", "S256"}, "scopes_supported": []string{"openid"}, "claims_supported": []string{"sub"}, "response_modes_supported": []string{"form_post"}},
		{"code_challenge_methods_supported": []string{}, "require_pushed_authorization_requests": false, "id_token_signing_alg_values_supported": []string{"none"}, "userinfo_endpoint": issuerURL + "/userinfo",
			"registration_endpoint": issuerURL + "/register", "introspection_endpoint": issuerURL + "/introspect", "frontchannel_logout_supported": true, "backchannel_logout_supported": true,
			"check_session_iframe": issuerURL + "/session.html", "claims_parameter_supported": false, "request_uri_parameter_supported": true},
	}[sc%5]; extra != nil {
		if w.p.doc == nil {
			w.p.doc = M{}
		}
		for k, v := range extra {
			w.p.doc[k] = v
		}
		T.stat("handler.discovery-document.optional-metadata")
	}
	w.pkce = rng.Intn(2) == 0
	w.force = rng.Intn(3) == 0
	w.grace = []int{60, 60, 300, 30}[rng.Intn(4)]
	w.endSession = rng.Intn(4) != 0
	w.p.endSession = w.endSession
	if w.endSession && sc%7 == 5 { // a provider whose document names an end-session endpoint that is not a URL (a placeholder nobody expanded)
		if w.p.doc == nil {
			w.p.doc = M{}
		}
		w.p.doc["end_session_endpoint"] = issuerURL + ":${IDP_PORT}/oidc/logout"
		w.esBad = true
		T.stat("handler.discovery-document.end-session-not-a-url")
	}
	if w.endSession && sc%7 == 3 { // an end-session endpoint that carries parameters of its own (policy, locale), as some providers publish
		if w.p.doc == nil {
			w.p.doc = M{}
		}
		w.esQuery = url.Values{"p": {"b2c_1_signin"}, "ui_locales": {"en de"}}
		w.p.doc["end_session_endpoint"] = issuerURL + "/logout?" + w.esQuery.Encode()
		T.stat("handler.discovery-document.end-session-with-query")
	}
	w.postLogout = []string{"", "/", "/bye", "https://other.test/bye"}[rng.Intn(4)]
	w.excluded = [][]string{nil, {"/public"}, {"/public", "/health"}}[rng.Intn(3)]
	w.domains = [][]string{nil, {"example.com"}, {"example.com", "corp.test"}}[rng.Intn(3)]
	w.roles = [][]string{nil, nil, {"admin"}, {"admin", "dev"}}[rng.Intn(4)]
	if T.prop == "C06" { // lists as a deployment may produce them: blank entries (an unset variable, a trailing comma), alone or among real ones
		switch sc % 12 {
		case 3:
			w.domains = []string{""}
		case 5:
			w.domains = []string{" "}
		case 7:
			w.roles = []string{""}
		case 8:
			w.domains, w.roles = []string{"example.com", ""}, []string{" ", "admin"}
		case 10:
			w.domains, w.roles = nil, []string{" "}
		case 11:
			w.domains, w.roles = []string{"", " "}, []string{"", " "}
		}
	}
	switch rng.Intn(4) {
	case 1:
		w.tmpls = []tmplCfg{{name: "X-Tpl-Email", text: "{{.Claims.email}}"}, {name: "X-Tpl-Fail", text: "{{index .Claims.arr 5}}"}}
	case 2:
		w.tmpls = []tmplCfg{{name: "Authorization", text: "Bearer {{.AccessToken}}"}, {name: "X-Tpl-Sub", text: "{{.Claims.sub}}-{{.Claims.missing}}"}, {name: "X-Tpl-Rt", text: "{{.RefreshToken}}"}}
	case 3: // names as an administrator may write them (not in canonical MIME form), templates that fail for some claim shapes
		w.tmpls = []tmplCfg{{name: "X-Tenant-ID", text: "{{.Claims.org.id}}"}, {name: "x-lower-name", text: "{{index .Claims.arr 5}}"}, {name: "X-USER-Sub", text: "{{.Claims.sub}}"}}
	}
	if T.prop == "C10" && rng.Intn(2) == 0 {
		w.tmpls = []tmplCfg{{name: "X-Tenant-ID", text: "{{.Claims.org.id}}"}, {name: "x-lower-name", text: "{{index .Claims.arr 5}}"}, {name: "X-USER-Sub", text: "{{.Claims.sub}}"}}
		if rng.Intn(3) == 0 { // a template that does not parse, before and between ones that do
			w.tmpls = []tmplCfg{{name: "X-Tpl-Email", text: "{{.Claims.email}}"}, {name: "X-Tpl-Broken", text: "{{if .Claims.admin}}admin{{end}"}, {name: "X-Tenant-ID", text: "{{.Claims.org.id}}"}, {name: "X-Tpl-Sub", text: "{{.Claims.sub}}"}}
		} else if rng.Intn(2) == 0 {
			// templates that fail only after having produced output (for all or for some claim shapes), followed by ones that succeed
			w.tmpls = []tmplCfg{{name: "X-Tpl-Partial", text: "{{.Claims.email}}|{{index .Claims.arr 5}}"}, {name: "X-Tpl-Email", text: "{{.Claims.email}}"},
				{name: "X-Tpl-Group", text: "first={{.Claims.sub}};{{index .Claims.groups 0}}"}, {name: "X-Tpl-Sub", text: "{{.Claims.sub}}"}}
		}
	}
	if T.prop == "C10" && sc%4 == 1 { // a single templated header, and one that yields nothing for most users
		w.tmpls = []tmplCfg{{name: "X-Tenant-ID", text: "{{.Claims.org.id}}"}}
	}
	for i := range w.tmpls {
		// (a template the administrator got wrong does not parse: such a header is never rendered — and, being a configured
		// templated header, a client-supplied value under its name must not reach the downstream handler either)
		w.tmpls[i].t, _ = template.New(w.tmpls[i].name).Parse(w.tmpls[i].text)
	}
	w.logout = "/cb/logout"
	w.rateLimit = 1000000
	if T.prop == "C04" && sc%4 == 2 {
		w.rateLimit = 10 // the minimum a configuration may set: traffic on established sessions must not be subject to it
	}
	w.cfgMod = func(c *oidc.Config) {
		c.RateLimit = w.rateLimit
		c.EnablePKCE = w.pkce
		c.ForceHTTPS = w.force
		c.ExcludedURLs = w.excluded
		c.AllowedUserDomains = w.domains
		c.AllowedRolesAndGroups = w.roles
		c.RefreshGracePeriodSeconds = w.grace
		c.PostLogoutRedirectURI = w.postLogout
		for _, t := range w.tmpls {
			c.Headers = append(c.Headers, oidc.TemplatedHeader{Name: t.name, Value: t.text})
		}
	}
	w.sm, _ = oidc.NewSessionManager(sessKey, w.force, oidc.NewLogger("none"))
	w.addInstance()
	w.jars = []jar{{}}
	ex := append([]string{"/favicon"}, w.excluded...)
	tn := []string{}
	for _, t := range w.tmpls {
		tn = append(tn, http.CanonicalHeaderKey(t.name))
	}
	es := ""
	if w.endSession && !w.esBad { // (with an unusable endpoint the model is told there is none; the logout answer itself is then not compared)
		es = issuerURL + "/logout"
	}
	pl := w.postLogout
	if pl == "" {
		pl = "/"
	}
	w.rec(M{"op": "cfg", "excluded": ex, "callback": "/cb", "logout": w.logout, "grace": w.grace, "maxAge": 86400, "pkce": w.pkce, "allowDomains": orEmpty(w.domains), "allowRoles": orEmpty(w.roles),
		"templates": tn, "endSession": es, "postLogout": pl, "force": w.force, "rateLimit": w.rateLimit})
	w.p.onExchange = w.exchange
	return w
}

func orEmpty(s []string) []string {
	if s == nil {
		return []string{}
	}
	return s
}

func (w *world) addInstance() {
	d := &down{}
	inst := newInstance(w.p, d, w.cfgMod)
	w.insts = append(w.insts, inst)
	w.downs = append(w.downs, d)
	w.cur = len(w.insts) - 1
	w.rec(M{"op": "inst", "i": w.cur})
}

// otherRouterServes: a second router of the same process - same provider and session key, templated headers of its own (another
// name, as many as this one has) - forwards one request of the current browser. It is not part of the model: what it does must
// not matter to the instance under test. (Only used while the session's token is far from expiry: no refresh is triggered.)
func (w *world) otherRouterServes() {
	if w.otherRouter == nil {
		w.otherRouter = newInstance(w.p, &down{}, func(c *oidc.Config) {
			w.cfgMod(c)
			c.Headers = nil
			for i := range w.tmpls {
				c.Headers = append(c.Headers, oidc.TemplatedHeader{Name: fmt.Sprintf("X-Other-Router-%d", i), Value: "{{.Claims.sub}}"})
			}
		})
	}
	req := httptest.NewRequest("GET", "http://app.test/other-router", nil)
	w.jars[w.b].addTo(req)
	w.otherRouter.ServeHTTP(httptest.NewRecorder(), req)
	T.stat("handler.other-router-requests")
}

// the checking provider: a code is honoured once, with the redirect_uri and (PKCE) the verifier of its authorization request
func (w *world) exchange(form url.Values) tokenAnswer {
	a := w.exchange1(form)
	w.actualExchange = &a
	return a
}

func (w *world) exchange1(form url.Values) tokenAnswer {
	c := w.codes[form.Get("code")]
	if c == nil || c.used || (c.redirect != "" && form.Get("redirect_uri") != c.redirect) { // redirect "": a direct code whose sender registered whatever URI the deployment will present
		// providers refuse a bad code with 400 (RFC 6749), some with 401 or 403: all are the client's fault
		return tokenAnswer{kind: []string{"4xx", "4xx", "invalid_client", "forbidden"}[w.sc%4], desc: "bad code"}
	}
	w.lastVerifier, w.lastVerifierSeen = form.Get("code_verifier"), true
	if !w.pkceLax && c.challenge != "" && s256(form.Get("code_verifier")) != c.challenge { // (a lax provider accepts a challenge at /auth and never asks for the verifier)
		return tokenAnswer{kind: "4xx", desc: "pkce"}
	}
	c.used = true
	if a, ok := w.answerByCode[c.code]; ok {
		return a
	}
	pending := w.pendingAnswer
	if pending != nil {
		return *pending
	}
	return tokenAnswer{kind: "neterr"}
}

// mint a JWT and register it with the model
func (w *world) mint(claimsMod func(M), expIn time.Duration, valid bool, blob int, rng interface{ Intn(int) int }) *hTok {
	w.nTok++
	now := time.Now()
	t := &hTok{id: fmt.Sprintf("T%d_%d", w.sc, w.nTok), valid: valid, isJWT: true}
	cl := stdClaims(now, expIn)
	cl["uniq"] = t.id
	if claimsMod != nil {
		claimsMod(cl)
	}
	if blob > 0 {
		b := make([]byte, blob)
		for i := range b {
			b[i] = "abcdefghijklmnopqrstuvwxyzABCDEFGHIJKLMNOPQRSTUVWXYZ0123456789"[rng.Intn(62)]
		}
		cl["blob"] = string(b)
	}
	k := w.p.keys[rng.Intn(len(w.p.keys))]
	t.key = k
	t.raw = stdToken(k, cl)
	if tail, ok := cl["__tail"].([][2]interface{}); ok { // (written after the sorted members; claims like any other to a decoder)
		delete(cl, "__tail")
		for _, p := range tail {
			cl[p[0].(string)] = p[1]
		}
	}
	t.claims = cl
	if !valid {
		parts := strings.Split(t.raw, ".")
		sig, _ := b64.DecodeString(parts[2])
		sig[3] ^= 0x40
		t.raw = parts[0] + "." + parts[1] + "." + b64.EncodeToString(sig)
	}
	t.exp = asInt(cl["exp"])
	t.accFrom = asInt(cl["iat"]) - 10
	if nb, ok := cl["nbf"]; ok {
		if v := asInt(nb) - 10; v > t.accFrom {
			t.accFrom = v
		}
	}
	t.accTo = t.exp + 120
	t.email, t.hasEmail = cl["email"].(string)
	t.nonceRaw, _ = cl["nonce"].(string)
	t.jti, _ = cl["jti"].(string)
	w.toks[t.raw] = t
	w.register(t)
	return t
}

func asInt(v interface{}) int64 {
	switch x := v.(type) {
	case int64:
		return x
	case int:
		return int64(x)
	case float64:
		return int64(x)
	}
	return 0
}

func claimShape(v interface{}, present bool) interface{} {
	if !present {
		return nil
	}
	switch x := v.(type) {
	case []interface{}:
		out := []interface{}{}
		for _, it := range x {
			if s, ok := it.(string); ok {
				out = append(out, s)
			} else {
				out = append(out, M{"nonstr": true})
			}
		}
		return M{"arr": out}
	case []string:
		out := []interface{}{}
		for _, s := range x {
			out = append(out, s)
		}
		return M{"arr": out}
	}
	return M{"other": true}
}

func (w *world) register(t *hTok) {
	m := M{"op": "tok", "id": t.id, "parses": t.isJWT, "valid": t.valid, "accFrom": t.accFrom, "accTo": t.accTo, "exp": t.exp, "clen": compressedLen(t.raw)}
	if t.isJWT {
		// claims as the implementation will see them (after a JSON round trip)
		var seen map[string]interface{}
		cb, _ := json.Marshal(t.claims)
		json.Unmarshal(cb, &seen)
		if t.hasEmail {
			m["email"] = t.email
		}
		if n, ok := seen["nonce"].(string); ok {
			m["nonce"] = w.sym(n)
		}
		if t.jti != "" {
			m["jti"] = t.jti
		}
		g, okg := seen["groups"]
		m["groups"] = claimShape(g, okg)
		r, okr := seen["roles"]
		m["roles"] = claimShape(r, okr)
	}
	w.rec(m)
}

// templates are executed by the harness with text/template directly (the model's `exec` table)
func (w *world) execTable(t *hTok, refresh string) []interface{} {
	out := []interface{}{}
	if t == nil || !t.isJWT {
		return out
	}
	var seen map[string]interface{}
	cb, _ := json.Marshal(t.claims)
	json.Unmarshal(cb, &seen)
	data := struct {
		AccessToken, IdToken, RefreshToken string
		Claims                             map[string]interface{}
	}{t.raw, t.raw, refresh, seen}
	for _, tc := range w.tmpls {
		var buf bytes.Buffer
		if tc.t == nil {
			out = append(out, nil)
		} else if err := tc.t.Execute(&buf, data); err != nil {
			out = append(out, nil)
		} else {
			out = append(out, w.render(buf.String()))
		}
	}
	return out
}

// render replaces raw token strings by their ids (header values may embed tokens)
func (w *world) render(s string) string {
	for raw, t := range w.toks {
		if strings.Contains(s, raw) {
			s = strings.Replace(s, raw, t.id, -1)
		}
	}
	return s
}

func (w *world) regOpaque(s string) string { // refresh tokens and other non-JWT strings stored in the session
	if s == "" {
		return ""
	}
	if _, ok := w.toks[s]; !ok {
		w.nTok++
		id := fmt.Sprintf("O%d_%d", w.sc, w.nTok) // short identifier: the model's stand-in for the compressed text must fit the measured length
		t := &hTok{id: id, raw: s}
		w.toks[s] = t
		w.rec(M{"op": "tok", "id": id, "parses": false, "valid": false, "accFrom": 0, "accTo": 0, "exp": 0, "clen": compressedLen(s)})
	}
	return s
}

type reqSpec struct {
	method    string
	rawURI    string // as sent on the request line
	accept    string
	origin    string
	xfProto   string
	tls       bool // the request arrived on a TLS connection terminated by this server (no proxy in front)
	xfHost    string
	hdrs      [][2]string // extra client headers (identity header spoofing etc.)
	exchange  *tokenAnswer
	refresh   *tokenAnswer
	note      string
	withhold  bool // the browser holds cookies but does not attach them to this request (Secure cookies on a plain-http request, SameSite on a cross-site one); it still takes over the Set-Cookie lines of the answer
}

var pRe = regexp.MustCompile(`(?s)<p>(.*?)</p>`)

func (w *world) tokID(raw string) string {
	if raw == "" {
		return ""
	}
	if t, ok := w.toks[raw]; ok {
		return t.id
	}
	return "?"
}

func (w *world) viewOf(j jar) (res M) {
	defer func() {
		if pv := recover(); pv != nil {
			T.oracle("C17", "handler panicked", M{"panic": trunc(fmt.Sprint(pv), 300), "where": "GetSession on the browser's jar"}, w.replay())
			res = M{"error": "panic"}
		}
	}()
	r2 := httptest.NewRequest("GET", "http://app.test/", nil)
	j.addTo(r2)
	sd, err := w.sm.GetSession(r2)
	if err != nil {
		return M{"error": "session-error"}
	}
	if v := sd.GetCodeVerifier(); v != "" {
		if _, ok := w.syms[v]; !ok {
			w.syms[v] = fmt.Sprintf("r%d.2", w.step)
			w.noteRandom(v, "verifier")
		}
	}
	cnt := func(base string) int {
		n := 0
		for {
			if _, ok := j[fmt.Sprintf("%s_%d", base, n)]; !ok {
				return n
			}
			n++
		}
	}
	return M{"auth": sd.GetAuthenticated(), "email": sd.GetEmail(), "csrf": w.sym(sd.GetCSRF()), "nonce": w.sym(sd.GetNonce()), "ver": w.sym(sd.GetCodeVerifier()),
		"inc": sd.GetIncomingPath(), "a": w.tokID(sd.GetAccessToken()), "r": w.tokID(sd.GetRefreshToken()), "ac": cnt("_oidc_raczylo_a"), "rc": cnt("_oidc_raczylo_r")}
}

func (w *world) noteRandom(v, kind string) {
	if k, dup := w.allRandoms[v]; dup && k != "seen-"+kind {
		// the same value under two roles or twice: checked by the caller for initiations
	}
	w.allRandoms[v] = kind
}


// prep builds the request of the current browser as Go's HTTP server would deliver it
func (w *world) prep(rs *reqSpec) (*http.Request, [][]string) {
	if rs.method == "" {
		rs.method = "GET"
	}
	j := w.jars[w.b]
	// browser semantics: a cookie is dropped once the Max-Age it was set with has run out (the model is told; the session
	// bookkeeping of the oracles is NOT: a session the deployment promised for 24 hours is still expected to work)
	for n, v := range j {
		k := fmt.Sprintf("%d/%s", w.b, n)
		if ma, ok := w.maxAgeOf[v]; ok && ma > 0 {
			if born, ok := w.born[k]; ok && born >= 0 && time.Now().Unix()-born > ma {
				if sn := shortName(n); sn != "" {
					delete(j, n)
					w.rec(M{"op": "jar", "edit": "drop", "name": sn})
					T.stat("handler.cookies-expired-in-browser")
				}
			}
		}
	}
	// cookies older than securecookie's 30-day limit are undecodable: tell the model (abstraction of the timestamp check)
	for n := range j {
		k := fmt.Sprintf("%d/%s", w.b, n)
		if born, ok := w.born[k]; ok && born >= 0 && time.Now().Unix()-born > 30*86400 {
			if sn := shortName(n); sn != "" {
				w.rec(M{"op": "jar", "edit": "bad", "name": sn})
				w.born[k] = -1
				w.tampered[w.b] = true
			}
		}
	}
	// the request as Go's HTTP server would deliver it: only request lines the server accepts are used
	r, err := http.ReadRequest(bufio.NewReader(strings.NewReader(rs.method + " " + rs.rawURI + " HTTP/1.1\r\nHost: app.test\r\n\r\n")))
	if err != nil {
		T.stat("handler.unparsable-target")
		return nil, nil
	}
	r.RemoteAddr = "192.0.2.1:1234"
	if rs.tls {
		r.TLS = &tls.ConnectionState{Version: tls.VersionTLS13, HandshakeComplete: true}
	}
	if rs.accept != "" {
		r.Header.Set("Accept", rs.accept)
	}
	if rs.origin != "" {
		r.Header.Set("Origin", rs.origin)
	}
	if rs.xfProto != "" {
		r.Header.Set("X-Forwarded-Proto", rs.xfProto)
	}
	if rs.xfHost != "" {
		r.Header.Set("X-Forwarded-Host", rs.xfHost)
	}
	var clientHdrs [][]string
	for _, h := range rs.hdrs {
		r.Header[h[0]] = append(r.Header[h[0]], h[1]) // raw key: exercises non-canonical spellings
	}
	// what the model sees of the client's headers: canonical names, in a canonical order
	{
		names := []string{}
		for k := range r.Header {
			names = append(names, k)
		}
		sort.Strings(names)
		for _, k := range names {
			ck := http.CanonicalHeaderKey(k)
			for _, v := range r.Header[k] {
				if ck == "Cookie" {
					continue
				}
				clientHdrs = append(clientHdrs, []string{ck, v})
			}
		}
	}
	if !rs.withhold {
		if (T.prop == "C07" || T.prop == "C17" || T.prop == "C04" || T.prop == "C18") && w.step%5 == 2 {
			j.addToLines(r, 1+w.step/5%3) // the cookies arrive in several Cookie header lines
			T.stat("handler.requests-with-several-cookie-lines")
		} else {
			j.addTo(r)
		}
	}
	if (T.prop == "C18" || T.prop == "C17" || T.prop == "C07") && w.step%4 == 1 {
		// cookies the middleware never set under names that look like its chunk cookies (not part of the model: they are not
		// session content); every line of the answer still has to meet the limits
		for _, n := range [][]string{{"_oidc_raczylo_a_" + strings.Repeat("0", 4200)}, {"_oidc_raczylo_r_+7", "_oidc_raczylo_a_007"}, {"_oidc_raczylo_r_" + strings.Repeat("0", 3000) + "1", "_oidc_raczylo_a_-0"},
			{"_oidc_raczylo_a_99999999999999999999999", "_oidc_raczylo_m_0", "_oidc_raczylo_a_1e3"}}[w.step/4%4] {
			r.Header.Add("Cookie", n+"=x") // (a line of its own: AddCookie would fold everything into the first line)
		}
		T.stat("handler.requests-with-lookalike-cookies")
	}
	return r, clientHdrs
}

func (w *world) do(rs reqSpec) M {
	if (T.prop == "C18" || T.prop == "C07") && w.step%3 == 2 {
		// what a path-stripping reverse proxy adds: the cookie attributes stay the fixed ones
		rs.hdrs = append(rs.hdrs, [2]string{"X-Forwarded-Prefix", "/internal/tools/grafana"}, [2]string{"X-Forwarded-Uri", "/internal/tools/grafana" + rs.rawURI})
		T.stat("handler.requests-with-proxy-prefix")
	}
	r, clientHdrs := w.prep(&rs)
	if r == nil {
		return nil
	}
	inst, d := w.insts[w.cur], w.downs[w.cur]
	w.pendingAnswer = rs.exchange
	w.actualExchange = nil
	w.actualRefresh = nil
	w.p.onRefresh = func(form url.Values) tokenAnswer {
		a := tokenAnswer{kind: "neterr"}
		if rs.refresh != nil {
			a = *rs.refresh
		}
		// a conformant provider grants a refresh only for a refresh token it has issued
		if a.kind == "ok" && !w.p.issued(form.Get("refresh_token")) {
			a = tokenAnswer{kind: "invalid_grant", desc: "refresh token was not issued by this provider"}
			T.stat("handler.refresh.unknown-token-refused")
		}
		w.actualRefresh = &a
		return a
	}
	w.p.takeCalls()
	before := d.calls
	rec := httptest.NewRecorder()
	panicked := ""
	func() {
		defer func() {
			if pv := recover(); pv != nil {
				panicked = fmt.Sprint(pv)
			}
		}()
		inst.ServeHTTP(rec, r)
	}()
	calls := w.p.takeCalls()
	return w.observe(rs, r, clientHdrs, rec, panicked, calls, d.calls-before, d.hdrs, w.actualExchange)
}

// observe turns one served request into a step for the model (canonical observation) and evaluates the oracles
func (w *world) observe(rs reqSpec, r *http.Request, clientHdrs [][]string, rec *httptest.ResponseRecorder, panicked string, calls []M, downCalls int, downHdrs http.Header, actualExchange *tokenAnswer) M {
	j := w.jars[w.b]
	d := &down{hdrs: downHdrs}
	if d.hdrs == nil {
		d.hdrs = http.Header{}
	}
	setCookies := rec.Header()["Set-Cookie"]
	for _, line := range setCookies {
		w.checkCookieLine(line, rs)
		if i := strings.IndexByte(line, ';'); i > 0 {
			w.emitted[line[:i]] = true
		}
	}
	j.apply(rec.Header())
	{
		resp := http.Response{Header: rec.Header()}
		for _, c := range resp.Cookies() {
			w.born[fmt.Sprintf("%d/%s", w.b, c.Name)] = time.Now().Unix()
			if c.MaxAge > 0 {
				if w.maxAgeOf == nil {
					w.maxAgeOf = map[string]int64{}
				}
				w.maxAgeOf[c.Value] = int64(c.MaxAge)
			}
		}
	}

	// ------------------------------------------------------------------ canonical observation
	path, query := r.URL.Path, r.URL.Query()
	isExcludedPath := false
	for _, e := range append([]string{"/favicon"}, w.excluded...) {
		if strings.HasPrefix(path, e) {
			isExcludedPath = true
		}
	}
	obs := M{}
	loc := rec.Header().Get("Location")
	forwarded := downCalls > 0
	obs["down"] = downCalls
	ct := rec.Header().Get("Content-Type")
	body := rec.Body.String()
	switch {
	case panicked != "":
		obs["class"] = "panic"
	case forwarded && isExcludedPath:
		obs["class"] = "passthrough"
	case forwarded:
		obs["class"] = "forward"
		// identity headers as seen downstream
		names := []string{"X-Forwarded-User", "X-Auth-Request-User", "X-Auth-Request-Token", "X-User-Groups", "X-User-Roles"}
		for _, t := range w.tmpls {
			names = append(names, http.CanonicalHeaderKey(t.name))
		}
		hd := []string{}
		for _, n := range names {
			for _, v := range d.hdrs[n] {
				hd = append(hd, n+"="+w.render(v))
			}
		}
		sort.Strings(hd)
		obs["hdrs"] = hd
	case rec.Code == 302 && strings.HasPrefix(loc, issuerURL+"/auth"):
		lu, _ := url.Parse(loc)
		q := lu.Query()
		st, no := q.Get("state"), q.Get("nonce")
		w.syms[st] = fmt.Sprintf("r%d.0", w.step)
		w.syms[no] = fmt.Sprintf("r%d.1", w.step)
		obs["class"] = "redirectAuth"
		obs["loc"] = M{"state": w.sym(st), "nonce": w.sym(no), "pkce": q.Get("code_challenge") != "", "ru": q.Get("redirect_uri")}
		// reference bookkeeping: this is the browser's most recent initiation
		ir := &initRec{state: st, nonce: no, challenge: q.Get("code_challenge"), redirect: q.Get("redirect_uri"), step: w.step}
		w.lastInit[w.b] = ir
		w.allInits[w.b] = append(w.allInits[w.b], ir)
		// ---- C04: a request to the callback path (a reload or back-button visit of the used callback URL, a stale or foreign
		// callback) never ends an established session
		if tok := w.loginTok[w.b]; path == "/cb" && w.loggedIn[w.b] && !w.tampered[w.b] && tok != nil && tok.valid {
			if now := time.Now().Unix(); now-w.loginAt[w.b] <= 86400 && tok.accFrom <= now && tok.exp-now > int64(w.grace) && w.refDomainOK(tok.email) && (len(w.roles) == 0 || w.refRolesOK(tok)) {
				T.oracle("C04", "an established session was ended (cookies replaced by a login redirect) by a request to the callback path", M{"note": rs.note, "token": tok.id}, w.replay())
			}
		}
		w.loggedIn[w.b], w.rtOf[w.b] = false, "" // the session was cleared for a new login
		for _, pair := range [][2]string{{st, "state"}, {no, "nonce"}} {
			if _, dup := w.allRandoms[pair[0]]; dup {
				T.oracle("C03", "a state or nonce value was issued twice", M{"kind": pair[1]}, w.replay())
			}
			w.allRandoms[pair[0]] = pair[1]
		}
		// unpredictable: two states (or nonces) of one deployment share no more hexadecimal / base64 digits than chance allows, and a
		// UUID-shaped state is a version-4 (random) UUID
		if uuidRe.MatchString(st) && st[14] != '4' {
			T.oracle("C03", "the state is a UUID that is not of the random version (4)", M{"version_digit": string(st[14])}, w.replay())
		}
		if prev := lastIssued["state"]; prev != "" && len(prev) == len(st) {
			same := 0
			for i := range st {
				if st[i] == prev[i] && st[i] != '-' {
					same++
				}
			}
			if same >= 16 {
				T.oracle("C03", "two states issued by the deployment share most of their digits (predictable)", M{"equal_positions": same, "of": len(st)}, w.replay())
			}
		}
		if prev := lastIssued["nonce"]; prev != "" && len(prev) == len(no) {
			same := 0
			for i := range no {
				if no[i] == prev[i] {
					same++
				}
			}
			if same >= 16 {
				T.oracle("C03", "two nonces issued by the deployment share most of their characters (predictable)", M{"equal_positions": same, "of": len(no)}, w.replay())
			}
		}
		lastIssued["state"], lastIssued["nonce"] = st, no
		if len(st) < 32 || len(no) < 32 {
			T.oracle("C03", "state or nonce shorter than 32 characters", M{"state": len(st), "nonce": len(no)}, w.replay())
		}
		if w.pkce && q.Get("code_challenge") == "" {
			T.oracle("C03", "PKCE is enabled but the login initiation carries no code challenge: the login it starts is not bound to a verifier", M{"location": trunc(loc, 300), "discovery_document_extras": fmt.Sprint(w.p.doc)}, w.replay())
		}
		if q.Get("code_challenge") != "" && q.Get("code_challenge_method") != "S256" {
			T.oracle("C03", "code challenge sent without S256 method", nil, w.replay())
		}
	case rec.Code == 302 && w.endSession && strings.HasPrefix(loc, issuerURL+"/logout"):
		lu, _ := url.Parse(loc)
		obs["class"] = "redirectEndSession"
		if lu.Path != "/logout" {
			T.oracle("C11", "logout redirect does not go to the provider's end-session endpoint (path changed)", M{"location": trunc(loc, 200)}, w.replay())
		}
		for k, vs := range w.esQuery {
			if got := lu.Query()[k]; len(got) != 1 || got[0] != vs[0] {
				T.oracle("C11", "logout redirect does not go to the provider's end-session endpoint: a parameter the published endpoint carries is missing or changed", M{"parameter": k, "published": vs[0], "location_has": got, "location": trunc(loc, 300)}, w.replay())
			}
		}
		obs["loc"] = M{"hint": w.tokID(lu.Query().Get("id_token_hint")), "post": lu.Query().Get("post_logout_redirect_uri")}
	case rec.Code == 302 && path == w.logout:
		obs["class"] = "redirectPostLogout"
		obs["loc"] = M{"uri": loc}
	case rec.Code == 302:
		obs["class"] = "redirectLocal"
		obs["loc"] = M{"target": loc}
	case rec.Code == 200 && rs.method == "OPTIONS" && rs.origin != "" && body == "":
		obs["class"] = "preflightOK"
	default:
		obs["class"] = "status"
		obs["code"] = rec.Code
		kind := "plain"
		if strings.HasPrefix(ct, "text/html") {
			kind = "html"
		} else if strings.HasPrefix(ct, "application/json") {
			kind = "json"
		}
		obs["body"] = kind
		if path == "/cb" && query.Get("error") != "" {
			if kind == "html" {
				obs["msg"] = "(no message paragraph found in the HTML body)"
				if m := pRe.FindStringSubmatch(body); m != nil {
					obs["msg"] = m[1]
				}
			} else if kind == "json" {
				obs["msg"] = "(body is not a JSON object)"
				var jb map[string]interface{}
				if json.Unmarshal([]byte(body), &jb) == nil {
					obs["msg"], _ = jb["error_description"].(string)
				}
			}
		}
	}
	// provider calls
	cs := []string{}
	for _, c := range calls {
		if c["kind"] == "refresh" {
			cs = append(cs, fmt.Sprintf("refresh(%s)", w.tokID(c["rt"].(string))))
		} else {
			cs = append(cs, fmt.Sprintf("exchange(code=%s,ver=?,ru=%s)", c["code"], c["redirect_uri"]))
		}
	}
	view := w.viewOf(j)
	for i, c := range calls { // verifier symbols may only be known after the jar was read
		if c["kind"] != "refresh" {
			cs[i] = fmt.Sprintf("exchange(code=%s,ver=%s,ru=%s)", c["code"], w.sym(c["verifier"].(string)), c["redirect_uri"])
		}
	}
	obs["calls"] = cs
	obs["jar"] = view

	// ------------------------------------------------------------------ the step for the model
	scheme := "http"
	if rs.tls {
		scheme = "https"
	}
	if rs.xfProto != "" {
		scheme = rs.xfProto
	}
	host := "app.test"
	if rs.xfHost != "" {
		host = rs.xfHost
	}
	actualRefresh := rs.refresh
	if w.actualRefresh != nil {
		actualRefresh = w.actualRefresh
	}
	exA, rfA := ansJSON(w, actualExchange, calls, "exchange"), ansJSON(w, actualRefresh, calls, "refresh")
	var execT interface{}
	{ // template results for the tokens that can be forwarded at this step: the stored one and a refreshed one
		tab := M{}
		cand := []*hTok{}
		if rs.refresh != nil && rs.refresh.kind == "ok" {
			cand = append(cand, w.toks[rs.refresh.idToken])
		}
		for _, t := range w.toks {
			if t.isJWT {
				cand = append(cand, t)
			}
		}
		rtNow, _ := view["r"].(string)
		for _, t := range cand {
			if t != nil && len(w.tmpls) > 0 {
				tab[t.id] = w.execTable(t, rtNow)
			}
		}
		execT = tab
	}
	stepM := M{"op": "req", "now": time.Now().Unix(), "method": rs.method, "path": path, "rawURI": r.URL.RequestURI(), "line": rs.rawURI, "json": strings.Contains(rs.accept, "application/json"),
		"preflight": rs.method == "OPTIONS" && rs.origin != "", "base": scheme + "://" + host, "host": r.Host, "tls": r.TLS != nil, "qError": query.Get("error"), "qErrDesc": query.Get("error_description"),
		"qState": w.sym(query.Get("state")), "qCode": query.Get("code"), "hdrs": clientHdrs, "exchange": exA, "refresh": rfA, "exec": execT, "note": rs.note, "b": w.b, "i": w.cur, "obs": obs}
	if rs.withhold {
		stepM["withheld"] = true
	}
	if w.esBad && path == w.logout && rec.Code == 500 {
		// the answer to a logout that cannot build its redirect: only what it does to the session is compared
		for _, k := range []string{"class", "code", "loc", "body", "msg"} {
			delete(obs, k)
		}
		obs["logout500"] = true
	}
	w.rec(stepM)
	T.stat("handler.class." + fmt.Sprint(obs["class"]))
	w.oracles(rs, path, query, obs, rec, d, forwarded, calls, panicked, setCookies, body, ct)
	w.step++
	return obs
}

func ansJSON(w *world, a *tokenAnswer, calls []M, kind string) interface{} {
	if a == nil {
		return nil
	}
	m := M{"kind": a.kind}
	if a.kind == "ok" {
		m["id"] = w.tokID(a.idToken)
		m["rt"] = w.tokID(w.regOpaque(a.refresh))
	}
	if a.kind == "invalid_grant" || (a.kind == "4xx" && strings.Contains(a.desc, "token expired")) {
		m["kind"] = "invalid_grant"
	}
	return m
}

// ---------------------------------------------------------------------------------------------------- oracles

func (w *world) checkCookieLine(line string, rs reqSpec) {
	// C18: every Set-Cookie line, in every flow
	T.stat("handler.set-cookie-lines")
	name := line
	if i := strings.IndexByte(line, '='); i >= 0 {
		name = line[:i]
	}
	fail := func(sig string) {
		T.oracle("C18", sig, M{"line_prefix": trunc(line, 120), "len": len(line)}, w.replay())
	}
	if !strings.HasPrefix(name, "_oidc_raczylo_") {
		fail("Set-Cookie without the _oidc_raczylo_ name prefix")
	}
	if len(line) > 4096 {
		fail("Set-Cookie line longer than 4096 bytes")
	}
	attrs := map[string]string{}
	for _, a := range strings.Split(line, ";")[1:] {
		a = strings.TrimSpace(a)
		k, v := a, ""
		if i := strings.IndexByte(a, '='); i >= 0 {
			k, v = a[:i], a[i+1:]
		}
		attrs[strings.ToLower(k)] = v
	}
	if attrs["path"] != "/" {
		fail("Set-Cookie without Path=/")
	}
	if _, ok := attrs["httponly"]; !ok {
		fail("Set-Cookie without HttpOnly")
	}
	if !strings.EqualFold(attrs["samesite"], "Lax") {
		fail("Set-Cookie without SameSite=Lax")
	}
	if _, ok := attrs["secure"]; !ok && w.force {
		fail("Set-Cookie without Secure although forceHTTPS is enabled")
	}
	if ma, ok := attrs["max-age"]; ok {
		var n int
		fmt.Sscanf(ma, "%d", &n)
		if n > 86400 {
			fail("cookie lifetime above 24 hours")
		}
	} else if _, ok := attrs["expires"]; !ok {
		// a session cookie (no lifetime) is fine
	}
	if _, ok := attrs["domain"]; ok {
		fail("Set-Cookie with a Domain attribute")
	}
	// C09: what the value discloses without the key (every flow: initiation, callback, refresh, logout, recovery)
	if T.prop == "C09" || T.prop == "C18" || w.step%7 == 0 {
		val := line[len(name)+1:]
		if i := strings.IndexByte(val, ';'); i >= 0 {
			val = val[:i]
		}
		if val != "" {
			secrets := []string{"user@example.com", "admin@corp.test"}
			for v := range w.syms {
				secrets = append(secrets, v)
			}
			for raw := range w.toks {
				secrets = append(secrets, raw)
			}
			keylessCheck("C09", name, val, secrets, w.replay)
		}
	}
}

func trunc(s string, n int) string {
	if len(s) > n {
		return s[:n] + "…"
	}
	return s
}

var tagRe = regexp.MustCompile(`(?s)<[^>]*>`)
var safeAnchorRe = regexp.MustCompile(`^<a href="[^"<>]*">$`)

func (w *world) oracles(rs reqSpec, path string, query url.Values, obs M, rec *httptest.ResponseRecorder, d *down, forwarded bool, calls []M, panicked string, setCookies []string, body, ct string) {
	j := w.jars[w.b]
	isExcluded := false
	for _, e := range append([]string{"/favicon"}, w.excluded...) {
		if strings.HasPrefix(path, e) {
			isExcluded = true
		}
	}
	// ---- C17 / C05: no panic, no 5xx from client-controlled input while the provider is healthy
	if panicked != "" {
		T.oracle("C17", "handler panicked", M{"panic": trunc(panicked, 300), "note": rs.note}, w.replay())
	}
	if rec.Code >= 500 && panicked == "" {
		providerFault := w.esBad && path == w.logout // (the provider publishes an end-session endpoint that is not a URL)
		for _, a := range []*tokenAnswer{rs.exchange, rs.refresh} {
			if a != nil && (a.kind == "500" || a.kind == "neterr" || a.kind == "malformed" || a.kind == "noidtoken" || a.kind == "invalid_client") {
				providerFault = true
			}
			if a != nil && a.kind == "ok" {
				if t := w.toks[a.idToken]; t == nil || !t.valid || !t.hasEmail || t.email == "" || t.nonceRaw == "" || !(t.accFrom <= time.Now().Unix() && time.Now().Unix() <= t.accTo) {
					providerFault = true // a non-conformant answer: badly signed / no e-mail / no nonce / not in time
				}
			}
		}
		if rs.exchange == nil && path == "/cb" && len(calls) > 0 {
			providerFault = true // the scripted provider had no answer prepared (transport error)
		}
		if !providerFault {
			sig := fmt.Sprintf("5xx status=%d", rec.Code)
			if path == "/cb" && strings.Contains(body, "Nonce mismatch") {
				sig = "callback nonce-mismatch status=500"
			} else if path == "/cb" && len(calls) > 0 && rs.exchange != nil && rs.exchange.kind == "ok" {
				if t := w.toks[rs.exchange.idToken]; t != nil && t.jti != "" {
					sig = "callback jti-replay status=500" // the same ID token presented to one instance twice: refused as replay (conformant providers never do this)
					_ = sig
					providerFault = true
				}
			}
			if !providerFault {
				T.oracle("C17", sig, M{"path": path, "note": rs.note, "body": trunc(body, 200)}, w.replay())
			}
		}
	}
	// ---- C01: forwarded and not excluded => reference-valid session
	if forwarded && !isExcluded {
		ok, why := w.referenceSessionValid(j, rs)
		if path == "/cb" || path == w.logout {
			ok, why = false, "callback/logout path forwarded"
		}
		if !ok {
			T.oracle("C01", "request forwarded downstream without a valid session: "+why, M{"path": path, "method": rs.method, "accept": rs.accept, "note": rs.note}, w.replay())
		}
	}
	if forwarded && isExcluded {
		T.stat("handler.excluded-passthrough")
		if len(setCookies) > 0 {
			T.oracle("C01", "excluded request not passed through unchanged (Set-Cookie emitted)", M{"path": path}, w.replay())
		}
	}
	// ---- C06: forwarded (not excluded) => domain and role gates on the e-mail / token of this step
	if forwarded && !isExcluded {
		email := d.hdrs.Get("X-Forwarded-User")
		if len(w.domains) > 0 {
			if !regexp.MustCompile(`^[^@]*@[^@]*$`).MatchString(email) || !inList(w.domains, email[strings.IndexByte(email, '@')+1:]) {
				T.oracle("C06", "request forwarded although the e-mail domain is not allowed", M{"email": email, "domains": w.domains}, w.replay())
			}
		}
		if tok := w.toks[d.hdrs.Get("X-Auth-Request-Token")]; !w.tampered[w.b] && tok != nil && tok.isJWT {
			if !tok.hasEmail || tok.email == "" || tok.email != email {
				T.oracle("C06", "request forwarded with an e-mail that is not the e-mail claim of the verified ID token (missing, empty or wrongly typed claim did not fail closed)", M{"forwarded_as": email, "token_email": tok.email, "token_has_string_email": tok.hasEmail, "note": rs.note}, w.replay())
			}
		}
		if len(w.roles) > 0 {
			tok := w.toks[d.hdrs.Get("X-Auth-Request-Token")]
			if !w.refRolesOK(tok) {
				T.oracle("C06", "request forwarded although the token carries no allowed role or group", M{"roles": w.roles, "note": rs.note}, w.replay())
			}
		}
	}
	// ---- C10: identity headers downstream are derived or absent
	if forwarded && !isExcluded {
		tok := w.toks[d.hdrs.Get("X-Auth-Request-Token")]
		email := d.hdrs.Get("X-Forwarded-User")
		exp := map[string]string{"X-Forwarded-User": email, "X-Auth-Request-User": email}
		if tok != nil {
			exp["X-Auth-Request-Token"] = tok.raw
			g, r := refGroups(tok, "groups"), refGroups(tok, "roles")
			if g != nil && r != nil {
				if len(g) > 0 {
					exp["X-User-Groups"] = strings.Join(g, ",")
				}
				if len(r) > 0 {
					exp["X-User-Roles"] = strings.Join(r, ",")
				}
			}
			view := w.viewOf(j)
			_ = view
		}
		for _, n := range []string{"X-Forwarded-User", "X-Auth-Request-User", "X-Auth-Request-Token", "X-User-Groups", "X-User-Roles"} {
			vals := d.hdrs[n]
			if len(vals) > 1 || (len(vals) == 1 && vals[0] != exp[n]) {
				T.oracle("C10", "identity header seen downstream is neither derived from the session nor absent: "+n, M{"values": truncAll(vals), "note": rs.note}, w.replay())
			}
		}
		for _, tc := range w.tmpls {
			n := http.CanonicalHeaderKey(tc.name)
			vals := d.hdrs[n]
			if len(vals) == 0 {
				continue
			}
			okv := false
			if tok != nil && len(vals) == 1 {
				// derived value: execute the template ourselves with the token and any refresh token of the jar
				for _, rt := range []string{"", w.jarRefresh(j)} {
					var seen map[string]interface{}
					cb, _ := json.Marshal(tok.claims)
					json.Unmarshal(cb, &seen)
					data := struct {
						AccessToken, IdToken, RefreshToken string
						Claims                             map[string]interface{}
					}{tok.raw, tok.raw, rt, seen}
					var buf bytes.Buffer
					if tc.t != nil && tc.t.Execute(&buf, data) == nil && buf.String() == vals[0] {
						okv = true
					}
				}
			}
			if !okv {
				T.oracle("C10", "templated header seen downstream is neither derived from the session nor absent: "+n, M{"values": truncAll(vals), "note": rs.note}, w.replay())
			}
		}
	}
	// ---- C15: every Location stays on the application's origin or goes to the provider / configured post-logout URI
	if loc := rec.Header().Get("Location"); loc != "" {
		reqOrigin := fmt.Sprint(obsBase(rs))
		lo := browserOrigin(loc, reqOrigin)
		allowed := []string{reqOrigin, issuerURL}
		if strings.HasPrefix(w.postLogout, "http") {
			allowed = append(allowed, browserOrigin(w.postLogout, reqOrigin))
		}
		// (the request's own origin is what its Host / X-Forwarded-* headers say; when those are not a well-formed scheme and
		// host — a broken proxy chain — there is no origin to resolve against and the statement is not evaluated)
		wellFormed := regexp.MustCompile(`^https?://[A-Za-z0-9.-]+(:[0-9]+)?$`).MatchString(reqOrigin)
		if wellFormed && !inList(allowed, lo) {
			T.oracle("C15", "redirect leaves the application's origin", M{"location": trunc(loc, 200), "resolved_origin": lo, "request_origin": reqOrigin, "note": rs.note}, w.replay())
		}
		if obs["class"] == "redirectLocal" && !(strings.HasPrefix(loc, "/") && !strings.HasPrefix(loc, "//") && !strings.HasPrefix(loc, "/\\")) {
			T.oracle("C15", "post-login redirect is not a same-origin absolute path", M{"location": trunc(loc, 200)}, w.replay())
		}
	}
	// ---- C16: nothing from the request appears unescaped in HTML; JSON bodies are well-formed; anything else is plain text
	if rec.Code >= 400 || strings.HasPrefix(ct, "text/html") {
		markers := []string{}
		for _, vs := range query {
			for _, v := range vs {
				if strings.ContainsAny(v, "<>\"'&") {
					markers = append(markers, v)
				}
			}
		}
		for _, h := range rs.hdrs {
			if strings.ContainsAny(h[1], "<>\"'") {
				markers = append(markers, h[1])
			}
		}
		for _, v := range []string{rs.accept, rs.origin, rs.xfHost, rs.xfProto, rs.rawURI} {
			if strings.ContainsAny(v, "<>\"'") {
				markers = append(markers, v)
			}
		}
		// markup this browser sent in earlier requests may come back through its session (remembered URI)
		for _, old := range w.markersSent[w.b] {
			if !inList(markers, old) {
				markers = append(markers, old)
			}
		}
		switch {
		case strings.HasPrefix(ct, "text/html"):
			for _, mk := range markers {
				if strings.Contains(body, mk) && strings.ContainsAny(mk, "<>\"'") {
					T.oracle("C16", "request data appears unescaped in an HTML response body", M{"marker": trunc(mk, 80), "status": rec.Code, "path": path}, w.replay())
				}
			}
			// no tag of the page may contain a marker fragment
			// a tag may carry request data only as a properly quoted attribute value free of quote and angle characters
			// (net/http's redirect body: <a href="…">)
			for _, tag := range tagRe.FindAllString(body, -1) {
				if strings.Contains(tag, "verif-marker") && !safeAnchorRe.MatchString(tag) {
					T.oracle("C16", "request data became part of an HTML tag", M{"tag": trunc(tag, 100)}, w.replay())
				}
			}
		case strings.HasPrefix(ct, "application/json"):
			var jb map[string]interface{}
			if err := json.Unmarshal([]byte(body), &jb); err != nil {
				T.oracle("C16", "JSON error body is not well-formed JSON", M{"body": trunc(body, 200)}, w.replay())
			} else if rec.Code >= 400 {
				_, s1 := jb["error_description"].(string)
				_, s2 := jb["message"].(string)
				if !s1 && !s2 {
					T.oracle("C16", "JSON error body does not carry the message as a string", M{"body": trunc(body, 200)}, w.replay())
				}
			}
		default:
			if rec.Code >= 400 && body != "" && !strings.HasPrefix(ct, "text/plain") {
				T.oracle("C16", "error body is neither HTML-escaped, JSON nor text/plain", M{"content_type": ct, "status": rec.Code}, w.replay())
			}
			if rec.Code >= 400 && strings.HasPrefix(ct, "text/plain") {
				for _, mk := range markers {
					if strings.Contains(body, mk) && rec.Header().Get("X-Content-Type-Options") != "nosniff" {
						T.oracle("C16", "request data in a plain-text body without nosniff", M{"marker": trunc(mk, 80)}, w.replay())
					}
				}
			}
		}
	}
	// remember the markup this request carried (query values and the raw query itself)
	for _, vs := range query {
		for _, v := range vs {
			if strings.ContainsAny(v, "<>\"'") && !inList(w.markersSent[w.b], v) {
				w.markersSent[w.b] = append(w.markersSent[w.b], v)
			}
		}
	}
	if i := strings.IndexByte(rs.rawURI, '?'); i >= 0 && strings.ContainsAny(rs.rawURI[i:], "<>\"'") && !inList(w.markersSent[w.b], rs.rawURI[i+1:]) {
		w.markersSent[w.b] = append(w.markersSent[w.b], rs.rawURI[i+1:])
	}
	// ---- C03 / C08 bookkeeping happens in the scenario drivers (they know the intent of the step)
}

func truncAll(v []string) []string {
	out := []string{}
	for _, s := range v {
		out = append(out, trunc(s, 80))
	}
	return out
}

func obsBase(rs reqSpec) string {
	scheme, host := "http", "app.test"
	if rs.tls {
		scheme = "https"
	}
	if rs.xfProto != "" {
		scheme = rs.xfProto
	}
	if rs.xfHost != "" {
		host = rs.xfHost
	}
	return scheme + "://" + host
}

// browserOrigin resolves a Location the way a browser does (backslash = slash for http(s), tab/CR/LF stripped)
func browserOrigin(loc, base string) string {
	loc = strings.NewReplacer("\t", "", "\n", "", "\r", "").Replace(strings.TrimSpace(loc))
	l := strings.Replace(loc, "\\", "/", -1)
	low := strings.ToLower(l)
	switch {
	case strings.HasPrefix(low, "http://") || strings.HasPrefix(low, "https://"):
		u, err := url.Parse(l)
		if err != nil {
			return "unparsable:" + l
		}
		return strings.ToLower(u.Scheme) + "://" + strings.ToLower(u.Host)
	case strings.HasPrefix(l, "//"):
		rest := l[2:]
		if i := strings.IndexAny(rest, "/?#"); i >= 0 {
			rest = rest[:i]
		}
		bs := base[:strings.Index(base, "://")]
		return bs + "://" + strings.ToLower(rest)
	case regexp.MustCompile(`^[a-zA-Z][a-zA-Z0-9+.-]*:`).MatchString(l):
		return "other-scheme:" + l[:strings.IndexByte(l, ':')]
	}
	return base
}

func inList(l []string, s string) bool {
	for _, x := range l {
		if x == s {
			return true
		}
	}
	return false
}

func refGroups(t *hTok, claim string) []string {
	var seen map[string]interface{}
	cb, _ := json.Marshal(t.claims)
	json.Unmarshal(cb, &seen)
	v, ok := seen[claim]
	if !ok {
		return []string{}
	}
	arr, ok := v.([]interface{})
	if !ok {
		return nil // wrongly typed: extraction fails
	}
	out := []string{}
	for _, x := range arr {
		if s, ok := x.(string); ok {
			out = append(out, s)
		}
	}
	return out
}

func (w *world) refRolesOK(t *hTok) bool {
	if t == nil || !t.isJWT {
		return false
	}
	g, r := refGroups(t, "groups"), refGroups(t, "roles")
	if g == nil || r == nil {
		return false
	}
	for _, x := range append(g, r...) {
		if inList(w.roles, x) {
			return true
		}
	}
	return false
}

func (w *world) jarRefresh(j jar) (res string) {
	defer func() { recover() }()
	r2 := httptest.NewRequest("GET", "http://app.test/", nil)
	j.addTo(r2)
	sd, err := w.sm.GetSession(r2)
	if err != nil {
		return ""
	}
	return sd.GetRefreshToken()
}

// referenceSessionValid judges the jar *before* the response was applied? No: the request carried the jar as it was
// before; cookies are only ever replaced by values the deployment emitted, so provenance is judged per cookie:
// every session cookie presented must have been emitted by this deployment (or be absent), the main cookie must mark an
// authenticated session not older than 24 h, and the ID token either is accepted by the reference verifier now or was
// just replaced by a successful refresh whose token the reference verifier accepts.
func (w *world) referenceSessionValid(j jar, rs reqSpec) (bool, string) {
	v := w.viewOf(j) // jar after the response: a forward without refresh leaves it unchanged; a refresh stores the new token
	if v["error"] != nil {
		return false, "jar unreadable"
	}
	if a, _ := v["auth"].(bool); !a {
		return false, "session not marked authenticated (or older than 24 h)"
	}
	id, _ := v["a"].(string)
	var tok *hTok
	for _, t := range w.toks {
		if t.id == id {
			tok = t
		}
	}
	if tok == nil || !tok.isJWT {
		return false, "no ID token in the session"
	}
	now := time.Now().Unix()
	if !(tok.valid && tok.accFrom <= now && now <= tok.accTo) {
		return false, "stored ID token is not accepted by the reference verifier at this moment (" + tok.id + ")"
	}
	return true, ""
}

var _ = sort.Strings

// otherKeyValue: a syntactically perfect cookie value for `name` made by a SessionManager under another key (each call takes the
// next of otherSessKeys)
func otherKeyValue(name string, force bool) string {
	otherKeyTurn++
	sm2, err2 := oidc.NewSessionManager(otherSessKeys[otherKeyTurn%len(otherSessKeys)], force, oidc.NewLogger("none"))
	if err2 != nil || sm2 == nil {
		return "garbage"
	}
	r := httptest.NewRequest("GET", "http://app.test/", nil)
	sd, err := sm2.GetSession(r)
	if err != nil {
		return "garbage"
	}
	sd.SetAuthenticated(true)
	sd.SetEmail("root@example.com")
	sd.SetAccessToken("forged")
	sd.SetRefreshToken("forged")
	rec := httptest.NewRecorder()
	sd.Save(r, rec)
	resp := http.Response{Header: rec.Header()}
	for _, c := range resp.Cookies() {
		if c.Name == name {
			return c.Value
		}
	}
	for _, c := range resp.Cookies() {
		if c.Name == "_oidc_raczylo_a" {
			return c.Value
		}
	}
	return "garbage"
}
