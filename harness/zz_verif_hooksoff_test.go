//go:build !verifhooks

package traefikoidc_test

import oidc "github.com/lukaszraczylo/traefikoidc"

const hooksOn = false

func newCacheCap(n int) *oidc.Cache { return oidc.NewCache() }

func cacheSnapshot(c *oidc.Cache) (order, items, elems []string) { return nil, nil, nil }

func stopMetadataCleanup(t *oidc.TraefikOidc) bool { return false }

func housekeeping(t *oidc.TraefikOidc) bool { return false }

func endpointsOf(t *oidc.TraefikOidc) map[string]string { return nil }

func deriveBlockKeyOf(key string) []byte { return nil }

func expireKeySet(t *oidc.TraefikOidc) bool { return false }

func onKeyConversion(fn func(kty string)) func() { return func() {} }
