//go:build verifhooks

package traefikoidc_test

import oidc "github.com/lukaszraczylo/traefikoidc"

const hooksOn = true

func newCacheCap(n int) *oidc.Cache { return oidc.VerifNewCache(n) }

func cacheSnapshot(c *oidc.Cache) (order, items, elems []string) { return c.VerifSnapshot() }

func stopMetadataCleanup(t *oidc.TraefikOidc) bool { t.VerifStopMetadataCleanup(); return true }

func housekeeping(t *oidc.TraefikOidc) bool { t.VerifHousekeeping(); return true }

func endpointsOf(t *oidc.TraefikOidc) map[string]string { return t.VerifEndpoints() }

func deriveBlockKeyOf(key string) []byte { return oidc.VerifDeriveBlockKey(key) }

func expireKeySet(t *oidc.TraefikOidc) bool { return t.VerifExpireKeySet() }

func onKeyConversion(fn func(kty string)) func() { return oidc.VerifOnKeyConversion(fn) }
