package traefikoidc_test

// Family "jwt" (C02): tokens with systematic single- and double-field deviations presented to VerifyToken
// (first presentation: every string is presented once per instance). The abstract description of each token
// is computed from the final string by reference decoders; the reference verifier is the flat statement of C02.

import (
	"crypto/hmac"
	"crypto/sha256"
	"crypto/x509"
	"encoding/asn1"
	"encoding/json"
	"encoding/pem"
	"fmt"
	"math/big"
	"strings"
	"testing"
	"testing/synctest"
	"time"

	oidc "github.com/lukaszraczylo/traefikoidc"
)

var nineAlgs = map[string]bool{"RS256": true, "RS384": true, "RS512": true, "PS256": true, "PS384": true, "PS512": true, "ES256": true, "ES384": true, "ES512": true}

// satSeconds: a NumericDate in whole seconds, saturated at ±2^62 (beyond that the order relative to any clock reading is decided)
func satSeconds(x float64) int64 {
	const lim = 1 << 62
	if x >= lim {
		return lim
	}
	if x <= -lim {
		return -lim
	}
	return int64(x)
}

// laterThan reports whether the instant `sec` seconds (+ `plus` seconds) since the epoch is later than nowNs, without overflow
func laterThan(sec, plus, nowNs int64) bool {
	if sec > 1<<33 { // (beyond the year 2242: (sec+plus)*1e9 would not fit; any clock reading of a run is earlier)
		return true
	}
	if sec < -(1 << 33) {
		return false
	}
	return (sec+plus)*1e9 > nowNs
}

func jShape(v interface{}, present bool) interface{} {
	if !present {
		return nil
	}
	switch x := v.(type) {
	case string:
		return M{"t": "str", "s": x}
	case float64:
		return M{"t": "num", "n": satSeconds(x)}
	case []interface{}:
		items := make([]interface{}, 0, len(x))
		for _, it := range x {
			items = append(items, jShape(it, true))
		}
		return M{"t": "arr", "items": items}
	default:
		return M{"t": "other"}
	}
}

// describe computes the abstract token (input of the Lean model) and the reference verdict from the raw string.
func describe(raw string, ks []*signKey, nowNs int64) (M, bool) {
	d := M{"parsed": false, "sigValid": false}
	parts := strings.Split(raw, ".")
	if len(parts) != 3 {
		return d, false
	}
	hb, e1 := b64.DecodeString(parts[0])
	cb, e2 := b64.DecodeString(parts[1])
	sig, e3 := b64.DecodeString(parts[2])
	if e1 != nil || e2 != nil || e3 != nil {
		return d, false
	}
	var header, claims map[string]interface{}
	if json.Unmarshal(hb, &header) != nil || json.Unmarshal(cb, &claims) != nil {
		return d, false
	}
	d["parsed"] = true
	for _, f := range []string{"alg", "kid"} {
		v, ok := header[f]
		d[f] = jShape(v, ok)
	}
	for _, f := range []string{"iss", "aud", "exp", "iat", "nbf", "sub"} {
		v, ok := claims[f]
		d[f] = jShape(v, ok)
	}
	// reference verdict: the flat statement of the property
	alg, okAlg := header["alg"].(string)
	kid, okKid := header["kid"].(string)
	var key *signKey
	if okKid {
		for _, k := range ks {
			if k.kid == kid {
				key = k
				break
			}
		}
	}
	sigOK := false
	if okAlg && key != nil && nineAlgs[alg] {
		sigOK = refVerify(key, alg, []byte(parts[0]+"."+parts[1]), sig)
	}
	d["sigValid"] = sigOK
	if !okAlg || !okKid || key == nil || !nineAlgs[alg] || !sigOK {
		return d, false
	}
	if iss, ok := claims["iss"].(string); !ok || iss != curIssuer {
		return d, false
	}
	audOK := false
	switch a := claims["aud"].(type) {
	case string:
		audOK = a == "cid"
	case []interface{}:
		for _, x := range a {
			if s, ok := x.(string); ok && s == "cid" {
				audOK = true
			}
		}
	}
	if !audOK {
		return d, false
	}
	const skewF, skewP = int64(120), int64(10)
	// (times in whole seconds, compared without overflow: a date beyond any clock is later than now, one before any clock earlier)
	exp, ok := claims["exp"].(float64)
	if !ok || !(laterThan(satSeconds(exp), skewF, nowNs) || satSeconds(exp) < 1<<33 && satSeconds(exp) > -(1<<33) && (satSeconds(exp)+skewF)*1e9 == nowNs) {
		return d, false
	}
	iat, ok := claims["iat"].(float64)
	if !ok || laterThan(satSeconds(iat), -skewP, nowNs) {
		return d, false
	}
	if nv, present := claims["nbf"]; present {
		nbf, ok := nv.(float64)
		if !ok || laterThan(satSeconds(nbf), -skewP, nowNs) {
			return d, false
		}
	}
	if sub, ok := claims["sub"].(string); !ok || sub == "" {
		return d, false
	}
	return d, true
}

type jwtCase struct {
	label string
	raw   string
}

func cloneM(m M) M {
	c := M{}
	for k, v := range m {
		c[k] = v
	}
	return c
}

// deviations of one valid (key, alg) pair
func jwtCases(k *signKey, alg string, other []*signKey, now time.Time, rnd func(int) int) []jwtCase {
	var out []jwtCase
	hdr := M{"alg": alg, "kid": k.kid, "typ": "JWT"}
	cl := M{"iss": curIssuer, "aud": "cid", "exp": now.Add(time.Hour).Unix(), "iat": now.Unix() - 5, "sub": "user-1", "email": "u@example.com"}
	add := func(label string, h, c M, signKeyOverride *signKey, signAlg string) {
		sk := k
		if signKeyOverride != nil {
			sk = signKeyOverride
		}
		if signAlg == "" {
			signAlg = alg
		}
		out = append(out, jwtCase{label, mintJWT(sk, signAlg, h, c)})
	}
	add("valid", hdr, cl, nil, "")
	valid := out[0].raw
	vp := strings.Split(valid, ".")
	// ---- header deviations (re-signed under the original algorithm so that only the header text differs)
	for _, a := range []interface{}{"none", "None", "NONE", "HS256", "HS384", "HS512", strings.ToLower(alg), alg + " ", " " + alg, "", 256, nil, []interface{}{alg}, "RS257", "ES255", "EdDSA", "RSA-OAEP"} {
		h := cloneM(hdr)
		h["alg"] = a
		add(fmt.Sprintf("alg=%v", a), h, cl, nil, "")
	}
	{
		h := cloneM(hdr)
		delete(h, "alg")
		add("alg missing", h, cl, nil, "")
		h = cloneM(hdr)
		delete(h, "kid")
		add("kid missing", h, cl, nil, "")
		h = cloneM(hdr)
		h["kid"] = 7
		add("kid number", h, cl, nil, "")
		h = cloneM(hdr)
		h["kid"] = nil
		add("kid null", h, cl, nil, "")
		h = cloneM(hdr)
		h["kid"] = []string{k.kid}
		add("kid array", h, cl, nil, "")
		h = cloneM(hdr)
		h["kid"] = M{"id": k.kid}
		add("kid object", h, cl, nil, "")
		h = cloneM(hdr)
		h["kid"] = true
		add("kid boolean", h, cl, nil, "")
		h = cloneM(hdr)
		h["kid"] = "unknown-kid"
		add("kid unknown", h, cl, nil, "")
		h = cloneM(hdr)
		h["kid"] = k.kid + " "
		add("kid trailing space", h, cl, nil, "")
		h = cloneM(hdr)
		h["jwk"] = k.jwk()
		h["jku"] = "https://evil.test/jwks"
		h["crit"] = []string{"exp"}
		add("extra header fields (ignored)", h, cl, nil, "")
	}
	{
		// segments that are a JSON object followed by more bytes, correctly signed over exactly that text (a lenient decoder that
		// stops after the first value would read the object and ignore the rest): not a JSON text, so not a token - except for
		// trailing white space, which JSON allows
		hb, _ := json.Marshal(hdr)
		cb, _ := json.Marshal(cl)
		raw := func(label string, h, c []byte) {
			in := b64.EncodeToString(h) + "." + b64.EncodeToString(c)
			out = append(out, jwtCase{label, in + "." + b64.EncodeToString(signBytes(k, alg, []byte(in)))})
		}
		raw("header followed by a second object", append(append([]byte{}, hb...), []byte(`{"alg":"none"}`)...), cb)
		raw("header followed by text", append(append([]byte{}, hb...), []byte(`trailer`)...), cb)
		raw("payload followed by a second object", hb, append(append([]byte{}, cb...), []byte(`{"sub":"admin","aud":"cid"}`)...))
		raw("payload followed by a comma and a member", hb, append(append([]byte{}, cb...), []byte(`,"sub":"admin"`)...))
		raw("payload followed by a closing brace", hb, append(append([]byte{}, cb...), '}'))
		raw("payload followed by white space", hb, append(append([]byte{}, cb...), []byte(" \n\t")...))
		raw("header preceded by white space", append([]byte(" \n"), hb...), cb)
		raw("payload with a byte-order mark", hb, append([]byte("\xef\xbb\xbf"), cb...))
		raw("payload is an array holding the object", hb, append(append([]byte{'['}, cb...), ']'))
	}
	// every other algorithm name of the nine, signed by this key where the family fits
	for a := range nineAlgs {
		if a == alg {
			continue
		}
		h := cloneM(hdr)
		h["alg"] = a
		if s := signBytes(k, a, []byte("x")); s != nil {
			add("alg="+a+" same family, signed accordingly", h, cl, nil, a)
		} else {
			add("alg="+a+" other family, original signature scheme", h, cl, nil, alg)
		}
		// header says `a` but the signature was made under `alg`
		hb, _ := json.Marshal(h)
		cb, _ := json.Marshal(cl)
		in := b64.EncodeToString(hb) + "." + b64.EncodeToString(cb)
		out = append(out, jwtCase{"alg=" + a + " header only, signature under " + alg, in + "." + b64.EncodeToString(signBytes(k, alg, []byte(in)))})
	}
	// other keys: kid of another key (signed by own key), own kid (signed by another key)
	for _, o := range other {
		h := cloneM(hdr)
		h["kid"] = o.kid
		add("kid of "+o.name+", signed by own key", h, cl, nil, "")
		oa := defaultAlg(o)
		h2 := cloneM(hdr)
		h2["alg"] = oa
		add("own kid, signed by "+o.name+" under "+oa, h2, cl, o, oa)
		h3 := M{"alg": oa, "kid": o.kid, "typ": "JWT"}
		add("fully valid under "+o.name, h3, cl, o, oa)
	}
	// HMAC with the public key as secret (key-confusion attack)
	{
		pub, _ := x509.MarshalPKIXPublicKey(pubOf(k))
		pemBytes := pem.EncodeToMemory(&pem.Block{Type: "PUBLIC KEY", Bytes: pub})
		h := cloneM(hdr)
		h["alg"] = "HS256"
		hb, _ := json.Marshal(h)
		cb, _ := json.Marshal(cl)
		in := b64.EncodeToString(hb) + "." + b64.EncodeToString(cb)
		mac := hmac.New(sha256.New, pemBytes)
		mac.Write([]byte(in))
		out = append(out, jwtCase{"HS256 keyed with the public key PEM", in + "." + b64.EncodeToString(mac.Sum(nil))})
		h["alg"] = "none"
		hb, _ = json.Marshal(h)
		in = b64.EncodeToString(hb) + "." + b64.EncodeToString(cb)
		out = append(out, jwtCase{"alg none, empty signature", in + "."})
		out = append(out, jwtCase{"alg none, two parts", in})
	}
	// ---- claim deviations
	nowS := now.Unix()
	type cd struct {
		label string
		f     func(c M)
	}
	var cds []cd
	for _, f := range []string{"iss", "aud", "exp", "iat", "sub"} {
		f := f
		cds = append(cds, cd{f + " missing", func(c M) { delete(c, f) }})
		for _, v := range []interface{}{nil, true, 12345, "12345", []interface{}{}, M{"a": 1}, ""} {
			v := v
			cds = append(cds, cd{fmt.Sprintf("%s=%v(%T)", f, v, v), func(c M) { c[f] = v }})
		}
	}
	for _, v := range []interface{}{nil, true, "soon", fmt.Sprint(nowS), []interface{}{nowS}, M{}, nowS - 100, nowS + 9, nowS + 10, nowS + 11, nowS + 3600, float64(nowS) + 10.9, float64(nowS) + 11.1} {
		v := v
		cds = append(cds, cd{fmt.Sprintf("nbf=%v(%T)", v, v), func(c M) { c["nbf"] = v }})
	}
	// dates beyond the range of int64 seconds, and beyond what a float-to-integer conversion defines: later (earlier) than any clock
	for _, v := range []float64{1e19, 9.3e18, 4.7e18, 4.5e18, 1e300, -1e19, -4.7e18, 9.223372036854775807e18, 253402300800} {
		v := v
		cds = append(cds, cd{fmt.Sprintf("iat=%g", v), func(c M) { c["iat"] = v }})
		cds = append(cds, cd{fmt.Sprintf("nbf=%g", v), func(c M) { c["nbf"] = v }})
		cds = append(cds, cd{fmt.Sprintf("exp=%g", v), func(c M) { c["exp"] = v }})
	}
	for _, d := range []int64{-3600, -122, -121, -120, -119, -1, 0, 1} {
		d := d
		cds = append(cds, cd{fmt.Sprintf("exp=now%+d", d), func(c M) { c["exp"] = nowS + d }})
		cds = append(cds, cd{fmt.Sprintf("exp=now%+d.5", d), func(c M) { c["exp"] = float64(nowS+d) + 0.5 }})
	}
	for _, d := range []int64{-3600, 0, 9, 10, 11, 12, 3600} {
		d := d
		cds = append(cds, cd{fmt.Sprintf("iat=now%+d", d), func(c M) { c["iat"] = nowS + d }})
		cds = append(cds, cd{fmt.Sprintf("iat=now%+d.9", d), func(c M) { c["iat"] = float64(nowS+d) + 0.9 }})
	}
	for _, v := range []interface{}{"cid", "cid ", "CID", "cid2", "xcid", []interface{}{"cid"}, []interface{}{"other", "cid"}, []interface{}{"other"}, []interface{}{7, "cid"}, []interface{}{[]interface{}{"cid"}}, []interface{}{M{"cid": 1}}, M{"cid": true}, "other,cid"} {
		v := v
		cds = append(cds, cd{fmt.Sprintf("aud=%v", v), func(c M) { c["aud"] = v }})
	}
	issVariants := []string{issuerURL + "/", issuerURL + ".evil.test", "https://IDP.test", "http://idp.test", strings.TrimSuffix(issuerURL, "t"), " " + issuerURL,
		// the issuer without its scheme, with a doubled or other-case scheme, scheme-relative, with a trailing dot, query or fragment
		strings.TrimPrefix(issuerURL, "https://"), "https://" + issuerURL, "HTTPS://" + strings.TrimPrefix(issuerURL, "https://"), "//" + strings.TrimPrefix(issuerURL, "https://"),
		issuerURL + ".", issuerURL + "?", issuerURL + "#", issuerURL + ":443", "https://user@" + strings.TrimPrefix(issuerURL, "https://")}
	if curIssuer != issuerURL { // a provider whose discovered issuer has another form: its neighbours (one character more or less, other case, normalised forms)
		issVariants = append(issVariants, issuerURL, curIssuer+"/", strings.TrimSuffix(curIssuer, "/"), curIssuer[:len(curIssuer)-1], strings.ToLower(curIssuer), strings.ToUpper(curIssuer),
			strings.TrimSpace(curIssuer), curIssuer+" ", strings.TrimRight(curIssuer, "/."), strings.Replace(curIssuer, "//", "/", -1))
	}
	for _, v := range issVariants {
		if v == curIssuer {
			continue
		}
		v := v
		cds = append(cds, cd{"iss=" + v, func(c M) { c["iss"] = v }})
	}
	cds = append(cds, cd{"jti present", func(c M) { c["jti"] = fmt.Sprintf("jti-%d", rnd(1<<30)) }})
	cds = append(cds, cd{"extra claims", func(c M) { c["groups"] = []string{"a"}; c["nested"] = M{"x": []int{1, 2}}; c["big"] = strings.Repeat("z", 5000) }})
	for _, d := range cds {
		c := cloneM(cl)
		d.f(c)
		add(d.label, hdr, c, nil, "")
	}
	// double deviations (sampled)
	for i := 0; i < T.size(12, 80); i++ {
		a, b := cds[rnd(len(cds))], cds[rnd(len(cds))]
		c := cloneM(cl)
		a.f(c)
		b.f(c)
		add(a.label+" + "+b.label, hdr, c, nil, "")
	}
	// ---- byte-level deviations of the valid token
	for pi := 0; pi < 3; pi++ {
		raw, _ := b64.DecodeString(vp[pi])
		for _, pos := range []int{0, len(raw) / 2, len(raw) - 1} {
			m := append([]byte(nil), raw...)
			m[pos] ^= 1 << uint(rnd(8))
			p := append([]string(nil), vp...)
			p[pi] = b64.EncodeToString(m)
			out = append(out, jwtCase{fmt.Sprintf("bit flip in part %d byte %d", pi, pos), strings.Join(p, ".")})
		}
		p := append([]string(nil), vp...)
		p[pi] = p[pi][:len(p[pi])-1]
		out = append(out, jwtCase{fmt.Sprintf("part %d text truncated by one character", pi), strings.Join(p, ".")})
		p = append([]string(nil), vp...)
		p[pi] = p[pi] + "A"
		out = append(out, jwtCase{fmt.Sprintf("part %d text extended by one character", pi), strings.Join(p, ".")})
		p = append([]string(nil), vp...)
		p[pi] = p[pi] + "="
		out = append(out, jwtCase{fmt.Sprintf("part %d with '=' padding", pi), strings.Join(p, ".")})
		p = append([]string(nil), vp...)
		p[pi] = strings.Replace(strings.Replace(p[pi], "-", "+", -1), "_", "/", -1)
		out = append(out, jwtCase{fmt.Sprintf("part %d in the standard (+/) alphabet", pi), strings.Join(p, ".")})
		p = append([]string(nil), vp...)
		p[pi] = " " + p[pi]
		out = append(out, jwtCase{fmt.Sprintf("part %d with leading space", pi), strings.Join(p, ".")})
	}
	// same header and payload text re-encoded with different whitespace: a *different text* under the old signature
	{
		hb, _ := b64.DecodeString(vp[0])
		p := append([]string(nil), vp...)
		p[0] = b64.EncodeToString(append([]byte(" "), hb...))
		out = append(out, jwtCase{"header JSON with extra whitespace, old signature", strings.Join(p, ".")})
	}
	// non-canonical trailing bits in the signature text: same decoded signature value
	{
		last := vp[2][len(vp[2])-1]
		alpha := "ABCDEFGHIJKLMNOPQRSTUVWXYZabcdefghijklmnopqrstuvwxyz0123456789-_"
		idx := strings.IndexByte(alpha, last)
		if len(vp[2])%4 == 2 && idx >= 0 { // 4 unused bits
			p := append([]string(nil), vp...)
			p[2] = vp[2][:len(vp[2])-1] + string(alpha[(idx&^15)|((idx+1)&15)])
			out = append(out, jwtCase{"signature text with non-canonical trailing bits (same decoded value)", strings.Join(p, ".")})
		}
		if len(vp[2])%4 == 3 && idx >= 0 { // 2 unused bits
			p := append([]string(nil), vp...)
			p[2] = vp[2][:len(vp[2])-1] + string(alpha[(idx&^3)|((idx+1)&3)])
			out = append(out, jwtCase{"signature text with non-canonical trailing bits (same decoded value)", strings.Join(p, ".")})
		}
	}
	out = append(out, jwtCase{"four parts", valid + ".x"}, jwtCase{"two parts", vp[0] + "." + vp[1]}, jwtCase{"one part", vp[0]}, jwtCase{"empty signature", vp[0] + "." + vp[1] + "."},
		jwtCase{"leading dot", "." + valid}, jwtCase{"trailing newline", valid + "\n"}, jwtCase{"payload and header swapped", vp[1] + "." + vp[0] + "." + vp[2]})
	// signature re-encodings for ES*
	if k.fam == "EC" {
		sig, _ := b64.DecodeString(vp[2])
		sz := len(sig) / 2
		r, s := sig[:sz], sig[sz:]
		re := func(label string, b []byte) {
			out = append(out, jwtCase{label, vp[0] + "." + vp[1] + "." + b64.EncodeToString(b)})
		}
		re("ES signature halves zero-padded by one byte each", append(append(append([]byte{0}, r...), 0), s...))
		re("ES signature halves zero-padded by two bytes each", append(append(append([]byte{0, 0}, r...), 0, 0), s...))
		der, _ := asn1.Marshal(struct{ R, S *big.Int }{new(big.Int).SetBytes(r), new(big.Int).SetBytes(s)})
		re("ES signature in DER", der)
		re("ES signature r and s swapped", append(append([]byte(nil), s...), r...))
		re("ES signature odd length", sig[:len(sig)-1])
		re("ES signature with a trailing zero byte", append(append([]byte(nil), sig...), 0))
		n := k.ec.Curve.Params().N
		s2 := new(big.Int).Sub(n, new(big.Int).SetBytes(s))
		sb := make([]byte, sz)
		s2.FillBytes(sb)
		re("ES signature with s replaced by n-s (inherent malleability: a valid signature value)", append(append([]byte(nil), r...), sb...))
		re("ES signature all zero", make([]byte, len(sig)))
	} else {
		sig, _ := b64.DecodeString(vp[2])
		re := func(label string, b []byte) {
			out = append(out, jwtCase{label, vp[0] + "." + vp[1] + "." + b64.EncodeToString(b)})
		}
		re("RSA signature with a leading zero byte", append([]byte{0}, sig...))
		re("RSA signature truncated", sig[:len(sig)-1])
		re("RSA signature all zero", make([]byte, len(sig)))
	}
	return out
}

func pubOf(k *signKey) interface{} {
	if k.fam == "RSA" {
		return &k.rsa.PublicKey
	}
	return &k.ec.PublicKey
}

// curIssuer: the issuer the provider's discovery document announces in the current round
var curIssuer = issuerURL

func familyJwt(t *testing.T) {
	rng := T.rng
	synctest.Test(t, func(t *testing.T) {
		defer guard()
		K := map[string]*signKey{}
		for n, k := range keys() {
			K[n] = k
		}
		// keys the provider publishes without a key ID, next to named ones: a token selects a key by its kid, so no token selects them
		// unless it says `"kid": ""`
		for _, n := range []string{"p256b", "rsa2048b"} {
			u := *K[n]
			u.name, u.kid = "unnamed-"+n, ""
			K[u.name] = &u
		}
		keySets := [][]string{{"rsa2048a", "p256a", "rsa2048b", "p384"}, {"p521", "rsa3072", "p256b"}, {"p256a", "unnamed-p256b", "rsa2048a"}, {"unnamed-rsa2048b", "p384"}}
		if T.thorough() {
			keySets = append(keySets, []string{"rsa4096", "p256a", "p256b", "rsa2048a", "rsa2048b", "rsa3072", "p384", "p521"})
		}
		// rounds with providers whose discovered issuer is not a bare origin (trailing slash, path, upper case, surrounding blank)
		issuers := make([]string, len(keySets))
		for _, iss := range []string{issuerURL + "/", issuerURL + "/realms/Main/", "HTTPS://IDP.test", issuerURL + "//", issuerURL + " "} {
			keySets = append(keySets, []string{"p256a", "rsa2048a"})
			issuers = append(issuers, iss)
		}
		for ksi, names := range keySets {
			curIssuer = issuerURL
			if issuers[ksi] != "" {
				curIssuer = issuers[ksi]
			}
			var ks []*signKey
			for _, n := range names {
				ks = append(ks, K[n])
			}
			p := newProvider(ks...)
			if curIssuer != issuerURL {
				p.doc = M{"issuer": curIssuer}
			}
			inst := newInstance(p, &down{}, nil)
			vsleep(time.Duration(1+rng.Intn(5))*time.Hour + time.Duration(rng.Intn(1e9))) // a `now` with a sub-second part
			var jwks []M
			for _, k := range ks {
				fam := "rsa"
				if k.fam == "EC" {
					fam = "ec"
				}
				jwks = append(jwks, M{"kid": k.kid, "fam": fam})
			}
			T.emit(M{"op": "jcfg", "issuer": curIssuer, "clientID": "cid", "keys": jwks})
			seen := map[string]bool{}
			present := func(label, raw string) {
				if seen[raw] {
					return
				}
				seen[raw] = true
				now := time.Now()
				desc, want := describe(raw, ks, now.UnixNano())
				res := "reject"
				func() {
					defer func() {
						if pv := recover(); pv != nil {
							res = "panic"
							T.oracle("C02", "the verifier crashed on a malformed token", M{"label": label, "panic": fmt.Sprint(pv)}, M{"family": "jwt", "label": label, "token": raw})
						}
					}()
					if err := inst.VerifyToken(raw); err == nil {
						res = "accept"
					} else if strings.Contains(err.Error(), "rate limit") {
						res = "refuse"
					}
				}()
				shown := raw
				if len(shown) > 3000 {
					shown = shown[:3000] + "…"
				}
				T.emit(M{"op": "jwt", "now": now.UnixNano(), "label": label, "tok": desc, "obs": M{"r": res}, "nt": label != "raw-malformed"})
				T.stat("jwt." + res)
				if want {
					T.stat("jwt.reference-accepts")
				}
				if (res == "accept") != want && res != "panic" {
					sig := "token accepted although the reference verifier (the property's iff) rejects it: " + generalise(label)
					if want {
						sig = "token rejected although the reference verifier (the property's iff) accepts it: " + generalise(label)
					}
					T.oracle("C02", sig, M{"label": label, "impl": res, "reference": want, "abstract": desc}, M{"family": "jwt", "label": label, "token": shown, "keys": names, "now": now.UnixNano()})
				}
			}
			if rp := loadReplay(); rp != nil {
				if tok, ok := rp["token"].(string); ok {
					present("replay", tok)
				}
				continue
			}
			for ki, k := range ks {
				var algs []string
				if k.fam == "RSA" {
					algs = []string{"RS256", "RS384", "RS512", "PS256", "PS384", "PS512"}
				} else {
					algs = []string{"ES256", "ES384", "ES512"}
				}
				if !T.thorough() { // quick: the key's natural algorithm plus one more
					nat := defaultAlg(k)
					algs = []string{nat, algs[(ki+ksi+int(T.seed))%len(algs)]}
				}
				if issuers[ksi] != "" {
					algs = algs[:1]
				}
				var others []*signKey
				for _, o := range ks {
					if o != k {
						others = append(others, o)
					}
				}
				for _, a := range algs {
					for _, c := range jwtCases(k, a, others, time.Now(), rng.Intn) {
						present(k.name+"/"+a+": "+c.label, c.raw)
					}
				}
			}
			// static-kid rotation: the provider replaces the key material it publishes under a kid it keeps. Once the key set the
			// instance holds has run out (one hour), a token signed with the retired material verifies nowhere any more, and one
			// signed with the new material under the same kid is as good as any
			if issuers[ksi] == "" {
				old := ks[0]
				var repl *signKey
				for _, n := range []string{"rsa2048b", "rsa3072", "rsa2048a", "p256b", "p256a"} {
					c := K[n]
					inSet := false
					for _, o := range ks {
						inSet = inSet || o == c
					}
					if !inSet && c.fam == old.fam && (c.fam == "RSA" || c.crv == old.crv) {
						repl = c
						break
					}
				}
				if repl != nil {
					nk := *repl
					nk.kid, nk.name = old.kid, repl.name+"-under-"+old.kid
					present(old.name+": before the kid is re-keyed", stdToken(old, M{"iss": curIssuer, "aud": "cid", "exp": time.Now().Add(3 * time.Hour).Unix(), "iat": time.Now().Unix(), "sub": "before-rekey"}))
					newKs := append([]*signKey{&nk}, ks[1:]...)
					p.mu.Lock()
					p.keys = newKs
					p.mu.Unlock()
					ks = newKs
					vsleep(61*time.Minute + time.Duration(rng.Intn(1200))*time.Second)
					mk := func(k *signKey, sub string) string {
						return stdToken(k, M{"iss": curIssuer, "aud": "cid", "exp": time.Now().Add(30 * time.Minute).Unix(), "iat": time.Now().Unix(), "sub": sub})
					}
					present(old.name+": signed with key material the provider has retired, under a kid it still publishes", mk(old, "retired-material"))
					present(nk.name+": signed with the new key material under a kept kid", mk(&nk, "new-material"))
					present(old.name+": retired material again", mk(old, "retired-material-2"))
					T.stat("jwt.static-kid-rotations")
				}
			}
			// raw malformed stream
			for i := 0; i < T.size(150, 1500); i++ {
				n := []int{0, 1, 5, 40, 300, 5000}[rng.Intn(6)]
				b := make([]byte, n)
				for j := range b {
					switch rng.Intn(4) {
					case 0:
						b[j] = '.'
					case 1:
						b[j] = byte(rng.Intn(256))
					default:
						b[j] = "ABCDEFGHIJKLMNOPQRSTUVWXYZabcdefghijklmnopqrstuvwxyz0123456789-_"[rng.Intn(64)]
					}
				}
				present("raw-malformed", string(b))
			}
			for _, s := range []string{"..", "...", "e30.e30.", "e30.e30.e30", "bnVsbA.bnVsbA.", "W10.W10.AA", "e30.bnVsbA.AA", strings.Repeat("A", 1<<20), strings.Repeat("A.", 100000), "eyJhbGciOiJSUzI1NiIsImtpZCI6ImtpZC1yc2EyMDQ4YSJ9.e30.AA", "\x00.\x00.\x00"} {
				present("raw-malformed", s)
			}
		}
		T.finish()
	})
}

// generalise strips key names / numbers from a label so that one defect gives one signature
func generalise(label string) string {
	if i := strings.Index(label, ": "); i >= 0 {
		label = label[i+2:]
	}
	return label
}

var _ = oidc.CreateConfig
