// Verification harness for /verif — injected into package traefikoidc_test through `go test -overlay`.
// It sees only the exported API of the package. One family per process:
//
//	VERIF_FAMILY  cache | verify | limiter | jwt | handler | session | discovery | sched
//	VERIF_PROP    property id the run is for (selects generators and which oracle failures count)
//	VERIF_SEED    PRNG seed (every random choice derives from it)
//	VERIF_TIER    quick | thorough
//	VERIF_OUT     trace file (JSON lines)
//	VERIF_REPLAY  optional replay file (family-specific)
//
// Line kinds written to VERIF_OUT:
//
//	{"op":"…", …, "obs":{…}}    a step: abstract input + canonical observation (replayed by the Lean driver)
//	{"op":"oracle", "prop":"C12", "sig":"…", "detail":…, "replay":…}   a property violation observed on the implementation
//	{"op":"stat", "k":"…", "n":…}  input-distribution counters
package traefikoidc_test

import (
	"bufio"
	"runtime/debug"
	"encoding/json"
	"fmt"
	mrand "math/rand"
	"os"
	"sort"
	"strconv"
	"testing"
)

type M = map[string]interface{}

type tracer struct {
	w       *bufio.Writer
	f       *os.File
	stats   map[string]int
	oracles int
	steps   int
	prop    string
	tier    string
	seed    int64
	rng     *mrand.Rand
}

var T *tracer

func newTracer() *tracer {
	seed, _ := strconv.ParseInt(os.Getenv("VERIF_SEED"), 10, 64)
	if seed == 0 {
		seed = 1
	}
	path := os.Getenv("VERIF_OUT")
	if path == "" {
		path = "/dev/null"
	}
	f, err := os.Create(path)
	if err != nil {
		panic(err)
	}
	tier := os.Getenv("VERIF_TIER")
	if tier == "" {
		tier = "quick"
	}
	return &tracer{w: bufio.NewWriterSize(f, 1<<20), f: f, stats: map[string]int{}, prop: os.Getenv("VERIF_PROP"), tier: tier, seed: seed, rng: mrand.New(mrand.NewSource(seed))}
}

func (t *tracer) emit(m M) {
	b, err := json.Marshal(m)
	if err != nil {
		panic(err)
	}
	t.w.Write(b)
	t.w.WriteByte('\n')
	if _, isStep := m["obs"]; isStep {
		t.steps++
	}
}

func (t *tracer) stat(k string) { t.stats[k]++ }
func (t *tracer) statN(k string, n int) { t.stats[k] += n }

// oracle records a violation of property `prop` observed on the implementation.
// sig is a short stable signature (used to match known findings), replay is self-contained.
func (t *tracer) oracle(prop, sig string, detail interface{}, replay interface{}) {
	t.oracles++
	if t.oracles > 200 {
		return
	}
	t.emit(M{"op": "oracle", "prop": prop, "sig": sig, "detail": detail, "replay": replay})
}

func (t *tracer) finish() {
	keys := make([]string, 0, len(t.stats))
	for k := range t.stats {
		keys = append(keys, k)
	}
	sort.Strings(keys)
	for _, k := range keys {
		t.emit(M{"op": "stat", "k": k, "n": t.stats[k]})
	}
	t.emit(M{"op": "done", "steps": t.steps, "oracles": t.oracles})
	t.w.Flush()
	t.f.Close()
	fmt.Println("VERIF-DONE")
	os.Exit(0)
}

func (t *tracer) thorough() bool { return t.tier == "thorough" }

// pick returns quick or thorough size
func (t *tracer) size(quick, thorough int) int {
	if t.thorough() {
		return thorough
	}
	return quick
}

func TestVerif(t *testing.T) {
	T = newTracer()
	fam := os.Getenv("VERIF_FAMILY")
	switch fam {
	case "cache":
		familyCache(t)
	case "verify":
		familyVerify(t)
	case "limiter":
		familyLimiter(t)
	case "jwt":
		familyJwt(t)
	case "handler":
		familyHandler(t)
	case "session":
		familySession(t)
	case "discovery":
		familyDiscovery(t)
	case "sched":
		familySched(t)
	case "discovery-real":
		familyDiscoveryReal(t)
	case "token-real":
		familyTokenReal(t)
	default:
		t.Fatalf("unknown VERIF_FAMILY %q", fam)
	}
	T.finish()
}

func osGetenv(k string) string { return os.Getenv(k) }

func readJSONFile(p string) M {
	b, err := os.ReadFile(p)
	if err != nil {
		panic(err)
	}
	var m M
	if err := json.Unmarshal(b, &m); err != nil {
		panic(err)
	}
	if r, ok := m["replay"].(map[string]interface{}); ok { // a replay file written by ./check wraps the harness's replay object
		return r
	}
	return m
}

func newRand(seed int64) *mrand.Rand { return mrand.New(mrand.NewSource(seed)) }

// guard is deferred at the top of every family's bubble function: a panic that escapes the per-step recovery (for instance
// inside a direct API call of the harness) is recorded as a violation of the property under check, with the trace flushed.
func guard() {
	if pv := recover(); pv != nil {
		T.oracle(T.prop, "panic escaped into the harness", M{"panic": fmt.Sprint(pv), "stack": string(debug.Stack())}, M{"family": os.Getenv("VERIF_FAMILY"), "seed": T.seed})
		T.finish()
	}
}
