package traefikoidc_test

// Shared infrastructure: signing keys, token minting (independent of the repository's code), a scripted
// in-process provider (http.RoundTripper), instance construction, downstream recorder, browser jar.

import (
	"bytes"
	"compress/gzip"
	"crypto"
	"crypto/ecdsa"
	"crypto/elliptic"
	"crypto/rand"
	"crypto/rsa"
	"crypto/sha256"
	"crypto/sha512"
	"crypto/x509"
	"encoding/base64"
	"encoding/json"
	"encoding/pem"
	"fmt"
	"hash"
	"io"
	"math/big"
	"net/http"
	"net/http/httptest"
	"net/url"
	"sort"
	"strings"
	"sync"
	"testing/synctest"
	"time"

	oidc "github.com/lukaszraczylo/traefikoidc"
)

// realTime is set by families that run outside a synctest bubble
var realTime bool

// the deployment's session key: longer than any digest block or fixed buffer a key derivation might use (64, 32 bytes)
const sessKey = "0123456789abcdef0123456789abcdef-deployment-key-with-a-long-shared-secret-prefix-0123456789-production"

// other keys: every one differs from the deployment's key — in the first byte, in the middle, only in the very last byte, only
// beyond byte 64, by being a proper prefix of it (64, 32 bytes, all but the last byte) or an extension, or only in letter case
var otherSessKeys = []string{
	"1" + sessKey[1:],
	sessKey[:40] + "X" + sessKey[41:],
	sessKey[:len(sessKey)-1] + "z",
	sessKey[:70] + "-staging-environment-0000000000",
	sessKey[:64],
	sessKey[:32],
	sessKey[:len(sessKey)-1],
	sessKey + "x",
	strings.ToUpper(sessKey),
}
var otherKeyTurn int
const issuerURL = "https://idp.test"

var b64 = base64.RawURLEncoding

type signKey struct {
	name string
	kid  string
	fam  string // "RSA" | "EC"
	rsa  *rsa.PrivateKey
	ec   *ecdsa.PrivateKey
	crv  string
}

var keyOnce sync.Once
var allKeys map[string]*signKey

func keys() map[string]*signKey {
	keyOnce.Do(func() {
		allKeys = map[string]*signKey{}
		for name, p := range testKeyPEMs {
			blk, _ := pem.Decode([]byte(p))
			k := &signKey{name: name, kid: "kid-" + name}
			if blk.Type == "RSA PRIVATE KEY" {
				k.fam = "RSA"
				k.rsa, _ = x509.ParsePKCS1PrivateKey(blk.Bytes)
			} else {
				k.fam = "EC"
				k.ec, _ = x509.ParseECPrivateKey(blk.Bytes)
				k.crv = k.ec.Curve.Params().Name
			}
			allKeys[name] = k
		}
	})
	return allKeys
}

func (k *signKey) jwk() map[string]string {
	m := k.jwk0()
	if k.kid == "" { // a key the provider publishes without a key ID (legal in a JWK set)
		delete(m, "kid")
	}
	return m
}

func (k *signKey) jwk0() map[string]string {
	if k.fam == "RSA" {
		return map[string]string{"kty": "RSA", "kid": k.kid, "use": "sig", "n": b64.EncodeToString(k.rsa.N.Bytes()), "e": b64.EncodeToString(big.NewInt(int64(k.rsa.E)).Bytes())}
	}
	sz := (k.ec.Curve.Params().BitSize + 7) / 8
	x, y := make([]byte, sz), make([]byte, sz)
	k.ec.X.FillBytes(x)
	k.ec.Y.FillBytes(y)
	return map[string]string{"kty": "EC", "kid": k.kid, "use": "sig", "crv": k.crv, "x": b64.EncodeToString(x), "y": b64.EncodeToString(y)}
}

func hashFor(alg string) (crypto.Hash, hash.Hash) {
	switch {
	case strings.HasSuffix(alg, "384"):
		return crypto.SHA384, sha512.New384()
	case strings.HasSuffix(alg, "512"):
		return crypto.SHA512, sha512.New()
	}
	return crypto.SHA256, sha256.New()
}

// signBytes signs `input` with key k under JWS algorithm alg (RS*/PS*/ES*); returns nil if the key family does not fit.
func signBytes(k *signKey, alg string, input []byte) []byte {
	ch, h := hashFor(alg)
	h.Write(input)
	d := h.Sum(nil)
	switch {
	case strings.HasPrefix(alg, "RS") && k.fam == "RSA":
		s, _ := rsa.SignPKCS1v15(rand.Reader, k.rsa, ch, d)
		return s
	case strings.HasPrefix(alg, "PS") && k.fam == "RSA":
		s, _ := rsa.SignPSS(rand.Reader, k.rsa, ch, d, nil)
		return s
	case strings.HasPrefix(alg, "ES") && k.fam == "EC":
		r, s, _ := ecdsa.Sign(rand.Reader, k.ec, d)
		sz := (k.ec.Curve.Params().BitSize + 7) / 8
		out := make([]byte, 2*sz)
		r.FillBytes(out[:sz])
		s.FillBytes(out[sz:])
		return out
	}
	return nil
}

// refVerify is the harness's own JWS signature check (RFC 7515/7518): exact r||s length for ES*, hash by suffix.
func refVerify(k *signKey, alg string, input, sig []byte) bool {
	ch, h := hashFor(alg)
	h.Write(input)
	d := h.Sum(nil)
	switch {
	case strings.HasPrefix(alg, "RS") && k.fam == "RSA":
		return rsa.VerifyPKCS1v15(&k.rsa.PublicKey, ch, d, sig) == nil
	case strings.HasPrefix(alg, "PS") && k.fam == "RSA":
		return rsa.VerifyPSS(&k.rsa.PublicKey, ch, d, sig, nil) == nil
	case strings.HasPrefix(alg, "ES") && k.fam == "EC":
		sz := (k.ec.Curve.Params().BitSize + 7) / 8
		if len(sig) != 2*sz {
			return false
		}
		r := new(big.Int).SetBytes(sig[:sz])
		s := new(big.Int).SetBytes(sig[sz:])
		return ecdsa.Verify(&k.ec.PublicKey, d, r, s)
	}
	return false
}

func defaultAlg(k *signKey) string {
	if k.fam == "RSA" {
		return "RS256"
	}
	switch k.ec.Curve {
	case elliptic.P384():
		return "ES384"
	case elliptic.P521():
		return "ES512"
	}
	return "ES256"
}

// mintJWT builds header.payload.signature with the given header and claims, signed by k under alg.
// The claims member "__tail" (a list of name/value pairs) is not a claim: its pairs are written after the other members, in
// the order given (encoding/json sorts the members of a map; a provider's encoder need not, and where a name occurs twice or in two
// spellings the position decides what a lenient decoder sees).
func mintJWT(k *signKey, alg string, header, claims M) string {
	hb, _ := json.Marshal(header)
	var tail [][2]interface{}
	if t, ok := claims["__tail"].([][2]interface{}); ok {
		tail = t
		c2 := M{}
		for n, v := range claims {
			if n != "__tail" {
				c2[n] = v
			}
		}
		claims = c2
	}
	cb, _ := json.Marshal(claims)
	for _, p := range tail {
		nb, _ := json.Marshal(p[0])
		vb, _ := json.Marshal(p[1])
		if len(cb) > 2 {
			cb = append(cb[:len(cb)-1], ',')
		} else {
			cb = cb[:len(cb)-1]
		}
		cb = append(append(append(append(cb, nb...), ':'), vb...), '}')
	}
	in := b64.EncodeToString(hb) + "." + b64.EncodeToString(cb)
	sig := signBytes(k, alg, []byte(in))
	return in + "." + b64.EncodeToString(sig)
}

func stdToken(k *signKey, claims M) string {
	alg := defaultAlg(k)
	return mintJWT(k, alg, M{"alg": alg, "kid": k.kid, "typ": "JWT"}, claims)
}

func stdClaims(now time.Time, expIn time.Duration) M {
	return M{"iss": issuerURL, "aud": "cid", "exp": now.Add(expIn).Unix(), "iat": now.Unix(), "sub": "user-1"}
}

// ---------------------------------------------------------------------------------------------------- provider

type tokenAnswer struct {
	kind    string // ok | 4xx | invalid_grant | invalid_client | 500 | malformed | neterr | noidtoken
	idToken string
	refresh string
	desc    string // error_description for 4xx kinds
	verbose bool   // error answers: a long error object whose "error" member comes last, after several hundred bytes of other members
	access  string // the access_token of the answer ("" = an opaque string); providers also hand out JWTs signed with the ID-token key
}

type provider struct {
	mu         sync.Mutex
	keys       []*signKey
	endSession bool
	// discovery behaviour: nil = healthy; otherwise consulted per attempt (index from 0)
	discovery   func(n int) (status int, body string, delay time.Duration, neterr bool)
	discoveryN  int
	discTimes   []time.Duration // virtual offsets of discovery attempts
	t0          time.Time
	doc         M // overrides of the discovery document
	onExchange  func(form url.Values) tokenAnswer
	onRefresh   func(form url.Values) tokenAnswer
	calls       []M
	jwksHits    int
	sched       func(point string) // scheduling hook (family sched)
	jwksFail    bool
	jwksDelay   time.Duration // real-time families: the key-set answer is in flight for a while
	base        string // issuer and endpoint origin; "" = issuerURL
	// via303: the token endpoint answers a successful grant with "303 See Other" to /token/result and a cookie naming the pending
	// result (a provider behind a front end that parks responses); the result is handed out once, to whoever presents the cookie
	via303  bool
	pending map[string]M
	pendN   int
	issuedRT map[string]bool // every refresh token this provider has handed out
	tokenAnswers int         // successful token answers so far (varies expires_in)
}

// issued: called from the onRefresh / onExchange callbacks, which run with p.mu held
func (p *provider) issued(rt string) bool { return p.issuedRT[rt] }

func newProvider(ks ...*signKey) *provider {
	if len(ks) == 0 {
		ks = []*signKey{keys()["rsa2048a"]}
	}
	return &provider{keys: ks, endSession: true, t0: time.Now()}
}

func (p *provider) document() M {
	base := issuerURL
	if p.base != "" { // another provider altogether (its own issuer and endpoints)
		base = p.base
	}
	d := M{"issuer": base, "authorization_endpoint": base + "/auth", "token_endpoint": base + "/token", "jwks_uri": base + "/jwks", "revocation_endpoint": base + "/revoke"}
	if p.endSession {
		d["end_session_endpoint"] = base + "/logout"
	}
	for k, v := range p.doc {
		d[k] = v
	}
	return d
}

func (p *provider) RoundTrip(r *http.Request) (*http.Response, error) {
	if p.sched != nil {
		p.sched("provider " + r.URL.Path)
	}
	rec := httptest.NewRecorder()
	switch {
	case strings.HasSuffix(r.URL.Path, "/.well-known/openid-configuration"):
		p.mu.Lock()
		n := p.discoveryN
		p.discoveryN++
		p.discTimes = append(p.discTimes, time.Since(p.t0))
		disc := p.discovery
		p.mu.Unlock()
		if disc != nil {
			status, body, delay, neterr := disc(n)
			if delay > 0 {
				select {
				case <-time.After(delay):
				case <-r.Context().Done():
					return nil, r.Context().Err()
				}
			}
			if neterr {
				return nil, fmt.Errorf("dial tcp: connection refused")
			}
			if status != 0 {
				// an overloaded provider or the gateway in front of it says when to come back; how soon the middleware asks again
				// is its own schedule
				if status >= 400 {
					switch n % 4 {
					case 0:
						rec.Header().Set("Retry-After", "86400")
					case 1:
						rec.Header().Set("Retry-After", time.Now().Add(36*time.Hour).UTC().Format(http.TimeFormat))
						rec.Header().Set("X-RateLimit-Reset", fmt.Sprint(time.Now().Add(36*time.Hour).Unix()))
					case 2:
						rec.Header().Set("Retry-After", "7")
						rec.Header().Set("Cache-Control", "max-age=31536000")
					}
				}
				rec.WriteHeader(status)
				rec.WriteString(body)
				break
			}
		}
		// caching headers as CDNs in front of providers add them (the document is good for an hour in the middleware, whatever they say)
		switch n % 3 {
		case 1:
			rec.Header().Set("Cache-Control", "public, max-age=604800")
			rec.Header().Set("Expires", time.Now().Add(7*24*time.Hour).UTC().Format(http.TimeFormat))
		case 2:
			rec.Header().Set("Cache-Control", "no-store, max-age=0")
			rec.Header().Set("Age", "86000")
		}
		json.NewEncoder(rec).Encode(p.document())
	case r.URL.Path == "/jwks":
		p.mu.Lock()
		p.jwksHits++
		fail := p.jwksFail
		delay := p.jwksDelay
		p.mu.Unlock()
		if delay > 0 {
			time.Sleep(delay)
		}
		if fail {
			rec.WriteHeader(500)
			break
		}
		var ks []map[string]string
		for _, k := range p.keys {
			ks = append(ks, k.jwk())
		}
		json.NewEncoder(rec).Encode(M{"keys": ks})
	case r.URL.Path == "/token/hop":
		rec.Header().Set("Location", "/token/result")
		rec.WriteHeader(303)
	case r.URL.Path == "/token/result":
		var m M
		if c, err := r.Cookie("tr"); err == nil {
			p.mu.Lock()
			m = p.pending[c.Value]
			delete(p.pending, c.Value)
			p.mu.Unlock()
		}
		if m == nil {
			rec.WriteHeader(400)
			json.NewEncoder(rec).Encode(M{"error": "invalid_request", "error_description": "no pending result"})
			break
		}
		json.NewEncoder(rec).Encode(m)
	case r.URL.Path == "/token":
		b, _ := io.ReadAll(r.Body)
		form, _ := url.ParseQuery(string(b))
		var ans tokenAnswer
		p.mu.Lock()
		if form.Get("grant_type") == "refresh_token" {
			p.calls = append(p.calls, M{"kind": "refresh", "rt": form.Get("refresh_token")})
			if p.onRefresh != nil {
				ans = p.onRefresh(form)
			} else {
				ans = tokenAnswer{kind: "neterr"}
			}
		} else {
			p.calls = append(p.calls, M{"kind": "exchange", "code": form.Get("code"), "verifier": form.Get("code_verifier"), "redirect_uri": form.Get("redirect_uri"), "grant": form.Get("grant_type")})
			if p.onExchange != nil {
				ans = p.onExchange(form)
			} else {
				ans = tokenAnswer{kind: "neterr"}
			}
		}
		p.mu.Unlock()
		switch ans.kind {
		case "ok":
			// (the lifetime the provider states for its access token - an hour, a week, a year, none - is the provider's business: the
			// middleware's cookies and sessions have their own 24 hours)
			p.mu.Lock()
			p.tokenAnswers++
			ei := []int{3600, 604800, 300, 86401, 31536000, 0, 3600, 172800}[p.tokenAnswers%8]
			p.mu.Unlock()
			m := M{"id_token": ans.idToken, "access_token": "opaque-access-token", "expires_in": ei, "token_type": "Bearer"}
			if ans.refresh != "" {
				m["refresh_token"] = ans.refresh
				p.mu.Lock()
				if p.issuedRT == nil {
					p.issuedRT = map[string]bool{}
				}
				p.issuedRT[ans.refresh] = true
				p.mu.Unlock()
			}
			if p.via303 {
				p.mu.Lock()
				p.pendN++
				id := fmt.Sprintf("pending-%d", p.pendN)
				if p.pending == nil {
					p.pending = map[string]M{}
				}
				p.pending[id] = m
				p.mu.Unlock()
				rec.Header().Set("Set-Cookie", "tr="+id+"; Path=/")
				rec.Header().Set("Location", "/token/hop") // (two hops: the front end first, then the place where the result waits)
				rec.WriteHeader(303)
				break
			}
			json.NewEncoder(rec).Encode(m)
		case "noidtoken":
			at := "opaque-access-token"
			if ans.access != "" {
				at = ans.access
			}
			json.NewEncoder(rec).Encode(M{"access_token": at, "expires_in": 3600, "token_type": "Bearer"})
		case "4xx", "invalid_grant":
			rec.WriteHeader(400)
			if ans.verbose {
				db, _ := json.Marshal(ans.desc + ": " + strings.Repeat("The provided authorization grant or refresh token is invalid, expired or revoked. ", 4))
				rec.WriteString(`{"timestamp":"2000-01-01 00:00:00Z","trace_id":"0a1b2c3d-4e5f-6071-8293-a4b5c6d7e8f9","correlation_id":"f9e8d7c6-b5a4-9382-7160-5f4e3d2c1b0a","error_codes":[70008,700082],"error_description":` +
					string(db) + `,"error_uri":"https://idp.test/errors/70008","error":"invalid_grant"}`)
				break
			}
			json.NewEncoder(rec).Encode(M{"error": "invalid_grant", "error_description": ans.desc})
		case "invalid_client":
			rec.WriteHeader(401)
			json.NewEncoder(rec).Encode(M{"error": "invalid_client"})
		case "forbidden":
			rec.WriteHeader(403)
			json.NewEncoder(rec).Encode(M{"error": "access_denied", "error_description": ans.desc})
		case "500":
			rec.WriteHeader(500)
			rec.WriteString("internal error")
		case "malformed":
			rec.WriteString("{not json")
		default:
			return nil, fmt.Errorf("dial tcp: connection refused")
		}
	default:
		rec.WriteHeader(404)
	}
	res := rec.Result()
	res.Request = r
	return res, nil
}

func (p *provider) takeCalls() []M {
	p.mu.Lock()
	defer p.mu.Unlock()
	c := p.calls
	p.calls = nil
	return c
}

// ---------------------------------------------------------------------------------------------------- instance

type down struct {
	mu    sync.Mutex
	calls int
	last  *http.Request
	hdrs  http.Header
	sched func(point string)
	check func(r *http.Request) // called for every forwarded request (concurrent runs: per-request assertions)
}

func (d *down) ServeHTTP(w http.ResponseWriter, r *http.Request) {
	if d.sched != nil {
		d.sched("downstream")
	}
	d.mu.Lock()
	d.calls++
	d.last = r
	d.hdrs = r.Header.Clone()
	chk := d.check
	d.mu.Unlock()
	if chk != nil {
		chk(r)
	}
	w.WriteHeader(200)
	w.Write([]byte("downstream-ok"))
}

func baseConfig(p *provider) *oidc.Config {
	cfg := oidc.CreateConfig()
	cfg.ProviderURL = issuerURL
	cfg.ClientID = "cid"
	cfg.ClientSecret = "sec"
	cfg.CallbackURL = "/cb"
	cfg.SessionEncryptionKey = sessKey
	cfg.ForceHTTPS = false
	cfg.LogLevel = "none"
	cfg.RateLimit = 1000000
	cfg.HTTPClient = &http.Client{Transport: p}
	return cfg
}

// newInstance builds a middleware instance inside the current synctest bubble and lets discovery finish.
func newInstance(p *provider, d http.Handler, mod func(*oidc.Config)) *oidc.TraefikOidc {
	cfg := baseConfig(p)
	if mod != nil {
		mod(cfg)
	}
	h, err := oidc.New(nil, d, cfg, "verif")
	if err != nil {
		panic(err)
	}
	if realTime { // outside a synctest bubble (family sched): wait for the discovery goroutine in real time
		time.Sleep(150 * time.Millisecond)
	} else {
		time.Sleep(time.Second)
		synctest.Wait()
	}
	return h.(*oidc.TraefikOidc)
}

// ---------------------------------------------------------------------------------------------------- browser jar

type jar map[string]string

func (j jar) apply(h http.Header) {
	resp := http.Response{Header: h}
	for _, c := range resp.Cookies() {
		if c.MaxAge < 0 || (!c.Expires.IsZero() && c.Expires.Before(time.Now())) {
			delete(j, c.Name)
		} else {
			j[c.Name] = c.Value
		}
	}
}

func (j jar) addTo(r *http.Request) {
	names := make([]string, 0, len(j))
	for k := range j {
		names = append(names, k)
	}
	sort.Strings(names)
	for _, k := range names {
		r.AddCookie(&http.Cookie{Name: k, Value: j[k]})
	}
}

// addToLines: the same cookies, spread over several Cookie header lines (`perLine` cookies each, in reverse name order, so that a
// chunk cookie with index 0 is not on the first line) - what a client or a proxy translating HTTP/2 fields may send; net/http and
// the session store read every line
func (j jar) addToLines(r *http.Request, perLine int) {
	names := make([]string, 0, len(j))
	for k := range j {
		names = append(names, k)
	}
	sort.Sort(sort.Reverse(sort.StringSlice(names)))
	for i := 0; i < len(names); i += perLine {
		var parts []string
		for _, k := range names[i:min(i+perLine, len(names))] {
			parts = append(parts, k+"="+j[k])
		}
		r.Header.Add("Cookie", strings.Join(parts, "; "))
	}
}

func (j jar) clone() jar {
	c := jar{}
	for k, v := range j {
		c[k] = v
	}
	return c
}

// compressedLen = len(base64(gzip(raw))) computed with the standard library only
func compressedLen(raw string) int {
	var b bytes.Buffer
	gz := gzip.NewWriter(&b)
	gz.Write([]byte(raw))
	gz.Close()
	return base64.StdEncoding.EncodedLen(b.Len())
}

// configGate (C09, C19, C01, C15): the statement of the Lean theorem `Oidc.CodeConfig.Validate_none` run against the real
// `Config.Validate`: a configuration it accepts has a session key of at least 32 bytes, a rate limit of at least 10, excluded
// prefixes that begin with "/" and contain neither ".." nor "*", a callback path beginning with "/", an https provider URL and a
// post-logout target that is empty, "/", an https URL or a path.  One field at a time is moved across its boundary.
func configGate() {
	secure := func(s string) bool {
		u, err := url.Parse(s)
		return err == nil && u.Scheme == "https" && u.Host != ""
	}
	base := func() *oidc.Config {
		c := baseConfig(newProvider(keys()["p256a"]))
		c.LogLevel = ""
		c.RateLimit = 100
		return c
	}
	if err := base().Validate(); err != nil {
		T.stat("config.base-rejected")
		return
	}
	type kase struct {
		prop, what string
		mod        func(*oidc.Config)
		valid      bool
	}
	var ks []kase
	for _, n := range []int{0, 1, 8, 16, 24, 31, 32, 33, 64, 200} {
		n := n
		ks = append(ks, kase{"C09", fmt.Sprintf("session key of %d bytes", n), func(c *oidc.Config) { c.SessionEncryptionKey = strings.Repeat("k", n) }, n >= 32})
	}
	for _, n := range []int{-1000, -1, 0, 1, 5, 9, 10, 11, 500, 100000} {
		n := n
		ks = append(ks, kase{"C19", fmt.Sprintf("rate limit %d", n), func(c *oidc.Config) { c.RateLimit = n }, n >= 10})
	}
	for _, u := range []string{"/pub", "/", "/a/b", "pub", "", "a/b", "/a/../b", "/..", "/a*", "/*", "*", "/a/./b", "/a.b"} {
		u := u
		ok := strings.HasPrefix(u, "/") && !strings.Contains(u, "..") && !strings.Contains(u, "*")
		ks = append(ks, kase{"C01", fmt.Sprintf("excluded URL %q", u), func(c *oidc.Config) { c.ExcludedURLs = []string{"/static", u} }, ok})
	}
	for _, u := range []string{"/cb", "/", "cb", "", "https://app.test/cb", "//cb"} {
		u := u
		ks = append(ks, kase{"C15", fmt.Sprintf("callback URL %q", u), func(c *oidc.Config) { c.CallbackURL = u }, strings.HasPrefix(u, "/")})
	}
	for _, u := range []string{"", "/", "/bye", "https://app.test/bye", "http://app.test/bye", "javascript:alert(1)", "bye", "https://", "//evil.test", "ftp://x.test/"} {
		u := u
		ok := u == "" || u == "/" || secure(u) || strings.HasPrefix(u, "/")
		ks = append(ks, kase{"C15", fmt.Sprintf("post-logout target %q", u), func(c *oidc.Config) { c.PostLogoutRedirectURI = u }, ok})
	}
	for _, u := range []string{issuerURL, "https://idp.test/realms/a", "http://idp.test", "", "https://", "idp.test", "ftp://idp.test", "https:/idp.test"} {
		u := u
		ks = append(ks, kase{"C01", fmt.Sprintf("provider URL %q", u), func(c *oidc.Config) { c.ProviderURL = u }, u != "" && secure(u)})
	}
	for _, k := range ks {
		c := base()
		k.mod(c)
		err := c.Validate()
		T.stat("config.cases")
		if err == nil && !k.valid {
			T.oracle(k.prop, "Config.Validate accepts a configuration the deployment assumptions exclude: "+strings.SplitN(k.what, " ", 3)[0]+" "+strings.SplitN(k.what, " ", 3)[1], M{"case": k.what}, M{"family": "config", "case": k.what})
		}
		if err != nil && k.valid {
			T.stat("config.valid-rejected") // (not a property violation: recorded so that a reference that is too lax shows)
		}
	}
}
