package traefikoidc_test

// Scenario generators for the family "handler": phase-structured scenarios per property plus a weighted random walk.

import (
	"fmt"
	mrand "math/rand"
	"net/http"
	"net/http/httptest"
	"net/url"
	"strings"
	"testing"
	"testing/synctest"
	"time"

	oidc "github.com/lukaszraczylo/traefikoidc"
)

type tokOpts struct {
	email   interface{} // string, or any other JSON value, or nil for absent
	groups  interface{}
	roles   interface{}
	jti     bool
	nbf     bool
	blob    int
	expIn   time.Duration
	valid   bool
	noNonce bool
	nonce   string
	extra   M
	reuse   *hTok // answer the exchange with this already issued token (byte-identical), not a new one
	claimDev int // 0 none; otherwise a correctly signed token whose iss / aud deviates (invalid for this deployment)
}

func (w *world) mintWith(o tokOpts, rng *mrand.Rand) *hTok {
	t := w.mintWith0(o, rng)
	if o.claimDev != 0 && t.valid { // correctly signed, wrong issuer or audience: the model and the oracles are told it is invalid
		t.valid = false
		w.register(t)
	}
	return t
}

var issDevs = []string{strings.TrimPrefix(issuerURL, "https://"), "https://" + issuerURL, issuerURL + "/", "http://" + strings.TrimPrefix(issuerURL, "https://"), issuerURL + ".evil.test"}

func (w *world) mintWith0(o tokOpts, rng *mrand.Rand) *hTok {
	return w.mint(func(c M) {
		switch {
		case o.claimDev > 0 && o.claimDev <= len(issDevs):
			c["iss"] = issDevs[o.claimDev-1]
		case o.claimDev > len(issDevs):
			c["aud"] = []interface{}{"someone-else", "cid2"}
			if w.nTok%2 == 0 { // ... issued to this client as the authorized party, for another audience
				c["azp"] = "cid"
			}
		}
		if o.email != nil {
			c["email"] = o.email
		}
		if o.groups != nil {
			c["groups"] = o.groups
		}
		if o.roles != nil {
			c["roles"] = o.roles
		}
		if o.jti {
			c["jti"] = fmt.Sprintf("jti-%d-%d", w.sc, w.nTok)
		}
		if o.nbf {
			c["nbf"] = time.Now().Unix() - 1
		}
		if o.nonce != "" && !o.noNonce {
			c["nonce"] = o.nonce
		}
		for k, v := range o.extra {
			c[k] = v
		}
		// claims that decide nothing: optional registered ones (azp, acr, amr, auth_time, sid, at_hash) and private ones whose names
		// differ from registered names only in case, written after them with other values - a year ahead, another client, another issuer
		far := time.Now().Add(365 * 24 * time.Hour).Unix()
		switch w.nTok % 4 {
		case 1:
			c["azp"], c["acr"], c["amr"], c["auth_time"] = "cid", "urn:mace:incommon:iap:silver", []string{"pwd", "otp"}, time.Now().Unix()-30
		case 2:
			c["__tail"] = [][2]interface{}{{"Exp", far}, {"Iat", far}, {"Nbf", 0}, {"Aud", "cid"}, {"Iss", issuerURL}, {"Sub", "root"}, {"Email", "root@example.com"}}
		case 3:
			c["azp"], c["sid"], c["at_hash"] = "cid", "sid-1", "MTIzNDU2Nzg5MDEyMzQ1Ng"
			c["__tail"] = [][2]interface{}{{"EXP", far}, {"eXp", far}, {"AUD", []string{"cid"}}, {"ISS", issuerURL}, {"Groups", []string{"admin"}}, {"Roles", []string{"admin"}}}
		}
	}, o.expIn, o.valid, o.blob, rng)
}

var emailPool = []interface{}{"user@example.com", "user@example.com", "user@example.com", "admin@corp.test", "User@Example.com", "user@EXAMPLE.com", "user@evil.test", "user@example.com.evil.test",
	"user@sub.example.com", "a@b@example.com", "@example.com", "user@", "userexample.com", " user@example.com", "user@example.com ", "üser@example.com", "user@exämple.com", ""}
var groupPool = []interface{}{nil, nil, []interface{}{"admin"}, []interface{}{"users", "dev"}, []interface{}{"users"}, []interface{}{7, "admin"}, []interface{}{M{"x": 1}}, "admin", 5, M{"admin": true}, []interface{}{}, []interface{}{"Admin"}, []interface{}{"admin "}}

func (w *world) randomTokOpts(rng *mrand.Rand, good bool) tokOpts {
	o := tokOpts{valid: true, expIn: []time.Duration{time.Hour, time.Hour, 10 * time.Minute, 30 * time.Hour, 2 * time.Hour}[rng.Intn(5)]}
	o.blob = []int{0, 0, 0, 1500, 3000, 9000, 30000}[rng.Intn(7)]
	o.jti = rng.Intn(3) == 0
	o.nbf = rng.Intn(4) == 0
	if good {
		o.email = "user@example.com"
		if len(w.roles) > 0 {
			o.groups = []interface{}{"admin", "other"}
		} else if rng.Intn(2) == 0 {
			o.groups = groupPool[rng.Intn(len(groupPool))]
		}
		switch rng.Intn(5) {
		case 0:
			o.extra = M{"arr": []int{1, 2, 3}, "name": "N N", "nested": M{"a": M{"b": 1}}}
		case 1:
			o.extra = M{"org": "a-plain-string", "arr": []int{1, 2, 3, 4, 5, 6, 7}} // {{.Claims.org.id}} fails, {{index .Claims.arr 5}} works
		case 2:
			o.extra = M{"org": M{"id": "tenant-7"}}
		}
	} else {
		o.email = emailPool[rng.Intn(len(emailPool))]
		o.groups = groupPool[rng.Intn(len(groupPool))]
		o.roles = groupPool[rng.Intn(len(groupPool))]
		if rng.Intn(8) == 0 {
			o.email = []interface{}{nil, 7, []string{"user@example.com"}, M{"a": 1}}[rng.Intn(4)]
		}
		if rng.Intn(5) == 0 { // an otherwise perfect token of another issuer / for another client
			o.email, o.claimDev = "user@example.com", 1+rng.Intn(len(issDevs)+1)
		}
	}
	return o
}

// visit a (usually protected) URI
func (w *world) visit(rawURI string, rs reqSpec) M {
	return w.plain(rawURI, rs, w.rng)
}

// authorize: the provider's authorization endpoint as a conformant provider behaves: a fresh code bound to the
// authorization request of the browser's most recent initiation
func (w *world) authorize(ir *initRec) *issuedCode {
	if ir == nil {
		return nil
	}
	c := &issuedCode{code: fmt.Sprintf("code%d_%d", w.sc, len(w.codes)+1), challenge: ir.challenge, redirect: ir.redirect, nonce: ir.nonce, browser: w.b, state: ir.state}
	w.codes[c.code] = c
	return c
}

// authorizeDirect: a code the provider issued for an authorization request that did not come from this deployment's login
// redirect (anyone can send one to the provider by hand): right client and redirect URI, no nonce, no PKCE challenge, and
// whatever state its sender chose
func (w *world) authorizeDirect(state string) *issuedCode {
	c := &issuedCode{code: fmt.Sprintf("direct%d_%d", w.sc, len(w.codes)+1), redirect: "", browser: -1, state: state}
	w.codes[c.code] = c
	return c
}

// rotateKeys: the provider withdraws its signing keys and publishes others. Once every key set an instance may still hold has
// run out (they are kept for one hour), a token signed with a withdrawn key verifies nowhere any more: from then on it is an
// invalid token for the model and for every reference oracle. No request is sent in between.
func (w *world) rotateKeys(rng *mrand.Rand) {
	old := w.p.keys
	next := []*signKey{keys()["p256b"], keys()["rsa2048b"]}
	if len(old) > 0 && old[0] == next[0] {
		next = []*signKey{keys()["p256a"], keys()["rsa2048a"]}
	}
	w.p.mu.Lock()
	w.p.keys = next
	w.p.mu.Unlock()
	w.rec(M{"op": "note", "text": "provider rotated its signing keys"})
	vsleep(61*time.Minute + time.Duration(rng.Intn(600))*time.Second)
	for _, t := range w.toks {
		if t.isJWT && t.key != nil && t.key != next[0] && t.key != next[1] && t.valid {
			t.valid = false
			w.register(t)
		}
	}
	T.stat("handler.key-rotations")
}

// neighbour: a second middleware of the same process configured for a different provider (another router of the same Traefik).
// Its login and logout redirects must go to its own provider, and the world's instance must keep going to its own.
const otherIssuer = "https://idp-other.test"

func (w *world) neighbour(when string) {
	op := newProvider(keys()["p384"])
	op.base = otherIssuer
	nd := &down{}
	ni := newInstance(op, nd, func(c *oidc.Config) {
		c.ProviderURL = otherIssuer
		c.PostLogoutRedirectURI = "/"
	})
	T.stat("handler.neighbour-instances")
	for _, path := range []string{"/private", "/cb/logout"} {
		req := httptest.NewRequest("GET", "http://other-app.test"+path, nil)
		rec := httptest.NewRecorder()
		ni.ServeHTTP(rec, req)
		loc := rec.Header().Get("Location")
		okLoc := strings.HasPrefix(loc, otherIssuer+"/") || strings.HasPrefix(loc, "http://other-app.test/") || strings.HasPrefix(loc, "/") && !strings.HasPrefix(loc, "//")
		if rec.Code == 302 && !okLoc {
			T.oracle("C15", "redirect of an instance configured for another provider goes neither to that provider nor to its own origin", M{"path": path, "location": trunc(loc, 160), "its_provider": otherIssuer, "created": when}, w.replay())
		}
		if path == "/private" && (rec.Code != 302 || !strings.HasPrefix(loc, otherIssuer+"/auth?")) {
			T.oracle("C15", "login redirect of an instance configured for another provider does not go to that provider's authorization endpoint", M{"status": rec.Code, "location": trunc(loc, 160), "its_provider": otherIssuer, "created": when}, w.replay())
		}
	}
}

type loginResult struct {
	ok  bool
	tok *hTok
	rt  string
	obs M
}

// completeLogin: callback with the given state and code; the provider answers with an ID token carrying the nonce of the
// code's authorization request (conformant) built from o.
func (w *world) callback(state string, c *issuedCode, o tokOpts, rt string, rs reqSpec, rng *mrand.Rand) loginResult {
	var tok *hTok
	if c != nil {
		o.nonce = c.nonce
		if o.reuse != nil {
			tok = o.reuse
		} else {
			tok = w.mintWith(o, rng)
		}
		if rt != "" {
			w.regOpaque(rt)
		}
		rs.exchange = &tokenAnswer{kind: "ok", idToken: tok.raw, refresh: rt}
	}
	q := url.Values{}
	if state != "" {
		q.Set("state", state)
	}
	code := ""
	if c != nil {
		code = c.code
		q.Set("code", code)
	}
	wasAuth, _ := w.viewOf(w.jars[w.b])["auth"].(bool)
	usedBefore := c != nil && c.used
	prevInit := w.lastInit[w.b]
	rs.rawURI = "/cb?" + q.Encode()
	obs := w.do(rs)
	if obs == nil {
		return loginResult{}
	}
	established := obs["class"] == "redirectLocal"
	res := loginResult{ok: established, tok: tok, rt: rt, obs: obs}
	// ---- C03 oracle: a session is established only with the state, nonce and verifier of the most recent initiation
	if established {
		T.stat("handler.login-established")
		why := ""
		switch {
		case prevInit == nil:
			why = "no initiation in this browser"
		case state != prevInit.state:
			why = "state is not the one of the most recent initiation"
		case c == nil || tok == nil || tok.nonceRaw != prevInit.nonce:
			why = "ID token nonce is not the one of the most recent initiation"
		case usedBefore:
			why = "authorization code had been used before"
		}
		if why == "" && w.pkce {
			// the verifier presented at the token endpoint hashes to the challenge of that initiation: the checking provider
			// honoured the code only if S256(verifier) = challenge of the code; the code must belong to that initiation
			if c.challenge != prevInit.challenge {
				why = "code exchanged belongs to another initiation's challenge"
			} else if w.lastVerifierSeen && prevInit.challenge != "" && s256(w.lastVerifier) != prevInit.challenge {
				why = "the verifier presented at the token endpoint does not hash (S256) to the challenge sent in the most recent initiation"
			}
		}
		if why != "" {
			T.oracle("C03", "login completed although "+why, M{"note": rs.note}, w.replay())
		}
		w.loggedIn[w.b], w.tampered[w.b], w.loginTok[w.b], w.loginAt[w.b] = true, false, tok, time.Now().Unix()
		w.admitted[w.b] = tok.id
		w.rtOf[w.b] = rt
	} else {
		nowAuth, _ := obs["jar"].(M)["auth"].(bool)
		if nowAuth && !wasAuth {
			T.oracle("C03", "callback did not complete a login but the jar became authenticated", M{"note": rs.note}, w.replay())
		}
	}
	return res
}

// fullLogin: visit → authorize → callback (all conformant)
func (w *world) fullLogin(rawURI string, o tokOpts, rt string, rng *mrand.Rand) loginResult {
	obs := w.visit(rawURI, reqSpec{note: "login: initiate"})
	if obs == nil || obs["class"] != "redirectAuth" {
		return loginResult{obs: obs}
	}
	ir := w.lastInit[w.b]
	c := w.authorize(ir)
	return w.callback(ir.state, c, o, rt, reqSpec{note: "login: callback"}, rng)
}

func (w *world) logoutStep(rs reqSpec) M {
	before := w.viewOf(w.jars[w.b])
	rs.rawURI = w.logout
	if (T.prop == "C15" || T.prop == "C11") && w.step%2 == 0 && rs.xfHost == "" {
		// the standardised forwarding header (RFC 7239), which any client can send and Traefik neither sets nor strips: where the logout
		// lands is not the sender's to choose
		rs.hdrs = append(rs.hdrs, [2]string{"Forwarded", []string{"for=192.0.2.7;host=evil.test;proto=https", "host=\"evil.test:8443\";proto=http, for=198.51.100.1", "proto=https;host=evil.test"}[w.step/2%3]})
		T.stat("handler.logout.with-forwarded-header")
	}
	if T.prop == "C11" && w.step%3 == 1 && len(w.jars[w.b]) > 0 {
		// the browser does not attach its cookies to the logout request (they are Secure and the request is plain http; or SameSite
		// and the request cross-site) but takes over the answer: the session still ends
		rs.withhold = true
		before = w.viewOf(jar{})
		T.stat("handler.logout.cookies-withheld")
	}
	obs := w.do(rs)
	if obs == nil {
		return nil
	}
	// ---- C11: Location per the reference construction
	base := obsBase(rs)
	post := w.postLogout
	if post == "" || post == "/" {
		post = base + "/"
	} else if !strings.HasPrefix(post, "http") {
		post = base + post
	}
	tokID, _ := before["a"].(string)
	switch obs["class"] {
	case "redirectEndSession":
		l := obs["loc"].(M)
		if !w.endSession || tokID == "" || l["hint"] != tokID || l["post"] != post {
			T.oracle("C11", "logout redirect to the end-session endpoint with wrong hint or post-logout URI", M{"loc": l, "want_hint": tokID, "want_post": post}, w.replay())
		}
	case "redirectPostLogout":
		l := obs["loc"].(M)
		if (w.endSession && tokID != "" && tokID != "?") || l["uri"] != post {
			T.oracle("C11", "logout redirect does not go to the end-session endpoint / configured post-logout URI", M{"loc": l, "want": post, "endSession": w.endSession, "tok": tokID}, w.replay())
		}
	default:
		if !(w.esBad && obs["logout500"] == true) { // (no redirect can be built from an end-session endpoint that is not a URL: the session ends all the same)
			T.oracle("C11", "logout did not answer with a redirect", M{"class": obs["class"], "code": obs["code"]}, w.replay())
		}
	}
	w.loggedIn[w.b] = false
	w.loggedOut[w.b] = true
	w.rtOf[w.b] = ""
	T.stat("handler.logout")
	return obs
}

// expectations evaluated around a plain request of the current browser (C04, C08, C11, C17)
func (w *world) plain(rawURI string, rs reqSpec, rng *mrand.Rand) M {
	rs.rawURI = rawURI
	u, _ := url.ParseRequestURI(rawURI)
	path := rawURI
	if u != nil {
		path = u.Path
	}
	if i := strings.IndexByte(path, '?'); u == nil && i >= 0 {
		path = path[:i]
	}
	special := path == "/cb" || path == w.logout
	for _, e := range append([]string{"/favicon"}, w.excluded...) {
		if strings.HasPrefix(path, e) {
			special = true
		}
	}
	now := time.Now().Unix()
	b := w.b
	tok := w.loginTok[b]
	own := w.loggedIn[b] && !w.tampered[b] && tok != nil
	gatesOK := own && w.refDomainOK(tok.email) && (len(w.roles) == 0 || w.refRolesOK(tok))
	fresh := own && now-w.loginAt[b] <= 86400 && tok.accFrom <= now && tok.valid
	expectForward := !special && fresh && gatesOK && tok.exp-now > int64(w.grace) && !(rs.method == "OPTIONS" && rs.origin != "")
	refreshDue := !special && own && now-w.loginAt[b] <= 86400 && w.rtOf[b] != "" && (tok.exp-now < int64(w.grace) || now > tok.accTo || !tok.valid)
	if refreshDue && rs.refresh == nil {
		// always give the provider an answer to serve
		rs.refresh = w.randomRefreshAnswer(rng)
	}
	wasLoggedOut := w.loggedOut[b]
	obs := w.do(rs)
	if obs == nil {
		return nil
	}
	calls, _ := obs["calls"].([]string)
	if expectForward {
		T.stat("handler.c04-expectations")
		if obs["class"] != "forward" || len(calls) != 0 {
			T.oracle("C04", "established session was not simply forwarded (re-login or provider round-trip before the token nears expiry)",
				M{"class": obs["class"], "calls": calls, "token": tok.id, "jti": tok.jti != "", "secondsToExpiry": tok.exp - now, "instance": w.cur, "note": rs.note}, w.replay())
		}
	}
	if own && fresh && !special && w.admitted[b] == tok.id && tok.exp-now > int64(w.grace) && !w.refDomainOK(tok.email) && (len(w.roles) == 0 || w.refRolesOK(tok)) && obs["class"] == "status" && obs["code"] == 403 {
		// the callback admitted this identity (the login completed, cookies and all), and the very session it established is
		// turned away: whichever of the two is right, an established session does not continue to work
		T.oracle("C04", "a session established by a completed login is refused on later requests (the e-mail gate at login and the one on each request disagree)",
			M{"email": fmt.Sprint(tok.email), "allowed_domains": w.domains, "token": tok.id}, w.replay())
	}
	if wasLoggedOut && !special && !w.loggedIn[b] && !w.tampered[b] {
		T.stat("handler.c11-after-logout-requests")
		if obs["class"] == "forward" {
			T.oracle("C11", "request forwarded after logout without a new login", M{"path": path}, w.replay())
		}
	}
	if refreshDue {
		w.judgeRefresh(rs, obs, calls, tok, rng)
	}
	// ---- C10: the token forwarded for an own, untampered session is the session's CURRENT ID token (after a refresh: the new one)
	if obs["class"] == "forward" && w.loggedIn[b] && !w.tampered[b] && !special {
		if cur := w.loginTok[b]; cur != nil {
			hd, _ := obs["hdrs"].([]string)
			if !inList(hd, "X-Auth-Request-Token="+cur.id) {
				T.oracle("C10", "the forwarded X-Auth-Request-Token is not the ID token the session currently holds", M{"current": cur.id, "forwarded": hd, "note": rs.note}, w.replay())
			}
		}
	}
	if refreshDue {
	} else if !special {
		for _, c := range calls {
			if strings.HasPrefix(c, "refresh(") && own && w.rtOf[b] == "" {
				T.oracle("C08", "refresh grant attempted although no refresh token is stored", M{"calls": calls}, w.replay())
			}
		}
	}
	return obs
}

func (w *world) refDomainOK(email string) bool {
	if len(w.domains) == 0 {
		return true
	}
	if strings.Count(email, "@") != 1 {
		return false
	}
	return inList(w.domains, email[strings.IndexByte(email, '@')+1:])
}

func (w *world) randomRefreshAnswer(rng *mrand.Rand) *tokenAnswer {
	switch k := rng.Intn(12); {
	case k < 5:
		o := w.randomTokOpts(rng, true)
		t := w.mintWith(o, rng)
		rt := ""
		if rng.Intn(2) == 0 {
			rt = w.regOpaque(fmt.Sprintf("RT-%s", t.id))
		}
		return &tokenAnswer{kind: "ok", idToken: t.raw, refresh: rt}
	case k == 5:
		o := w.randomTokOpts(rng, false) // other e-mail / groups after refresh
		t := w.mintWith(o, rng)
		return &tokenAnswer{kind: "ok", idToken: t.raw, refresh: w.regOpaque("RT-" + t.id)}
	case k == 6:
		o := w.randomTokOpts(rng, true)
		o.valid = false
		t := w.mintWith(o, rng)
		return &tokenAnswer{kind: "ok", idToken: t.raw}
	case k == 7:
		o := w.randomTokOpts(rng, true)
		o.expIn = -time.Hour
		t := w.mintWith(o, rng)
		return &tokenAnswer{kind: "ok", idToken: t.raw}
	case k == 8:
		return &tokenAnswer{kind: "invalid_grant", desc: "refresh token revoked", verbose: rng.Intn(2) == 0}
	case k == 9:
		return &tokenAnswer{kind: []string{"500", "malformed", "neterr", "invalid_client"}[rng.Intn(4)]}
	case k == 10:
		if rng.Intn(2) == 0 {
			// no ID token, and an access token that is itself a JWT signed with the provider's key for this client and user (as
			// several providers issue them): it is not an ID token, nothing may be forwarded on its strength
			o := w.randomTokOpts(rng, true)
			if rng.Intn(2) == 0 {
				o.extra = M{"aud": []string{"cid", "https://api.example.com"}}
			}
			T.stat("handler.refresh.no-id-token-jwt-access-token")
			return &tokenAnswer{kind: "noidtoken", access: w.mintWith(o, rng).raw}
		}
		return &tokenAnswer{kind: "noidtoken"}
	default:
		o := w.randomTokOpts(rng, true)
		o.extra = M{"aud": "someone-else"}
		if rng.Intn(2) == 0 {
			o.extra["azp"] = "cid"
		}
		o.valid = true
		t := w.mintWith(o, rng)
		t.valid = false // foreign audience: the reference verifier rejects
		w.register(t)
		return &tokenAnswer{kind: "ok", idToken: t.raw}
	}
}

// ---- C08 oracle
func (w *world) judgeRefresh(rs reqSpec, obs M, calls []string, old *hTok, rng *mrand.Rand) {
	b := w.b
	T.stat("handler.refresh-due")
	nRefresh := 0
	for _, c := range calls {
		if strings.HasPrefix(c, "refresh(") {
			nRefresh++
		}
	}
	if nRefresh != 1 || len(calls) != 1 {
		T.oracle("C08", "refresh-due request did not trigger exactly one refresh grant", M{"calls": calls, "note": rs.note}, w.replay())
	}
	a := rs.refresh
	if w.actualRefresh != nil { // (what the provider actually answered: it refuses refresh tokens it has not issued)
		a = w.actualRefresh
	}
	now := time.Now().Unix()
	var nt *hTok
	if a != nil && a.kind == "ok" {
		nt = w.toks[a.idToken]
	}
	good := nt != nil && nt.valid && nt.accFrom <= now && now <= nt.accTo && nt.hasEmail && nt.email != ""
	if good && nt.jti != "" && w.jtiSeen[fmt.Sprintf("%d/%s", w.cur, nt.jti)] {
		good = false
	}
	view, _ := obs["jar"].(M)
	if good {
		T.stat("handler.refresh.ok")
		if nt.jti != "" {
			w.jtiSeen[fmt.Sprintf("%d/%s", w.cur, nt.jti)] = true
		}
		wantRT := a.refresh
		if wantRT == "" {
			wantRT = w.rtOf[b]
		}
		wantRTid := w.tokID(wantRT)
		gates := w.refDomainOK(nt.email) && (len(w.roles) == 0 || w.refRolesOK(nt))
		if view["a"] != nt.id || view["r"] != wantRTid {
			T.oracle("C08", "successful refresh did not store the new ID token and the new (or kept) refresh token", M{"jar": view, "want_a": nt.id, "want_r": wantRTid}, w.replay())
		}
		if gates && !(rs.method == "OPTIONS" && rs.origin != "") {
			if obs["class"] != "forward" {
				T.oracle("C08", "successful refresh was not followed by forwarding the request", M{"class": obs["class"], "code": obs["code"]}, w.replay())
			} else {
				hd, _ := obs["hdrs"].([]string)
				if !inList(hd, "X-Forwarded-User="+nt.email) || !inList(hd, "X-Auth-Request-Token="+nt.id) {
					T.oracle("C08", "after refresh the forwarded identity is not taken from the new token", M{"hdrs": hd, "want_email": nt.email, "want_token": nt.id}, w.replay())
				}
			}
		} else if obs["class"] == "forward" {
			T.oracle("C06", "request forwarded after refresh although the new token fails the domain or role gate", M{"email": nt.email}, w.replay())
		}
		w.loginTok[b], w.rtOf[b], w.loginAt[b] = nt, wantRT, now
		w.admitted[b] = "" // (the identity now in the session came from a refresh answer, not through the login gate)
	} else {
		T.stat("handler.refresh.fail")
		if obs["class"] == "forward" {
			T.oracle("C08", "request forwarded although the refresh failed", M{"answer": a.kind, "note": rs.note}, w.replay())
		}
		if strings.Contains(rs.accept, "application/json") {
			if !(obs["class"] == "status" && obs["code"] == 401) {
				T.oracle("C08", "failed refresh for a JSON client not answered 401", M{"class": obs["class"], "code": obs["code"]}, w.replay())
			}
		} else if obs["class"] != "redirectAuth" {
			T.oracle("C08", "failed refresh not answered with a fresh login redirect", M{"class": obs["class"], "code": obs["code"]}, w.replay())
		}
		if a != nil && a.kind == "invalid_grant" {
			if view["r"] != "" {
				T.oracle("C08", "refresh token reported invalid by the provider was not removed from the session", M{"jar": view}, w.replay())
			}
			w.rtOf[b] = ""
		}
		if obs["class"] == "redirectAuth" {
			w.loggedIn[b] = false
			w.rtOf[b] = ""
		}
		if obs["class"] == "status" && a != nil && a.kind != "invalid_grant" {
			// session unchanged: the refresh token is still there and the next request retries
		}
	}
}

func (w *world) tamper(rng *mrand.Rand) {
	j := w.jars[w.b]
	names := []string{}
	for n := range j {
		names = append(names, n)
	}
	if len(names) == 0 {
		return
	}
	sortStrings(names)
	w.tamperCookie(names[rng.Intn(len(names))], rng.Intn(9), rng)
}

// tamperCookie damages (kind 0-6), deletes (7) or replaces by an older authentic value (8) the named cookie of the current browser
func (w *world) tamperCookie(n string, kind int, rng *mrand.Rand) {
	j := w.jars[w.b]
	if _, ok := j[n]; !ok {
		return
	}
	names := []string{}
	for x := range j {
		names = append(names, x)
	}
	sortStrings(names)
	short := shortName(n)
	if short == "" {
		return
	}
	w.tampered[w.b] = true
	switch k := kind; {
	case k < 2: // garbage
		j[n] = "garbage" + j[n][min(7, len(j[n])):]
		w.rec(M{"op": "jar", "edit": "bad", "name": short})
	case k == 2: // bit flip in the middle
		b := []byte(j[n])
		if len(b) > 20 {
			p := 5 + rng.Intn(len(b)-10) // (not among the last characters: the final base64 character carries unused bits)
			if b[p] == 'A' {
				b[p] = 'B'
			} else {
				b[p] = 'A'
			}
		}
		j[n] = string(b)
		w.rec(M{"op": "jar", "edit": "bad", "name": short})
	case k == 3: // truncation
		j[n] = j[n][:len(j[n])/2]
		w.rec(M{"op": "jar", "edit": "bad", "name": short})
	case k == 4: // minted under another key
		other := jar{}
		j2 := w.otherKeyCookie(n)
		_ = other
		j[n] = j2
		w.rec(M{"op": "jar", "edit": "bad", "name": short})
	case k == 5: // oversized
		j[n] = strings.Repeat("A", 5000)
		w.rec(M{"op": "jar", "edit": "bad", "name": short})
	case k == 6: // value of another cookie name of the same jar (renamed cookie)
		m := names[rng.Intn(len(names))]
		if m != n && j[m] != j[n] && !w.emitted[n+"="+j[m]] { // (a value the deployment itself issued under this name is not a damaged one, however it got here)
			j[n] = j[m]
			w.rec(M{"op": "jar", "edit": "bad", "name": short})
		}
	case k == 7: // delete
		delete(j, n)
		w.rec(M{"op": "jar", "edit": "drop", "name": short})
	default: // restore an older authentic value of the same name from a snapshot
		if len(w.snaps) > 0 {
			si := rng.Intn(len(w.snaps))
			if v, ok := w.snaps[si][n]; ok {
				j[n] = v
				// the restored value keeps the age it had: securecookie's timestamp check looks at the value, not the jar
				if bt, ok := w.snapBorn[si][n]; ok {
					w.born[fmt.Sprintf("%d/%s", w.b, n)] = bt
				}
			} else {
				delete(j, n)
			}
			w.rec(M{"op": "jar", "edit": "restore", "name": short, "snap": si})
		}
	}
	T.stat("handler.tamper")
}

func (w *world) snapshot() {
	w.snaps = append(w.snaps, w.jars[w.b].clone())
	bm := map[string]int64{}
	for n := range w.jars[w.b] {
		if bt, ok := w.born[fmt.Sprintf("%d/%s", w.b, n)]; ok {
			bm[n] = bt
		}
	}
	w.snapBorn = append(w.snapBorn, bm)
	w.rec(M{"op": "snap", "id": len(w.snaps) - 1})
}

func shortName(n string) string {
	switch {
	case n == "_oidc_raczylo_m":
		return "m"
	case n == "_oidc_raczylo_a":
		return "a"
	case n == "_oidc_raczylo_r":
		return "r"
	case strings.HasPrefix(n, "_oidc_raczylo_a_"):
		return "a" + n[len("_oidc_raczylo_a_"):]
	case strings.HasPrefix(n, "_oidc_raczylo_r_"):
		return "r" + n[len("_oidc_raczylo_r_"):]
	}
	return ""
}

func (w *world) otherKeyCookie(name string) string {
	// a syntactically perfect cookie for this name, made by a SessionManager with a key differing in one character
	return otherKeyValue(name, w.force)
}

func min(a, b int) int {
	if a < b {
		return a
	}
	return b
}

func (w *world) wait(d time.Duration) {
	time.Sleep(d)
	synctest.Wait()
}

var headerSpoofs = [][2]string{{"X-User-Groups", "admin"}, {"x-user-groups", "admin"}, {"X-USER-ROLES", "admin"}, {"X-User-Roles", "root,admin"}, {"X-Forwarded-User", "root@example.com"},
	{"x-forwarded-user", "root@example.com"}, {"X-Auth-Request-User", "root@example.com"}, {"X-Auth-Request-Token", "forged.token.value"}, {"X-Tpl-Email", "forged@example.com"}, {"x-tpl-fail", "forged"},
	{"Authorization", "Bearer forged"}, {"X-Tpl-Sub", "forged"}, {"X-Tpl-Rt", "forged"}, {"X-User-Groups", ""}, {"X-Unrelated", "kept"}, {"X-Tenant-Id", "forged-tenant"}, {"X-Tenant-ID", "forged-tenant-2"}, {"x-tenant-id", "forged-tenant-3"}, {"X-Lower-Name", "forged"}, {"x-lower-name", "forged"}, {"X-User-Sub", "forged-sub"},
	{"X-Tpl-Broken", "forged-under-a-configured-name"}, {"x-tpl-broken", "forged-2"}, {"X-Tpl-Partial", "forged"}, {"X-Tpl-Group", "forged"}}

var acceptPool = []string{"", "text/html", "application/json", "text/event-stream", "text/event-stream, application/json", "*/*", "application/json;q=0.9,text/html", "TEXT/EVENT-STREAM", "text/html,application/xhtml+xml"}
var methodPool = []string{"GET", "GET", "GET", "POST", "PUT", "DELETE", "OPTIONS", "HEAD", "PATCH"}
var markerPool = []string{"<script>verif-marker</script>", "\"><img src=x onerror=verif-marker>", "'verif-marker'", "a&b<verif-marker>", "</p><p verif-marker>", "plain text",
	// characters that need escaping in JSON but not in HTML: C0 controls, DEL, line separators, a non-printable rune outside the BMP,
	// backslashes and quotes, bytes that are not UTF-8
	"bell\averif-marker\x00nul", "vt\vesc\x1bdel\x7f<verif-marker>", "ls\u2028ps\u2029verif-marker", "tag\U000e0001verif-marker", "back\\slash\"quote'verif-marker", "bad\xffutf8\xc3(verif-marker",
	// values that already contain character references (as if pre-encoded) next to live markup
	"Terms &amp; conditions <script>verif-marker</script>", "it&#39;s \"><img src=x onerror=verif-marker>", "&lt;b&gt; then <b verif-marker>", "&quot;&#x3c;\"'<verif-marker>", "&nbsp;&bogus;<verif-marker>",
	// characters outside ASCII that become markup when narrowed to one byte (U+013C -> '<', U+013E -> '>', U+0122 -> '"', U+0127 -> '\'',
	// U+203C / U+203E likewise) or folded by a compatibility normalisation (full-width and small forms of the angle brackets)
	"\u013cverif-marker-img src=x onerror=alert(1)\u013e", "\u203cscript\u203everif-marker\u203c/script\u203e", "x\u0122 onmouseover=\u0127verif-marker\u0127 y=\u0122",
	"\uff1cverif-marker\uff1e", "\ufe64verif-marker\ufe65"}

// every header name that occurs as a string literal in the code under check (regenerated dictionary, build/dict.json) except
// the ones with a dedicated field of reqSpec; plus the request headers of the CORS and upgrade protocols.  The model takes none
// of them as input (beyond the identity names it strips), so any dependence of the answer on them shows as a disagreement.
var dictHdrOnce struct {
	done  bool
	names []string
}

func dictHeaderNames() []string {
	if dictHdrOnce.done {
		return dictHdrOnce.names
	}
	dictHdrOnce.done = true
	names := []string{"Access-Control-Request-Method", "Access-Control-Request-Headers", "X-Requested-With", "Authorization", "Upgrade", "Connection", "Cache-Control", "Purpose", "Sec-Fetch-Mode", "X-Original-URL", "X-Rewrite-URL"}
	if p := osGetenv("VERIF_DICT"); p != "" {
		func() {
			defer func() { recover() }()
			d := readJSONFile(p)
			if hs, ok := d["header"].([]interface{}); ok {
				for _, h := range hs {
					if n, ok := h.(string); ok && n != "Accept" && n != "Origin" && n != "X-Forwarded-Host" && n != "X-Forwarded-Proto" && !inList(names, n) {
						names = append(names, n)
					}
				}
			}
		}()
	}
	dictHdrOnce.names = names
	return names
}

var dictHdrValues = []string{"1", "true", "GET", "POST", "DELETE", "authorization", "XMLHttpRequest", "websocket", "Upgrade", "Bearer x.y.z", "no-cache", "prefetch", "cors", "/public/x", "https://evil.test", "admin"}

func (w *world) randomReqSpec(rng *mrand.Rand, prop string) reqSpec {
	rs := w.randomReqSpec0(rng, prop)
	hostile := prop == "C01" || prop == "C10" || prop == "C17"
	if hostile && rng.Intn(3) == 0 || rng.Intn(12) == 0 {
		names := dictHeaderNames()
		for i := 0; i < 1+rng.Intn(3); i++ {
			rs.hdrs = append(rs.hdrs, [2]string{names[rng.Intn(len(names))], dictHdrValues[rng.Intn(len(dictHdrValues))]})
		}
		if rs.method == "OPTIONS" && rs.origin != "" && rng.Intn(2) == 0 { // a well-formed CORS preflight
			rs.hdrs = append(rs.hdrs, [2]string{"Access-Control-Request-Method", []string{"GET", "POST", "DELETE"}[rng.Intn(3)]})
		}
	}
	// a well-formed CORS preflight, as browsers send it ahead of a cross-origin request (without and with cookies): it is a
	// request like any other to the gate
	if (rs.method == "OPTIONS" && rng.Intn(2) == 0) || (rs.method == "" && rng.Intn(12) == 0) {
		rs.method = "OPTIONS"
		if rs.origin == "" {
			rs.origin = []string{"https://app.test", "https://evil.test", "https://spa.example.org"}[rng.Intn(3)]
		}
		rs.hdrs = append(rs.hdrs, [2]string{"Access-Control-Request-Method", []string{"GET", "POST", "DELETE", "PUT"}[rng.Intn(4)]})
		if rng.Intn(2) == 0 {
			rs.hdrs = append(rs.hdrs, [2]string{"Access-Control-Request-Headers", "authorization, content-type"})
		}
		T.stat("handler.cors-preflights")
	}
	return rs
}

func (w *world) randomReqSpec0(rng *mrand.Rand, prop string) reqSpec {
	rs := reqSpec{}
	hostile := prop == "C01" || prop == "C10" || prop == "C16" || prop == "C17" || prop == "C15"
	if hostile || rng.Intn(4) == 0 {
		rs.method = methodPool[rng.Intn(len(methodPool))]
		rs.accept = acceptPool[rng.Intn(len(acceptPool))]
		if rng.Intn(3) == 0 {
			rs.origin = []string{"https://app.test", "https://evil.test", "null"}[rng.Intn(3)]
		}
	} else if rng.Intn(4) == 0 {
		rs.accept = "application/json"
	}
	if prop == "C10" || rng.Intn(5) == 0 {
		for i := 0; i < 1+rng.Intn(3); i++ {
			rs.hdrs = append(rs.hdrs, headerSpoofs[rng.Intn(len(headerSpoofs))])
		}
		if prop == "C10" && len(w.tmpls) > 0 && rng.Intn(2) == 0 { // every configured templated name, whatever became of its template
			for _, tc := range w.tmpls {
				rs.hdrs = append(rs.hdrs, [2]string{tc.name, "forged-" + tc.name})
			}
		}
	}
	if (prop == "C15" || prop == "C11") && rng.Intn(2) == 0 || rng.Intn(8) == 0 {
		rs.xfProto = []string{"https", "http", "https"}[rng.Intn(3)]
		if rng.Intn(2) == 0 {
			rs.xfHost = []string{"public.example.org", "app.test:8443"}[rng.Intn(2)]
		}
	}
	if (prop == "C15" || prop == "C11" || prop == "C03") && rng.Intn(3) == 0 || rng.Intn(12) == 0 { // no proxy in front: the middleware's server terminates TLS itself
		rs.tls = true
	}
	if (prop == "C17" || prop == "C11") && rng.Intn(4) == 0 { // forwarding headers as chained or broken proxies produce them
		rs.xfProto = []string{"https,http", "https, http", "1https", "HTTPS", "ht tp", "https://", ""}[rng.Intn(7)]
		rs.xfHost = []string{"app test", "app.test%zz", "app.test:http", "[::1", "app.test, proxy.internal", "a\"b.test", ""}[rng.Intn(7)]
	}
	if (prop == "C17" && rng.Intn(2) == 0) || (prop == "C08" && rng.Intn(3) == 0) {
		// Accept values that are syntactically off: parameters without a value or without a name, stray separators, empty elements
		rs.accept = []string{"application/json;q", "text/html, application/json; q ;charset=utf-8", "application/json;q=", "application/json;=1", "application/json;;", ";", ",", ",,application/json",
			"application/json; q=abc", "application/json;q=1.0.0", "application/json/extra", "/", "application/", "application/json;" + strings.Repeat("a=b;", 200), "text/html;q=0, application/json;q=0",
			"application/json;charset", "application/json ; q", "application/json;q;q=1", "text/html;level, application/json;q;v", "application/json;q=\"", "application/json;q= ;"}[rng.Intn(21)]
	}
	if prop == "C16" && rng.Intn(2) == 0 {
		rs.accept = []string{"", "text/html", "application/json", "<verif-marker>", "text/html;profile=\"application/json\"", "text/html; q=0.9; x=json", "application/xhtml+xml;profile=application/json",
			"application/problem+json", "application/json; charset=utf-8", "text/html, application/json;q=0.1", "application/vnd.api+json", "text/plain;format=application/json", "image/svg+xml;x=application/json", "*/*;json"}[rng.Intn(14)]
		if rng.Intn(3) == 0 {
			rs.xfHost = "evil\"<verif-marker>.test"
		}
		rs.hdrs = append(rs.hdrs, [2]string{"X-Custom", markerPool[rng.Intn(len(markerPool))]})
	}
	return rs
}

func (w *world) randomURI(rng *mrand.Rand, prop string) string {
	switch {
	case prop == "C15" || prop == "C17" && rng.Intn(3) == 0:
		u := rawURIs[rng.Intn(len(rawURIs))]
		if prop == "C17" || rng.Intn(5) == 0 {
			n := []int{900, 1010, 1030, 1500, 2050, 2100, 3000, 8000}[rng.Intn(8)]
			u = "/long?" + strings.Repeat("a", n)
		}
		return u
	case prop == "C01" && rng.Intn(2) == 0:
		return []string{"/cb/", "/cb/x", "/CB", "/cbx", "/cb/logout/x", "/cb/Logout", "/public", "/publicx", "/Public", "/pub", "/favicon.ico", "/favicon", "/x/public", "/health", "/healthz", "/"}[rng.Intn(16)]
	case prop == "C16" && rng.Intn(2) == 0:
		return "/p?x=" + url.QueryEscape(markerPool[rng.Intn(len(markerPool))])
	}
	// ordinary application paths, among them ones that merely begin like the callback or logout path
	return []string{"/x", "/a/b?c=d", "/", "/page", "/public/info", "/favicon.ico", "/deep/path?q=1", "/cbx", "/cb.css", "/cb/", "/cb/status", "/cb/logout/x", "/cb/logout.html"}[rng.Intn(13)]
}

func sortStrings(s []string) {
	for i := 1; i < len(s); i++ {
		for j := i; j > 0 && s[j] < s[j-1]; j-- {
			s[j], s[j-1] = s[j-1], s[j]
		}
	}
}

// futureJars: session cookies of this deployment (same key) whose creation time lies ahead of the clock of the instance that will
// receive them - what a replica with a fast clock, or a host before a backwards clock step, hands to a browser.  They are made in
// a bubble of their own whose clock is advanced first (only a SessionManager lives there: no instance, no ticker).
func futureJars(t *testing.T) []jar {
	var out []jar
	synctest.Test(t, func(t *testing.T) {
		for _, ahead := range []time.Duration{3 * time.Minute, 3 * time.Hour, 72 * time.Hour} {
			time.Sleep(ahead)
			sm, err := oidc.NewSessionManager(sessKey, false, oidc.NewLogger("none"))
			if err != nil {
				return
			}
			for _, withToken := range []bool{false, true} {
				r := httptest.NewRequest("GET", "http://app.test/", nil)
				sd, err := sm.GetSession(r)
				if err != nil {
					continue
				}
				sd.SetAuthenticated(true)
				sd.SetEmail("user@example.com")
				if withToken {
					cl := stdClaims(time.Now(), time.Hour)
					cl["email"] = "user@example.com"
					sd.SetAccessToken(stdToken(keys()["p256a"], cl))
					sd.SetRefreshToken("rt-from-the-fast-replica")
				}
				rec := httptest.NewRecorder()
				if sd.Save(r, rec) == nil {
					j := jar{}
					for _, c := range (&http.Response{Header: rec.Header()}).Cookies() {
						j[c.Name] = c.Value
					}
					out = append(out, j)
				}
			}
		}
	})
	return out
}

// futureDated (C17, judged by the oracles only): requests carrying a future-dated jar are answered below 500 on every path, and a
// login from that jar ends in a session that is forwarded
func futureDated(fj jar, n int) {
	p := newProvider(keys()["p256a"])
	d := &down{}
	inst := newInstance(p, d, nil)
	j := jar{}
	for k, v := range fj {
		j[k] = v
	}
	rp := M{"family": "handler", "scenario": "future-dated session cookies", "jar": n}
	for _, target := range []string{"/page", "/cb", "/cb?state=s&code=c", "/cb/logout", "/page"} {
		req := httptest.NewRequest("GET", "http://app.test"+target, nil)
		j.addTo(req)
		rec := httptest.NewRecorder()
		func() {
			defer func() {
				if pv := recover(); pv != nil {
					T.oracle("C17", "the handler crashed on session cookies created ahead of its clock", M{"target": target, "panic": fmt.Sprint(pv)}, rp)
				}
			}()
			p.onExchange = func(form url.Values) tokenAnswer { return tokenAnswer{kind: "4xx", desc: "unknown code"} }
			inst.ServeHTTP(rec, req)
		}()
		if rec.Code >= 500 {
			T.oracle("C17", "5xx answer to a request carrying session cookies created ahead of the instance's clock", M{"target": target, "status": rec.Code}, rp)
		}
		if target == "/page" {
			j.apply(rec.Header())
		}
	}
	if !simpleLogin(inst, p, j, "user@example.com", time.Hour) {
		T.oracle("C17", "a login from a jar with future-dated session cookies does not complete", nil, rp)
		return
	}
	before := d.calls
	req := httptest.NewRequest("GET", "http://app.test/page", nil)
	j.addTo(req)
	inst.ServeHTTP(httptest.NewRecorder(), req)
	if d.calls != before+1 {
		T.oracle("C17", "after a completed login from a jar with future-dated cookies the next request is not forwarded", nil, rp)
	}
	T.stat("handler.future-dated-jars")
}

func familyHandler(t *testing.T) {
	rng := T.rng
	prop := T.prop
	var fjars []jar
	if prop == "C17" {
		fjars = futureJars(t)
	}
	synctest.Test(t, func(t *testing.T) {
		defer guard()
		if prop == "C01" || prop == "C15" {
			configGate()
		}
		if rp := loadReplay(); rp != nil {
			// a replay re-runs the scenario of the recorded seed
			if s, ok := rp["seed"].(float64); ok {
				rng = newRand(int64(s))
				T.rng = rng
			}
		}
		// (instances cannot be shut down — their ticker goroutines have no stop channel — so every scenario leaves timers behind in
		// the bubble and the cost of virtual time grows with the number of scenarios per process: the thorough tier uses more
		// processes (seeds) of moderate length rather than a few long ones)
		if rp := loadReplay(); rp == nil || rp["scenario"] == "future-dated session cookies" { // (first thing in the bubble: its clock still stands where the other bubble's clock started)
			for i, fj := range fjars {
				futureDated(fj, i)
			}
			if rp != nil {
				T.finish()
				return
			}
		}
		nScen := T.size(70, 160)
		for sc := 0; sc < nScen; sc++ {
			neighbourFirst := prop == "C15" && sc%8 == 5
			if neighbourFirst { // the other provider's instance exists (and has fetched its metadata) before this world's instance is built
				(&world{sc: sc}).neighbour("before the application's instance")
			}
			w := newWorld(sc, rng)
			w.rng = rng
			if prop == "C15" && sc%8 == 1 {
				w.neighbour("after the application's instance")
			}
			w.scripted(prop, sc, rng)
			w.randomWalk(prop, rng, T.size(14, 30))
		}
		T.finish()
	})
}

// scripted openings per property: the phase-structured part of each scenario
func (w *world) scripted(prop string, sc int, rng *mrand.Rand) {
	switch prop {
	case "C03":
		w.pkceLax = sc%3 == 1 // some providers accept a code_challenge and never check the verifier: the binding is the middleware's duty
		if sc%4 == 3 { // the token endpoint answers a second browser's code with the ID token of the first browser's login (byte-identical:
			// this instance has verified it before): its nonce is the first login's, the login does not complete
			oA := w.randomTokOpts(rng, true)
			oA.expIn = time.Hour
			if w.fullLogin("/first", oA, "", rng).ok {
				tokA := w.loginTok[w.b]
				w.plain("/first-again", reqSpec{}, rng)
				w.newBrowser()
				w.visit("/second", reqSpec{note: "second browser initiates"})
				if ir := w.lastInit[w.b]; ir != nil && tokA != nil {
					r := w.callback(ir.state, w.authorize(ir), tokOpts{reuse: tokA}, "", reqSpec{note: "own state and code; the provider answers with the ID token of another browser's login"}, rng)
					if r.ok {
						T.oracle("C03", "login completed with an ID token issued for another login (its nonce is not the one of this browser's initiation)", nil, w.replay())
					}
					T.stat("handler.callback.token-of-another-login")
				}
			}
		}
		if sc%4 == 1 { // the issued state in another spelling (it is a UUID: case, URN form, braces, no hyphens, padding): not the state issued
			w.visit("/respelled", reqSpec{note: "initiate"})
			if ir := w.lastInit[w.b]; ir != nil {
				st := ir.state
				for _, v := range []string{strings.ToUpper(st), "urn:uuid:" + st, "{" + st + "}", strings.ReplaceAll(st, "-", ""), st + " ", " " + st, st + "\x00", "\"" + st + "\"", strings.ToUpper(st[:8]) + st[8:]}[sc/4%3*3:][:3] {
					if v == st {
						continue
					}
					r := w.callback(v, w.authorize(ir), w.randomTokOpts(rng, true), "", reqSpec{note: "callback with the issued state in another spelling"}, rng)
					if r.ok {
						T.oracle("C03", "login completed although the state presented is not the state issued (another spelling of it)", M{"presented": v, "issued": st}, w.replay())
					}
				}
				T.stat("handler.callback.respelled-state")
				r := w.callback(st, w.authorize(ir), w.randomTokOpts(rng, true), "", reqSpec{note: "own state and code after the respelled attempts"}, rng)
				_ = r
			}
		}
		switch sc % 6 {
		case 0: // callback before any initiation, with and without parameters
			w.callback("", nil, tokOpts{}, "", reqSpec{note: "callback before any initiation, no parameters"}, rng)
			w.callback("some-state", &issuedCode{code: "nocode"}, w.randomTokOpts(rng, true), "", reqSpec{note: "callback before any initiation"}, rng)
			// codes the provider honours although no login redirect of this deployment asked for them (ID token without nonce)
			w.callback("", w.authorizeDirect(""), w.randomTokOpts(rng, true), "rt-d0", reqSpec{note: "callback before any initiation: no state, a code obtained directly from the provider"}, rng)
			w.callback("chosen-by-sender", w.authorizeDirect("chosen-by-sender"), w.randomTokOpts(rng, true), "", reqSpec{note: "callback before any initiation: sender-chosen state, a code obtained directly from the provider"}, rng)
			if sc%12 == 0 { // the same against a browser that has a pending login, and one that is logged in
				w.visit("/pending", reqSpec{note: "initiate"})
				if ir := w.lastInit[w.b]; ir != nil {
					w.callback("", w.authorizeDirect(""), w.randomTokOpts(rng, true), "", reqSpec{note: "pending login: no state, direct code"}, rng)
					w.callback(ir.state, w.authorizeDirect(ir.state), w.randomTokOpts(rng, true), "", reqSpec{note: "pending login: own state, direct code (ID token has no nonce)"}, rng)
				}
			} else {
				if w.fullLogin("/start", w.randomTokOpts(rng, true), "", rng).ok {
					w.callback("", w.authorizeDirect(""), w.randomTokOpts(rng, true), "rt-d1", reqSpec{note: "logged-in browser: no state, direct code (session swap attempt)"}, rng)
					w.visit("/whoami", reqSpec{note: "after the attempt"})
				}
			}
		case 1: // two tabs: second initiation overwrites the first; callback of the first tab is stale
			w.visit("/tab1", reqSpec{note: "tab 1 initiates"})
			ir1 := w.lastInit[w.b]
			w.visit("/tab2", reqSpec{note: "tab 2 initiates"})
			ir2 := w.lastInit[w.b]
			if ir1 != nil && ir2 != nil {
				c1 := w.authorize(ir1)
				w.callback(ir1.state, c1, w.randomTokOpts(rng, true), "rt-a", reqSpec{note: "stale: state and code of the first initiation"}, rng)
				c2 := w.authorize(ir2)
				c1b := w.authorize(ir1)
				w.callback(ir2.state, c1b, w.randomTokOpts(rng, true), "rt-b", reqSpec{note: "state of the second, code of the first initiation (nonce differs; K1)"}, rng)
				w.callback(ir2.state, c2, w.randomTokOpts(rng, true), "rt-c", reqSpec{note: "own state and code"}, rng)
			}
		case 2: // replayed callback after a successful login
			res := w.fullLogin("/start", w.randomTokOpts(rng, true), "rt-1", rng)
			if res.ok {
				ir := w.lastInit[w.b]
				var used *issuedCode
				for _, c := range w.codes {
					if c.state == ir.state {
						used = c
					}
				}
				obs := w.callback(ir.state, used, w.randomTokOpts(rng, true), "rt-2", reqSpec{note: "replay of the same callback"}, rng).obs
				if obs != nil {
					calls, _ := obs["calls"].([]string)
					if len(calls) != 0 || obs["class"] == "redirectLocal" {
						T.oracle("C03", "replayed callback contacted the token endpoint or created a session", M{"calls": calls, "class": obs["class"]}, w.replay())
					}
				}
			}
		case 3: // foreign state: another browser's initiation
			w.visit("/a", reqSpec{note: "browser 0 initiates"})
			ir0 := w.lastInit[0]
			w.newBrowser()
			w.visit("/b", reqSpec{note: "browser 1 initiates"})
			if ir0 != nil {
				c0 := w.authorize(ir0)
				w.callback(ir0.state, c0, w.randomTokOpts(rng, true), "", reqSpec{note: "browser 1 presents browser 0's state and code"}, rng)
			}
		case 4: // provider error / no code / rejected code
			w.visit("/e", reqSpec{note: "initiate"})
			if ir := w.lastInit[w.b]; ir != nil {
				w.do(reqSpec{rawURI: "/cb?error=access_denied&error_description=" + url.QueryEscape("user said no") + "&state=" + url.QueryEscape(ir.state), note: "provider error"})
				w.do(reqSpec{rawURI: "/cb?state=" + url.QueryEscape(ir.state), note: "no code"})
				{ // a provider error together with a code the provider would honour and the browser's own state
					c := w.authorize(ir)
					o := w.randomTokOpts(rng, true)
					o.nonce = c.nonce
					tok := w.mintWith(o, rng)
					obs := w.do(reqSpec{rawURI: "/cb?error=access_denied&state=" + url.QueryEscape(ir.state) + "&code=" + c.code, exchange: &tokenAnswer{kind: "ok", idToken: tok.raw}, note: "provider error together with a valid code and the own state"})
					if obs != nil {
						calls, _ := obs["calls"].([]string)
						if a, _ := obs["jar"].(M)["auth"].(bool); a || obs["class"] == "redirectLocal" || len(calls) > 0 {
							T.oracle("C03", "a callback carrying a provider error yielded a session or contacted the token endpoint", M{"class": obs["class"], "calls": calls}, w.replay())
						}
					}
					w.loggedIn[w.b] = false
				}
				bad := &issuedCode{code: "never-issued"}
				w.callback(ir.state, bad, w.randomTokOpts(rng, true), "", reqSpec{note: "code the provider rejects"}, rng)
				v := w.viewOf(w.jars[w.b])
				if a, _ := v["auth"].(bool); a {
					T.oracle("C03", "session established although the callback carried an error, no code or a rejected code", nil, w.replay())
				}
			}
		case 5: // provider answers with missing / different nonce
			w.visit("/n", reqSpec{note: "initiate"})
			if ir := w.lastInit[w.b]; ir != nil {
				c := w.authorize(ir)
				o := w.randomTokOpts(rng, true)
				if rng.Intn(2) == 0 {
					o.noNonce = true
				} else {
					c.nonce = "some-other-nonce-value-0123456789abcdef"
				}
				r := w.callback(ir.state, c, o, "", reqSpec{note: "token with missing or different nonce"}, rng)
				if r.ok {
					T.oracle("C03", "login completed although the ID token nonce is missing or different", nil, w.replay())
				}
			}
		}
	case "C04":
		if w.rateLimit == 10 { // 14 browsers log in one second apart, then all visit a freshly started instance within the same second
			for b := 0; b < 14; b++ {
				if b > 0 {
					w.newBrowser()
				}
				o := w.randomTokOpts(rng, true)
				o.blob, o.expIn = 0, time.Hour
				w.fullLogin("/start", o, "", rng)
				w.wait(time.Second)
			}
			w.addInstance()
			for b := 0; b < 14; b++ {
				w.switchBrowser(b)
				w.plain("/page", reqSpec{note: "burst of established sessions on a cold instance"}, rng)
			}
			w.switchBrowser(0)
			return
		}
		o := w.randomTokOpts(rng, true)
		o.jti = sc%2 == 0
		o.nbf = sc%3 == 0
		o.blob = []int{0, 300, 3000, 9000, 40000}[sc%5]
		o.expIn = []time.Duration{time.Hour, 3 * time.Hour, 20 * time.Hour}[sc%3]
		if len(w.domains) > 0 && sc%3 == 1 {
			// the provider spells the address its own way (case, surrounding blanks): whatever the deployment makes of it at login, the
			// session that login establishes keeps working - or there is none
			o.email = []interface{}{"Jane.Doe@Example.COM", "user@EXAMPLE.com", "user@example.com ", " user@example.com", "USER@EXAMPLE.COM", "user@Corp.Test"}[sc/3%6]
			T.stat("handler.c04-address-spellings")
		}
		if sc%7 == 3 { // instance replaced between initiation and callback
			w.visit("/start", reqSpec{note: "initiate"})
			w.addInstance()
			if ir := w.lastInit[w.b]; ir != nil {
				w.callback(ir.state, w.authorize(ir), o, "", reqSpec{note: "callback on a fresh instance"}, rng)
			}
		} else {
			rt := ""
			if sc%2 == 1 {
				rt = "rt-c04"
			}
			w.fullLogin("/start", o, rt, rng)
		}
		n := 3 + rng.Intn(12)
		for i := 0; i < n; i++ {
			switch rng.Intn(6) {
			case 0:
				w.addInstance()
			case 1:
				if len(w.insts) > 1 {
					w.cur = rng.Intn(len(w.insts))
					w.rec(M{"op": "inst", "i": w.cur})
				}
			case 2:
				w.wait(time.Duration(1+rng.Intn(1500)) * time.Second)
			}
			rs := reqSpec{method: methodPool[rng.Intn(len(methodPool))], note: "request on the established session"}
			w.plain(w.randomURI(rng, "C04"), rs, rng)
		}
		// the last minutes before the configured grace period begins: still more than the grace period from expiry, so still no
		// provider round-trip (whatever other tolerances the code knows)
		if tok := w.loginTok[w.b]; tok != nil && w.loggedIn[w.b] {
			for _, d := range []int64{200, 89, 59, 31, 2, 1} {
				left := tok.exp - time.Now().Unix()
				if left-int64(w.grace)-d <= 0 || time.Now().Unix()+left-int64(w.grace)-d-w.loginAt[w.b] > 86000 {
					continue
				}
				w.wait(time.Duration(left-int64(w.grace)-d) * time.Second)
				w.plain("/last-minutes", reqSpec{note: fmt.Sprintf("%d s before the refresh grace period begins", d)}, rng)
				T.stat("handler.c04-last-minutes-before-grace")
			}
		}
	case "C08":
		if sc%7 == 5 {
			w.refreshTransition(sc/7, rng)
			return
		}
		if sc%7 == 3 {
			// the provider answers a refresh with an ID token that is already past its exp but still inside the tolerance (accepted), and
			// answers the next refresh - the tolerance now over - with the very same token: that one is refused
			o := w.randomTokOpts(rng, true)
			o.expIn, o.blob, o.jti = 10*time.Minute, 0, false
			if w.fullLogin("/start", o, "rt-same", rng).ok {
				tok := w.loginTok[w.b]
				w.wait(time.Duration(tok.exp-time.Now().Unix()+30) * time.Second)
				oe := w.randomTokOpts(rng, true)
				d := 40 + rng.Intn(40) // seconds past its exp when first presented: the tolerance (120 s) ends 120-d seconds later
				oe.expIn, oe.blob, oe.jti, oe.nbf = -time.Duration(d)*time.Second, 0, false, false
				late := w.mintWith(oe, rng)
				w.plain("/r1", reqSpec{refresh: &tokenAnswer{kind: "ok", idToken: late.raw, refresh: "rt-same"}, note: "refresh answered with a token just past its exp (inside the tolerance)"}, rng)
				w.wait(time.Duration(120-d+3+rng.Intn(d-10)) * time.Second) // (just after the tolerance has ended)
				w.plain("/r2", reqSpec{refresh: &tokenAnswer{kind: "ok", idToken: late.raw, refresh: "rt-same"}, note: "the next refresh answered with the same token, now beyond the tolerance"}, rng)
				w.plain("/r3", reqSpec{refresh: &tokenAnswer{kind: "ok", idToken: late.raw, refresh: "rt-same"}, accept: "application/json", note: "and once more, for a JSON client"}, rng)
				T.stat("handler.refresh.same-expired-token-twice")
			}
			return
		}
		if sc%3 == 1 {
			w.refreshSweep(sc/3, rng, []string{"", "application/json"}[sc%2])
			w.plain("/data3", reqSpec{accept: "application/json", note: "JSON client after the refresh attempt"}, rng)
			return
		}
		o := w.randomTokOpts(rng, true)
		o.expIn = []time.Duration{10 * time.Minute, time.Hour}[sc%2]
		res := w.fullLogin("/start", o, "rt-0", rng)
		if res.ok {
			for chain := 0; chain < 1+rng.Intn(5); chain++ {
				tok := w.loginTok[w.b]
				if tok == nil {
					break
				}
				left := tok.exp - time.Now().Unix()
				switch rng.Intn(4) {
				case 0: // inside the grace period
					w.wait(time.Duration(left-int64(rng.Intn(w.grace-1))-1) * time.Second)
				case 1: // exactly at the boundary ±1 s
					w.wait(time.Duration(left-int64(w.grace)+int64(rng.Intn(3))-1) * time.Second)
				case 2: // expired, still inside the skew window
					w.wait(time.Duration(left+int64(rng.Intn(119))+1) * time.Second)
				default: // long expired
					w.wait(time.Duration(left+121+int64(rng.Intn(4000))) * time.Second)
				}
				rs := reqSpec{note: "refresh-due request"}
				if rng.Intn(3) == 0 {
					rs.accept = "application/json"
				}
				w.plain("/data", rs, rng)
				if !w.loggedIn[w.b] {
					break
				}
			}
		}
	case "C11":
		o := w.randomTokOpts(rng, true)
		o.blob = []int{0, 3000, 9000, 30000}[sc%4]
		rt := []string{"", "rt-short", textWithCompressedLen(rng, 4400+4*(sc%50), alnum), strings.Repeat("R", 5000), textWithCompressedLen(rng, 2004, alnum)}[sc%5]
		if sc%7 == 3 { // logging out of a session whose ID token has run out (with and without refresh token, within and past the skew window)
			o.expIn = 10 * time.Minute
		}
		res := w.fullLogin("/start", o, rt, rng)
		if res.ok {
			for i := 0; i < rng.Intn(3); i++ {
				w.plain("/x", reqSpec{}, rng)
			}
			if sc%7 == 3 {
				if tok := w.loginTok[w.b]; tok != nil {
					w.wait(time.Duration(tok.exp-time.Now().Unix()+[]int64{30, 200, 4000}[sc/7%3]) * time.Second)
				}
			}
			if sc%7 == 5 { // a second logout, and a logout by a browser that never logged in (provider with end-session endpoint, no ID token)
				w.logoutStep(reqSpec{})
				w.logoutStep(reqSpec{note: "second logout"})
				w.newBrowser()
				w.logoutStep(reqSpec{note: "logout without ever having logged in"})
				return
			}
			rs := w.randomReqSpec(rng, "C11")
			rs.method = "GET"
			w.logoutStep(rs)
			for i := 0; i < 4; i++ {
				if rng.Intn(3) == 0 {
					w.addInstance()
				}
				// the provider still honours the refresh token it issued (logging out at the middleware does not revoke it there)
				nt := w.mintWith(w.randomTokOpts(rng, true), rng)
				w.plain(w.randomURI(rng, "C11"), reqSpec{note: "after logout", refresh: &tokenAnswer{kind: "ok", idToken: nt.raw}}, rng)
			}
			if ir := w.lastInit[w.b]; ir != nil && rng.Intn(2) == 0 {
				w.do(reqSpec{rawURI: "/cb?state=stale&code=stale", note: "stale callback after logout"})
			}
		}
	case "C17":
		if sc%5 == 4 && sc%10 != 9 { // own initiation, then the callback with the right state and a code the provider refuses (400, 401 or 403)
			w.visit("/start", reqSpec{note: "initiate"})
			if ir := w.lastInit[w.b]; ir != nil {
				w.callback(ir.state, &issuedCode{code: fmt.Sprintf("stale-or-forged-%d", sc)}, w.randomTokOpts(rng, true), "", reqSpec{note: "own state, a code the provider refuses"}, rng)
				c := w.authorize(ir)
				c.used = true
				w.callback(ir.state, c, w.randomTokOpts(rng, true), "", reqSpec{note: "own state, a code that has been used"}, rng)
			}
			return
		}
		if sc%10 == 9 { // K1: state of the second initiation with a code issued for the first (client-chosen input, healthy provider)
			w.visit("/tab1", reqSpec{note: "tab 1 initiates"})
			ir1 := w.lastInit[w.b]
			w.visit("/tab2", reqSpec{note: "tab 2 initiates"})
			ir2 := w.lastInit[w.b]
			if ir1 != nil && ir2 != nil {
				w.callback(ir2.state, w.authorize(ir1), w.randomTokOpts(rng, true), "", reqSpec{note: "state of the second, code of the first initiation (K1)"}, rng)
			}
			return
		}
		if sc%3 != 0 {
			o := w.randomTokOpts(rng, true)
			w.fullLogin("/start", o, []string{"", "rt-1"}[sc%2], rng)
		} else {
			w.visit("/start", reqSpec{note: "initiate only"})
		}
		w.snapshot()
		if sc%2 == 0 { // systematically: every subset of the session's cookies (main, ID token, refresh token, their chunks) x every kind of damage
			subsets := [][]string{{"m"}, {"a"}, {"r"}, {"a", "r"}, {"m", "a"}, {"m", "r"}, {"m", "a", "r"}, {"a0"}, {"a1"}, {"r0"}, {"a", "a0", "a1"}}
			sub := subsets[(sc/2)%len(subsets)]
			kind := (sc / 2 / len(subsets)) % 8
			for n := range w.jars[w.b].clone() {
				sn := shortName(n)
				for _, want := range sub {
					if sn == want {
						w.tamperCookie(n, kind, rng)
					}
				}
			}
		} else {
			for i := 0; i < 1+rng.Intn(3); i++ {
				w.tamper(rng)
			}
		}
		if sc%4 == 0 {
			w.wait([]time.Duration{23*time.Hour + 59*time.Minute, 24*time.Hour + time.Minute, 40 * 24 * time.Hour}[rng.Intn(map[bool]int{true: 3, false: 2}[sc < 16])]) // (40 days only early in a run: few instances' timers alive)
		}
		rs := w.randomReqSpec(rng, "C17")
		rs.method = "GET"
		rs.origin = ""
		if rs.accept == "application/json" || (strings.Contains(rs.accept, "application/json") && sc%2 == 0) {
			rs.accept = "" // (a browser: the answer to an unusable session is the login redirect, from which the healing login starts)
		}
		names := []string{}
		for n := range w.jars[w.b] {
			names = append(names, n)
		}
		obs := w.plain(w.randomURI(rng, "C17"), rs, rng)
		_ = names
		// heal: a complete login from the resulting jar
		if obs != nil {
			var res loginResult
			if ir := w.lastInit[w.b]; obs["class"] == "redirectAuth" && ir != nil && sc%4 < 2 {
				// the browser follows the very redirect it was just given: the login that response started completes
				res = w.callback(ir.state, w.authorize(ir), w.randomTokOpts(rng, true), "rt-h", reqSpec{xfProto: rs.xfProto, xfHost: rs.xfHost, tls: rs.tls, hdrs: rs.hdrs, note: "heal: callback of the login the damaged request was redirected to"}, rng) // (same origin as the initiation: the provider checks redirect_uri)
			} else {
				res = w.fullLogin("/heal", w.randomTokOpts(rng, true), "rt-h", rng)
			}
			if res.obs != nil && res.obs["class"] != "forward" && res.obs["class"] != "passthrough" { // (a still valid session is simply served)
				T.stat("handler.heal-attempts")
				if !res.ok {
					T.oracle("C17", "a complete login from the jar left by unusable cookies did not succeed", M{"class": res.obs["class"], "code": res.obs["code"]}, w.replay())
				} else {
					o2 := w.plain("/after-heal", reqSpec{}, rng)
					if o2 != nil && o2["class"] != "forward" && w.refDomainOK("user@example.com") && (len(w.roles) == 0 || w.refRolesOK(res.tok)) {
						T.oracle("C17", "request after the healing login was not forwarded", M{"class": o2["class"]}, w.replay())
					}
				}
			}
		}
	case "C16":
		if sc%2 == 0 { // markup in the query of the URI the login will remember (raw, as a browser or attacker page may send it)
			w.visit("/app?q="+[]string{"\"><script>verif-marker</script>", "'><img/src=x/onerror=verif-marker>", "x\"onmouseover=\"verif-marker", "<verif-marker>"}[sc/2%4], reqSpec{note: "request whose URI carries markup"})
		} else {
			w.visit("/start", reqSpec{})
		}
		ir := w.lastInit[w.b]
		st := ""
		if ir != nil {
			st = ir.state
		}
		for i := 0; i < 4; i++ {
			mk := markerPool[rng.Intn(len(markerPool))]
			q := url.Values{}
			switch rng.Intn(8) {
			case 6: // the other parameters of an OAuth error response (RFC 6749 4.1.2.1): error_uri, as an absolute URL carrying markup
				q.Set("error", "access_denied")
				q.Set("error_uri", []string{"https://idp.test/help?code=AADSTS50105&trace=" + mk, "https://idp.test\"onmouseover=\"verif-marker/help", "https://idp.test/help#" + mk, "javascript:verif-marker//" + mk}[rng.Intn(4)])
			case 7:
				q.Set("error", "server_error")
				q.Set("error_description", "see the link")
				q.Set("error_uri", "https://idp.test/help?trace=" + mk)
				q.Set("state", mk)
			case 0:
				q.Set("error", "access_denied")
				q.Set("error_description", mk)
			case 1:
				q.Set("error", mk)
			case 2:
				q.Set("state", mk)
				q.Set("code", "c")
			case 3:
				q.Set("state", st)
				q.Set("code", mk)
			case 4:
				q.Set("state", st)
				q.Set(mk, mk)
			default:
				q.Set("error", "e")
				q.Set("error_description", strings.Repeat(mk, 200))
			}
			rs := w.randomReqSpec(rng, "C16")
			rs.rawURI = "/cb?" + q.Encode()
			rs.note = "callback with markup in a parameter"
			rs.exchange = &tokenAnswer{kind: "4xx", desc: "bad"}
			w.do(rs)
		}
	case "C06", "C10":
		if sc%5 == 4 {
			w.refreshTransition(sc/5, rng)
			return
		}
		if prop == "C06" && sc%2 == 1 {
			w.refreshSweep(sc/2, rng, []string{"", "application/json"}[sc%4/2])
			return
		}
		o := w.randomTokOpts(rng, sc%3 == 0)
		res := w.fullLogin("/start", o, []string{"", "rt-1"}[sc%2], rng)
		if !res.ok && res.obs != nil {
			// rejected login: the follow-up request must not be forwarded
			o2 := w.plain("/x", reqSpec{note: "after a rejected login"}, rng)
			if o2 != nil && o2["class"] == "forward" {
				T.oracle("C06", "request forwarded after a login that was rejected", nil, w.replay())
			}
		}
		if prop == "C10" && res.ok && len(w.tmpls) > 0 && o.expIn > 30*time.Minute {
			// another router of the same process serves this browser in between: the names this instance strips stay its own
			w.plain("/before-other-router", w.randomReqSpec(rng, prop), rng)
			w.otherRouterServes()
			for i := 0; i < 3; i++ {
				w.plain("/after-other-router", w.randomReqSpec(rng, prop), rng)
			}
		}
		if res.ok && sc%3 != 1 { // a second user of the same instance, with groups of their own (listed or not), with a token of another
			// size: the two alternate, and each request is judged on - and forwarded with - its own session's e-mail and token
			w.newBrowser()
			o2 := w.randomTokOpts(rng, true)
			o2.email = "second.user@example.com"
			o2.groups = [][]interface{}{{"staff"}, {"admin", "staff"}, nil, {"other"}}[sc/3%4]
			o2.blob = []int{9000, 0, 3000, 30000}[sc/3%4]
			w.fullLogin("/start-second", o2, []string{"", "rt-2"}[sc/3%2], rng)
			for i := 0; i < 6; i++ {
				w.switchBrowser(i % 2)
				w.plain("/alternating", w.randomReqSpec(rng, prop), rng)
			}
			T.stat("handler.two-users-alternating")
		}
	case "C01":
		if sc%3 == 2 {
			w.refreshSweep(sc/3, rng, "")
			return
		}
		if sc%6 == 3 { // the provider withdraws the key a session's ID token was signed with, long before the token expires
			o := w.randomTokOpts(rng, true)
			o.expIn = []time.Duration{3 * time.Hour, 20 * time.Hour}[sc/6%2]
			if w.fullLogin("/start", o, []string{"", "rt-1"}[sc/6%2], rng).ok {
				w.plain("/before-rotation", reqSpec{}, rng)
				w.snapshot()
				w.rotateKeys(rng)
				outage := sc/6%2 == 0 // (no refresh token in this variant) ... and the provider's key endpoint is down when the instance, its key set having run out, asks for the new one
				if outage {
					w.p.mu.Lock()
					w.p.jwksFail = true
					w.p.mu.Unlock()
					T.stat("handler.key-rotation-with-key-endpoint-outage")
				}
				w.plain("/after-rotation", reqSpec{note: "the session's ID token is signed with a key the provider has withdrawn"}, rng)
				w.plain("/after-rotation-2", reqSpec{}, rng)
				if outage {
					w.p.mu.Lock()
					w.p.jwksFail = false
					w.p.mu.Unlock()
				}
			}
		}
		if sc%2 == 0 {
			w.fullLogin("/start", w.randomTokOpts(rng, true), []string{"", "rt-1"}[sc%2], rng)
			w.snapshot()
		}
		if sc%5 == 1 { // merged jars: main cookie of one session, token cookies of another
			w.newBrowser()
			w.fullLogin("/other", w.randomTokOpts(rng, true), "", rng)
			if len(w.jars) > 1 {
				for _, n := range []string{"_oidc_raczylo_a", "_oidc_raczylo_m"}[rng.Intn(2):][:1] {
					if v, ok := w.jars[0][n]; ok {
						w.jars[1][n] = v
						if bt, ok := w.born["0/"+n]; ok {
							w.born["1/"+n] = bt
						}
						w.rec(M{"op": "jar", "edit": "from", "name": shortName(n), "b": 0})
						w.tampered[1] = true
						T.stat("handler.merged-jars")
					}
				}
			}
		}
	case "C18", "C09": // every flow with tokens at chunk boundaries and request URIs around the cap
		uri := "/long?" + strings.Repeat("u", []int{10, 1000, 1017, 1018, 1019, 1500, 2040, 2060, 2100}[sc%9])
		o := w.randomTokOpts(rng, true)
		o.blob = []int{0, 1400, 1500, 2900, 3000, 4400, 9000, 30000}[sc%8]
		rt := []string{"", "rt-1", textWithCompressedLen(rng, 2000+4*(sc%3-1), alnum), textWithCompressedLen(rng, 6000, alnum)}[sc%4]
		res := w.fullLogin(uri, o, rt, rng)
		if res.ok && prop == "C09" && sc%4 == 1 {
			// key rotation by configuration reload: the same middleware (same name) is rebuilt in this process with another session
			// key.  Cookies minted under the key that is no longer configured are not session content for it, and what it writes is
			// written under the new key.
			newKey := otherSessKeys[3]
			d2 := &down{}
			rot := newInstance(w.p, d2, func(c *oidc.Config) { w.cfgMod(c); c.SessionEncryptionKey = newKey })
			req := httptest.NewRequest("GET", "http://app.test/after-key-rotation", nil)
			w.jars[w.b].addTo(req)
			rec := httptest.NewRecorder()
			rot.ServeHTTP(rec, req)
			T.stat("handler.key-rotation-reloads")
			if d2.calls > 0 {
				T.oracle("C09", "cookies minted under a session key that is no longer configured were accepted as session content by the rebuilt middleware", M{"status": rec.Code}, w.replay())
			}
			fj := jar{}
			fj.apply(rec.Header())
			if len(fj) > 0 {
				read := func(key string) string {
					sm, err := oidc.NewSessionManager(key, w.force, oidc.NewLogger("none"))
					if err != nil {
						return ""
					}
					back := httptest.NewRequest("GET", "http://app.test/", nil)
					fj.addTo(back)
					sd, err := sm.GetSession(back)
					if err != nil {
						return ""
					}
					return sd.GetCSRF() + sd.GetNonce()
				}
				if read(sessKey) != "" {
					T.oracle("C09", "the middleware rebuilt with a new session key writes cookies that open under the old key", nil, w.replay())
				}
				if rec.Code == 302 && read(newKey) == "" {
					T.oracle("C09", "the middleware rebuilt with a new session key writes cookies that do not open under its configured key", nil, w.replay())
				}
			}
		}
		if res.ok {
			w.plain("/x", reqSpec{}, rng)
			if tok := w.loginTok[w.b]; tok != nil && rt != "" { // refresh to a token of another size
				w.wait(time.Duration(tok.exp-time.Now().Unix()-10) * time.Second)
				w.plain("/data", reqSpec{note: "refresh-due request"}, rng)
			}
			w.logoutStep(reqSpec{})
		}
	case "C15":
		u := rawURIs[rng.Intn(len(rawURIs))]
		if w.p.doc != nil && sc%2 == 1 { // relative authorization endpoint: request paths whose directory would make a bad base for it
			u = []string{"/%5Cevil.test/x", "/%5cevil.test/x/y?z=1", "/%5Cevil.test/", "/%2Fevil.test/x/", "//evil.test/x/"}[sc/2%5]
		}
		if sc%3 == 0 { // over-long URI: only the query is long
			u = []string{"/./%5Cevil.test/", "/a/../%5Cevil.test/", "/%09/evil.test/", "/./%2Fevil.test/", "/ok/path"}[sc/3%5] + "?pad=" + strings.Repeat("p", 1000+rng.Intn(300))
		}
		rs := w.randomReqSpec(rng, "C15")
		rs.method = "GET"
		if sc%4 != 3 { // headers in which proxies pass on paths, prefixes and URLs: whatever the code does with them, the post-login redirect stays on the request's own origin
			names := append([]string{"X-Forwarded-Prefix", "X-Forwarded-Uri", "X-Forwarded-Path", "X-Original-URI", "X-Original-URL", "X-Rewrite-URL", "X-Replaced-Path", "Referer", "X-Forwarded-Server", "Forwarded"}, dictHeaderNames()...)
			vals := []string{"/./\\evil.test", "/app/../\\evil.test", "/\t/evil.test", "//evil.test", "/\\evil.test", "https://evil.test", "/app", "app", "/./%5Cevil.test", "evil.test", "for=1.2.3.4;host=evil.test;proto=https"}
			for i := 0; i < 1+rng.Intn(3); i++ {
				rs.hdrs = append(rs.hdrs, [2]string{names[(sc/4+i*7)%len(names)], vals[(sc/4*3+i+rng.Intn(2))%len(vals)]})
			}
		}
		rs.note = "initiate from an odd URI"
		obs := w.visit(u, rs)
		if obs != nil && obs["class"] == "redirectAuth" {
			ir := w.lastInit[w.b]
			// the callback must present the same origin as the initiation (redirect_uri is checked by the provider)
			w.callback(ir.state, w.authorize(ir), w.randomTokOpts(rng, true), "", reqSpec{xfProto: rs.xfProto, xfHost: rs.xfHost, tls: rs.tls, note: "callback: post-login redirect"}, rng)
		}
	}
}

// refreshSweep: login with a refresh token, let the ID token expire (or come within the grace period), then a request whose refresh
// grant is answered with answer kind number `kind` (all kinds are visited systematically over the scenarios)
// refreshTransition: a session whose ID token occupies one cookie (or several chunks) is refreshed to one that occupies several
// chunks (or one cookie), with different groups; the requests that follow carry the identity of the NEW token
func (w *world) refreshTransition(kind int, rng *mrand.Rand) {
	from := []int{0, 0, 9000, 9000, 0, 3000}[kind%6]
	to := []int{0, 9000, 0, 9000, 30000, 0}[kind%6]
	o := w.randomTokOpts(rng, true)
	o.blob, o.expIn, o.groups = from, 10*time.Minute, []interface{}{"admin", "before-refresh"}
	if !w.fullLogin("/start", o, "rt-transition", rng).ok {
		return
	}
	tok := w.loginTok[w.b]
	w.wait(time.Duration(tok.exp-time.Now().Unix()-10) * time.Second)
	o2 := w.randomTokOpts(rng, true)
	o2.blob, o2.expIn, o2.groups = to, time.Hour, []interface{}{"admin", "after-refresh"}
	nt := w.mintWith(o2, rng)
	a := &tokenAnswer{kind: "ok", idToken: nt.raw, refresh: []string{"", w.regOpaque("second-refresh-token")}[kind%2]}
	w.plain("/transition", reqSpec{refresh: a, note: fmt.Sprintf("refresh from a %d-byte-blob token to a %d-byte-blob token", from, to)}, rng)
	w.plain("/after-transition", reqSpec{}, rng)
	w.plain("/after-transition-2", reqSpec{}, rng)
	T.stat("handler.refresh-transitions")
}

func (w *world) refreshSweep(kind int, rng *mrand.Rand, accept string) {
	o := w.randomTokOpts(rng, true)
	o.expIn = 10 * time.Minute
	res := w.fullLogin("/start", o, "rt-sweep", rng)
	if !res.ok {
		return
	}
	tok := w.loginTok[w.b]
	left := tok.exp - time.Now().Unix()
	w.wait(time.Duration(left+[]int64{-5, 30, 200, 4000}[kind%4]) * time.Second)
	var a *tokenAnswer
	mk := func(mod func(o *tokOpts)) *hTok {
		o := w.randomTokOpts(rng, true)
		mod(&o)
		return w.mintWith(o, rng)
	}
	switch kind % 12 {
	case 0:
		a = &tokenAnswer{kind: "noidtoken"}
		if (kind/12)%2 == 1 { // ... but a JWT access token for this client and user
			a.access = mk(func(o *tokOpts) { o.extra = M{"aud": []string{"cid", "https://api.example.com"}} }).raw
			T.stat("handler.refresh.no-id-token-jwt-access-token")
		}
	case 1:
		a = &tokenAnswer{kind: "ok", idToken: mk(func(o *tokOpts) { o.email = nil }).raw} // no e-mail claim
	case 2:
		a = &tokenAnswer{kind: "ok", idToken: mk(func(o *tokOpts) { o.email = "" }).raw}
	case 3:
		a = &tokenAnswer{kind: "ok", idToken: mk(func(o *tokOpts) { o.email = 7 }).raw}
	case 4:
		a = &tokenAnswer{kind: "ok", idToken: mk(func(o *tokOpts) { o.email = []string{"user@example.com"} }).raw}
	case 5:
		a = &tokenAnswer{kind: "ok", idToken: mk(func(o *tokOpts) { o.email = "user@evil.test" }).raw, refresh: w.regOpaque("rt-new")}
	case 6:
		a = &tokenAnswer{kind: "ok", idToken: mk(func(o *tokOpts) { o.valid = false }).raw}
	case 7:
		a = &tokenAnswer{kind: "ok", idToken: mk(func(o *tokOpts) { o.expIn = -time.Hour }).raw}
	case 8:
		a = &tokenAnswer{kind: "invalid_grant", desc: "revoked", verbose: (kind/12)%2 == 1}
	case 9:
		a = &tokenAnswer{kind: []string{"500", "malformed", "neterr", "invalid_client"}[rng.Intn(4)]}
	case 10:
		a = &tokenAnswer{kind: "ok", idToken: mk(func(o *tokOpts) { o.groups = "not-an-array" }).raw, refresh: w.regOpaque("rt-new2")}
	default:
		a = &tokenAnswer{kind: "ok", idToken: mk(func(o *tokOpts) {}).raw}
	}
	w.plain("/data", reqSpec{refresh: a, accept: accept, note: fmt.Sprintf("refresh-due request, answer kind %d", kind%12)}, rng)
	w.plain("/data2", reqSpec{note: "request after the refresh attempt"}, rng)
}

func (w *world) newBrowser() {
	w.jars = append(w.jars, jar{})
	w.b = len(w.jars) - 1
	w.rec(M{"op": "browser", "b": w.b})
}

func (w *world) switchBrowser(b int) {
	w.b = b
	w.rec(M{"op": "browser", "b": w.b})
}

// randomWalk: weighted random operations; the weights depend on the property the run is for
func (w *world) randomWalk(prop string, rng *mrand.Rand, n int) {
	for i := 0; i < n; i++ {
		switch p := rng.Intn(100); {
		case p < 30: // plain request
			w.plain(w.randomURI(rng, prop), w.randomReqSpec(rng, prop), rng)
		case p < 48: // full login
			good := rng.Intn(4) != 0
			if prop == "C06" {
				good = rng.Intn(2) == 0
			}
			rt := []string{"", "rt-w", strings.Repeat("r", 3000)}[rng.Intn(3)]
			w.fullLogin(w.randomURI(rng, prop), w.randomTokOpts(rng, good), rt, rng)
		case p < 54: // initiation only
			w.visit(w.randomURI(rng, prop), reqSpec{note: "initiate only"})
		case p < 60: // callback with some state
			var ir *initRec
			if l := w.allInits[w.b]; len(l) > 0 {
				ir = l[rng.Intn(len(l))]
			}
			if ir != nil {
				switch rng.Intn(5) {
				case 4:
					c := w.authorize(ir)
					o := w.randomTokOpts(rng, true)
					o.nonce = c.nonce
					tok := w.mintWith(o, rng)
					obs := w.do(reqSpec{rawURI: "/cb?error=server_error&error_description=x&state=" + url.QueryEscape(ir.state) + "&code=" + c.code, exchange: &tokenAnswer{kind: "ok", idToken: tok.raw}, note: "provider error together with a code"})
					if obs != nil && obs["class"] == "redirectLocal" {
						T.oracle("C03", "a callback carrying a provider error yielded a session or contacted the token endpoint", M{"class": obs["class"]}, w.replay())
					}
				case 0:
					w.callback(ir.state, w.authorize(ir), w.randomTokOpts(rng, true), "", reqSpec{note: "callback with a (possibly stale) state"}, rng)
				case 1:
					w.callback("foreign-state", w.authorize(ir), w.randomTokOpts(rng, true), "", reqSpec{note: "callback with a foreign state"}, rng)
				case 2:
					w.callback(ir.state, &issuedCode{code: "bogus"}, w.randomTokOpts(rng, true), "", reqSpec{note: "callback with a bogus code", accept: acceptPool[rng.Intn(3)]}, rng)
				default:
					o := w.randomTokOpts(rng, true)
					o.valid = rng.Intn(2) == 0
					if rng.Intn(3) == 0 {
						o.email = nil
					}
					w.callback(ir.state, w.authorize(ir), o, "", reqSpec{note: "callback answered with a defective ID token"}, rng)
				}
			}
		case p < 66:
			w.logoutStep(w.randomReqSpec(rng, "C11"))
		case p < 80: // time passes
			w.wait([]time.Duration{time.Second, time.Minute, 9 * time.Minute, 50 * time.Minute, 61 * time.Minute, 5 * time.Hour, 19 * time.Hour, 25 * time.Hour}[rng.Intn(8)])
		case p < 86:
			if prop == "C01" || prop == "C17" || prop == "C09" || rng.Intn(3) == 0 {
				w.tamper(rng)
			}
		case p < 89:
			w.snapshot()
		case p < 93:
			if rng.Intn(2) == 0 && len(w.insts) < 4 {
				w.addInstance()
			} else {
				w.cur = rng.Intn(len(w.insts))
				w.rec(M{"op": "inst", "i": w.cur})
			}
		default:
			if len(w.jars) < 3 && rng.Intn(2) == 0 {
				w.newBrowser()
			} else {
				w.switchBrowser(rng.Intn(len(w.jars)))
			}
		}
	}
}
