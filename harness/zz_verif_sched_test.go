package traefikoidc_test

// Family "sched" (C05): concurrent requests under a deterministic scheduler. Every method of the ResponseWriter, every call
// into the provider and every entry into the downstream handler is a scheduling point: the goroutine announces itself and parks
// until the scheduler grants it the next segment, so between two scheduling points a request runs alone. A schedule is a list
// of request indices. Each response is emitted as a step of the handler protocol for the request's own browser: the model's
// prediction is what serving that request alone produces (the isolation theorem). Real goroutines, real time.

import (
	"strings"
	"fmt"
	"net/http"
	"net/http/httptest"
	"net/url"
	"sync"
	"sync/atomic"
	"testing"
	"time"

	oidc "github.com/lukaszraczylo/traefikoidc"
)

type scheduler struct {
	active  int32
	cur     int32
	ask     chan int
	fin     chan int
	grant   []chan struct{}
	points  []int
	downBy  map[int]int
	hdrsBy  map[int]http.Header
	callsBy map[int][]M
	mu      sync.Mutex
}

func (s *scheduler) yield(point string) {
	if atomic.LoadInt32(&s.active) == 0 {
		return
	}
	id := int(atomic.LoadInt32(&s.cur))
	s.mu.Lock()
	s.points[id]++
	s.mu.Unlock()
	s.ask <- id
	<-s.grant[id]
}

// yielding ResponseWriter
type yw struct {
	rec *httptest.ResponseRecorder
	s   *scheduler
}

func (w *yw) Header() http.Header         { w.s.yield("Header"); return w.rec.Header() }
func (w *yw) WriteHeader(c int)           { w.s.yield("WriteHeader"); w.rec.WriteHeader(c) }
func (w *yw) Write(b []byte) (int, error) { w.s.yield("Write"); return w.rec.Write(b) }

type schedReq struct {
	b    int     // browser
	rs   reqSpec // request
	kind string
}

// runSchedule serves the requests on one instance under the schedule; returns the recorders, whether each finished, and whether
// the run got stuck (no runnable request makes progress for 3 s of real time)
func (w *world) runSchedule(reqs []schedReq, sched []int) ([]*httptest.ResponseRecorder, []*http.Request, [][][]string, []string, bool) {
	n := len(reqs)
	s := &scheduler{ask: make(chan int), fin: make(chan int, n), grant: make([]chan struct{}, n), points: make([]int, n), downBy: map[int]int{}, hdrsBy: map[int]http.Header{}, callsBy: map[int][]M{}}
	for i := range s.grant {
		s.grant[i] = make(chan struct{})
	}
	inst, d := w.insts[w.cur], w.downs[w.cur]
	recs := make([]*httptest.ResponseRecorder, n)
	hreqs := make([]*http.Request, n)
	chdrs := make([][][]string, n)
	panics := make([]string, n)
	for i, q := range reqs {
		w.b = q.b
		rs := q.rs
		hreqs[i], chdrs[i] = w.prep(&rs)
		reqs[i].rs = rs
		recs[i] = httptest.NewRecorder()
	}
	// provider and downstream are scheduling points and attribute their effects to the running request
	w.p.sched = func(point string) { s.yield(point) }
	if w.refreshByRT != nil {
		w.p.onRefresh = func(form url.Values) tokenAnswer {
			if a, ok := w.refreshByRT[form.Get("refresh_token")]; ok {
				return a
			}
			return tokenAnswer{kind: "invalid_grant", desc: "unknown refresh token"}
		}
	}
	d.sched = func(point string) {
		s.yield(point)
	}
	defer func() { w.p.sched = nil; d.sched = nil }()
	d.mu.Lock()
	baseCalls := d.calls
	d.mu.Unlock()
	_ = baseCalls
	started := make([]bool, n)
	waiting := make([]bool, n)
	finished := make([]bool, n)
	stuck := false
	atomic.StoreInt32(&s.active, 1)
	settle := func(i int) {
		for !waiting[i] && !finished[i] {
			select {
			case id := <-s.ask:
				waiting[id] = true
			case id := <-s.fin:
				finished[id] = true
			case <-time.After(3 * time.Second):
				stuck = true
				return
			}
		}
	}
	step := func(i int) {
		if finished[i] || stuck {
			return
		}
		atomic.StoreInt32(&s.cur, int32(i))
		// effects between now and the next scheduling point belong to request i
		d.mu.Lock()
		c0 := d.calls
		d.mu.Unlock()
		w.p.takeCalls()
		if !started[i] {
			started[i] = true
			go func(i int) {
				defer func() {
					if pv := recover(); pv != nil {
						panics[i] = fmt.Sprint(pv)
					}
					s.fin <- i
				}()
				inst.ServeHTTP(&yw{rec: recs[i], s: s}, hreqs[i])
			}(i)
		} else {
			waiting[i] = false
			s.grant[i] <- struct{}{}
		}
		settle(i)
		d.mu.Lock()
		if d.calls > c0 {
			s.downBy[i] += d.calls - c0
			s.hdrsBy[i] = d.hdrs
		}
		d.mu.Unlock()
		s.callsBy[i] = append(s.callsBy[i], w.p.takeCalls()...)
	}
	for _, i := range sched {
		step(i)
	}
	for i := 0; i < n; i++ {
		for !finished[i] && !stuck {
			step(i)
		}
	}
	atomic.StoreInt32(&s.active, 0)
	if stuck { // release everything that is parked so that the goroutines can end
		for i := 0; i < n; i++ {
			if waiting[i] && !finished[i] {
				select {
				case s.grant[i] <- struct{}{}:
				default:
				}
			}
		}
	}
	w.schedInfo = s
	return recs, hreqs, chdrs, panics, stuck
}

func familySched(t *testing.T) {
	realTime = true
	rng := T.rng
	defer guard()
	nRounds := T.size(10, 60)
	for round := 0; round < nRounds; round++ {
		w := newWorld(round, rng)
		w.rng = rng
		w.p.via303 = round%2 == 1 // every other round: a token endpoint that parks its answer behind a redirect and a cookie
		// browsers: 0 anonymous, 1 logged in (small token), 2 logged in (multi-chunk token + refresh token), 3 anonymous with a pending login
		o1 := w.randomTokOpts(rng, true)
		o1.blob, o1.jti, o1.expIn = 0, false, time.Hour
		o2 := w.randomTokOpts(rng, true)
		o2.blob, o2.expIn = 3000+rng.Intn(6000), time.Hour
		o2.email = "admin@corp.test"
		if len(w.domains) > 0 && !inList(w.domains, "corp.test") {
			o2.email = "second@example.com"
		}
		w.newBrowser() // 1
		w.fullLogin("/one", o1, "", rng)
		w.newBrowser() // 2
		w.fullLogin("/two", o2, "rt-two", rng)
		w.newBrowser() // 3
		w.visit("/three", reqSpec{note: "initiate only"})
		ir3 := w.lastInit[3]
		// 4 and 5: logged in with an ID token inside the grace period and JWT-looking refresh tokens (same first characters):
		// their next request performs a refresh grant
		o4, o5 := w.randomTokOpts(rng, true), w.randomTokOpts(rng, true)
		o4.blob, o4.jti, o4.expIn, o4.email = 0, false, 20*time.Second, "fourth@example.com"
		o5.blob, o5.jti, o5.expIn, o5.email = 0, false, 20*time.Second, "fifth@example.com"
		if len(w.domains) > 0 && !inList(w.domains, "example.com") {
			o4.email, o5.email = "fourth@"+w.domains[0], "fifth@"+w.domains[0]
		}
		rt4, rt5 := "eyJhbGciOiJSUzI1NiJ9.refresh-four", "eyJhbGciOiJSUzI1NiJ9.refresh-five"
		w.newBrowser() // 4
		w.fullLogin("/four", o4, rt4, rng)
		w.newBrowser() // 5
		w.fullLogin("/five", o5, rt5, rng)
		refreshAns := map[string]tokenAnswer{}
		w.refreshByRT = refreshAns
		w.switchBrowser(0)
		if !w.loggedIn[1] || !w.loggedIn[2] || ir3 == nil {
			continue // configuration rejected the logins (allow-lists): nothing to interleave
		}
		haveRefreshers := w.loggedIn[4] && w.loggedIn[5]
		mkRefresh := func(b int, rt string, o tokOpts, path string) schedReq {
			o.expIn = time.Hour
			tok := w.mintWith(o, rng)
			a := tokenAnswer{kind: "ok", idToken: tok.raw, refresh: rt}
			if round%4 >= 2 { // a provider that does not rotate refresh tokens: the answer has no refresh_token member, the session keeps its own
				a.refresh = ""
			}
			refreshAns[rt] = a
			return schedReq{b: b, rs: reqSpec{rawURI: path, refresh: &a}, kind: fmt.Sprintf("refresh%d", b)}
		}
		// the request kinds
		kinds := map[string]func() schedReq{
			"anon":   func() schedReq { return schedReq{b: 0, rs: reqSpec{rawURI: "/x"}, kind: "anon"} },
			"auth1":  func() schedReq { return schedReq{b: 1, rs: reqSpec{rawURI: "/y"}, kind: "auth1"} },
			"auth2":  func() schedReq { return schedReq{b: 2, rs: reqSpec{rawURI: "/z"}, kind: "auth2"} },
			"logout": func() schedReq { return schedReq{b: 2, rs: reqSpec{rawURI: w.logout}, kind: "logout"} },
			"callback": func() schedReq {
				c := w.authorize(ir3)
				o := w.randomTokOpts(rng, true)
				o.nonce = c.nonce
				o.email = "third@example.com"
				if len(w.domains) > 0 {
					o.email = "third@" + w.domains[0]
				}
				tok := w.mintWith(o, rng)
				w.answerByCode[c.code] = tokenAnswer{kind: "ok", idToken: tok.raw}
				return schedReq{b: 3, rs: reqSpec{rawURI: "/cb?state=" + url.QueryEscape(ir3.state) + "&code=" + c.code, exchange: &tokenAnswer{kind: "ok", idToken: tok.raw}}, kind: "callback"}
			},
			"garbage":  func() schedReq { return schedReq{b: 0, rs: reqSpec{rawURI: "/g"}, kind: "garbage"} },
			"refresh4": func() schedReq { return mkRefresh(4, rt4, o4, "/r4") },
			"refresh5": func() schedReq { return mkRefresh(5, rt5, o5, "/r5") },
		}
		pairs := [][]string{{"anon", "auth1"}, {"anon", "auth2"}, {"anon", "anon"}, {"auth1", "auth2"}, {"anon", "logout"}, {"auth1", "logout"}, {"anon", "callback"}, {"auth1", "callback"}, {"anon", "auth1", "auth2"},
			{"refresh4", "refresh5"}, {"auth1", "refresh4"}, {"anon", "refresh5"}, {"refresh4", "logout"}, {"refresh5", "callback"}, {"refresh4", "refresh5", "auth2"}}
		pair := pairs[round%len(pairs)]
		if strings.HasPrefix(pair[0], "refresh") || strings.HasPrefix(pair[1], "refresh") {
			if !haveRefreshers {
				continue
			}
		}
		// snapshot of the jars: every schedule starts from the same browser state
		saved := []jar{}
		snapID := []int{}
		for k, j := range w.jars {
			saved = append(saved, j.clone())
			w.switchBrowser(k)
			w.snapshot()
			snapID = append(snapID, len(w.snaps)-1)
		}
		w.switchBrowser(0)
		loggedIn, rtOf, loginTok := copyBoolMap(w.loggedIn), copyStrMap(w.rtOf), copyTokMap(w.loginTok)
		maxCut := 14
		// what each request of the pair is answered when it is served alone: the two schedules with cut 0 run the requests one
		// after the other (the first one has not taken a step when the others run to completion)
		solo := map[string]map[string]bool{}
		for cut := 0; cut <= maxCut; cut++ {
			for order := 0; order < 2; order++ {
				for k, j := range saved {
					w.jars[k] = j.clone()
					if k < len(snapID) {
						w.switchBrowser(k)
						w.rec(M{"op": "jarreset", "snap": snapID[k]})
					}
				}
				w.switchBrowser(0)
				w.loggedIn, w.rtOf, w.loginTok = copyBoolMap(loggedIn), copyStrMap(rtOf), copyTokMap(loginTok)
				reqs := []schedReq{}
				for _, k := range pair {
					reqs = append(reqs, kinds[k]())
				}
				// a browser may take part only once per batch
				seen := map[int]bool{}
				ok := true
				for _, q := range reqs {
					if seen[q.b] && q.kind != "anon" {
						ok = false
					}
					seen[q.b] = true
				}
				if !ok {
					continue
				}
				if pair[0] == "anon" && pair[1] == "anon" { // two anonymous browsers
					w.newBrowser()
					reqs[1].b = len(w.jars) - 1
					w.switchBrowser(0)
				}
				// schedule: the first request advances `cut` segments, then the others run to completion, then the first finishes
				sched := []int{}
				first, rest := 0, []int{1}
				if order == 1 {
					first, rest = 1, []int{0}
				}
				if len(reqs) == 3 {
					rest = append(rest, 2)
					if T.thorough() || cut%2 == 0 { // sampled triples: random interleaving after the cut
						for i := 0; i < 20; i++ {
							rest = append(rest, rng.Intn(3))
						}
					}
				}
				for i := 0; i < cut; i++ {
					sched = append(sched, first)
				}
				for _, rq := range rest {
					for i := 0; i < 40; i++ {
						sched = append(sched, rq)
					}
				}
				w.rec(M{"op": "note", "schedule": fmt.Sprintf("%v cut=%d order=%d", pair, cut, order)})
				recs, hreqs, chdrs, panics, stuck := w.runSchedule(reqs, sched)
				T.stat("sched.schedules")
				replay := M{"family": "sched", "seed": T.seed, "round": round, "pair": pair, "cut": cut, "order": order}
				if stuck {
					T.oracle("C05", "concurrent requests deadlocked (no progress for 3 s)", M{"pair": pair, "cut": cut}, replay)
					break
				}
				s := w.schedInfo
				for i, q := range reqs {
					if panics[i] != "" {
						T.oracle("C05", "handler panicked under concurrent load", M{"kind": q.kind, "panic": trunc(panics[i], 200)}, replay)
					}
					// the observation of this request, for its own browser, as one step of the handler protocol
					w.switchBrowser(q.b)
					var ax *tokenAnswer
					for _, c := range s.callsBy[i] {
						if c["kind"] == "exchange" {
							if a, ok := w.answerByCode[fmt.Sprint(c["code"])]; ok {
								ax = &a
							}
						}
					}
					rs := q.rs
					rs.note = fmt.Sprintf("concurrent %s (%v cut=%d order=%d)", q.kind, pair, cut, order)
					obs := w.observe(rs, hreqs[i], chdrs[i], recs[i], panics[i], s.callsBy[i], s.downBy[i], s.hdrsBy[i], ax)
					if obs == nil {
						continue
					}
					T.stat("sched.requests." + q.kind)
					// ---- C05 oracles, independent of the model
					cls := fmt.Sprint(obs["class"])
					if cut == 0 && len(reqs) == 2 {
						if solo[q.kind] == nil {
							solo[q.kind] = map[string]bool{}
						}
						solo[q.kind][cls] = true
					} else if len(solo[q.kind]) > 0 && !solo[q.kind][cls] && panics[i] == "" {
						T.oracle("C05", "a request served concurrently is answered differently from the same request served alone", M{"kind": q.kind, "concurrent": cls, "alone": fmt.Sprint(solo[q.kind])}, replay)
					}
					jv := obs["jar"].(M)
					if obs["class"] == "redirectAuth" {
						loc := obs["loc"].(M)
						if loc["state"] != jv["csrf"] || loc["nonce"] != jv["nonce"] {
							T.oracle("C05", "state or nonce of the login redirect does not match the cookie of the same response", M{"kind": q.kind, "location_state": loc["state"], "cookie_csrf": jv["csrf"]}, replay)
						}
					}
					if q.kind == "anon" || q.kind == "garbage" {
						if a, _ := jv["auth"].(bool); a || jv["a"] != "" || jv["email"] != "" || obs["class"] == "forward" {
							T.oracle("C05", "an anonymous request received another request's session", M{"kind": q.kind, "jar": jv, "class": obs["class"]}, replay)
						}
					}
					// the refresh token in a browser's cookies is its own: the one it had, or the one the provider answered its own grant with
					if own := map[string]string{"refresh4": rt4, "refresh5": rt5, "auth2": "rt-two"}[q.kind]; own != "" {
						if r, _ := jv["r"].(string); r != "" && r != w.tokID(own) {
							T.oracle("C05", "a browser's cookies hold a refresh token that is not its own (another request's tokens)", M{"kind": q.kind, "stored": r, "own": w.tokID(own)}, replay)
						}
					}
					if q.kind == "callback" || q.kind == "auth1" || q.kind == "anon" { // these browsers were never given a refresh token
						if r, _ := jv["r"].(string); r != "" {
							T.oracle("C05", "a browser that was never given a refresh token holds one (another request's tokens)", M{"kind": q.kind, "stored": r}, replay)
						}
					}
					if obs["class"] == "forward" {
						want := map[string]string{"auth1": fmt.Sprint(o1.email), "auth2": fmt.Sprint(o2.email), "refresh4": fmt.Sprint(o4.email), "refresh5": fmt.Sprint(o5.email)}[q.kind]
						hd, _ := obs["hdrs"].([]string)
						if want != "" && !inList(hd, "X-Forwarded-User="+want) {
							T.oracle("C05", "a forwarded request carries another request's identity", M{"kind": q.kind, "hdrs": hd, "want": want}, replay)
						}
					}
				}
				w.switchBrowser(0)
				// how many scheduling points did the first request have? no need to cut beyond them
				if cut > s.points[first]+1 {
					break
				}
			}
		}
	}
	stress(rng)
	coldBurst()
	refreshBurst()
	rotationOverlap()
	staleKeyBurst()
	T.finish()
}

func copyBoolMap(m map[int]bool) map[int]bool {
	c := map[int]bool{}
	for k, v := range m {
		c[k] = v
	}
	return c
}
func copyStrMap(m map[int]string) map[int]string {
	c := map[int]string{}
	for k, v := range m {
		c[k] = v
	}
	return c
}
func copyTokMap(m map[int]*hTok) map[int]*hTok {
	c := map[int]*hTok{}
	for k, v := range m {
		c[k] = v
	}
	return c
}

// stress: many goroutines against one instance without the scheduler (with -race in the thorough tier): distinct browsers,
// each response must be the one of its own browser
func stress(rng interface{ Intn(int) int }) {
	p := newProvider(keys()["p256a"])
	p.via303 = true // the token endpoint parks its answers behind a redirect and a cookie (the code keeps a cookie jar for that)
	d := &down{}
	inst := newInstance(p, d, nil)
	users := 16
	jars := make([]jar, users)
	// every forwarded request carries the identity of the browser that sent it (the path names the browser)
	identityBad := make(chan string, 16)
	d.check = func(r *http.Request) {
		var u int
		if _, err := fmt.Sscanf(r.URL.Path, "/u%d", &u); err == nil {
			if got, want := r.Header.Get("X-Forwarded-User"), fmt.Sprintf("user%d@example.com", u); got != want {
				select {
				case identityBad <- fmt.Sprintf("request of browser %d forwarded with X-Forwarded-User=%q", u, got):
				default:
				}
			}
		}
	}
	// the provider honours each refresh token for its own user, after a short pause (the grant is in flight for a while);
	// the refresh tokens look like JWTs: they share their first characters
	rtUser := map[string]int{}
	p.onRefresh = func(form url.Values) tokenAnswer {
		u, ok := rtUser[form.Get("refresh_token")]
		if !ok {
			return tokenAnswer{kind: "invalid_grant", desc: "unknown refresh token"}
		}
		time.Sleep(2 * time.Millisecond)
		cl := stdClaims(time.Now(), time.Hour)
		cl["email"] = fmt.Sprintf("user%d@example.com", u)
		return tokenAnswer{kind: "ok", idToken: stdToken(p.keys[0], cl), refresh: form.Get("refresh_token")}
	}
	for u := 0; u < users; u++ {
		jars[u] = jar{}
		switch {
		case u%4 == 3: // anonymous
		case u%4 == 1: // logged in with an ID token inside the grace period: the first request of the run refreshes
			rt := fmt.Sprintf("eyJhbGciOiJSUzI1NiJ9.refresh-token-of-user-%d", u)
			rtUser[rt] = u
			loginWith(inst, p, jars[u], fmt.Sprintf("user%d@example.com", u), 20*time.Second, rt)
		default:
			simpleLoginAs(inst, p, jars[u], fmt.Sprintf("user%d@example.com", u))
		}
	}
	var wg sync.WaitGroup
	bad := make(chan string, 64)
	iters := T.size(300, 1500)
	var progress atomic.Int64
	stop := make(chan struct{})
	// the instance's periodic housekeeping (the one-minute ticker's body), compressed in time, next to the traffic
	hkRuns := 0
	hkDone := make(chan struct{})
	go func() {
		defer close(hkDone)
		defer func() { recover() }()
		for {
			select {
			case <-stop:
				return
			default:
			}
			if !housekeeping(inst) {
				return
			}
			hkRuns++
			if hkRuns%64 == 0 {
				time.Sleep(50 * time.Microsecond)
			}
		}
	}()
	// configuration reloads while traffic is served: further instances (other routers, other excluded prefixes, other limits) are
	// built in the same process; they share nothing with the serving instance
	reloadDone := make(chan struct{})
	go func() {
		defer close(reloadDone)
		defer func() { recover() }()
		for n := 0; n < 40; n++ {
			select {
			case <-stop:
				return
			default:
			}
			cfg := baseConfig(p)
			cfg.ExcludedURLs = []string{fmt.Sprintf("/reload-%d", n), "/u1"}
			cfg.RateLimit = 10 + n
			cfg.Headers = []oidc.TemplatedHeader{{Name: fmt.Sprintf("X-Reload-%d", n), Value: "{{.Claims.sub}}"}}
			oidc.New(nil, &down{}, cfg, "verif")
			time.Sleep(3 * time.Millisecond)
		}
	}()
	for u := 0; u < users; u++ {
		wg.Add(1)
		go func(u int) {
			defer wg.Done()
			defer func() {
				if pv := recover(); pv != nil {
					select {
					case bad <- fmt.Sprintf("panic: %v", pv):
					default:
					}
				}
			}()
			for i := 0; i < iters; i++ {
				req := httptest.NewRequest("GET", fmt.Sprintf("http://app.test/u%d", u), nil)
				jars[u].addTo(req)
				rec := httptest.NewRecorder()
				inst.ServeHTTP(rec, req)
				jars[u].apply(rec.Header()) // (each browser's jar is used by its own goroutine only)
				progress.Add(1)
				if u%4 != 3 && rec.Code != 200 {
					select {
					case bad <- fmt.Sprintf("logged-in browser answered %d", rec.Code):
					default:
					}
				}
				if u%4 != 3 {
					d.mu.Lock()
					d.mu.Unlock()
				}
				if u%4 == 3 && rec.Code == 200 {
					select {
					case bad <- "anonymous browser was forwarded":
					default:
					}
				}
			}
		}(u)
	}
	done := make(chan struct{})
	go func() { wg.Wait(); close(done) }()
	// watchdog: no request completes for 10 s although requests are outstanding = the instance hangs
	last, idle := int64(-1), 0
	tick := time.NewTicker(time.Second)
	defer tick.Stop()
loop:
	for {
		select {
		case <-done:
			break loop
		case <-tick.C:
			if n := progress.Load(); n == last {
				idle++
				if idle >= 10 {
					T.oracle("C05", "requests hang under concurrent load with the periodic housekeeping running (no request completed for 10 s)", M{"completed": n, "of": users * iters, "housekeeping_cycles": hkRuns}, M{"family": "sched", "stress": true})
					return
				}
			} else {
				last, idle = n, 0
			}
		}
	}
	close(stop)
	<-hkDone
	<-reloadDone
	// ---- first visits in parallel: every login redirect's state and nonce are the ones in the cookie of that very response
	{
		sm, _ := oidc.NewSessionManager(sessKey, false, oidc.NewLogger("none"))
		var swg sync.WaitGroup
		mismatch := make(chan string, 8)
		visits := T.size(500, 3000)
		for g := 0; g < 12; g++ {
			swg.Add(1)
			go func(g int) {
				defer swg.Done()
				defer func() { recover() }()
				for i := 0; i < visits; i++ {
					req := httptest.NewRequest("GET", fmt.Sprintf("http://app.test/first/%d/%d", g, i), nil)
					rec := httptest.NewRecorder()
					inst.ServeHTTP(rec, req)
					loc, err := url.Parse(rec.Header().Get("Location"))
					if rec.Code != 302 || err != nil {
						continue
					}
					back := httptest.NewRequest("GET", "http://app.test/", nil)
					fj := jar{} // a fresh browser applies the Set-Cookie lines of the response (replace / delete semantics)
					fj.apply(rec.Header())
					fj.addTo(back)
					sd, err := sm.GetSession(back)
					if err != nil {
						continue
					}
					if st, no := loc.Query().Get("state"), loc.Query().Get("nonce"); st != sd.GetCSRF() || no != sd.GetNonce() || sd.GetIncomingPath() != req.URL.Path {
						select {
						case mismatch <- fmt.Sprintf("Location state=%.8s nonce=%.8s, cookie csrf=%.8s nonce=%.8s path=%s (requested %s)", st, no, sd.GetCSRF(), sd.GetNonce(), sd.GetIncomingPath(), req.URL.Path):
						default:
						}
						return
					}
				}
			}(g)
		}
		swg.Wait()
		close(mismatch)
		for m := range mismatch {
			T.oracle("C05", "concurrent first visits: the state or nonce of a login redirect is not the one in the cookie of the same response", M{"what": m}, M{"family": "sched", "stress": true})
			break
		}
		T.statN("sched.stress.first-visits", 12*visits)
	}
	close(bad)
	for b := range bad {
		T.oracle("C05", "concurrent load: "+b, nil, M{"family": "sched", "stress": true})
	}
	close(identityBad)
	for b := range identityBad {
		T.oracle("C05", "concurrent load: a forwarded request carries another browser's identity", M{"what": b}, M{"family": "sched", "stress": true})
	}
	T.statN("sched.stress.requests", users*iters)
	T.statN("sched.stress.housekeeping-cycles", hkRuns)
}

func simpleLoginAs(inst http.Handler, p *provider, j jar, email string) bool {
	return simpleLogin(inst, p, j, email, time.Hour)
}

// coldBurst (C04, C05): a burst of requests of established sessions reaches an instance whose key cache is empty (a freshly started
// instance; any instance after the hourly clean-up has emptied its cache) while the key-set answer is in flight. Each of them is
// served as it would be alone: forwarded, no cookie touched.
func coldBurst() {
	p := newProvider(keys()["p256a"])
	instA := newInstance(p, &down{}, nil)
	n := 8
	jars := make([]jar, n)
	for u := range jars {
		jars[u] = jar{}
		if !simpleLoginAs(instA, p, jars[u], fmt.Sprintf("user%d@example.com", u)) {
			return
		}
	}
	rounds := T.size(3, 12)
	for round := 0; round < rounds; round++ {
		d := &down{}
		instB := newInstance(p, d, nil)
		p.mu.Lock()
		p.jwksDelay = 20 * time.Millisecond
		p.mu.Unlock()
		codes := make([]int, n)
		setc := make([]int, n)
		var wg sync.WaitGroup
		for u := 0; u < n; u++ {
			wg.Add(1)
			go func(u int) {
				defer wg.Done()
				defer func() {
					if pv := recover(); pv != nil {
						codes[u] = -1
					}
				}()
				req := httptest.NewRequest("GET", fmt.Sprintf("http://app.test/u%d", u), nil)
				jars[u].addTo(req)
				rec := httptest.NewRecorder()
				instB.ServeHTTP(rec, req)
				codes[u], setc[u] = rec.Code, len(rec.Header()["Set-Cookie"])
			}(u)
		}
		wg.Wait()
		p.mu.Lock()
		p.jwksDelay = 0
		p.mu.Unlock()
		lost := 0
		for u := range codes {
			if codes[u] != 200 {
				lost++
			}
		}
		T.statN("sched.cold-burst.requests", n)
		if lost > 0 {
			obs := M{"statuses": codes, "set_cookie_lines": setc, "not_forwarded": lost, "of": n}
			rp := M{"family": "sched", "coldBurst": true, "what": "8 browsers log in on one instance; a second instance (same session key, nothing cached) is sent one request of each at the same moment while the key set takes 20 ms to arrive"}
			T.oracle("C04", "an established session is not honoured when several requests reach an instance with an empty key cache together", obs, rp)
			T.oracle("C05", "a request is answered differently because others are in flight (empty key cache, key set being fetched)", obs, rp)
			return
		}
	}
}

// refreshBurst (C05, C08): many browsers whose ID tokens are inside the grace period send a request at the same moment, and the
// provider takes a while to answer each refresh grant: every request is answered (forwarded with the identity of its own browser);
// the number of grants in flight at once must not matter.
func refreshBurst() {
	p := newProvider(keys()["p256a"])
	d := &down{}
	inst := newInstance(p, d, nil)
	users := T.size(24, 64)
	jars := make([]jar, users)
	rtUser := map[string]int{}
	p.onRefresh = func(form url.Values) tokenAnswer {
		u, ok := rtUser[form.Get("refresh_token")]
		if !ok {
			return tokenAnswer{kind: "invalid_grant", desc: "unknown refresh token"}
		}
		time.Sleep(40 * time.Millisecond)
		cl := stdClaims(time.Now(), time.Hour)
		cl["email"] = fmt.Sprintf("user%d@example.com", u)
		return tokenAnswer{kind: "ok", idToken: stdToken(p.keys[0], cl), refresh: form.Get("refresh_token")}
	}
	for u := range jars {
		jars[u] = jar{}
		rt := fmt.Sprintf("refresh-token-of-user-%d", u)
		rtUser[rt] = u
		if !loginWith(inst, p, jars[u], fmt.Sprintf("user%d@example.com", u), 20*time.Second, rt) {
			return
		}
	}
	var wrongIdentity atomic.Int64
	d.check = func(r *http.Request) {
		var u int
		if _, err := fmt.Sscanf(r.URL.Path, "/u%d", &u); err == nil && r.Header.Get("X-Forwarded-User") != fmt.Sprintf("user%d@example.com", u) {
			wrongIdentity.Add(1)
		}
	}
	codes := make([]atomic.Int64, users)
	var answered atomic.Int64
	start := make(chan struct{})
	for u := 0; u < users; u++ {
		go func(u int) {
			defer func() {
				if pv := recover(); pv != nil {
					codes[u].Store(-1)
					answered.Add(1)
				}
			}()
			req := httptest.NewRequest("GET", fmt.Sprintf("http://app.test/u%d", u), nil)
			jars[u].addTo(req)
			rec := httptest.NewRecorder()
			<-start
			inst.ServeHTTP(rec, req)
			codes[u].Store(int64(rec.Code))
			answered.Add(1)
		}(u)
	}
	close(start)
	deadline := time.Now().Add(10 * time.Second)
	for answered.Load() < int64(users) && time.Now().Before(deadline) {
		time.Sleep(10 * time.Millisecond)
	}
	T.statN("sched.refresh-burst.requests", users)
	rp := M{"family": "sched", "refreshBurst": true, "what": fmt.Sprintf("%d browsers with ID tokens inside the grace period and a refresh token each send one request at the same moment; the provider answers each refresh grant after 40 ms", users)}
	if n := answered.Load(); n < int64(users) {
		T.oracle("C05", "requests hang under concurrent load: refreshes in flight at the same time are never answered (no progress for 10 s)", M{"answered": n, "of": users}, rp)
		return
	}
	notOK := 0
	for u := range codes {
		if codes[u].Load() != 200 {
			notOK++
		}
	}
	if notOK > 0 {
		T.oracle("C05", "a request is answered differently because other refreshes are in flight", M{"not_forwarded": notOK, "of": users}, rp)
		T.oracle("C08", "a refresh that the provider grants does not lead to the request being forwarded when other refreshes are in flight", M{"not_forwarded": notOK, "of": users}, rp)
	}
	if n := wrongIdentity.Load(); n > 0 {
		T.oracle("C05", "concurrent refreshes: a forwarded request carries another browser's identity", M{"count": n}, rp)
	}
}

// rotationOverlap (C05; needs the hooks): the provider withdraws a signing key; a request that already holds the old key set is held
// at its key conversion while another request makes the instance fetch the new key set. Afterwards every request is answered as
// it would be on an instance that serves it alone: a token signed with the withdrawn key is no longer accepted.
func rotationOverlap() {
	if !hooksOn {
		return
	}
	k1, k2 := keys()["p256a"], keys()["p256b"]
	for round := 0; round < T.size(2, 6); round++ {
		p := newProvider(k1, k2)
		inst := newInstance(p, &down{}, nil)
		jx, jy := jar{}, jar{}
		if !loginWith(inst, p, jx, "x@example.com", time.Hour, "") { // (signed with the first key: k1)
			return
		}
		p.mu.Lock()
		p.keys = []*signKey{k2, k1}
		p.mu.Unlock()
		if !loginWith(inst, p, jy, "y@example.com", time.Hour, "") { // (signed with k2)
			return
		}
		serve := func(h http.Handler, j jar, path string) int {
			req := httptest.NewRequest("GET", "http://app.test"+path, nil)
			j.addTo(req)
			rec := httptest.NewRecorder()
			func() {
				defer func() {
					if recover() != nil {
						rec.Code = -1
					}
				}()
				h.ServeHTTP(rec, req)
			}()
			return rec.Code
		}
		before := serve(inst, jx, "/x0")
		expireKeySet(inst) // an ordinary hourly refresh of the key set is due (k1 is still published)
		entered, release := make(chan struct{}), make(chan struct{})
		var once sync.Once
		restore := onKeyConversion(func(string) {
			first := false
			once.Do(func() { first = true })
			if first {
				close(entered)
				<-release
			}
		})
		r1 := make(chan int, 1)
		go func() { r1 <- serve(inst, jx, "/x1") }() // holds the key set it was given; stops at its key conversion
		reached := true
		select {
		case <-entered:
		case <-time.After(3 * time.Second):
			reached = false
		}
		var c2 int
		if reached {
			p.mu.Lock()
			p.keys = []*signKey{k2} // the provider withdraws k1 ...
			p.mu.Unlock()
			expireKeySet(inst)           // ... the cached key set runs out ...
			c2 = serve(inst, jy, "/y1") // ... and this request makes the instance fetch the new one
		}
		once.Do(func() {})
		close(release)
		c1 := <-r1
		restore()
		if !reached {
			continue
		}
		after := serve(inst, jx, "/x2")
		solo := serve(newInstance(p, &down{}, nil), jx, "/x2") // the same request on an instance that serves nothing else
		T.stat("sched.rotation-overlaps")
		if after != solo {
			T.oracle("C05", "a request is answered differently from serving it alone: after two requests overlapped around a key-set refresh, a token signed with a key the provider has withdrawn is accepted",
				M{"before_withdrawal": before, "held_request": c1, "refetching_request": c2, "afterwards": after, "served_alone": solo},
				M{"family": "sched", "rotationOverlap": true, "what": "X logs in under key k1, Y under k2; a refresh of the key set is due; X's request fetches it and is held at its key conversion; the provider withdraws k1 and the key cache runs out; Y's request refetches; X's request is released; X's next request is compared with the same request on a fresh instance"})
			return
		}
	}
}

// staleKeyBurst (C17, C05): right after a restart with a new session key, every active browser presents cookies made under the old
// key - at the same moment, to an instance that has served nothing yet. Each is answered with a login redirect and new cookies;
// the process survives.
func staleKeyBurst() {
	p := newProvider(keys()["p256a"])
	old := newInstance(p, &down{}, func(c *oidc.Config) { c.SessionEncryptionKey = otherSessKeys[2] })
	n := 12
	jars := make([]jar, n)
	for u := range jars {
		jars[u] = jar{}
		if !simpleLoginAs(old, p, jars[u], fmt.Sprintf("user%d@example.com", u)) {
			return
		}
	}
	rounds := T.size(60, 400)
	for round := 0; round < rounds; round++ {
		h, err := oidc.New(nil, &down{}, baseConfig(p), "verif") // (requests wait for its initialisation and are released together)
		if err != nil {
			return
		}
		codes := make([]int, n)
		var wg sync.WaitGroup
		for u := 0; u < n; u++ {
			wg.Add(1)
			go func(u int) {
				defer wg.Done()
				defer func() {
					if recover() != nil {
						codes[u] = -1
					}
				}()
				req := httptest.NewRequest("GET", fmt.Sprintf("http://app.test/u%d", u), nil)
				jars[u].addTo(req)
				rec := httptest.NewRecorder()
				h.ServeHTTP(rec, req)
				codes[u] = rec.Code
			}(u)
		}
		wg.Wait()
		T.statN("sched.stale-key-burst.requests", n)
		for u := range codes {
			if codes[u] != 302 {
				rp := M{"family": "sched", "staleKeyBurst": true, "what": "12 browsers hold sessions made under another session key; a freshly built instance is sent one request of each at the same moment"}
				T.oracle("C17", "cookies made under a session key that is no longer configured are not answered with a login redirect when several such requests arrive together", M{"statuses": codes}, rp)
				T.oracle("C05", "a request is answered differently because others are in flight (cookies under an old key, fresh instance)", M{"statuses": codes}, rp)
				return
			}
		}
	}
}
