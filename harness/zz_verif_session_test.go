package traefikoidc_test

// Family "session" (C07, C09, C18): the SessionManager API as a black box, through a browser jar.
//   C07: getters on the next request return exactly the last written values (reference map, byte equality);
//   C18: every Set-Cookie line: attributes and exact byte length (compared with the Lean length arithmetic);
//   C09: keyless analysis of every emitted value, and a tamper matrix (a non-authentic value reads like an absent cookie).

import (
	"crypto/hmac"
	"crypto/sha256"
	"crypto/cipher"
	"crypto/aes"
	"bytes"
	"compress/gzip"
	"encoding/base64"
	"encoding/gob"
	"fmt"
	"hash"
	"crypto/sha1"
	"crypto/sha512"
	mrand "math/rand"
	"net/http"
	"net/http/httptest"
	"net/url"
	"os"
	"strings"
	"testing"
	"testing/synctest"
	"time"

	oidc "github.com/lukaszraczylo/traefikoidc"
)

type sRef struct {
	access, refresh, email, csrf, nonce, ver, inc string
	auth                                          bool
	created                                       int64
}

type sessRun struct {
	aging  bool
	renew  bool // a session kept alive past 24 h: every few hours it is re-authenticated with a new ID token and the same refresh token
	born   map[string]int64 // browser semantics: when the cookie of that name was last set, and the Max-Age it was set with
	maxAge map[string]int64
	edge   bool // the last seconds of the 24-hour limit: a save at age 86399 s, at 86400 s, and one second later
	sm     *oidc.SessionManager
	force  bool
	jar    jar
	ref    sRef
	savedRef sRef // the reference as of the last Save that succeeded (what the jar holds)
	lastSaveAt int64 // when that was: a Save writes every cookie anew, so 24 h later the browser has dropped them all
	known  bool // the reference describes the jar (false after tampering)
	toks   map[string]string // raw -> id
	nTok   int
	hist   []M
	snaps  []jar
	h      int
	secrets []string
}

func (s *sessRun) rec(m M) {
	s.hist = append(s.hist, m)
	T.emit(m)
}

// applyHeaders: the browser takes over the Set-Cookie lines of a response, remembering for each cookie when it was set and for how long
func (s *sessRun) applyHeaders(h http.Header) {
	if s.born == nil {
		s.born, s.maxAge = map[string]int64{}, map[string]int64{}
	}
	resp := http.Response{Header: h}
	now := time.Now().Unix()
	for _, c := range resp.Cookies() {
		if c.MaxAge > 0 {
			s.born[c.Name], s.maxAge[c.Name] = now, int64(c.MaxAge)
		} else {
			delete(s.born, c.Name)
			delete(s.maxAge, c.Name)
		}
	}
	s.jar.apply(h)
}

// expireInBrowser: a cookie is dropped once the Max-Age it was set with has run out (the model is told which)
func (s *sessRun) expireInBrowser() {
	now := time.Now().Unix()
	names := []string{}
	for n := range s.jar {
		names = append(names, n)
	}
	sortStrings(names)
	for _, n := range names {
		if ma, ok := s.maxAge[n]; ok && now-s.born[n] > ma {
			if sn := shortName(n); sn != "" {
				delete(s.jar, n)
				s.rec(M{"op": "jar", "edit": "drop", "name": sn})
				T.stat("session.cookies-expired-in-browser")
			}
		}
	}
}

func (s *sessRun) replay() interface{} {
	h := s.hist
	if len(h) > 150 {
		h = h[len(h)-150:]
	}
	return M{"family": "session", "seed": T.seed, "history": s.h, "ops": h}
}

func (s *sessRun) tokID(raw string) string {
	if raw == "" {
		return ""
	}
	if id, ok := s.toks[raw]; ok {
		return id
	}
	return "?"
}

func (s *sessRun) reg(raw string) string {
	if raw == "" {
		return ""
	}
	if id, ok := s.toks[raw]; ok {
		return id
	}
	s.nTok++
	id := fmt.Sprintf("S%d_%d", s.h, s.nTok)
	s.toks[raw] = id
	s.rec(M{"op": "tok", "id": id, "parses": false, "valid": false, "accFrom": 0, "accTo": 0, "exp": 0, "clen": compressedLen(raw), "rawLen": len(raw)})
	return id
}

// incompressible text whose compressed length is exactly `target` (a multiple of 4), found by adjusting the length
func textWithCompressedLen(rng *mrand.Rand, target int, alphabet string) string {
	n := target * 3 / 4
	mk := func(n int) string {
		b := make([]byte, n)
		for i := range b {
			b[i] = alphabet[rng.Intn(len(alphabet))]
		}
		return string(b)
	}
	base := mk(n + 400)
	lo, hi := 0, len(base)
	for lo < hi { // smallest prefix whose compressed length reaches the target
		mid := (lo + hi) / 2
		if compressedLen(base[:mid]) < target {
			lo = mid + 1
		} else {
			hi = mid
		}
	}
	for d := 0; d < 40 && lo+d <= len(base); d++ {
		if compressedLen(base[:lo+d]) == target {
			return base[:lo+d]
		}
	}
	return base[:lo]
}

const alnum = "abcdefghijklmnopqrstuvwxyzABCDEFGHIJKLMNOPQRSTUVWXYZ0123456789-_"

func (s *sessRun) randomToken(rng *mrand.Rand) string {
	switch rng.Intn(14) {
	case 0:
		return ""
	case 1:
		return "x"
	case 2:
		return strings.Repeat("a", 100+rng.Intn(30000)) // highly compressible
	case 3, 4, 5, 6: // exactly at and around a chunk boundary after compression
		k := 1 + rng.Intn(6)
		if rng.Intn(6) == 0 {
			k = 7 + rng.Intn(6)
		}
		return textWithCompressedLen(rng, k*2000+[]int{-8, -4, 0, 0, 4, 8}[rng.Intn(6)], alnum)
	case 7:
		b := make([]byte, 200+rng.Intn(6000)) // arbitrary bytes
		rng.Read(b)
		return string(b)
	case 8: // looks like base64 of gzip (what the store itself produces); short, or — with incompressible content — longer than a chunk
		var buf bytes.Buffer
		gz := gzip.NewWriter(&buf)
		if rng.Intn(2) == 0 {
			gz.Write([]byte(strings.Repeat("inner", 50+rng.Intn(500))))
		} else {
			b := make([]byte, 1200+rng.Intn(6000))
			rng.Read(b)
			gz.Write(b)
		}
		gz.Close()
		return base64.StdEncoding.EncodeToString(buf.Bytes())
	case 9: // base64 that is not gzip
		b := make([]byte, 30+rng.Intn(3000))
		rng.Read(b)
		return base64.StdEncoding.EncodeToString(b)
	case 10:
		if rng.Intn(3) == 0 { // beyond every power-of-two buffer size one might think of: 33-70 KB of text
			n := []int{32767, 32768, 32769, 40000, 65535, 65536, 65537, 70000}[rng.Intn(8)]
			b := make([]byte, n)
			for i := range b {
				b[i] = alnum[rng.Intn(len(alnum))]
			}
			return string(b)
		}
		return textWithCompressedLen(rng, 10000+4*rng.Intn(8000), alnum) // tens of kilobytes
	default:
		n := 300 + rng.Intn(1500)
		b := make([]byte, n)
		for i := range b {
			b[i] = alnum[rng.Intn(len(alnum))]
		}
		return "eyJhbGciOiJSUzI1NiJ9." + string(b) + ".sig"
	}
}

func (s *sessRun) view(j jar) M {
	defer func() { recover() }()
	r2 := httptest.NewRequest("GET", "http://app.test/", nil)
	j.addTo(r2)
	sd, err := s.sm.GetSession(r2)
	if err != nil {
		return M{"error": "session-error"}
	}
	cnt := func(base string) int {
		n := 0
		for {
			if _, ok := j[fmt.Sprintf("%s_%d", base, n)]; !ok {
				return n
			}
			n++
		}
	}
	return M{"auth": sd.GetAuthenticated(), "email": sd.GetEmail(), "csrf": sd.GetCSRF(), "nonce": sd.GetNonce(), "ver": sd.GetCodeVerifier(),
		"inc": sd.GetIncomingPath(), "a": s.tokID(sd.GetAccessToken()), "r": s.tokID(sd.GetRefreshToken()), "ac": cnt("_oidc_raczylo_a"), "rc": cnt("_oidc_raczylo_r")}
}

// keylessCheck: what a party without the key can get out of a cookie value, layer by layer
func keylessCheck(prop, name, value string, secrets []string, replay func() interface{}) {
	layers := []string{value}
	if b, err := base64.URLEncoding.DecodeString(value); err == nil {
		layers = append(layers, string(b))
		parts := strings.SplitN(string(b), "|", 3)
		if len(parts) == 3 {
			// the authenticator recomputed under every MAC key a party WITHOUT the deployment's key can compute (all-zero keys of the
			// usual lengths, public constants, other deployments' keys): if one of them reproduces the cookie's tag, that party can
			// authenticate cookies of its own making under this name
			{
				tag := []byte(parts[2]) // (securecookie appends the raw tag bytes)
				for _, hk := range publicMacKeys() {
					for _, h := range []func() hash.Hash{sha256.New, sha512.New, sha1.New} {
						m := hmac.New(h, hk)
						m.Write([]byte(name + "|" + parts[0] + "|" + parts[1]))
						if hmac.Equal(m.Sum(nil), tag) {
							T.oracle(prop, "the cookie's authenticator can be computed without the deployment's key (a modified or self-made cookie can be re-authenticated)", M{"cookie": name, "mac_key_len": len(hk)}, replay())
						}
					}
				}
			}
			if body, err := base64.URLEncoding.DecodeString(parts[1]); err == nil {
				layers = append(layers, string(body))
				// would a gob decoder read it?
				var m map[interface{}]interface{}
				if gob.NewDecoder(bytes.NewReader(body)).Decode(&m) == nil && len(m) > 0 {
					T.oracle(prop, "cookie content is readable without the key (gob-decodable)", M{"cookie": name, "keys": len(m)}, replay())
				}
				// decryption with every block key a party WITHOUT the deployment's key can compute: the code's own derivation applied
				// to keys of its choosing, and digests / prefixes of those keys and of public constants (the MAC is simply skipped)
				for _, bk := range publicBlockKeys() {
					if blk, err := aes.NewCipher(bk); err == nil && len(body) > blk.BlockSize() {
						iv, ct := body[:blk.BlockSize()], body[blk.BlockSize():]
						pt := make([]byte, len(ct))
						cipher.NewCTR(blk, iv).XORKeyStream(pt, ct)
						layers = append(layers, string(pt))
						var m2 map[interface{}]interface{}
						if gob.NewDecoder(bytes.NewReader(pt)).Decode(&m2) == nil && len(m2) > 0 {
							T.oracle(prop, "cookie content decrypts without the deployment's key (block key computable from public information)", M{"cookie": name, "keys": len(m2)}, replay())
						}
						for _, tokenish := range findBase64Runs(string(pt)) {
							if raw, err := base64.StdEncoding.DecodeString(tokenish); err == nil {
								if gz, err := gzip.NewReader(bytes.NewReader(raw)); err == nil {
									var out bytes.Buffer
									out.ReadFrom(gz)
									layers = append(layers, out.String())
								}
							}
						}
					}
				}
				// decompression of anything that looks like the compressed token text
				for _, tokenish := range findBase64Runs(string(body)) {
					if raw, err := base64.StdEncoding.DecodeString(tokenish); err == nil {
						if gz, err := gzip.NewReader(bytes.NewReader(raw)); err == nil {
							var out bytes.Buffer
							out.ReadFrom(gz)
							layers = append(layers, out.String())
						}
					}
				}
			}
		}
	}
	for _, sec := range secrets {
		if len(sec) < 8 {
			continue
		}
		probe := []string{sec}
		if len(sec) > 48 { // any 16-byte window of a long secret
			probe = append(probe, sec[:16], sec[len(sec)/2:len(sec)/2+16], sec[len(sec)-16:])
		}
		for _, l := range layers {
			for _, p := range probe {
				if strings.Contains(l, p) {
					T.oracle(prop, "cookie discloses session content without the key", M{"cookie": name, "found_len": len(p)}, replay())
					return
				}
			}
		}
	}
	T.stat("keyless.values-analysed")
}

var publicKeysOnce [][]byte

// publicBlockKeys: AES keys computable without the deployment's session key
func publicBlockKeys() [][]byte {
	if publicKeysOnce != nil {
		return publicKeysOnce
	}
	var out [][]byte
	add := func(b []byte) {
		for _, n := range []int{16, 24, 32} {
			if len(b) >= n {
				out = append(out, append([]byte{}, b[:n]...))
			}
		}
	}
	cands := append([]string{"", "traefikoidc", "0123456789abcdef0123456789abcdef"}, otherSessKeys[0], otherSessKeys[3], otherSessKeys[4])
	for _, k := range cands {
		if bk := deriveBlockKeyOf(k); bk != nil {
			out = append(out, bk)
		}
		h := sha256.Sum256([]byte(k))
		out = append(out, h[:])
		add([]byte(k))
	}
	out = append(out, make([]byte, 32))
	publicKeysOnce = out
	return out
}

var publicMacOnce [][]byte

// publicMacKeys: HMAC keys computable without the deployment's session key
func publicMacKeys() [][]byte {
	if publicMacOnce != nil {
		return publicMacOnce
	}
	var out [][]byte
	for _, n := range []int{0, 1, 16, 24, 32, 48, 64, len(sessKey), len(sessKey) + 1, 128} {
		out = append(out, make([]byte, n))
	}
	for _, k := range append([]string{"traefikoidc", "secret", "0123456789abcdef0123456789abcdef"}, otherSessKeys[0], otherSessKeys[3], otherSessKeys[4]) {
		out = append(out, []byte(k))
		h := sha256.Sum256([]byte(k))
		out = append(out, h[:])
		if bk := deriveBlockKeyOf(k); bk != nil {
			out = append(out, bk)
		}
	}
	publicMacOnce = out
	return out
}

func findBase64Runs(s string) []string {
	var out []string
	cur := []byte{}
	for i := 0; i < len(s); i++ {
		c := s[i]
		if (c >= 'A' && c <= 'Z') || (c >= 'a' && c <= 'z') || (c >= '0' && c <= '9') || c == '+' || c == '/' || c == '=' {
			cur = append(cur, c)
		} else {
			if len(cur) >= 24 {
				out = append(out, string(cur))
			}
			cur = cur[:0]
		}
	}
	if len(cur) >= 24 {
		out = append(out, string(cur))
	}
	return out
}

func (s *sessRun) lineCheck(line string) (short string, n int, deleted bool) {
	name := line
	if i := strings.IndexByte(line, '='); i >= 0 {
		name = line[:i]
	}
	short = shortName(name)
	val := line[len(name)+1:]
	if i := strings.IndexByte(val, ';'); i >= 0 {
		val = val[:i]
	}
	deleted = strings.Contains(line, "Max-Age=0")
	fail := func(sig string) {
		T.oracle("C18", sig, M{"line_prefix": trunc(line, 100), "len": len(line)}, s.replay())
	}
	T.stat("session.set-cookie-lines")
	if !strings.HasPrefix(name, "_oidc_raczylo_") {
		fail("Set-Cookie without the _oidc_raczylo_ name prefix")
	}
	if len(line) > 4096 {
		fail("Set-Cookie line longer than 4096 bytes")
	}
	low := strings.ToLower(line)
	if !strings.Contains(low, "; path=/;") && !strings.HasSuffix(low, "; path=/") {
		fail("Set-Cookie without Path=/")
	}
	if !strings.Contains(low, "; httponly") {
		fail("Set-Cookie without HttpOnly")
	}
	if !strings.Contains(low, "; samesite=lax") {
		fail("Set-Cookie without SameSite=Lax")
	}
	if s.force && !strings.Contains(low, "; secure") {
		fail("Set-Cookie without Secure although forceHTTPS is enabled")
	}
	if i := strings.Index(low, "max-age="); i >= 0 {
		var ma int
		fmt.Sscanf(low[i+8:], "%d", &ma)
		if ma > 86400 {
			fail("cookie lifetime above 24 hours")
		}
	} else {
		fail("cookie without Max-Age: nothing bounds its lifetime (the browser keeps it for the whole browsing session)")
	}
	if strings.Contains(low, "; domain=") {
		fail("Set-Cookie with a Domain attribute")
	}
	if !deleted {
		keylessCheck("C09", name, val, s.secrets, s.replay)
	}
	return short, len(line), deleted
}

func familySession(t *testing.T) {
	rng := T.rng
	synctest.Test(t, func(t *testing.T) {
		defer guard()
		if T.prop == "C09" {
			configGate()
			contentSweep(rng)
			configuredKeys()
		}
		nHist := T.size(70, 600)
		for h := 0; h < nHist; h++ {
			s := &sessRun{jar: jar{}, toks: map[string]string{}, known: true, h: h, force: h%3 == 0}
			s.sm, _ = oidc.NewSessionManager(sessKey, s.force, oidc.NewLogger("none"))
			s.rec(M{"op": "snew", "secure": s.force})
			nReq := 1 + rng.Intn(10)
			s.aging = h%8 == 5 // a session that grows older than 24 h while its cookies are renewed by requests every few hours
			if s.aging {
				nReq = 5 + rng.Intn(4)
			}
			s.renew = h%8 == 7
			if s.renew {
				nReq = 5 + rng.Intn(3)
			}
			s.edge = h%8 == 6
			if s.edge {
				nReq = 4
				T.stat("session.lifetime-edge-histories")
			}
			for q := 0; q < nReq; q++ {
				s.request(rng, q)
				if s.aging || s.renew {
					time.Sleep(9*time.Hour + time.Duration(rng.Intn(3600))*time.Second)
				}
				if s.edge { // renewed one second before the limit, exactly at it, and one second past it
					time.Sleep([]time.Duration{86399 * time.Second, time.Second, time.Second, time.Second}[q])
					synctest.Wait()
					continue
				}
				time.Sleep([]time.Duration{0, time.Second, time.Minute, time.Hour, 5 * time.Hour}[rng.Intn(5)])
				synctest.Wait()
				if T.prop == "C09" || rng.Intn(6) == 0 {
					s.tamperMatrix(rng)
				}
			}
		}
		T.finish()
	})
}

// contentSweep (C09): session contents of every size up to and beyond what one cookie can hold. Only the main cookie can approach the
// codec's length limit, so one of its fields is grown byte by byte across that limit; every value that is emitted is analysed without
// the key (whether the Save succeeds or fails is not judged here: sizes beyond what the handler stores are outside C17/C18).
func contentSweep(rng *mrand.Rand) {
	for _, force := range []bool{false, true} {
		sm, _ := oidc.NewSessionManager(sessKey, force, oidc.NewLogger("none"))
		step := 1
		if !T.thorough() {
			step = 1
		}
		for n := 1500; n <= 2500; n += step {
			secret := fmt.Sprintf("sweep-%d-", n) + strings.Repeat("e", n-10) + "@example.com"
			r := httptest.NewRequest("GET", "http://app.test/", nil)
			sd, err := sm.GetSession(r)
			if err != nil {
				continue
			}
			sd.SetAuthenticated(true)
			switch n % 3 {
			case 0:
				sd.SetEmail(secret)
			case 1:
				sd.SetIncomingPath(secret)
			default:
				sd.SetEmail(secret[:len(secret)/2])
				sd.SetCSRF(secret[len(secret)/2:])
			}
			rec := httptest.NewRecorder()
			sd.Save(r, rec)
			for _, line := range rec.Header()["Set-Cookie"] {
				name := line[:strings.IndexByte(line, '=')]
				val := line[len(name)+1:]
				if i := strings.IndexByte(val, ';'); i >= 0 {
					val = val[:i]
				}
				if val != "" {
					keylessCheck("C09", name, val, []string{secret, secret[:len(secret)/2], secret[len(secret)/2:]}, func() interface{} {
						return M{"family": "session", "sweep": "main-cookie content", "content_bytes": len(secret), "field": []string{"email", "incoming_path", "email+csrf"}[n%3], "forceHTTPS": force}
					})
				}
			}
			T.stat("session.content-sweep.saves")
		}
	}
}

func (s *sessRun) request(rng *mrand.Rand, q int) {
	now := time.Now().Unix()
	scheme := "http"
	r := httptest.NewRequest("GET", scheme+"://app.test/", nil)
	if rng.Intn(3) == 0 {
		// what a reverse proxy in front adds (path prefix it stripped, original URI, scheme, host): the cookie attributes are the fixed ones
		for _, h := range [][2]string{{"X-Forwarded-Prefix", "/internal/tools/grafana"}, {"X-Forwarded-Uri", "/internal/tools/grafana/d/1"}, {"X-Original-URI", "/internal/x"},
			{"X-Forwarded-Host", "tools.example.org"}, {"X-Forwarded-Proto", []string{"http", "https"}[rng.Intn(2)]}, {"X-Forwarded-Port", "8443"}, {"X-Script-Name", "/app"}}[rng.Intn(3):][:3+rng.Intn(2)] {
			r.Header.Set(h[0], h[1])
		}
		T.stat("session.requests-with-proxy-headers")
	}
	s.expireInBrowser()
	if s.lastSaveAt != 0 && now-s.lastSaveAt > 86400 {
		// no Save has succeeded for more than 24 hours: every cookie's Max-Age has run out in the browser, nothing is left to read
		s.ref, s.savedRef = sRef{}, sRef{}
	}
	if rng.Intn(4) == 0 {
		s.jar.addToLines(r, 1+rng.Intn(3)) // the cookies arrive in several Cookie header lines
		T.stat("session.requests-with-several-cookie-lines")
	} else {
		s.jar.addTo(r)
	}
	if rng.Intn(4) == 0 {
		// cookies the middleware never set, under names that look like its chunk cookies (a hostile or broken client): they are
		// not session content, and whatever the response does about them stays within the limits of every other line
		for _, n := range [][]string{{"_oidc_raczylo_a_" + strings.Repeat("0", 4200)}, {"_oidc_raczylo_r_+7", "_oidc_raczylo_a_007"}, {"_oidc_raczylo_r_" + strings.Repeat("0", 3000) + "1", "_oidc_raczylo_a_-0"},
			{"_oidc_raczylo_a_99999999999999999999999", "_oidc_raczylo_m_0", "_oidc_raczylo_a_1e3"}}[rng.Intn(4)] {
			r.Header.Add("Cookie", n+"=x") // (a line of its own: AddCookie would fold everything into the first line)
		}
		T.stat("session.requests-with-lookalike-cookies")
	}
	sd, err := s.sm.GetSession(r)
	if err != nil {
		T.oracle("C17", "GetSession failed on a jar of the deployment's own cookies", M{"err": err.Error()}, s.replay())
		return
	}
	s.rec(M{"op": "sreq", "now": now})
	// ---- C07 oracle: the getters return exactly what was last written
	overAge := s.ref.created != 0 && now-s.ref.created > 86400
	if s.known && !overAge {
		got := sRef{access: sd.GetAccessToken(), refresh: sd.GetRefreshToken(), email: sd.GetEmail(), csrf: sd.GetCSRF(), nonce: sd.GetNonce(), ver: sd.GetCodeVerifier(), inc: sd.GetIncomingPath(), auth: sd.GetAuthenticated(), created: s.ref.created}
		if got != s.ref {
			diff := []string{}
			chk := func(n, a, b string) {
				if a != b {
					diff = append(diff, fmt.Sprintf("%s: read %d bytes, last written %d bytes", n, len(a), len(b)))
				}
			}
			chk("ID token", got.access, s.ref.access)
			chk("refresh token", got.refresh, s.ref.refresh)
			chk("email", got.email, s.ref.email)
			chk("csrf", got.csrf, s.ref.csrf)
			chk("nonce", got.nonce, s.ref.nonce)
			chk("verifier", got.ver, s.ref.ver)
			chk("incoming path", got.inc, s.ref.inc)
			if got.auth != s.ref.auth {
				diff = append(diff, "authenticated flag")
			}
			T.oracle("C07", "next request does not read back the most recently written values", M{"differences": diff, "request": q}, s.replay())
		}
		T.stat("session.c07-readbacks")
	}
	if s.known && overAge {
		// the implicit clear of an over-age session is a clear like any other: everything written before it reads back empty
		got := sRef{access: sd.GetAccessToken(), refresh: sd.GetRefreshToken(), email: sd.GetEmail(), csrf: sd.GetCSRF(), nonce: sd.GetNonce(), ver: sd.GetCodeVerifier(), inc: sd.GetIncomingPath(), auth: sd.GetAuthenticated()}
		if got != (sRef{}) {
			diff := []string{}
			for _, f := range [][2]string{{"ID token", got.access}, {"refresh token", got.refresh}, {"email", got.email}, {"csrf", got.csrf}, {"nonce", got.nonce}, {"verifier", got.ver}, {"incoming path", got.inc}} {
				if f[1] != "" {
					diff = append(diff, fmt.Sprintf("%s: read %d bytes after the clear", f[0], len(f[1])))
				}
			}
			if got.auth {
				diff = append(diff, "authenticated flag")
			}
			T.oracle("C07", "a session cleared for its age (24 h) still reads back values written before the clear", M{"differences": diff, "request": q}, s.replay())
		}
		T.stat("session.c07-overage-readbacks")
	}
	if !s.known || overAge {
		// unknown or over-age jar: resynchronise the reference from what is read now
		s.ref = sRef{access: sd.GetAccessToken(), refresh: sd.GetRefreshToken(), email: sd.GetEmail(), csrf: sd.GetCSRF(), nonce: sd.GetNonce(), ver: sd.GetCodeVerifier(), inc: sd.GetIncomingPath(), auth: sd.GetAuthenticated()}
		s.savedRef = s.ref
		s.known = true
	}
	rec := httptest.NewRecorder()
	saves := 1
	if rng.Intn(5) == 0 && !s.edge {
		saves = 2 // several saves in one response
	}
	for sv := 0; sv < saves; sv++ {
		nW := rng.Intn(5)
		if (s.aging || s.edge) && q == 0 && sv == 0 { // scripted: a login with tokens of several chunks each
			for _, field := range []string{"access", "refresh"} {
				tok := textWithCompressedLen(rng, (2+rng.Intn(3))*2000+rng.Intn(900), alnum)
				id := s.reg(tok)
				if field == "access" {
					sd.SetAccessToken(tok)
					s.ref.access = tok
				} else {
					sd.SetRefreshToken(tok)
					s.ref.refresh = tok
				}
				s.secrets = append(s.secrets, tok)
				s.rec(M{"op": "sset", "field": field, "val": id})
			}
			sd.SetAuthenticated(true)
			s.ref.auth = true
			s.ref.created = now
			s.rec(M{"op": "sset", "field": "auth", "bool": true})
		}
		if (s.aging || s.edge) && q > 0 && q < 3 {
			nW = 0 // the session is only carried along (every response renews the cookies) until it is over age
		}
		if s.renew && sv == 0 {
			// what a successful refresh does: a new ID token, the refresh token the provider keeps (the same string is written
			// again), authenticated anew (the 24 hours start over)
			nW = 0
			if q == 0 {
				rt := s.randomToken(rng)
				id := s.reg(rt)
				sd.SetRefreshToken(rt)
				s.ref.refresh = rt
				s.secrets = append(s.secrets, rt)
				s.rec(M{"op": "sset", "field": "refresh", "val": id})
			} else {
				rt := s.ref.refresh
				sd.SetRefreshToken(rt)
				s.rec(M{"op": "sset", "field": "refresh", "val": s.reg(rt)})
			}
			tok := s.randomToken(rng)
			id := s.reg(tok)
			sd.SetAccessToken(tok)
			s.ref.access = tok
			s.secrets = append(s.secrets, tok)
			s.rec(M{"op": "sset", "field": "access", "val": id})
			sd.SetAuthenticated(true)
			s.ref.auth = true
			s.ref.created = now
			s.rec(M{"op": "sset", "field": "auth", "bool": true})
			T.stat("session.renewals")
		}
		for i := 0; i < nW; i++ {
			switch f := rng.Intn(11); f {
			case 0, 1, 2:
				tok := s.randomToken(rng)
				id := s.reg(tok)
				sd.SetAccessToken(tok)
				s.ref.access = tok
				s.secrets = append(s.secrets, tok)
				s.rec(M{"op": "sset", "field": "access", "val": id})
				T.stat(fmt.Sprintf("session.token-chunks.%d", (compressedLen(tok)+1999)/2000))
			case 3, 4:
				tok := s.randomToken(rng)
				id := s.reg(tok)
				sd.SetRefreshToken(tok)
				s.ref.refresh = tok
				s.secrets = append(s.secrets, tok)
				s.rec(M{"op": "sset", "field": "refresh", "val": id})
			case 5:
				b := rng.Intn(2) == 0
				sd.SetAuthenticated(b)
				s.ref.auth = b
				if b {
					s.ref.created = now
				}
				s.rec(M{"op": "sset", "field": "auth", "bool": b})
			default:
				field := []string{"email", "csrf", "nonce", "ver", "inc"}[f-6]
				// values within the domain the handler can produce: state 36, nonce 44, verifier 43 characters, e-mail up to 320, remembered URI up to 1024 bytes
				maxLen := map[string]int{"email": 320, "csrf": 36, "nonce": 44, "ver": 43, "inc": 1024}[field]
				val := []string{"", "user@example.com", "secret-value-" + fmt.Sprint(rng.Int63()), "/some/path?with=query&and=" + strings.Repeat("z", rng.Intn(1000)), strings.Repeat("é", rng.Intn(20)), strings.Repeat("m", maxLen)}[rng.Intn(6)]
				if len(val) > maxLen {
					val = val[:maxLen]
				}
				if field == "email" && rng.Intn(4) == 0 {
					// an e-mail claim of any length (the provider chooses it): around the codecs' ceiling on the encoded value, and far
					// above it; either the cookie is not written (Save fails) or its line fits in 4096 bytes, as the model says
					n := []int{1700 + rng.Intn(600), 1880 + rng.Intn(160), 2300 + rng.Intn(6000)}[rng.Intn(3)]
					val = strings.Repeat("e", n-12) + "@example.com"
					T.stat("session.long-email")
				}
				switch field {
				case "email":
					sd.SetEmail(val)
					s.ref.email = val
				case "csrf":
					sd.SetCSRF(val)
					s.ref.csrf = val
				case "nonce":
					sd.SetNonce(val)
					s.ref.nonce = val
				case "ver":
					sd.SetCodeVerifier(val)
					s.ref.ver = val
				case "inc":
					sd.SetIncomingPath(val)
					s.ref.inc = val
				}
				s.secrets = append(s.secrets, val)
				s.rec(M{"op": "sset", "field": field, "val": val})
			}
		}
		before := len(rec.Header()["Set-Cookie"])
		op := "ssave"
		if rng.Intn(8) == 0 && !s.edge {
			op = "sclear"
			if err := sd.Clear(r, rec); err != nil {
				T.oracle("C17", "Clear failed", M{"err": err.Error()}, s.replay())
			}
			s.ref = sRef{}
			T.stat("session.clears")
		} else if err := sd.Save(r, rec); err != nil {
			if strings.Contains(err.Error(), "failed to save main session") && strings.Contains(err.Error(), "too long") && len(rec.Header()["Set-Cookie"]) == before {
				// the codec refused a main cookie above its ceiling: nothing was written; the model says for which contents this happens
				s.rec(M{"op": op, "obs": M{"saveErr": true}})
				T.stat("session.save-refused-for-length")
				// nothing of this Save reached the browser: the jar holds what the last successful Save wrote
				s.ref = s.savedRef
			} else if strings.Contains(err.Error(), "too long") && len(rec.Header()["Set-Cookie"]) > before {
				// refused for length, but part of the session has been written already: the browser now holds a mix of two states
				T.oracle("C07", "a Save that reports failure has written some of the session's cookies: the next request reads a mix of old and new values", M{"err": err.Error(), "lines_written": len(rec.Header()["Set-Cookie"]) - before}, s.replay())
				s.known = false
			} else {
				T.oracle("C17", "Save failed for values written through the API", M{"err": err.Error()}, s.replay())
				s.known = false
			}
			s.applyHeaders(rec.Header()) // (what an earlier Save of the same response has written reaches the browser)
			return
		}
		s.savedRef, s.lastSaveAt = s.ref, now
		lines := M{}
		dels := []string{}
		// the attribute text of the lines that set a cookie and of those that delete one (without the Expires date): one text each
		attrsSeen := map[bool]string{}
		for _, line := range rec.Header()["Set-Cookie"][before:] {
			short, n, deleted := s.lineCheck(line)
			if deleted {
				dels = append(dels, short)
			} else {
				lines[short] = n
			}
			parts := strings.Split(line, "; ")
			kept := []string{}
			for _, p := range parts[1:] {
				if !strings.HasPrefix(p, "Expires=") {
					kept = append(kept, p)
				}
			}
			at := strings.Join(kept, "; ")
			if prev, ok := attrsSeen[deleted]; ok && prev != at {
				at = "MIXED: " + prev + " | " + at
			}
			attrsSeen[deleted] = at
		}
		j2 := s.jar.clone()
		j2.apply(rec.Header())
		obs := M{"lines": lines, "jar": s.view(j2)}
		if a, ok := attrsSeen[false]; ok {
			obs["attrs"] = a
		}
		if a, ok := attrsSeen[true]; ok {
			obs["dattrs"] = a
		}
		s.rec(M{"op": op, "obs": obs, "deleted": dels})
	}
	s.applyHeaders(rec.Header())
}

// tamperMatrix (C09): each modification of an authentic value must read exactly like the cookie being absent; a same-name
// value from an earlier Save (authentic) may be read. The jar is restored afterwards.
func (s *sessRun) tamperMatrix(rng *mrand.Rand) {
	names := []string{}
	for n := range s.jar {
		names = append(names, n)
	}
	if len(names) == 0 {
		return
	}
	sortStrings(names)
	now := time.Now().Unix()
	other := jar{}
	for _, n := range names {
		other[n] = otherKeyValue(n, s.force)
	}
	trials := T.size(12, 60)
	for k := 0; k < trials; k++ {
		n := names[rng.Intn(len(names))]
		orig := s.jar[n]
		var mod, label string
		switch rng.Intn(9) {
		case 0, 1: // flip one bit of the decoded value
			b, err := base64.URLEncoding.DecodeString(orig)
			if err != nil || len(b) == 0 {
				continue
			}
			b[rng.Intn(len(b))] ^= 1 << uint(rng.Intn(8))
			mod, label = base64.URLEncoding.EncodeToString(b), "bit flip in the decoded value"
		case 2:
			if len(orig) < 8 {
				continue
			}
			mod, label = orig[:rng.Intn(len(orig)-1)], "truncation"
		case 3:
			mod, label = orig+orig[:4], "extension"
		case 4:
			m := names[rng.Intn(len(names))]
			if m == n {
				continue
			}
			mod, label = s.jar[m], "value of cookie "+shortName(m)+" under the name "+shortName(n)
		case 5:
			mod, label = other[n], "minted under a key differing in one character"
		case 6:
			b := []byte(orig)
			p := rng.Intn(len(b))
			if b[p] == 'Q' {
				b[p] = 'R'
			} else {
				b[p] = 'Q'
			}
			mod, label = string(b), "one character of the text changed"
			// (the last character of a base64 text carries unused bits: a change there may decode to the very same bytes, which is
			// the same authentic value in another spelling, not a modified cookie)
			if d0, e0 := base64.URLEncoding.DecodeString(orig); e0 == nil {
				if d1, e1 := base64.URLEncoding.DecodeString(mod); e1 == nil && bytes.Equal(d0, d1) {
					continue
				}
			}
		case 7:
			mod, label = "", "empty value"
		default:
			// the timestamp field replaced (extends the lifetime): decode, change the first field, re-encode
			b, err := base64.URLEncoding.DecodeString(orig)
			if err != nil {
				continue
			}
			parts := strings.SplitN(string(b), "|", 3)
			if len(parts) != 3 {
				continue
			}
			mod, label = base64.URLEncoding.EncodeToString([]byte(fmt.Sprintf("%d|%s|%s", now+100, parts[1], parts[2]))), "timestamp field rewritten"
		}
		if mod == orig {
			continue
		}
		jt := s.jar.clone()
		jt[n] = mod
		ja := s.jar.clone()
		delete(ja, n)
		vt, va := s.view(jt), s.view(ja)
		T.stat("session.tamper-trials")
		// compare everything but the raw cookie counts
		for _, f := range []string{"auth", "email", "csrf", "nonce", "ver", "inc", "a", "r"} {
			if fmt.Sprint(vt[f]) != fmt.Sprint(va[f]) {
				T.oracle("C09", "a cookie value not produced under the configured key for that name was accepted as session content: "+label, M{"cookie": shortName(n), "field": f, "tampered_reads": vt[f], "absent_reads": va[f]}, s.replay())
				break
			}
		}
		if k == 0 { // one of them also goes to the model: `bad` predicted
			s.rec(M{"op": "snap", "id": len(s.snaps)})
			s.snaps = append(s.snaps, s.jar.clone())
			s.rec(M{"op": "jar", "edit": "bad", "name": shortName(n)})
			s.rec(M{"op": "sview", "now": now, "obs": M{"jar": vt}, "label": label})
			// restore in the model as well
			s.rec(M{"op": "jar", "edit": "restore", "name": shortName(n), "snap": len(s.snaps) - 1})
		}
	}
}

var _ = http.StatusOK

// configuredKeys (C09): the cookies of an instance are sealed under the key it was configured with, exactly as written - whatever
// characters the administrator's secret contains - and under no other: not the key printed in the source for the plugin
// analyser, not what a shell or template engine would make of the string.
func configuredKeys() {
	p := newProvider(keys()["p256a"])
	pub := "0123456789abcdef0123456789abcdef0123456789abcdef0123456789abcdef"
	cands := []string{
		"${OIDC_SESSION_KEY_NOT_SET}", // shorter than the minimum as written: the instance must not come up with some other key
		"$OIDC_SESSION_KEY_NOT_SET",
		"${OIDC_SESSION_KEY_NOT_SET}-and-a-tail-that-makes-it-long-enough",
		"$HOME/keys/session-key-0123456789-0123456789",
		"%OIDC_KEY%-0123456789-0123456789-0123456789",
		"key with spaces, \"quotes\" and \\ backslashes 0123456789",
		"p\u00e4ssw\u00f6rd-mit-\u00fcml\u00e4uten-0123456789-0123456789",
		"$$$$$$$$$$$$$$$$$$$$$$$$$$$$$$$$$$$$$$$$",
		"{{ .Env.KEY }}-0123456789-0123456789-0123456789",
		"  leading-and-trailing-blanks-0123456789-0123456789  ",
		"UPPER-and-lower-CASE-key-0123456789-0123456789",
		strings.Repeat("a-key-longer-than-one-hash-block-", 3), // 99 bytes: longer than the 64-byte block of SHA-256
		"a-key-that-ends-in-zero-bytes-0123456789\x00\x00",
	}
	for _, K := range cands {
		cfg := baseConfig(p)
		cfg.SessionEncryptionKey = K
		h, err := oidc.New(nil, &down{}, cfg, "verif")
		if err != nil {
			T.stat("session.configured-keys.rejected")
			continue
		}
		time.Sleep(time.Second)
		synctest.Wait()
		T.stat("session.configured-keys.accepted")
		req := httptest.NewRequest("GET", "http://app.test/first", nil)
		rec := httptest.NewRecorder()
		h.ServeHTTP(rec, req)
		lu, _ := url.Parse(rec.Header().Get("Location"))
		if rec.Code != 302 || lu == nil || lu.Query().Get("state") == "" {
			continue
		}
		state := lu.Query().Get("state")
		j := jar{}
		j.apply(rec.Header())
		readWith := func(key string) string {
			sm, err := oidc.NewSessionManager(key, false, oidc.NewLogger("none"))
			if err != nil {
				return ""
			}
			r := httptest.NewRequest("GET", "http://app.test/", nil)
			j.addTo(r)
			sd, err := sm.GetSession(r)
			if err != nil {
				return ""
			}
			return sd.GetCSRF()
		}
		rp := M{"family": "session", "configuredKey": K, "what": "instance built with this sessionEncryptionKey; first visit; the cookies of the login redirect are read with several keys"}
		if len(K) >= 32 && readWith(K) != state {
			T.oracle("C09", "the cookies of an instance cannot be read with the key it was configured with: it seals them under some other key", M{"key": K}, rp)
		}
		if K != pub && readWith(pub) == state {
			T.oracle("C09", "session cookies are readable with the key printed in the source although another key is configured", M{"key": K}, rp)
		}
		digest := sha256.Sum256([]byte(K))
		// (keys related to the configured one the way keyed hashes relate keys: zero padding, a long key and its digest)
		for _, alt := range []string{os.ExpandEnv(K), strings.TrimSpace(K), strings.ToLower(K), strings.ReplaceAll(K, "$", ""), K + "\x00", K + "\x00\x00\x00", strings.TrimRight(K, "\x00"), string(digest[:])} {
			if alt != K && len(alt) >= 32 && readWith(alt) == state {
				T.oracle("C09", "session cookies are readable with a key other than the configured one", M{"key": K, "other": alt}, rp)
			}
		}
	}
}
