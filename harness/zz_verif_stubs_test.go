package traefikoidc_test

import "testing"

func familyDiscovery(t *testing.T) { t.Fatal("not built") }
func familySched(t *testing.T)     { t.Fatal("not built") }
