package traefikoidc_test

import "testing"

func familySession(t *testing.T)   { t.Fatal("not built") }
func familyDiscovery(t *testing.T) { t.Fatal("not built") }
func familySched(t *testing.T)     { t.Fatal("not built") }
