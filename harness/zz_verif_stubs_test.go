package traefikoidc_test

import "testing"

func familySched(t *testing.T)     { t.Fatal("not built") }
