package traefikoidc_test

import "testing"

func familyHandler(t *testing.T)   { t.Fatal("not built") }
func familySession(t *testing.T)   { t.Fatal("not built") }
func familyDiscovery(t *testing.T) { t.Fatal("not built") }
func familySched(t *testing.T)     { t.Fatal("not built") }
