package traefikoidc_test

// Family "token-real" (C08; oracles only, no model steps): the instance uses its own default HTTP client (Config.HTTPClient unset)
// against a provider on a loopback socket, in real time.  Exercises what a scripted RoundTripper cannot: the keep-alive transport
// of net/http.  The provider receives a grant on a connection the client has used before, redeems it, and drops the connection
// without answering; one request of the browser must still cause exactly one grant at the token endpoint.

import (
	"encoding/json"
	"fmt"
	"io"
	"net/http"
	"net/http/httptest"
	"net/url"
	"strings"
	"sync"
	"testing"
	"time"

	oidc "github.com/lukaszraczylo/traefikoidc"
)

func familyTokenReal(t *testing.T) {
	realTime = true
	defer guard()
	for _, dropOn := range []string{"second refresh", "first refresh", "code exchange"} {
		tokenRealCase(dropOn)
	}
}

func tokenRealCase(dropOn string) {
	k := keys()["p256a"]
	var mu sync.Mutex
	grants := []string{}
	nonce := ""
	refreshes := 0
	var srv *httptest.Server
	rp := M{"family": "token-real", "case": "connection dropped on the " + dropOn}
	idToken := func(n string) string {
		cl := M{"iss": srv.URL, "aud": "cid", "exp": time.Now().Add(50 * time.Second).Unix(), "iat": time.Now().Unix(), "sub": "user-1", "email": "user@example.com"}
		if n != "" {
			cl["nonce"] = n
		}
		return stdToken(k, cl)
	}
	srv = httptest.NewServer(http.HandlerFunc(func(w http.ResponseWriter, r *http.Request) {
		switch {
		case strings.HasSuffix(r.URL.Path, "/.well-known/openid-configuration"):
			json.NewEncoder(w).Encode(M{"issuer": srv.URL, "authorization_endpoint": srv.URL + "/auth", "token_endpoint": srv.URL + "/token", "jwks_uri": srv.URL + "/jwks"})
		case r.URL.Path == "/jwks":
			json.NewEncoder(w).Encode(M{"keys": []map[string]string{k.jwk()}})
		case r.URL.Path == "/token":
			b, _ := io.ReadAll(r.Body)
			form, _ := url.ParseQuery(string(b))
			mu.Lock()
			grants = append(grants, form.Get("grant_type")+":"+form.Get("refresh_token")+form.Get("code"))
			drop := false
			if form.Get("grant_type") == "refresh_token" {
				refreshes++
				drop = (dropOn == "first refresh" && refreshes == 1) || (dropOn == "second refresh" && refreshes == 2)
			} else {
				drop = dropOn == "code exchange"
			}
			n := nonce
			mu.Unlock()
			if drop { // the grant has been received (and redeemed); the connection goes away before any answer
				if hj, ok := w.(http.Hijacker); ok {
					if c, _, err := hj.Hijack(); err == nil {
						c.Close()
						return
					}
				}
			}
			m := M{"access_token": "opaque", "token_type": "Bearer", "expires_in": 50, "refresh_token": fmt.Sprintf("rt-%d", len(grants)+1)}
			if form.Get("grant_type") == "refresh_token" {
				m["id_token"] = idToken("")
			} else {
				m["id_token"] = idToken(n)
			}
			json.NewEncoder(w).Encode(m)
		default:
			w.WriteHeader(404)
		}
	}))
	defer srv.Close()
	cfg := oidc.CreateConfig()
	cfg.ProviderURL = srv.URL
	cfg.ClientID, cfg.ClientSecret, cfg.CallbackURL, cfg.SessionEncryptionKey, cfg.LogLevel = "cid", "sec", "/cb", sessKey, "none"
	cfg.RateLimit = 100
	d := &down{}
	h, err := oidc.New(nil, d, cfg, "verif-token-real")
	if err != nil {
		T.oracle("C08", "instance could not be built with the default HTTP client", M{"err": err.Error()}, rp)
		return
	}
	j := jar{}
	do := func(target string) *httptest.ResponseRecorder {
		req := httptest.NewRequest("GET", "http://app.test"+target, nil)
		j.addTo(req)
		rec := httptest.NewRecorder()
		h.ServeHTTP(rec, req)
		j.apply(rec.Header())
		return rec
	}
	// initiation (waits for discovery), callback
	var loc *url.URL
	for i := 0; i < 50 && loc == nil; i++ {
		rec := do("/start")
		if rec.Code == 302 {
			if u, err := url.Parse(rec.Header().Get("Location")); err == nil && strings.HasPrefix(rec.Header().Get("Location"), srv.URL+"/auth") {
				loc = u
			}
		}
		if loc == nil {
			time.Sleep(100 * time.Millisecond)
		}
	}
	if loc == nil {
		T.oracle("C08", "no login redirect from an instance with the default HTTP client and a healthy provider", nil, rp)
		return
	}
	mu.Lock()
	nonce = loc.Query().Get("nonce")
	mu.Unlock()
	count := func() int { mu.Lock(); defer mu.Unlock(); return len(grants) }
	before := count()
	rec := do("/cb?state=" + url.QueryEscape(loc.Query().Get("state")) + "&code=code-1")
	if n := count() - before; n != 1 {
		T.oracle("C08", "one callback caused other than exactly one grant at the token endpoint (keep-alive transport, connection dropped before the answer)", M{"grants": n, "case": dropOn}, rp)
	}
	T.stat("token-real.cases")
	if dropOn == "code exchange" || rec.Code != 302 {
		return
	}
	// the ID token has 50 s left (inside the 60 s grace period): every request now refreshes first
	for i := 1; i <= 2; i++ {
		before := count()
		dBefore := d.calls
		rec := do(fmt.Sprintf("/page%d", i))
		n := count() - before
		mu.Lock()
		g := append([]string{}, grants[before:]...)
		mu.Unlock()
		if n != 1 {
			T.oracle("C08", "one request caused other than exactly one refresh-token grant (keep-alive transport, connection dropped before the answer)", M{"request": i, "grants": g, "status": rec.Code, "case": dropOn}, rp)
		}
		if (dropOn == "first refresh" && i == 1) || (dropOn == "second refresh" && i == 2) {
			if d.calls != dBefore {
				T.oracle("C08", "request forwarded although its refresh grant got no answer", M{"request": i, "case": dropOn}, rp)
			}
			return
		}
	}
}
