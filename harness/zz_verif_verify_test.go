package traefikoidc_test

// Families "verify" (C14) and "limiter" (C19): VerifyToken / RevokeToken of a real instance in virtual time.
// Steps are replayed by the Lean `Verify` model (token cache × revocation cache × limiter).

import (
	"math"
	"fmt"
	"net/http"
	"net/http/httptest"
	"net/url"
	"strings"
	"testing"
	"testing/synctest"
	"time"

	oidc "github.com/lukaszraczylo/traefikoidc"
)

type vtok struct {
	id      string
	raw     string
	valid   bool  // signature, iss, aud, sub, types all fine
	accFrom int64 // ns, inclusive
	accTo   int64 // ns, inclusive
	expNs   int64
	jti     string
	kind    string
}

type verifyRun struct {
	insts   []*oidc.TraefikOidc // further middleware instances of the same process (index = "inst" of the protocol, 0 = inst)
	clients []string
	inst    *oidc.TraefikOidc
	p       *provider
	R       int
	toks    []*vtok
	revoked map[string]int64 // id -> first revocation instant
	hist    []M
	n       int
}

func newVerifyRun(R int) *verifyRun {
	p := newProvider(keys()["p256a"], keys()["rsa2048a"])
	r := &verifyRun{p: p, R: R, revoked: map[string]int64{}}
	r.inst = newInstance(p, &down{}, func(c *oidc.Config) { c.RateLimit = R })
	r.insts, r.clients = []*oidc.TraefikOidc{r.inst}, []string{"cid"}
	r.rec(M{"op": "vcfg", "R": R})
	return r
}

// sibling: another middleware instance in the same process (another router): same provider, its own caches, limiter and
// revocation list; client is its client id ("cid" = same application, anything else = another application)
func (r *verifyRun) sibling(client string) int { return r.siblingR(client, r.R) }

// siblingR: a sibling configured with its own rate limit (a reloaded or second router under the same middleware name)
func (r *verifyRun) siblingR(client string, R int) int {
	in := newInstance(r.p, &down{}, func(c *oidc.Config) { c.RateLimit = R; c.ClientID = client })
	r.insts = append(r.insts, in)
	r.clients = append(r.clients, client)
	i := len(r.insts) - 1
	r.rec(M{"op": "vinst", "i": i, "client": client, "R": R})
	T.stat("verify.sibling-instances")
	return i
}

func (r *verifyRun) rec(m M) {
	r.hist = append(r.hist, m)
	T.emit(m)
}

func (r *verifyRun) replay() interface{} {
	h := r.hist
	if len(h) > 300 {
		h = h[len(h)-300:]
	}
	return M{"family": "verify", "ops": h}
}

func nowNs() int64 { return time.Now().UnixNano() }

// mint registers a token with the model. kind selects validity.
func (r *verifyRun) mint(kind string, expIn time.Duration, jti string) *vtok {
	r.n++
	now := time.Now()
	k := keys()["p256a"]
	cl := stdClaims(now, expIn)
	cl["uniq"] = fmt.Sprintf("v%d", r.n)
	if jti != "" {
		cl["jti"] = jti
	}
	t := &vtok{id: fmt.Sprintf("V%d", r.n), valid: true, kind: kind, jti: jti}
	t.expNs = now.Add(expIn).Unix() * 1e9
	t.accFrom = (now.Unix() - 10) * 1e9
	t.accTo = (now.Add(expIn).Unix() + 120) * 1e9
	if now.Add(expIn).Unix() > 9000000000 { // (beyond the year 2255 nanoseconds do not fit into an int64: no run's clock gets there; saturate)
		t.expNs, t.accTo = math.MaxInt64-300000000000, math.MaxInt64-100000000000
	}
	switch kind {
	case "valid":
	case "future": // becomes valid one hour from now
		cl["iat"] = now.Add(time.Hour).Unix()
		t.accFrom = (now.Add(time.Hour).Unix() - 10) * 1e9
	case "badsig":
		t.valid = false
	case "iss":
		cl["iss"] = "https://other.test"
		t.valid = false
	case "aud":
		cl["aud"] = "someone-else"
		t.valid = false
	case "nosub":
		delete(cl, "sub")
		t.valid = false
	case "garbage":
		t.valid = false
	}
	var donor *vtok // samesig: another token's signature segment under a rewritten payload
	if kind == "samesig" || kind == "sameprefix" {
		for _, o := range r.toks {
			if o.kind == "valid" {
				donor = o
			}
		}
		if donor == nil {
			kind, t.kind = "badsig", "badsig"
		}
		cl["sub"] = "root"
		t.valid = false
	}
	if r.n%3 == 1 && kind != "garbage" {
		// private claims whose names differ from registered ones in case only, written after them, with other values
		far := time.Now().Add(365 * 24 * time.Hour).Unix()
		cl["__tail"] = [][2]interface{}{{"Exp", far}, {"EXP", far}, {"Iat", far}, {"Aud", "cid"}, {"Iss", issuerURL}, {"Jti", "other"}}
	}
	t.raw = stdToken(k, cl)
	if donor != nil && kind == "samesig" {
		mine, theirs := strings.Split(t.raw, "."), strings.Split(donor.raw, ".")
		t.raw = mine[0] + "." + mine[1] + "." + theirs[2]
	}
	if donor != nil && kind == "sameprefix" { // the donor's header and payload under a signature with one bit flipped
		theirs := strings.Split(donor.raw, ".")
		sig, _ := b64.DecodeString(theirs[2])
		sig[len(sig)/3] ^= 0x04
		t.raw = theirs[0] + "." + theirs[1] + "." + b64.EncodeToString(sig)
	}
	if kind == "badsig" {
		// flip one bit in the decoded signature value
		parts := strings.Split(t.raw, ".")
		sig, _ := b64.DecodeString(parts[2])
		sig[len(sig)/2] ^= 0x10
		t.raw = parts[0] + "." + parts[1] + "." + b64.EncodeToString(sig)
	}
	if kind == "padded" {
		// a valid token as a client may deliver it: followed by a line break (base64 decoding skips CR and LF, so it verifies);
		// it is a string of its own for the cache, the revocation list and RevokeToken
		t.raw += []string{"\n", "\r\n"}[r.n%2]
	}
	if kind == "garbage" {
		t.raw = fmt.Sprintf("garbage-%d.not-a.token", r.n)
	}
	r.toks = append(r.toks, t)
	m := M{"op": "vtok", "id": t.id, "valid": t.valid, "accFrom": t.accFrom, "accTo": t.accTo, "exp": t.expNs, "kind": kind}
	if jti != "" {
		m["jti"] = jti
	}
	r.rec(m)
	return t
}

func (t *vtok) scratch(now int64) bool { return t.valid && t.accFrom <= now && now <= t.accTo }

func (r *verifyRun) verify(t *vtok, limiterOracle bool) string { return r.verifyOn(0, t) }

func (r *verifyRun) verifyOn(i int, t *vtok) string {
	now := nowNs()
	err := r.insts[i].VerifyToken(t.raw)
	res := "accept"
	if err != nil {
		if strings.Contains(err.Error(), "rate limit") {
			res = "refuse"
		} else {
			res = "reject"
		}
	}
	r.rec(M{"op": "verify", "now": now, "id": t.id, "inst": i, "obs": M{"r": res}})
	T.stat("verify." + res + "." + t.kind)
	if res == "accept" {
		if !t.scratch(now) || r.clients[i] != "cid" { // (every token of this family is issued for client "cid")
			T.oracle("C14", "token reported valid although a from-scratch verification at that moment rejects it", M{"id": t.id, "kind": t.kind, "now": now, "accFrom": t.accFrom, "accTo": t.accTo}, r.replay())
		}
		if at, ok := r.revoked[fmt.Sprintf("%d/%s", i, t.id)]; ok {
			T.oracle("C14", "token reported valid although it was locally revoked earlier", M{"id": t.id, "instance": i, "revokedAt": at, "now": now, "exp": t.expNs}, r.replay())
		}
	}
	return res
}

func (r *verifyRun) revoke(t *vtok) { r.revokeOn(0, t) }

func (r *verifyRun) revokeOn(i int, t *vtok) {
	now := nowNs()
	r.insts[i].RevokeToken(t.raw)
	if _, ok := r.revoked[fmt.Sprintf("%d/%s", i, t.id)]; !ok {
		r.revoked[fmt.Sprintf("%d/%s", i, t.id)] = now
	}
	r.rec(M{"op": "revoke", "now": now, "id": t.id, "inst": i, "obs": M{"r": "ok"}})
	T.stat("verify.revoke")
}

func vsleep(d time.Duration) {
	if d > 0 {
		time.Sleep(d)
		synctest.Wait()
	}
}

func familyVerify(t *testing.T) {
	rng := T.rng
	synctest.Test(t, func(t *testing.T) {
		defer guard()
		nScen := T.size(40, 120)
		for sc := 0; sc < nScen; sc++ {
			R := 1000000
			lowLimit := sc%8 == 7 // a low limit: refusals must leave no trace
			if lowLimit {
				R = 3
			}
			r := newVerifyRun(R)
			kinds := []string{"valid", "valid", "valid", "valid", "future", "badsig", "iss", "aud", "nosub", "garbage", "samesig", "sameprefix", "padded"}
			exps := []time.Duration{5 * time.Minute, 30 * time.Minute, 2 * time.Hour, 26 * time.Hour, 72 * time.Hour, -time.Hour, 90 * time.Second}
			nTok := 3 + rng.Intn(10)
			for i := 0; i < nTok; i++ {
				jti := ""
				switch rng.Intn(4) {
				case 0:
					jti = fmt.Sprintf("jti-%d-%d", sc, i)
				case 1:
					if i > 0 && r.toks[i-1].jti != "" { // two tokens sharing one jti (replay of an id under a new token)
						jti = r.toks[i-1].jti
					}
				}
				r.mint(kinds[rng.Intn(len(kinds))], exps[rng.Intn(len(exps))], jti)
			}
			switch sc % 5 {
			case 1: // revoked, then verified inside the clock-skew window after its own expiry (a from-scratch verification still accepts there)
				tk := r.mint("valid", 90*time.Second, "")
				if sc%2 == 1 {
					r.verify(tk, false)
				}
				r.revoke(tk)
				vsleep(time.Duration(91+rng.Intn(115)) * time.Second)
				r.verify(tk, false)
				vsleep(20 * time.Second)
				r.verify(tk, false)
			case 2: // revoked when already past its expiry but still inside the skew window: the very next verification must reject
				tk := r.mint("valid", -time.Duration(1+rng.Intn(110))*time.Second, "")
				r.revoke(tk)
				r.verify(tk, false)
				vsleep(time.Duration(rng.Intn(5)) * time.Second)
				r.verify(tk, false)
			case 3: // short-lived token revoked at once, verified just before and just after its expiry
				tk := r.mint("valid", 5*time.Minute, "")
				r.revoke(tk)
				vsleep(5*time.Minute - time.Second)
				r.verify(tk, false)
				vsleep(2 * time.Second)
				r.verify(tk, false)
				vsleep(100 * time.Second)
				r.verify(tk, false)
			}
			if sc%5 == 4 { // a token verified (and cached), then other strings sharing one of its segments: signature kept under a rewritten payload; payload kept under a damaged signature
				tk := r.mint("valid", 30*time.Minute, "")
				r.verify(tk, false)
				forged := r.mint("samesig", 30*time.Minute, "")
				r.verify(forged, false)
				r.verify(tk, false)
				r.verify(forged, false)
				damaged := r.mint("sameprefix", 30*time.Minute, "")
				r.verify(damaged, false)
				r.verify(tk, false)
			}
			if sc%7 == 5 { // a "never expires" token (exp 9999999999: the year 2286), revoked: still refused after the caches' periodic clean-up has run
				tk := r.mint("valid", time.Unix(9999999999, 0).Sub(time.Now()), []string{"", fmt.Sprintf("jti-far-%d", sc)}[sc/7%2])
				r.verify(tk, false)
				r.revoke(tk)
				r.verify(tk, false)
				vsleep(6*time.Minute + time.Duration(rng.Intn(240))*time.Second)
				r.verify(tk, false)
				vsleep(26 * time.Hour)
				r.verify(tk, false)
				T.stat("verify.far-future-revocation")
			}
			if sc%7 == 3 { // a token delivered with a trailing line break: verified, revoked under that very string, verified again
				tk := r.mint("padded", 30*time.Minute, []string{"", fmt.Sprintf("jti-padded-%d", sc)}[sc/7%2])
				r.verify(tk, false)
				r.revoke(tk)
				r.verify(tk, false)
				vsleep(time.Duration(1+rng.Intn(600)) * time.Second)
				r.verify(tk, false)
				T.stat("verify.padded-revocation")
			}
			if sc%5 == 2 && sc%2 == 0 { // first verified only after its exp, inside the clock-skew window (accepted), then again once the window has closed
				tk := r.mint("valid", 90*time.Second, "")
				vsleep(time.Duration(95+rng.Intn(100)) * time.Second)
				r.verify(tk, false)
				vsleep(time.Duration(20+rng.Intn(80)) * time.Second)
				r.verify(tk, false)
				vsleep(40 * time.Second)
				r.verify(tk, false)
				vsleep(70 * time.Second)
				r.verify(tk, false)
			}
			if sc == 3 { // the revocation list filled exactly to its capacity (500), one of its tokens revoked a second time: nothing is forgotten
				toks := make([]*vtok, 0, 500)
				for i := 0; i < 500; i++ {
					tk := r.mint("valid", 3*time.Hour, "")
					toks = append(toks, tk)
					r.revoke(tk)
				}
				r.revoke(toks[250])
				r.revoke(toks[499])
				r.verify(toks[0], false)
				r.verify(toks[1], false)
				r.verify(toks[250], false)
				r.verify(toks[499], false)
				T.stat("verify.full-revocation-list")
			}
			if sc%10 == 6 && !lowLimit { // sibling instances of the same process: each decides on its own state and its own configuration
				same, other := r.sibling("cid"), r.sibling("another-app")
				tk := r.mint("valid", 2*time.Hour, "")
				r.verifyOn(0, tk)
				r.verifyOn(other, tk) // issued for "cid": not valid for the other application, whatever instance 0 has cached
				r.revokeOn(0, tk)
				r.verifyOn(0, tk)
				r.verifyOn(same, tk) // never revoked there
				r.verifyOn(0, tk)    // still revoked here
				r.verifyOn(other, tk)
				vsleep(time.Duration(1+rng.Intn(50)) * time.Minute)
				r.verifyOn(same, tk)
				r.verifyOn(0, tk)
			}
			if sc%5 == 0 { // the textbook sequence: verify, revoke, verify at once, wait 25 h, verify (every other time with a token that carries a jti)
				tk := r.mint("valid", 72*time.Hour, []string{"", fmt.Sprintf("jti-textbook-%d", sc)}[(sc/5)%2])
				r.verify(tk, false)
				r.revoke(tk)
				r.verify(tk, false)
				vsleep(25 * time.Hour)
				r.verify(tk, false)
				vsleep(48 * time.Hour)
				r.verify(tk, false)
			}
			for i := 0; i < T.size(40, 90); i++ {
				tk := r.toks[rng.Intn(len(r.toks))]
				switch p := rng.Intn(100); {
				case p < 60:
					r.verify(tk, false)
				case p < 72:
					r.revoke(tk)
				default:
					vsleep([]time.Duration{0, time.Second, 30 * time.Second, 4 * time.Minute, 6 * time.Minute, 31 * time.Minute, time.Hour, 23 * time.Hour, 25 * time.Hour, 49 * time.Hour}[rng.Intn(10)])
					if rng.Intn(3) == 0 { // new tokens appear over time
						r.mint(kinds[rng.Intn(len(kinds))], exps[rng.Intn(len(exps))], "")
					}
				}
			}
		}
		T.finish()
	})
}

// ---------------------------------------------------------------------------------------------------- limiter (C19)

func familyLimiter(t *testing.T) {
	rng := T.rng
	synctest.Test(t, func(t *testing.T) {
		defer guard()
		configGate()
		// limits that divide one second evenly and limits that do not (in milliseconds: 37, 150, 600; 1500 is above one per millisecond)
		limits := []int{10, 37, 100, 1000, 150, 1500, 600}
		nScen := T.size(21, 84)
		for sc := 0; sc < nScen; sc++ {
			R := limits[sc%len(limits)]
			if sc%9 == 8 {
				R = 1 + rng.Intn(300)
			}
			r := newVerifyRun(R)
			gapExact := time.Duration(int64(time.Second) / int64(R))
			var admitted []int64 // instants of admitted verifications
			var refusedToks []*vtok // tokens whose verification was refused for lack of budget
			arrive := func() string {
				tk := r.mint("valid", time.Hour, "")
				res := r.verify(tk, true)
				if res == "accept" {
					admitted = append(admitted, nowNs())
				}
				if res == "refuse" && len(refusedToks) < 64 {
					refusedToks = append(refusedToks, tk)
				}
				if res == "reject" {
					T.oracle("C19", "a correctly signed fresh token was rejected for a reason other than the rate limit", M{"id": tk.id}, r.replay())
				}
				return res
			}
			if sc%4 == 1 { // a second instance under the same middleware name with another limit (reload with a changed rateLimit, or
				// two routers): each enforces its own configuration, with its own bucket
				R2 := []int{10, 50, 3 * R, R/3 + 10}[rng.Intn(4)]
				b := r.siblingR("cid", R2)
				for i := 0; i < 2*R2+5 && i < 800; i++ { // a burst on the new instance: its own limit, nothing drawn from the first one's bucket
					r.verifyOn(b, r.mint("valid", time.Hour, ""))
				}
				for i := 0; i < R+3 && i < 600; i++ { // and the first instance still has its whole burst
					arrive()
				}
				vsleep(1500 * time.Millisecond)
				for i := 0; i < R2+2 && i < 600; i++ {
					r.verifyOn(b, r.mint("valid", time.Hour, ""))
				}
			}
			pattern := sc % 6
			T.stat(fmt.Sprintf("limiter.pattern.%d", pattern))
			switch pattern {
			case 0: // steady stream at or below the limit (spacing ≥ 1/R + 2 µs): nothing may be refused
				vsleep(time.Duration(rng.Intn(3)) * time.Second)
				n := T.size(3*R+20, 6*R+50)
				if n > 1500 {
					n = 1500
				}
				factor := []float64{1.0, 1.01, 1.5, 2.0}[rng.Intn(4)]
				for i := 0; i < n; i++ {
					if arrive() == "refuse" {
						T.oracle("C19", "steady stream at or below rateLimit per second was refused", M{"R": R, "arrival": i, "gapNs": int64(float64(gapExact)*factor) + 2000}, r.replay())
						break
					}
					vsleep(time.Duration(float64(gapExact)*factor) + 2*time.Microsecond)
				}
			case 1: // drain the bucket, then a stream at the limit: sustained admission at R per second
				for i := 0; i < R+3 && i < 1600; i++ {
					// (a fresh instance holds one full burst: rateLimit verifications arriving at the same instant are all admitted)
					if res := arrive(); res == "refuse" && i < R && sc%4 != 1 {
						T.oracle("C19", "a burst within the configured rateLimit was refused on a fresh instance", M{"R": R, "arrival": i}, r.replay())
						break
					}
				}
				start := nowNs()
				adm0 := len(admitted)
				dur := 3 * time.Second
				// overload: arrivals at 3R per second for `dur`
				step := gapExact / 3
				if step <= 0 {
					step = 1
				}
				for time.Duration(nowNs()-start) < dur {
					vsleep(step)
					arrive()
				}
				got := len(admitted) - adm0
				want := int(float64(R)*dur.Seconds()) - 2
				T.stat("limiter.overload.runs")
				if got < want {
					T.oracle("C19", "under continuous overload fewer than rateLimit per second were admitted", M{"R": R, "seconds": dur.Seconds(), "admitted": got, "want_at_least": want}, r.replay())
				}
			case 2: // bursts separated by idle periods
				for b := 0; b < 4; b++ {
					n := R/2 + rng.Intn(2*R+2)
					if n > 1200 {
						n = 1200
					}
					for i := 0; i < n; i++ {
						arrive()
						if rng.Intn(3) == 0 {
							vsleep(time.Duration(rng.Intn(2000)) * time.Microsecond)
						}
					}
					vsleep(time.Duration(200+rng.Intn(2500)) * time.Millisecond)
				}
			case 3: // just above the limit for a while
				n := 4*R + 10
				if n > 1500 {
					n = 1500
				}
				for i := 0; i < n; i++ {
					arrive()
					vsleep(time.Duration(float64(gapExact)*0.97) + time.Duration(rng.Intn(1000)))
				}
			case 4: // refused verifications are not performed: refused tokens are retried later and must be verified afresh
				var refused []*vtok
				for i := 0; i < 2*R+5 && i < 1200; i++ {
					tk := r.mint([]string{"valid", "valid", "badsig"}[rng.Intn(3)], time.Hour, "")
					if r.verify(tk, true) == "refuse" {
						refused = append(refused, tk)
					} else if tk.kind == "valid" {
						admitted = append(admitted, nowNs())
					}
				}
				vsleep(10 * time.Second)
				for i, tk := range refused {
					if i >= R { // stay within the refilled bucket
						break
					}
					res := r.verify(tk, true)
					if tk.kind == "badsig" && res == "accept" {
						T.oracle("C19", "a verification refused by the limiter left the token cached as valid", M{"id": tk.id}, r.replay())
					}
					if res == "accept" {
						admitted = append(admitted, nowNs())
					}
				}
			case 5: // random arrivals
				for i := 0; i < T.size(400, 1500); i++ {
					arrive()
					switch rng.Intn(5) {
					case 0:
					case 1:
						vsleep(time.Duration(rng.Intn(int(gapExact)*2 + 1)))
					case 2:
						vsleep(time.Duration(rng.Intn(int(gapExact)/2 + 1)))
					case 3:
						vsleep(time.Duration(rng.Intn(1500)) * time.Millisecond)
					default:
						vsleep(time.Duration(rng.Intn(50)) * time.Microsecond)
					}
				}
			}
			// upper bound (all patterns): never more than rateLimit plus one burst of rateLimit in any one-second window
			j := 0
			for i := range admitted {
				for admitted[i]-admitted[j] > int64(time.Second) {
					j++
				}
				if i-j+1 > 2*R {
					T.oracle("C19", "more than rateLimit plus one burst admitted within one second", M{"R": R, "admitted_in_window": i - j + 1, "window_start": admitted[j]}, r.replay())
					break
				}
			}
			T.statN("limiter.admitted", len(admitted))
			// clients that were refused come back with the same token once there is budget again: a refusal has left no trace
			if len(refusedToks) > 0 {
				vsleep(2 * time.Second)
				n := len(refusedToks)
				if n > R {
					n = R
				}
				for _, tk := range refusedToks[:n] {
					if res := r.verify(tk, true); res == "reject" {
						T.oracle("C19", "a token whose verification was refused for lack of budget is rejected when presented again with budget available", M{"id": tk.id, "R": R}, r.replay())
						break
					}
				}
				T.statN("limiter.retried-after-refusal", n)
			}
		}
		// traffic on an already authenticated session is not subject to the limit
		for _, R := range []int{10, 25} {
			sessionTraffic(R)
		}
		// verifications beyond the limit are refused WITHOUT being performed: with the provider's key set unavailable (so that it
		// is never cached), every verification that is actually carried out costs a request to the JWKS endpoint
		for _, R := range []int{10, 40} {
			r := newVerifyRun(R)
			r.p.mu.Lock()
			r.p.jwksFail = true
			h0 := r.p.jwksHits
			r.p.mu.Unlock()
			n := 4 * R
			for i := 0; i < n; i++ {
				r.inst.VerifyToken(r.mint("valid", time.Hour, "").raw) // (not a model step: the key set is down)
			}
			r.p.mu.Lock()
			hits := r.p.jwksHits - h0
			r.p.jwksFail = false
			r.p.mu.Unlock()
			T.statN("limiter.work-counted.attempts", n)
			if hits > R {
				T.oracle("C19", "verifications beyond the limit were performed before being refused (requests to the JWKS endpoint counted)", M{"R": R, "attempts_at_one_instant": n, "verifications_performed": hits}, M{"family": "limiter", "scenario": "work-counted", "R": R})
			}
		}
		T.finish()
	})
}

// sessionTraffic: log in once (one verification), then many requests within the same instant; all must be forwarded.
func sessionTraffic(R int) {
	p := newProvider(keys()["p256a"])
	d := &down{}
	inst := newInstance(p, d, func(c *oidc.Config) { c.RateLimit = R })
	j := jar{}
	ok := simpleLogin(inst, p, j, "user@example.com", time.Hour)
	if !ok {
		T.oracle("C19", "login on a fresh instance failed", M{"R": R}, M{"family": "limiter", "scenario": "session-traffic", "R": R})
		return
	}
	before := d.calls
	n := 20 * R
	for i := 0; i < n; i++ {
		req := httptest.NewRequest("GET", "http://app.test/page", nil)
		j.addTo(req)
		rec := httptest.NewRecorder()
		inst.ServeHTTP(rec, req)
		j.apply(rec.Header())
	}
	T.statN("limiter.session-traffic.requests", n)
	if d.calls-before != n {
		T.oracle("C19", "requests on an already authenticated session were not all forwarded (limited?)", M{"R": R, "sent": n, "forwarded": d.calls - before}, M{"family": "limiter", "scenario": "session-traffic", "R": R})
	}
	// ---- many established sessions arrive, within one second, at an instance that has never seen them (restart, config reload,
	// another replica: same key, empty caches): they are not subject to the limit either, and they do not use up the budget of
	// the logins that follow
	if R > 40 {
		return // (3R logins on the first instance, paced at R/2 per second, would take too long for large limits)
	}
	k := 3 * R
	jars := make([]jar, k)
	for i := range jars {
		jars[i] = jar{}
		if !simpleLogin(inst, p, jars[i], fmt.Sprintf("user%d@example.com", i), time.Hour) {
			T.oracle("C19", "login paced at half the limit was refused", M{"R": R, "login": i}, M{"family": "limiter", "scenario": "cold-instance", "R": R})
			return
		}
		vsleep(2 * time.Second / time.Duration(R))
	}
	d2 := &down{}
	cold := newInstance(p, d2, func(c *oidc.Config) { c.RateLimit = R })
	for i := range jars {
		req := httptest.NewRequest("GET", "http://app.test/page", nil)
		jars[i].addTo(req)
		rec := httptest.NewRecorder()
		cold.ServeHTTP(rec, req)
	}
	T.statN("limiter.cold-instance.sessions", k)
	if d2.calls != k {
		T.oracle("C19", "established sessions arriving at a freshly started instance were not all forwarded (limited?)", M{"R": R, "sessions": k, "forwarded": d2.calls}, M{"family": "limiter", "scenario": "cold-instance", "R": R})
	}
	// right afterwards R logins within the same second must still be admitted (a full burst is available)
	admitted := 0
	for i := 0; i < R; i++ {
		if simpleLogin(cold, p, jar{}, fmt.Sprintf("late%d@example.com", i), time.Hour) {
			admitted++
		}
	}
	if admitted < R {
		T.oracle("C19", "logins right after session traffic on a fresh instance were refused below the configured rate", M{"R": R, "admitted": admitted}, M{"family": "limiter", "scenario": "cold-instance", "R": R})
	}
	// ---- refreshes are verifications too: the 3R sessions of the first instance all come due within the same instant (their ID
	// tokens have run out, each holds a refresh token, the provider answers each grant with a distinct valid ID token). Within one
	// second at most rateLimit plus one burst of them may be verified, i.e. forwarded; the others are refused, not performed
	vsleep(time.Hour + 3*time.Minute)
	uniq := 0
	p.onRefresh = func(form url.Values) tokenAnswer {
		uniq++
		cl := stdClaims(time.Now(), time.Hour)
		cl["email"] = fmt.Sprintf("refreshed%d@example.com", uniq)
		cl["uniq"] = uniq
		return tokenAnswer{kind: "ok", idToken: stdToken(p.keys[0], cl), refresh: "rt-next"}
	}
	beforeR := d.calls
	t0 := time.Now()
	for i := range jars {
		req := httptest.NewRequest("GET", "http://app.test/page", nil)
		jars[i].addTo(req)
		rec := httptest.NewRecorder()
		inst.ServeHTTP(rec, req)
	}
	el := time.Since(t0)
	T.statN("limiter.refresh-burst.sessions", k)
	if fw := d.calls - beforeR; el < time.Second && fw > 2*R {
		T.oracle("C19", "more refreshed ID tokens were verified (requests forwarded after a refresh) within one second than rateLimit plus one burst", M{"R": R, "sessions": k, "forwarded": fw, "uniq": uniq}, M{"family": "limiter", "scenario": "refresh-burst", "R": R})
	} else if fw < R {
		T.oracle("C19", "refreshes arriving together were admitted below the configured rate although a full burst was available", M{"R": R, "sessions": k, "forwarded": fw}, M{"family": "limiter", "scenario": "refresh-burst", "R": R})
	}
}

// simpleLogin performs initiation + callback against the scripted provider; returns true when the callback redirected.
func simpleLogin(inst http.Handler, p *provider, j jar, email string, expIn time.Duration) bool {
	return loginWith(inst, p, j, email, expIn, "rt-1")
}

// loginWith: as simpleLogin, the provider issuing the given refresh token
func loginWith(inst http.Handler, p *provider, j jar, email string, expIn time.Duration, rt string) bool {
	req := httptest.NewRequest("GET", "http://app.test/start", nil)
	j.addTo(req)
	rec := httptest.NewRecorder()
	inst.ServeHTTP(rec, req)
	j.apply(rec.Header())
	loc := rec.Header().Get("Location")
	u, err := url.Parse(loc)
	if err != nil || rec.Code != 302 {
		return false
	}
	state, nonce := u.Query().Get("state"), u.Query().Get("nonce")
	cl := stdClaims(time.Now(), expIn)
	cl["email"] = email
	cl["nonce"] = nonce
	raw := stdToken(p.keys[0], cl)
	p.onExchange = func(form url.Values) tokenAnswer { return tokenAnswer{kind: "ok", idToken: raw, refresh: rt} }
	req = httptest.NewRequest("GET", "http://app.test/cb?state="+url.QueryEscape(state)+"&code=c1", nil)
	j.addTo(req)
	rec = httptest.NewRecorder()
	inst.ServeHTTP(rec, req)
	j.apply(rec.Header())
	return rec.Code == 302
}
