import Oidc.Props.C12
import Oidc.Props.C13
#print axioms Oidc.Props.C12.get_sound
#print axioms Oidc.Props.C12.nonpositive_invisible
#print axioms Oidc.Props.C12.cleanup_transparent
#print axioms Oidc.Props.C12.get_complete
#print axioms Oidc.Props.C13.size_le_cap
#print axioms Oidc.Props.C13.evict_exactly_one
#print axioms Oidc.Props.C13.lru_loss
