import Driver.Cache
import Driver.Verify
import Driver.Jwt
import Driver.Handler
import Driver.Discovery
/-! Model driver: `driver <family>` reads trace lines on stdin and prints one prediction per step. -/
def main (args : List String) : IO UInt32 := do
  match args with
  | ["cache"] => Driver.Cache.main
  | ["verify"] => Driver.Verify.main
  | ["jwt"] => Driver.Jwt.main
  | ["handler"] => Driver.Handler.main
  | ["discovery"] => Driver.Discovery.main
  | _ => do
    (← IO.getStderr).putStrLn "usage: driver <family>"
    return 2
