import Driver.Common
import Oidc.Model.CacheImpl
import Oidc.Current
/-! Driver for the cache family: replays Set/Get/Delete/Cleanup/tick on the three-structure model `Oidc.CacheImpl` (which
`Oidc.Proofs.CacheImpl.R_run` proves to simulate the abstract list `Oidc.Cache` the property theorems are about) under the
regenerated facts; predicts the answer and the contents of all three structures. -/
open Lean Driver Oidc

namespace Driver.Cache

def sortedKeys (l : List String) : Json := Json.arr ((l.toArray.qsort (· < ·)).map Json.str)

def pred (c : CacheImpl.Impl) (r : String) : Json :=
  if c.cap ≤ 16 then   -- small caches: the contents of all three structures (the harness reports them for these too)
    Json.mkObj [("r", Json.str r), ("len", Json.num c.items.length),
                ("order", Json.arr (c.order.map Json.str).toArray),
                ("items", sortedKeys (c.items.map (·.key))), ("elems", sortedKeys c.elems)]
  else Json.mkObj [("r", Json.str r), ("len", Json.num c.items.length)]

def step (c : CacheImpl.Impl) (j : Json) : CacheImpl.Impl × Option Json :=
  let se := Current.se
  match jS j "op" with
  | "new" => (CacheImpl.init (jN j "cap"), none)
  | "set" =>
    let c' := CacheImpl.set se c (jI j "now") (jS j "k") (jN j "v") (jI j "ttl")
    (c', some (pred c' "ok"))
  | "get" =>
    let (c', r) := CacheImpl.get se c (jI j "now") (jS j "k")
    (c', some (pred c' (match r with | some v => s!"hit {v}" | none => "miss")))
  | "del" => let c' := CacheImpl.delete c (jS j "k"); (c', some (pred c' "ok"))
  | "clean" => let c' := CacheImpl.cleanup se c (jI j "now"); (c', some (pred c' "ok"))
  | "tick" => let c' := CacheImpl.cleanup se c (jI j "now"); (c', some (Json.mkObj [("r", Json.str "ok")]))
  | _ => (c, none)

def main : IO UInt32 := do
  let n ← loop (← IO.getStdin) (← IO.getStdout) step (CacheImpl.init 500) 0
  (← IO.getStderr).putStrLn s!"steps={n}"
  return 0

end Driver.Cache
