import Driver.Common
import Oidc.Model.Cache
import Oidc.Current
/-! Driver for the cache family: replays Set/Get/Delete/Cleanup/tick on `Oidc.Cache` under the regenerated facts. -/
open Lean Driver Oidc

namespace Driver.Cache

def pred (c : Cache.C) (r : String) : Json :=
  Json.mkObj [("r", Json.str r), ("len", Json.num c.order.length),
              ("order", Json.arr (c.order.map (fun e => Json.str e.key)).toArray)]

def step (c : Cache.C) (j : Json) : Cache.C × Option Json :=
  let se := Current.se
  match jS j "op" with
  | "new" => (Cache.init (jN j "cap"), none)
  | "set" =>
    let c' := Cache.set se c (jI j "now") (jS j "k") (jN j "v") (jI j "ttl")
    (c', some (pred c' "ok"))
  | "get" =>
    let (c', r) := Cache.get se c (jI j "now") (jS j "k")
    (c', some (pred c' (match r with | some v => s!"hit {v}" | none => "miss")))
  | "del" => let c' := Cache.delete c (jS j "k"); (c', some (pred c' "ok"))
  | "clean" => let c' := Cache.cleanup se c (jI j "now"); (c', some (pred c' "ok"))
  | "tick" => let c' := Cache.cleanup se c (jI j "now"); (c', some (Json.mkObj [("r", Json.str "ok")]))
  | _ => (c, none)

def main : IO UInt32 := do
  let n ← loop (← IO.getStdin) (← IO.getStdout) step (Cache.init 500) 0
  (← IO.getStderr).putStrLn s!"steps={n}"
  return 0

end Driver.Cache
