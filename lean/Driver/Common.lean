import Lean.Data.Json
/-! JSON-lines plumbing shared by the model drivers (core Lean only). -/
open Lean

namespace Driver

def jS (j : Json) (k : String) : String := (j.getObjValAs? String k).toOption.getD ""
def jI (j : Json) (k : String) : Int := (j.getObjValAs? Int k).toOption.getD 0
def jN (j : Json) (k : String) : Nat := (j.getObjValAs? Nat k).toOption.getD 0
def jB (j : Json) (k : String) : Bool := (j.getObjValAs? Bool k).toOption.getD false
def jA (j : Json) (k : String) : Array Json := ((j.getObjVal? k).toOption.bind (fun x => x.getArr?.toOption)).getD #[]
def jO (j : Json) (k : String) : Option Json := match (j.getObjVal? k).toOption with | some .null => none | x => x
def jHas (j : Json) (k : String) : Bool := (j.getObjVal? k).toOption.isSome
def jStrs (j : Json) (k : String) : List String := (jA j k).toList.map (fun x => x.getStr?.toOption.getD "")

/-- generic line loop: `step` consumes one parsed line and may emit one prediction (a JSON object) -/
partial def loop {σ : Type} (h : IO.FS.Stream) (out : IO.FS.Stream) (step : σ → Json → σ × Option Json) (st : σ) (n : Nat) : IO Nat := do
  let line ← h.getLine
  if line.isEmpty then return n
  match Json.parse line with
  | .error e =>
    out.putStrLn (Json.mkObj [("bad-json", Json.str e)]).compress
    loop h out step st n
  | .ok j =>
    let (st', o) := step st j
    match o with
    | none => loop h out step st' n
    | some p =>
      out.putStrLn p.compress
      loop h out step st' (n+1)

end Driver
