import Driver.Common
import Oidc.Model.Discovery
import Oidc.Current
/-! Driver for the family `discovery` (C20): replays a fault script on `Oidc.Discovery` (time in ns on the virtual clock). -/
open Lean Driver Oidc Oidc.Discovery

namespace Driver.Discovery

structure DocD where
  id : String
  issuerEmpty : Bool
  noES : Bool := false   -- the document names no end-session (and no revocation) endpoint
  present : List String := []   -- the members of the decoded answer that are non-empty strings
  deriving Inhabited

def ns : Int := 1000000000
def facts : Facts :=
  { maxRetries := Current.discoveryMaxRetries, baseDelay := Current.discoveryBaseDelaySec * ns, maxDelay := Current.discoveryMaxDelaySec * ns,
    retryInterval := Current.metadataRetryIntervalSec * ns, loops := Current.initializeMetadataLoops, initWait := Current.initWaitSec * ns }

structure St where
  t0 : Int
  script : List (Outcome DocD)
  final : DocD            -- the provider is healthy once the script is exhausted

/-- an answer as the HTTP client sees it; what counts as provider metadata is decided by the model (`classify`, with the members
    `fetchMetadata` requires as extracted from /repo), not by the harness -/
def parseAnswer (j : Json) : Answer DocD :=
  match jS j "k" with
  | "doc" =>
    let present := jStrs j "present"
    .json { id := jS j "doc", issuerEmpty := !(present.contains "issuer"), noES := jB j "noES", present := present } (jI j "dur")
  | "ok" => .json { id := jS j "doc", issuerEmpty := jB j "issuerEmpty", noES := jB j "noES", present := Current.metadataRequired } (jI j "dur")
  | _ => if jS j "kind" == "refused" || jS j "kind" == "slowfail" then .noAnswer (jI j "dur") else .notMetadata (jI j "dur")

def parseOutcome (j : Json) : Outcome DocD := classify Current.metadataRequired (·.present) (parseAnswer j)

/-- the script followed by enough healthy answers -/
def fullScript (st : St) : List (Outcome DocD) := st.script ++ List.replicate 1500 (.ok st.final 0)

/-- state of the refresh loop at instant `t`: ticks at `initAt + k·hour`; a round whose successful answer arrives after `t` has
    not changed the endpoints yet -/
def refreshUpTo (t : Int) : Nat → Int → RState DocD → List (Outcome DocD) → List Int → RState DocD × List Int
  | 0, _, s, _, acc => (s, acc)
  | fuel+1, tick, s, script, acc =>
    if tick > t then (s, acc)
    else
      let r := refreshTick facts (3600 * ns) (300 * ns) s tick script
      let acc' := acc ++ r.2.2.filter (· ≤ t)
      let rd := round facts script tick 0
      if !(tick < s.expires) && rd.2.1.isSome && rd.1 > t then (s, acc')
      else refreshUpTo t fuel (tick + 3600 * ns) r.1 r.2.1 acc'

def step (st : St) (j : Json) : St × Option Json :=
  match jS j "op" with
  | "dcfg" =>
    ({ t0 := jI j "t0", script := (jA j "outcomes").toList.map parseOutcome,
       final := { id := jS j "finalDoc", issuerEmpty := false, noES := jB j "finalNoES", present := Current.metadataRequired } }, none)
  | "dreq" =>
    let at_ := jI j "at"
    let giveUp : Option Int := (j.getObjValAs? Int "giveUp").toOption
    let sc := fullScript st
    let ir := initRun facts sc st.t0 0
    let deadline := at_ + facts.initWait
    match ir.2 with
    | none =>
      let e := early facts none false at_ giveUp
      (st, some (Json.mkObj [("r", Json.str (match e with | .serve => "serve" | .unavailable503 => "503" | .timeout408 => "408"))]))
    | some d0 =>
      let rest := initRest facts sc 0
      -- the instant at which the request is actually handled, and the endpoints in force then (hourly refresh)
      let servedAt := if ir.1 > at_ then ir.1 else at_
      let rs := (refreshUpTo servedAt 3000 (ir.1 + 3600 * ns) { doc := d0, expires := ir.1 + 3600 * ns } rest []).1
      let e := early facts (some ir.1) rs.doc.issuerEmpty at_ giveUp
      let _ := deadline
      (st, some (Json.mkObj ([("r", Json.str (match e with | .serve => "serve" | .unavailable503 => "503" | .timeout408 => "408"))] ++
        (match e with | .serve => [("doc", Json.str rs.doc.id), ("es", Json.str (if rs.doc.noES then "none" else rs.doc.id))] | _ => []))))
  | "dattempts" =>
    let upTo := jI j "upTo"
    let sc := fullScript st
    let ir := initRun facts sc st.t0 0
    let ia := (initAttempts facts sc st.t0 0).filter (· ≤ upTo)
    let ra := match ir.2 with
      | none => []
      | some d0 =>
        let rest := initRest facts sc 0
        (refreshUpTo upTo 3000 (ir.1 + 3600 * ns) { doc := d0, expires := ir.1 + 3600 * ns } rest []).2
    (st, some (Json.mkObj [("times", Json.arr ((ia ++ ra).map (fun t => Json.num ((t - st.t0 : Int)))).toArray)]))
  | _ => (st, none)

def main : IO UInt32 := do
  let n ← loop (← IO.getStdin) (← IO.getStdout) step { t0 := 0, script := [], final := default } 0
  (← IO.getStderr).putStrLn s!"steps={n}"
  return 0

end Driver.Discovery
