import Driver.Common
import Oidc.Model.World
import Oidc.Model.Verify
import Oidc.Model.Codec
import Oidc.Current
/-!
Driver for the family `handler`: browsers × instances.  Each request line is one `World.serveJar` step on the model's own
jar of the current browser; `VerifyToken` of the current instance is the `Oidc.Verify` model (token cache × revocation
list × limiter) run in the same process.  Time unit of the handler model: seconds (the harness keeps the virtual clock on
whole seconds); the verifier state machine runs in nanoseconds.

Stand-ins for the abstract parameters (DESIGN.md §4.6): token strings are identifiers; `compress` pads the identifier to
the measured compressed length; `rnd k` at step n is `r<n>.<k>`; `S256 v` is the term `S256(v)`; template results come
from a table computed by the harness with text/template.
-/
open Lean Driver Oidc Oidc.Session Oidc.Handler Oidc.World Oidc.Strings

namespace Driver.Handler

/-- Go strings are byte strings: the model's `Str` holds the UTF-8 bytes (as characters 0–255), so lengths are byte lengths -/
def L (s : String) : Str := s.toUTF8.toList.map (fun b => Char.ofNat b.toNat)
def S (s : Str) : String :=
  let ba : ByteArray := ⟨(s.map (fun c => UInt8.ofNat c.toNat)).toArray⟩
  match String.fromUTF8? ba with
  | some str => str
  | none => String.ofList s

structure TokDesc where
  id : String
  parses : Bool
  accFrom : Int
  accTo : Int
  valid : Bool
  exp : Int
  email : Option String
  nonce : Option String
  groups : Claim
  roles : Claim
  clen : Nat
  jti : Option String

def parseClaim (j : Option Json) : Claim :=
  match j with
  | none => .absent
  | some v => match (v.getObjVal? "arr").toOption with
    | some (.arr a) => .array (a.toList.map (fun x => match x with | .str s => .str (L s) | _ => .nonStr))
    | _ => .other

def parseTok (j : Json) : TokDesc :=
  { id := jS j "id", parses := jB j "parses", accFrom := jI j "accFrom", accTo := jI j "accTo", valid := jB j "valid",
    exp := jI j "exp", email := (j.getObjValAs? String "email").toOption, nonce := (j.getObjValAs? String "nonce").toOption,
    groups := parseClaim (jO j "groups"), roles := parseClaim (jO j "roles"), clen := jN j "clen",
    jti := (j.getObjValAs? String "jti").toOption }

def findTok (toks : List TokDesc) (raw : Str) : Option TokDesc := toks.find? (fun t => t.id == S raw)

def tokInfo (toks : List TokDesc) (raw : Str) : TokInfo :=
  match findTok toks raw with
  | none => { parses := false, verdict := fun _ => .invalid, exp := 0, email := none, nonce := none, groups := .absent, roles := .absent }
  | some t =>
    { parses := t.parses,
      verdict := fun now => if !t.valid then .invalid else if now < t.accFrom then .invalid else if now ≤ t.accTo then .accept else .expired,
      exp := t.exp, email := t.email.map L, nonce := t.nonce.map L, groups := t.groups, roles := t.roles }

/-- stand-in for gzip+base64: `<id|` ++ the numbered pattern `id~0~id~1~…` cut to fit ++ `>`, of exactly the measured compressed
    length, so that every chunk of the text is specific to the token.  `decompress` inverts exactly the well-formed texts
    and returns anything else unchanged (as `decompressToken` does for input that is not base64 of gzip): a truncated,
    concatenated or mixed text is *not* read back as a token. -/
def standIn (t : Str) (n : Nat) : Str :=
  let m := n - t.length - 3
  -- numbered blocks `id~k~`: no stretch of the text repeats, so a text with a chunk removed, swapped or replaced by the same
  -- chunk of another token is never a well-formed text of a (shorter) length
  let blocks := (List.range (m / (t.length + 3) + 1)).map (fun k => t ++ ['~'] ++ (toString k).toList ++ ['~'])
  '<' :: t ++ ['|'] ++ (blocks.flatten.take m) ++ ['>']
def compressWith (toks : List TokDesc) (t : Str) : Str :=
  standIn t (match findTok toks t with | some d => d.clen | none => (if t.isEmpty then 32 else t.length + 24))
def decompressS (z : Str) : Str :=
  match z with
  | '<' :: rest =>
    let id := rest.takeWhile (· != '|')
    if standIn id z.length == z then id else z
  | _ => z

def strsOf (j : Json) (k : String) : List Str := (jStrs j k).map L

def parseCfg (j : Json) : Cfg :=
  { excluded := strsOf j "excluded", callback := L (jS j "callback"), logout := L (jS j "logout"), grace := jI j "grace", maxAge := jI j "maxAge",
    pkce := jB j "pkce", allowDomains := strsOf j "allowDomains", allowRoles := strsOf j "allowRoles",
    templates := ((strsOf j "templates").zipIdx).map (fun (n, i) => (n, i)), endSession := L (jS j "endSession"), postLogout := L (jS j "postLogout"),
    maxIncoming := Current.maxIncoming, maxSz := Current.maxSz }

abbrev JTab := List (Session.Name × CV)

structure DState where
  cfg : Cfg
  toks : List TokDesc
  jars : List (Nat × JTab)
  b : Nat
  snaps : Array JTab
  insts : List (Nat × Verify.V)
  i : Nat
  step : Nat
  rate : Int := 1000000
  cur : Option View := none       -- session family: the SessionData of the current request
  now : Int := 0
  secure : Bool := false

def emptyJar : Jar := fun _ => none

/-- jars are functions; to keep evaluation cost flat the driver turns the jar into a finite table after every step -/
def allNames (fuel : Nat) : List Session.Name :=
  [.main, .whole .access, .whole .refresh] ++ (List.range fuel).map (.chunk .access) ++ (List.range fuel).map (.chunk .refresh)
def toTab (fuel : Nat) (j : Jar) : JTab := (allNames fuel).filterMap (fun n => (j n).map (fun v => (n, v)))
def ofTab (tab : JTab) : Jar := fun n => (tab.find? (fun p => p.1 = n)).map (·.2)
def tabOf (st : DState) (b : Nat) : JTab := ((st.jars.find? (·.1 == b)).map (·.2)).getD []
def jarOf (st : DState) (b : Nat) : Jar := ofTab (tabOf st b)
def setJar (st : DState) (b : Nat) (j : Jar) : DState := { st with jars := (b, toTab 300 j) :: st.jars.filter (·.1 != b) }

def ns : Int := 1000000000
def vFacts (R : Int) : Verify.Facts :=
  { se := Current.se, r := Current.limiterRate R, b := Current.limiterBurst R * Limiter.U,
    blTTL := Current.blacklistSec * ns, skew := Current.skewFuture * ns, revokeUntilExp := Current.revokeUntilExp }
def vInit (R : Int) : Verify.V := ⟨Cache.init Current.cacheCap, Cache.init Current.cacheCap, Limiter.init (Current.limiterBurst R)⟩
def vOf (st : DState) : Verify.V := ((st.insts.find? (·.1 == st.i)).map (·.2)).getD (vInit st.rate)
def tokOf (toks : List TokDesc) : Verify.TokOf :=
  { exp := fun id => match toks.find? (·.id == id) with | some t => t.exp * ns | none => 0,
    jti := fun id => match toks.find? (·.id == id) with | some t => t.jti | none => none,
    scratch := fun id now => match toks.find? (·.id == id) with
      | some t => t.parses && t.valid && decide (t.accFrom * ns ≤ now) && decide (now ≤ t.accTo * ns)
      | none => false }

def parseName (s : String) : Option Session.Name :=
  match s with
  | "m" => some .main | "a" => some (.whole .access) | "r" => some (.whole .refresh)
  | _ =>
    let k : TokKind := if s.startsWith "a" then .access else .refresh
    ((s.drop 1).toString.toNat?).map (fun i => .chunk k i)

def countChunks (j : Jar) (k : TokKind) : Nat → Nat → Nat
  | _, 0 => 0
  | i, fuel+1 => match j (.chunk k i) with | some _ => 1 + countChunks j k (i+1) fuel | none => 0

def showTok (toks : List TokDesc) (t : Str) : String :=
  if t.isEmpty then "" else match findTok toks t with | some d => d.id | none => "?"

def fuel : Nat := 300

/-! ### C18: byte length of every Set-Cookie line from the model's own payloads (Oidc.Codec length arithmetic) -/
def byteLen8 (x : Nat) : Nat := if x < 256 then 1 else 1 + byteLen8 (x / 256)
def gobIntLen (v : Int) : Nat :=
  let u : Nat := if v ≥ 0 then (2 * v).toNat else (2 * (-v) - 1).toNat
  if u < 128 then 1 else 1 + byteLen8 u
def valGob : Val → Nat
  | .s v => Codec.ifaceStr v.length
  | .b _ => Codec.ifaceBool
  | .i v => Codec.ifaceInt (gobIntLen v)
def payloadGob (p : Payload) : Nat :=
  Codec.gobMap p.length ((p.map (fun kv => Codec.ifaceStr kv.1.length + valGob kv.2)).foldl (· + ·) 0)
def lenFacts (secure : Bool) (now : Int) : Codec.LenFacts :=
  { encrypted := Current.cookiesEncrypted, secure := secure, tsDigits := (toString now).length }
def nameStr : Session.Name → String
  | .main => Current.mainCookieName
  | .whole .access => Current.accessCookieName
  | .whole .refresh => Current.refreshCookieName
  | .chunk .access i => s!"{Current.accessCookieName}_{i}"
  | .chunk .refresh i => s!"{Current.refreshCookieName}_{i}"
def shortStr : Session.Name → String
  | .main => "m" | .whole .access => "a" | .whole .refresh => "r"
  | .chunk .access i => s!"a{i}" | .chunk .refresh i => s!"r{i}"
/-- lines written by one `Save` of view `v`: main, access, refresh, then every chunk -/
def linesOf (secure : Bool) (now : Int) (v : View) : List (String × Nat) :=
  let f := lenFacts secure now
  let one (n : Session.Name) (p : Payload) : String × Nat := (shortStr n, Codec.lineLen f (nameStr n).length (payloadGob p))
  [one .main v.main, one (.whole .access) (v.whole .access), one (.whole .refresh) (v.whole .refresh)] ++
  ((v.chunks .access).zipIdx.map (fun (p, i) => one (.chunk .access i) p)) ++
  ((v.chunks .refresh).zipIdx.map (fun (p, i) => one (.chunk .refresh i) p))


def viewJson (st : DState) (e : Env) (j : Jar) : Json :=
  let v := getSession st.cfg.maxAge j e.now fuel
  Json.mkObj [
    ("auth", Json.bool (getAuth st.cfg.maxAge e.now v)), ("email", Json.str (S (getEmail v))), ("csrf", Json.str (S (getCSRF v))),
    ("nonce", Json.str (S (getNonce v))), ("ver", Json.str (S (getVerifier v))), ("inc", Json.str (S (getIncoming v))),
    ("a", Json.str (showTok st.toks (getToken e.decompress v .access))), ("r", Json.str (showTok st.toks (getToken e.decompress v .refresh))),
    ("ac", Json.num (countChunks j .access 0 fuel)), ("rc", Json.num (countChunks j .refresh 0 fuel))]

def showCall (toks : List TokDesc) : Call → String
  | .exchange c v r => s!"exchange(code={S c},ver={S v},ru={S r})"
  | .refresh rt => s!"refresh({showTok toks rt})"

def strLt (a b : String) : Bool := a < b

def respJson (st : DState) (r : Req) (o : Out) : List (String × Json) :=
  let prot := protectedNames st.cfg
  match o.resp with
  | .forward h =>
    let ids := (h.filter (fun x => prot.contains x.1)).map (fun x => S x.1 ++ "=" ++ S x.2)
    [("class", Json.str "forward"), ("down", Json.num 1), ("hdrs", Json.arr ((ids.toArray.qsort strLt).map Json.str))]
  | .passthrough => [("class", Json.str "passthrough"), ("down", Json.num 1)]
  | .redirectAuth stt no ch ru =>
    [("class", Json.str "redirectAuth"), ("down", Json.num 0),
     ("loc", Json.mkObj [("state", Json.str (S stt)), ("nonce", Json.str (S no)), ("pkce", Json.bool (!ch.isEmpty)), ("ru", Json.str (S ru))])]
  | .redirectLocal t => [("class", Json.str "redirectLocal"), ("down", Json.num 0), ("loc", Json.mkObj [("target", Json.str (S t))])]
  | .redirectEndSession h p =>
    [("class", Json.str "redirectEndSession"), ("down", Json.num 0), ("loc", Json.mkObj [("hint", Json.str (showTok st.toks h)), ("post", Json.str (S p))])]
  | .redirectPostLogout u => [("class", Json.str "redirectPostLogout"), ("down", Json.num 0), ("loc", Json.mkObj [("uri", Json.str (S u))])]
  | .status c b =>
    let kind := match b with | .html _ => "html" | .json _ => "json" | .plain => "plain"
    let base := [("class", Json.str "status"), ("down", Json.num 0), ("code", Json.num c), ("body", Json.str kind)]
    if r.path == st.cfg.callback && !r.qError.isEmpty then
      match b with
      | .html m => base ++ [("msg", Json.str (S m))]
      | .json m => base ++ [("msg", Json.str (S m))]
      | .plain => base
    else base
  | .preflightOK => [("class", Json.str "preflightOK"), ("down", Json.num 0)]

def parseExchange (j : Json) : ExchangeAns :=
  match jO j "exchange" with
  | none => .failed
  | some x => match jS x "kind" with
    | "ok" => .ok (L (jS x "id")) (L (jS x "rt"))
    | "4xx" | "invalid_grant" | "invalid_client" | "forbidden" => .rejected4xx   -- any 4xx of the token endpoint (400, 401, 403)
    | _ => .failed

def parseRefresh (j : Json) : RefreshAns :=
  match jO j "refresh" with
  | none => .error false
  | some x => match jS x "kind" with
    | "ok" => .ok (L (jS x "id")) (L (jS x "rt"))
    | "noidtoken" => .ok [] []
    | "invalid_grant" => .error true
    | _ => .error false

def execOf (j : Json) (id : Nat) (tokRaw : Str) : Option Str :=
  match jO j "exec" with
  | none => none
  | some tab => match (tab.getObjVal? (S tokRaw)).toOption with
    | some (.arr a) => match a[id]? with | some (.str s) => some (L s) | _ => none
    | _ => none

def runLine (st : DState) (j : Json) : DState × Option Json :=
  match jS j "op" with
  | "cfg" => ({ st with cfg := parseCfg j, jars := [], b := 0, snaps := #[], insts := [], i := 0, step := 0, toks := [],
                        rate := if jHas j "rateLimit" then jI j "rateLimit" else 1000000 }, none)
  | "tok" => ({ st with toks := parseTok j :: st.toks.filter (fun t => t.id != jS j "id") }, none)
  | "browser" => ({ st with b := jN j "b" }, none)
  | "inst" => ({ st with i := jN j "i" }, none)
  | "snap" => ({ st with snaps := st.snaps.push (tabOf st st.b) }, none)
  | "jarreset" =>   -- the current browser's whole jar goes back to a snapshot (the harness restored it)
    ({ st with jars := (st.b, (st.snaps[jN j "snap"]?).getD []) :: st.jars.filter (·.1 != st.b) }, none)
  | "jar" =>
    match parseName (jS j "name") with
    | none => (st, none)
    | some nm =>
      let cur := jarOf st st.b
      let val : Option CV := match jS j "edit" with
        | "bad" => some .bad
        | "restore" => (st.snaps[jN j "snap"]?).bind (fun sj => ofTab sj nm)
        | "from" => (jarOf st (jN j "b")) nm
        | _ => none
      (setJar st st.b (fun n => if n = nm then val else cur n), none)
  | "snew" =>
    ({ st with cfg := { st.cfg with maxAge := Current.maxAgeSec, maxSz := Current.maxSz }, jars := [], b := 0, snaps := #[], toks := [], cur := none,
               secure := jB j "secure" }, none)
  | "sreq" =>
    let now := jI j "now"
    ({ st with cur := some (getSession st.cfg.maxAge (jarOf st st.b) now fuel), now := now }, none)
  | "sset" =>
    match st.cur with
    | none => (st, none)
    | some v =>
      let cw := compressWith st.toks
      let val := L (jS j "val")
      let v' : View := match jS j "field" with
        | "access" => setToken cw st.cfg.maxSz v .access val
        | "refresh" => setToken cw st.cfg.maxSz v .refresh val
        | "auth" => setAuthenticated v st.now (jB j "bool")
        | "email" => setEmail v val
        | "csrf" => setCSRF v val
        | "nonce" => setNonce v val
        | "ver" => setVerifier v val
        | "inc" => setIncoming v val
        | _ => v
      ({ st with cur := some v' }, none)
  | "ssave" | "sclear" =>
    match st.cur with
    | none => (st, none)
    | some v0 =>
      let v := if jS j "op" == "sclear" then clearView v0 else v0
      -- the main session is written first; a value above the codecs' ceiling is not produced: Save fails, nothing is written
      if !Codec.fits Oidc.Generated.cookieValueCeiling (lenFacts st.secure st.now) (payloadGob v.main) then
        (st, some (Json.mkObj [("saveErr", Json.bool true)]))
      else
      let jar' := ofTab (toTab 300 (saveApply v))
      let e : Env := { now := st.now, tok := tokInfo st.toks, verifyTok := fun _ => false, exchange := fun _ _ _ => .failed, refresh := fun _ => .error false,
                       rnd := fun _ => [], s256 := id, exec := fun _ _ => none, compress := compressWith st.toks, decompress := decompressS }
      -- earlier saves of the same response are superseded: the browser keeps the last line per name and the stale chunks are deleted
      let st1 := setJar { st with cur := some v } st.b jar'
      let lines := Json.mkObj ((linesOf st.secure st.now v).map (fun (n, l) => (n, Json.num l)))
      (st1, some (Json.mkObj [("lines", lines), ("jar", viewJson st e jar'),
        ("attrs", Json.str (Codec.attrsText st.secure Current.maxAgeSec)), ("dattrs", Json.str (Codec.attrsText st.secure 0))]))
  | "sview" =>   -- reading the current jar (after tampering) without saving
    let now := jI j "now"
    let e : Env := { now := now, tok := tokInfo st.toks, verifyTok := fun _ => false, exchange := fun _ _ _ => .failed, refresh := fun _ => .error false,
                     rnd := fun _ => [], s256 := id, exec := fun _ _ => none, compress := compressWith st.toks, decompress := decompressS }
    (st, some (Json.mkObj [("jar", viewJson st e (jarOf st st.b))]))
  | "req" =>
    let n := st.step
    let now := jI j "now"
    let T := tokOf st.toks
    let v := vOf st
    let vt : Str → Bool := fun raw => (Verify.verify (vFacts st.rate) T v (now * ns) (S raw)).2
    let ex := parseExchange j
    let rf := parseRefresh j
    let e : Env :=
      { now := now, tok := tokInfo st.toks, verifyTok := vt, exchange := fun _ _ _ => ex, refresh := fun _ => rf,
        rnd := fun k => L s!"r{n}.{k}", s256 := fun v => L "S256(" ++ v ++ [')'], exec := execOf j,
        compress := compressWith st.toks, decompress := decompressS }
    let hdrs : List (Str × Str) := (jA j "hdrs").toList.map (fun p => match p with
      | .arr a => (L ((a[0]?.bind (fun x => x.getStr?.toOption)).getD ""), L ((a[1]?.bind (fun x => x.getStr?.toOption)).getD ""))
      | _ => ([], []))
    -- the request as net/http delivers it; `digest` (the model of the header glue) derives scheme, host, JSON preference, preflight
    let r : Req := digest
      { method := L (jS j "method"), host := L (jS j "host"), tls := jB j "tls", path := L (jS j "path"), rawURI := L (jS j "rawURI"),
        qError := L (jS j "qError"), qErrDesc := L (jS j "qErrDesc"), qState := L (jS j "qState"), qCode := L (jS j "qCode"), hdrs := hdrs }
    -- a request the browser sent without its cookies: served on an empty jar; the answer's Set-Cookie lines are applied to the jar the
    -- browser holds (a Save rewrites the three fixed cookies; chunk cookies are deleted only if the request carried them)
    let withheld := jB j "withheld"
    let held := jarOf st st.b
    let (o, jarS) := serveJar st.cfg e r (if withheld then (fun _ => none) else held) fuel
    let jarF : Jar := if !withheld then jarS else if o.saved.isEmpty then held else
      fun n => match n with
        | .chunk .. => (match jarS n with | some x => some x | none => held n)
        | _ => jarS n
    let jar' := ofTab (toTab 300 jarF)
    -- which token (if any) went through VerifyToken at this step: update the instance's verifier state
    let verified : Option Str := match o.calls with
      | [Call.exchange ..] => (match ex with | .ok idRaw _ => some idRaw | _ => none)
      | [Call.refresh _] => (match rf with | .ok idRaw _ => if idRaw.isEmpty then none else some idRaw | _ => none)
      | _ => none
    let v' := match verified with | some raw => (Verify.verify (vFacts st.rate) T v (now * ns) (S raw)).1 | none => v
    let st1 := setJar st st.b jar'
    let st2 := { st1 with insts := (st.i, v') :: st.insts.filter (·.1 != st.i), step := n + 1 }
    let out := Json.mkObj (respJson st r o ++ [("calls", Json.arr ((o.calls.map (fun c => Json.str (showCall st.toks c))).toArray)),
                                               ("jar", viewJson st e jar')])
    (st2, some out)
  | _ => (st, none)

def main : IO UInt32 := do
  let cfg0 : Cfg := { excluded := [], callback := [], logout := [], grace := 0, maxAge := 0, pkce := false, allowDomains := [], allowRoles := [],
                      templates := [], endSession := [], postLogout := [], maxIncoming := 0, maxSz := 1 }
  let st0 : DState := { cfg := cfg0, toks := [], jars := [], b := 0, snaps := #[], insts := [], i := 0, step := 0 }
  let n ← loop (← IO.getStdin) (← IO.getStdout) runLine st0 0
  (← IO.getStderr).putStrLn s!"steps={n}"
  return 0

end Driver.Handler
