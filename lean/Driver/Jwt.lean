import Driver.Common
import Oidc.Model.Jwt
import Oidc.Current
/-! Driver for the family `jwt` (C02): runs `Oidc.Jwt.accept` on the abstract description of each token.
Times are nanoseconds: claim values (whole seconds after Go's `int64(float)` truncation) and skews are scaled by 10⁹. -/
open Lean Driver Oidc

namespace Driver.Jwt

def ns : Int := 1000000000

partial def parseJ (scale : Bool) (j : Json) : Option Jwt.J :=
  match j with
  | .null => none
  | _ => match jS j "t" with
    | "str" => some (.str (jS j "s"))
    | "num" => some (.num (if scale then jI j "n" * ns else jI j "n"))
    | "arr" => some (.arr ((jA j "items").toList.filterMap (fun x => match parseJ false x with | some v => some v | none => some .other)))
    | _ => some .other

def field (scale : Bool) (t : Json) (k : String) : Option Jwt.J :=
  match (t.getObjVal? k).toOption with
  | none => none
  | some v => parseJ scale v

structure St where
  issuer : String
  clientID : String
  keys : List Jwt.Key

def facts : Jwt.Facts :=
  { supportedAlgs := Current.supportedAlgs, hashAlgs := Current.hashAlgs, skewFuture := Current.skewFuture * ns,
    skewPast := Current.skewPast * ns, nbfTypeChecked := Current.nbfTypeChecked }

def step (st : St) (j : Json) : St × Option Json :=
  match jS j "op" with
  | "jcfg" =>
    let ks := (jA j "keys").toList.map (fun k => ({ kid := jS k "kid", fam := match jS k "fam" with | "rsa" => .rsa | "ec" => .ec | _ => .unsupported } : Jwt.Key))
    ({ issuer := jS j "issuer", clientID := jS j "clientID", keys := ks }, none)
  | "jwt" =>
    let t := (j.getObjVal? "tok").toOption.getD Json.null
    let tok : Jwt.Tok :=
      { parsed := jB t "parsed", alg := field false t "alg", kid := field false t "kid", iss := field false t "iss", aud := field false t "aud",
        exp := field true t "exp", iat := field true t "iat", nbf := field true t "nbf", sub := field false t "sub", sigValid := jB t "sigValid" }
    let ok := Jwt.accept facts st.issuer st.clientID st.keys (jI j "now") tok
    (st, some (Json.mkObj [("r", Json.str (if ok then "accept" else "reject"))]))
  | _ => (st, none)

def main : IO UInt32 := do
  let n ← loop (← IO.getStdin) (← IO.getStdout) step { issuer := "", clientID := "", keys := [] } 0
  (← IO.getStderr).putStrLn s!"steps={n}"
  return 0

end Driver.Jwt
