import Driver.Common
import Oidc.Model.Verify
import Oidc.Current
/-! Driver for the families `verify` (C14) and `limiter` (C19): replays verify / revoke on `Oidc.Verify`. -/
open Lean Driver Oidc

namespace Driver.Verify

structure TokD where
  id : String
  valid : Bool
  accFrom : Int
  accTo : Int
  exp : Int
  jti : Option String
  aud : String   -- the client the token was issued for

/-- one middleware instance: its client id, its limiter parameters and its own caches -/
structure InstD where
  i : Nat
  client : String
  F : Verify.Facts
  v : Verify.V

structure St where
  toks : List TokD
  insts : List InstD

def tokOf (toks : List TokD) (client : String) : Verify.TokOf :=
  { exp := fun id => match toks.find? (·.id == id) with | some t => t.exp | none => 0,
    jti := fun id => match toks.find? (·.id == id) with | some t => t.jti | none => none,
    scratch := fun id now => match toks.find? (·.id == id) with
      | some t => t.valid && t.aud == client && decide (t.accFrom ≤ now) && decide (now ≤ t.accTo)
      | none => false }

def ns : Int := 1000000000

def mkFacts (R : Int) : Verify.Facts :=
  { se := Current.se, r := Current.limiterRate R, b := Current.limiterBurst R * Limiter.U,
    blTTL := Current.blacklistSec * ns, skew := Current.skewFuture * ns, revokeUntilExp := Current.revokeUntilExp }

def mkInst (i : Nat) (client : String) (R : Int) : InstD :=
  let F := mkFacts R
  { i := i, client := client, F := F, v := ⟨Cache.init Current.cacheCap, Cache.init Current.cacheCap, Limiter.init (Current.limiterBurst R)⟩ }

def init (R : Int) : St := { toks := [], insts := [mkInst 0 "cid" R] }

def instOf (st : St) (i : Nat) : InstD := (st.insts.find? (·.i == i)).getD (mkInst i "cid" 100)
def setInst (st : St) (d : InstD) : St := { st with insts := d :: st.insts.filter (·.i != d.i) }

/-- width of the band around the admission threshold inside which the float64 implementation may decide either way:
    x/time/rate truncates the wait to whole nanoseconds (a deficit below `r` units is admitted) and accumulates rounding -/
def band (F : Verify.Facts) : Int := F.r + 200000

def step (st : St) (j : Json) : St × Option Json :=
  match jS j "op" with
  | "vcfg" => (init (jI j "R"), none)
  | "vinst" => (setInst st (mkInst (jN j "i") (jS j "client") (jI j "R")), none)   -- a further instance of the same process
  | "vtok" =>
    let t : TokD := { id := jS j "id", valid := jB j "valid", accFrom := jI j "accFrom", accTo := jI j "accTo", exp := jI j "exp",
                      jti := (j.getObjValAs? String "jti").toOption, aud := if jHas j "aud" then jS j "aud" else "cid" }
    ({ st with toks := t :: st.toks }, none)
  | "verify" =>
    let now := jI j "now"
    let id := jS j "id"
    let d := instOf st (jN j "inst")
    let T := tokOf st.toks d.client
    let cached := (Cache.get d.F.se d.v.tc now id).2.isSome
    let refill := Limiter.refill d.F.r d.F.b d.v.lim now
    let near := !cached && decide ((refill - Limiter.U).natAbs ≤ (band d.F).natAbs)
    if near then
      -- follow the implementation's decision at the threshold; never compare it
      let impl := ((j.getObjVal? "obs").toOption.map (fun o => jS o "r")).getD ""
      let admitted := impl != "refuse"
      let a : Limiter.L × Bool := if admitted then (⟨refill - Limiter.U, now⟩, true) else (⟨refill, now⟩, false)
      let (v', ok) := Verify.verifyWith d.F T d.v now id a
      let r := if !admitted then "*" else if ok then "accept" else "reject"
      (setInst st { d with v := v' }, some (Json.mkObj [("r", Json.str r), ("boundary", Json.bool true)]))
    else
      let a := Limiter.allow d.F.r d.F.b d.v.lim now
      let (v', ok) := Verify.verify d.F T d.v now id
      let r := if ok then "accept" else if !cached && !a.2 then "refuse" else "reject"
      (setInst st { d with v := v' }, some (Json.mkObj [("r", Json.str r)]))
  | "revoke" =>
    let d := instOf st (jN j "inst")
    let v' := Verify.revoke d.F (tokOf st.toks d.client) d.v (jI j "now") (jS j "id")
    (setInst st { d with v := v' }, some (Json.mkObj [("r", Json.str "ok")]))
  | _ => (st, none)

def main : IO UInt32 := do
  let n ← loop (← IO.getStdin) (← IO.getStdout) step (init 100) 0
  (← IO.getStderr).putStrLn s!"steps={n}"
  return 0

end Driver.Verify
