import Oidc.Generated.Facts
/-!
# The model's parameters as read from the regenerated facts

Everything the executable models take as a parameter and that the fact extractor can read off /repo is defined here
from `Oidc.Generated`, so the driver and the `…_current` corollaries in `Oidc/Props` talk about the code as it is now.
-/
namespace Oidc.Current
open Oidc.Generated

/-- strict expiry comparison (`now > exp`) in the cache; anything but the recognised non-strict shape counts as strict -/
def se : Bool := decide (cacheGetExpiry ≠ .nonstrict)

def maxSz : Nat := maxCookieSize
def maxAgeSec : Int := absoluteSessionTimeoutSec
def maxIncoming : Nat := maxIncomingPathLength
def skewFuture : Int := skewFutureSec
def skewPast : Int := skewPastSec
def blacklistSec : Int := blacklistDurationSec
def cacheCap : Nat := defaultMaxSize

end Oidc.Current
