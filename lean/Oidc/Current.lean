import Oidc.Generated.Facts
/-!
# The model's parameters as read from the regenerated facts

Everything the executable models take as a parameter and that the fact extractor can read off /repo is defined here
from `Oidc.Generated`, so the driver and the `…_current` corollaries in `Oidc/Props` talk about the code as it is now.
-/
namespace Oidc.Current
open Oidc.Generated

/-- strict expiry comparison (`now > exp`) in the cache; anything but the recognised non-strict shape counts as strict -/
def se : Bool := decide (cacheGetExpiry ≠ .nonstrict)

def maxSz : Nat := maxCookieSize
def maxAgeSec : Int := absoluteSessionTimeoutSec
def maxIncoming : Nat := maxIncomingPathLength
def skewFuture : Int := skewFutureSec
def skewPast : Int := skewPastSec
def blacklistSec : Int := blacklistDurationSec
def cacheCap : Nat := defaultMaxSize
def discoveryMaxRetries : Nat := Generated.discoveryMaxRetries
def discoveryBaseDelaySec : Int := Generated.discoveryBaseDelaySec
def discoveryMaxDelaySec : Int := Generated.discoveryMaxDelaySec
def metadataRetryIntervalSec : Int := Generated.metadataRetryIntervalSec
def initializeMetadataLoops : Bool := Generated.initializeMetadataLoops
def initWaitSec : Int := Generated.initWaitSec
def metadataRequired : List String := Generated.metadataRequired
/-- cookie contents are encrypted iff a block key is passed to the cookie store -/
def cookiesEncrypted : Bool := decide (2 ≤ cookieStoreKeyArgs) && cookieStoreAllPairsEncrypted
def mainCookieName : String := Generated.mainCookieName
def accessCookieName : String := Generated.accessTokenCookie
def refreshCookieName : String := Generated.refreshTokenCookie
def supportedAlgs : List String := Generated.supportedAlgs
/-- algorithms `verifySignature` knows a hash for (an entry whose hash does not match its suffix is dropped) -/
def hashAlgs : List String := Generated.hashAlgs.filter (fun a => !(a.endsWith "!mismatch"))
def nbfTypeChecked : Bool := Generated.nbfTypeChecked

/-- limiter as constructed in `New`: refill rate (tokens per second) and burst (tokens) for a configured `rateLimit = R`.
    Unrecognised constructor arguments fall back to the pre-fix shape (1 token/s) so that the correspondence shows it. -/
def limiterRate (R : Int) : Int := if limiterRateIsConfigPerSecond then R else 1
def limiterBurst (R : Int) : Int := if limiterBurstIsConfig then R else 1

/-! Behavioural parameters of the models that are *not* regenerated (they are tied to the code by the
correspondence runs only): -/
/-- `RevokeToken` lists the token until max(now + 24 h, exp + skew) -/
def revokeUntilExp : Bool := true

end Oidc.Current
