import Oidc.Current
/-!
# `GoodFacts`: what the proofs need from the regenerated facts

Each predicate is decidable and is discharged by `decide` in `Oidc/Props/Cxx.lean` against the *regenerated*
`Oidc/Generated/Facts.lean`; changing the corresponding constant or code shape in /repo re-opens that obligation.
Constants enter as the inequalities the proofs need, or as equalities where the property itself names the number.
-/
namespace Oidc.Facts
open Oidc.Generated

/-- C12 / C13: the three expiry tests of the cache use the non-strict comparison (`now ≥ exp` means expired), Cleanup's
second disjunct (`now + f·(exp − now) > exp`, f ≤ 1) cannot remove a live entry, the capacity test is `≥`, capacity ≥ 1 -/
def GoodCache : Prop :=
  factsComplete = true ∧ cacheGetExpiry = .nonstrict ∧ cacheCleanupExpiry = .nonstrict ∧ cacheEvictExpiry = .nonstrict ∧
  cacheCleanupFactorMilli ≤ 1000 ∧ cacheCapacityTestGE = true ∧ 0 < defaultMaxSize
instance : Decidable GoodCache := by unfold GoodCache; infer_instance

/-- C13 (atomicity): every exported method that touches the structures holds the single mutex from its first statement
to its return; the private helpers are only called from there; no exported method calls another one (no re-entrancy) -/
def GoodCacheLocks : Prop :=
  cacheUnlockedMethods = [] ∧ cacheLockedMethods = ["Cleanup", "Delete", "Get", "Set"] ∧ cachePrivateCalledOnlyLocked = true
instance : Decidable GoodCacheLocks := by unfold GoodCacheLocks; infer_instance

/-- C14: listing period 24 h, accepted skew 2 min (the numbers enter `revTTL_covers` only as non-negativity; the values
are the ones the property text and C02 name) -/
def GoodVerify : Prop := factsComplete = true ∧ blacklistDurationSec = 86400 ∧ skewFutureSec = 120 ∧ 0 < defaultMaxSize
instance : Decidable GoodVerify := by unfold GoodVerify; infer_instance

/-- C19: the limiter is built as `rate.NewLimiter(rate.Limit(config.RateLimit), config.RateLimit)`: refill = burst = rateLimit -/
def GoodLimiter : Prop := limiterRateIsConfigPerSecond = true ∧ limiterBurstIsConfig = true
instance : Decidable GoodLimiter := by unfold GoodLimiter; infer_instance

/-- C02: the allow-list of `JWT.Verify` is exactly the nine RS/PS/ES 256/384/512 names, `verifySignature` knows a hash
for exactly those (hash size = suffix), RSA keys serve the RS*/PS* names and EC keys the ES* names, the skews are the
two minutes / ten seconds the property names, a present `nbf` of wrong type is rejected, ES* signatures must have the exact
r‖s length -/
def nine : List String := ["ES256", "ES384", "ES512", "PS256", "PS384", "PS512", "RS256", "RS384", "RS512"]
def GoodJwt : Prop :=
  factsComplete = true ∧ supportedAlgs = nine ∧ hashAlgs = nine ∧ rsaAlgPrefixes = ["PS", "RS"] ∧ ecAlgPrefixes = ["ES"] ∧
  skewFutureSec = 120 ∧ skewPastSec = 10 ∧ nbfTypeChecked = true ∧ ecdsaSigLenExact = true
instance : Decidable GoodJwt := by unfold GoodJwt; infer_instance

/-- C03: nonce and PKCE verifier are at least 32 bytes read from crypto/rand (the state is a v4 UUID from google/uuid) -/
def GoodRandom : Prop := randomFromCryptoRand = true ∧ 32 ≤ nonceBytes ∧ 32 ≤ verifierBytes ∧
  -- the state is a version-4 UUID (122 bits from crypto/rand), nothing time- or host-derived
  stateSources = ["uuid.NewString()"]
instance : Decidable GoodRandom := by unfold GoodRandom; infer_instance

/-- C15 / C17 / C18: the remembered request URI is capped (the proofs need ≥ 1; C18's main-cookie bound needs ≤ 1024) -/
def GoodIncoming : Prop := 1 ≤ maxIncomingPathLength ∧ maxIncomingPathLength ≤ 1024
instance : Decidable GoodIncoming := by unfold GoodIncoming; infer_instance

/-- C07 / C17: chunk size positive; absolute session lifetime 24 h -/
def GoodSession : Prop := 0 < maxCookieSize ∧ absoluteSessionTimeoutSec = 86400 ∧ poolPutOnlyBeforeNilReturn = true
instance : Decidable GoodSession := by unfold GoodSession; infer_instance


end Oidc.Facts
