import Oidc.GoLib
/-! # /repo's functions translated by tools/go2lean (regenerated on every run; do not edit) -/
namespace Oidc.Generated.Code
open Oidc
set_option linter.unusedVariables false

def ClockSkewTolerance : Go.Duration := ((2 : Int) * Go.Minute)
def ClockSkewToleranceFuture : Go.Duration := ((2 : Int) * Go.Minute)
def ClockSkewTolerancePast : Go.Duration := ((10 : Int) * Go.Second)

/-- verifyIssuer (jwt.go) -/
def verifyIssuer (tokenIssuer : Go.Str) (expectedIssuer : Go.Str) : Go.Err :=
  if (tokenIssuer != expectedIssuer) then
    (some ['i','n','v','a','l','i','d',' ','i','s','s','u','e','r',' ','(','t','o','k','e','n',':',' ','%','s',',',' ','e','x','p','e','c','t','e','d',':',' ','%','s',')'])
  else
    (none : Go.Err)

/-- verifyTimeConstraint (jwt.go) -/
def verifyTimeConstraint (now : Go.Time) (unixTime : Go.F64) (claimName : Go.Str) (future : Bool) : Go.Err :=
  let claimTime := (Go.timeUnix (Go.int64 unixTime) (0 : Int))
  let now_1 := now
  let err := (none : Go.Err)
  if future then
    let allowedExpiry := (Go.timeAdd claimTime ClockSkewToleranceFuture)
    if (Go.timeAfter now_1 allowedExpiry) then
      let err := (some ['t','o','k','e','n',' ','h','a','s',' ','e','x','p','i','r','e','d',' ','(','e','x','p',':',' ','%','v',',',' ','n','o','w',':',' ','%','v',',',' ','a','l','l','o','w','e','d','_','u','n','t','i','l',':',' ','%','v',')'])
      err
    else
      err
  else
    let allowedStart := (Go.timeAdd claimTime (-ClockSkewTolerancePast))
    if (Go.timeBefore now_1 allowedStart) then
      let reason := ['n','o','t',' ','y','e','t',' ','v','a','l','i','d']
      if (claimName == ['i','a','t']) then
        let reason := ['u','s','e','d',' ','b','e','f','o','r','e',' ','i','s','s','u','e','d']
        let err := (some ['t','o','k','e','n',' ','%','s',' ','(','%','s',':',' ','%','v',',',' ','n','o','w',':',' ','%','v',',',' ','a','l','l','o','w','e','d','_','f','r','o','m',':',' ','%','v',')'])
        err
      else
        let err := (some ['t','o','k','e','n',' ','%','s',' ','(','%','s',':',' ','%','v',',',' ','n','o','w',':',' ','%','v',',',' ','a','l','l','o','w','e','d','_','f','r','o','m',':',' ','%','v',')'])
        err
    else
      err

/-- verifyExpiration (jwt.go) -/
def verifyExpiration (now : Go.Time) (expiration : Go.F64) : Go.Err :=
  (verifyTimeConstraint now expiration ['e','x','p'] true)

/-- verifyIssuedAt (jwt.go) -/
def verifyIssuedAt (now : Go.Time) (issuedAt : Go.F64) : Go.Err :=
  (verifyTimeConstraint now issuedAt ['i','a','t'] false)

/-- verifyNotBefore (jwt.go) -/
def verifyNotBefore (now : Go.Time) (notBefore : Go.F64) : Go.Err :=
  (verifyTimeConstraint now notBefore ['n','b','f'] false)

/-- verifyAudience (jwt.go) -/
def verifyAudience (tokenAudience : Go.Any) (expectedAudience : Go.Str) : Go.Err :=
  match tokenAudience with
  | .str aud =>
    if (aud != expectedAudience) then
      (some ['i','n','v','a','l','i','d',' ','a','u','d','i','e','n','c','e'])
    else
      (none : Go.Err)
  | .arr aud =>
    let found := false
    match Go.forRange aud found (fun v found =>
      let (str, ok) := Go.asStr v
      if (ok && (str == expectedAudience)) then
        let found := true
        .brk found
      else
        .next found) with
    | .ret r => r
    | .next found =>
      if (!found) then
        (some ['i','n','v','a','l','i','d',' ','a','u','d','i','e','n','c','e'])
      else
        (none : Go.Err)
    | .brk found =>
      if (!found) then
        (some ['i','n','v','a','l','i','d',' ','a','u','d','i','e','n','c','e'])
      else
        (none : Go.Err)
  | _ =>
    (some ['i','n','v','a','l','i','d',' ','\'','a','u','d','\'',' ','c','l','a','i','m',' ','t','y','p','e'])

/-- JWT.Verify (jwt.go) -/
def JWT_Verify (now : Go.Time) (j : Go.JWT) (issuerURL : Go.Str) (clientID : Go.Str) : Go.Err :=
  let (alg, ok) := Go.asStr (Go.mapGet j.Header ['a','l','g'])
  if (!ok) then
    (some ['m','i','s','s','i','n','g',' ','\'','a','l','g','\'',' ','h','e','a','d','e','r'])
  else
    let supportedAlgs := ([(['R','S','2','5','6'], true), (['R','S','3','8','4'], true), (['R','S','5','1','2'], true), (['P','S','2','5','6'], true), (['P','S','3','8','4'], true), (['P','S','5','1','2'], true), (['E','S','2','5','6'], true), (['E','S','3','8','4'], true), (['E','S','5','1','2'], true)] : List (Go.Str × Bool))
    if (!(Go.boolMapGet supportedAlgs alg)) then
      (some ['u','n','s','u','p','p','o','r','t','e','d',' ','a','l','g','o','r','i','t','h','m',':',' ','%','s'])
    else
      let claims := j.Claims
      let (iss, ok) := Go.asStr (Go.mapGet claims ['i','s','s'])
      if (!ok) then
        (some ['m','i','s','s','i','n','g',' ','\'','i','s','s','\'',' ','c','l','a','i','m'])
      else
        let err := (verifyIssuer iss issuerURL)
        if err.isSome then
          err
        else
          let (aud, ok) := Go.mapGet2 claims ['a','u','d']
          if (!ok) then
            (some ['m','i','s','s','i','n','g',' ','\'','a','u','d','\'',' ','c','l','a','i','m'])
          else
            let err := (verifyAudience aud clientID)
            if err.isSome then
              err
            else
              let (exp, ok) := Go.asF64 (Go.mapGet claims ['e','x','p'])
              if (!ok) then
                (some ['m','i','s','s','i','n','g',' ','o','r',' ','i','n','v','a','l','i','d',' ','\'','e','x','p','\'',' ','c','l','a','i','m'])
              else
                let err := (verifyExpiration now exp)
                if err.isSome then
                  err
                else
                  let (iat, ok) := Go.asF64 (Go.mapGet claims ['i','a','t'])
                  if (!ok) then
                    (some ['m','i','s','s','i','n','g',' ','o','r',' ','i','n','v','a','l','i','d',' ','\'','i','a','t','\'',' ','c','l','a','i','m'])
                  else
                    let err := (verifyIssuedAt now iat)
                    if err.isSome then
                      err
                    else
                      let (nbfClaim, present) := Go.mapGet2 claims ['n','b','f']
                      if present then
                        let (nbf, ok_1) := Go.asF64 nbfClaim
                        if (!ok_1) then
                          (some ['i','n','v','a','l','i','d',' ','\'','n','b','f','\'',' ','c','l','a','i','m'])
                        else
                          let err := (verifyNotBefore now nbf)
                          if err.isSome then
                            err
                          else
                            let (sub, ok) := Go.asStr (Go.mapGet claims ['s','u','b'])
                            if ((!ok) || (sub == ([] : Go.Str))) then
                              (some ['m','i','s','s','i','n','g',' ','o','r',' ','e','m','p','t','y',' ','\'','s','u','b','\'',' ','c','l','a','i','m'])
                            else
                              (none : Go.Err)
                      else
                        let (sub, ok) := Go.asStr (Go.mapGet claims ['s','u','b'])
                        if ((!ok) || (sub == ([] : Go.Str))) then
                          (some ['m','i','s','s','i','n','g',' ','o','r',' ','e','m','p','t','y',' ','\'','s','u','b','\'',' ','c','l','a','i','m'])
                        else
                          (none : Go.Err)

/-- TraefikOidc.determineScheme (main.go) -/
def TraefikOidc_determineScheme (t : Go.Inst) (req : Go.Request) : Go.Str :=
  let scheme := (Go.headerGet req ['X','-','F','o','r','w','a','r','d','e','d','-','P','r','o','t','o'])
  if (scheme != ([] : Go.Str)) then
    scheme
  else
    if req.tls then
      ['h','t','t','p','s']
    else
      ['h','t','t','p']

/-- TraefikOidc.determineHost (main.go) -/
def TraefikOidc_determineHost (t : Go.Inst) (req : Go.Request) : Go.Str :=
  let host := (Go.headerGet req ['X','-','F','o','r','w','a','r','d','e','d','-','H','o','s','t'])
  if (host != ([] : Go.Str)) then
    host
  else
    req.host

/-- TraefikOidc.determineExcludedURL (main.go) -/
def TraefikOidc_determineExcludedURL (t : Go.Inst) (currentRequest : Go.Str) : Bool :=
  match Go.forRange t.excludedURLs () (fun excludedURL () =>
    if (Go.hasPrefix currentRequest excludedURL) then
      .ret (true)
    else
      .next ()) with
  | .ret r => r
  | .next () =>
    false
  | .brk () =>
    false

/-- TraefikOidc.isAllowedDomain (main.go) -/
def TraefikOidc_isAllowedDomain (t : Go.Inst) (email : Go.Str) : Bool :=
  if ((t.allowedUserDomains.length : Int) == (0 : Int)) then
    true
  else
    let parts := (Go.split email ['@'])
    if ((parts.length : Int) != (2 : Int)) then
      false
    else
      let domain := (Go.idx parts (1 : Int))
      let ok := Go.setHas t.allowedUserDomains domain
      ok

end Oidc.Generated.Code
