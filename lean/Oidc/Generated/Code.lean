import Oidc.GoLib
/-! # /repo's functions translated by tools/go2lean (regenerated on every run; do not edit) -/
namespace Oidc.Generated.Code
open Oidc
set_option linter.unusedVariables false

def ClockSkewTolerance : Go.Duration := ((2 : Int) * Go.Minute)
def ClockSkewToleranceFuture : Go.Duration := ((2 : Int) * Go.Minute)
def ClockSkewTolerancePast : Go.Duration := ((10 : Int) * Go.Second)
def MinRateLimit : Int := (10 : Int)
def MinSessionEncryptionKeyLength : Int := (32 : Int)
def absoluteSessionTimeout : Go.Duration := ((24 : Int) * Go.Hour)
def accessTokenCookie : Go.Str := ['_','o','i','d','c','_','r','a','c','z','y','l','o','_','a']
def defaultBlacklistDuration : Go.Duration := ((24 : Int) * Go.Hour)
def maxCookieSize : Int := (2000 : Int)
def maxNumericDate : Int := (4611686018427387904 : Int)
def refreshTokenCookie : Go.Str := ['_','o','i','d','c','_','r','a','c','z','y','l','o','_','r']

/-- verifyIssuer (jwt.go) -/
def verifyIssuer (tokenIssuer : Go.Str) (expectedIssuer : Go.Str) : Go.Err :=
  if (tokenIssuer != expectedIssuer) then
    (some (['i','n','v','a','l','i','d',' ','i','s','s','u','e','r',' ','(','t','o','k','e','n',':',' '] ++ tokenIssuer ++ [',',' ','e','x','p','e','c','t','e','d',':',' '] ++ expectedIssuer ++ [')']))
  else
    (none : Go.Err)

/-- numericDateSeconds (jwt.go) -/
def numericDateSeconds (v : Go.F64) : Int :=
  if (Go.f64GeNonneg v maxNumericDate) then
    maxNumericDate
  else
    if (Go.f64LeNonpos v (-maxNumericDate)) then
      (-maxNumericDate)
    else
      (Go.int64 v)

/-- verifyTimeConstraint (jwt.go) -/
def verifyTimeConstraint (now : Go.Time) (unixTime : Go.F64) (claimName : Go.Str) (future : Bool) : Go.Err :=
  let claimTime := (Go.timeUnix (numericDateSeconds unixTime) (0 : Int))
  let now_1 := now
  let err := (none : Go.Err)
  if future then
    let allowedExpiry := (Go.timeAdd claimTime ClockSkewToleranceFuture)
    if (Go.timeAfter now_1 allowedExpiry) then
      let err := (some (['t','o','k','e','n',' ','h','a','s',' ','e','x','p','i','r','e','d',' ','(','e','x','p',':',' ','%','v'] ++ [',',' ','n','o','w',':',' ','%','v'] ++ [',',' ','a','l','l','o','w','e','d','_','u','n','t','i','l',':',' ','%','v'] ++ [')']))
      err
    else
      err
  else
    let allowedStart := (Go.timeAdd claimTime (-ClockSkewTolerancePast))
    if (Go.timeBefore now_1 allowedStart) then
      let reason := ['n','o','t',' ','y','e','t',' ','v','a','l','i','d']
      if (claimName == ['i','a','t']) then
        let reason := ['u','s','e','d',' ','b','e','f','o','r','e',' ','i','s','s','u','e','d']
        let err := (some (['t','o','k','e','n',' '] ++ reason ++ [' ','('] ++ claimName ++ [':',' ','%','v'] ++ [',',' ','n','o','w',':',' ','%','v'] ++ [',',' ','a','l','l','o','w','e','d','_','f','r','o','m',':',' ','%','v'] ++ [')']))
        err
      else
        let err := (some (['t','o','k','e','n',' '] ++ reason ++ [' ','('] ++ claimName ++ [':',' ','%','v'] ++ [',',' ','n','o','w',':',' ','%','v'] ++ [',',' ','a','l','l','o','w','e','d','_','f','r','o','m',':',' ','%','v'] ++ [')']))
        err
    else
      err

/-- verifyExpiration (jwt.go) -/
def verifyExpiration (now : Go.Time) (expiration : Go.F64) : Go.Err :=
  (verifyTimeConstraint now expiration ['e','x','p'] true)

/-- verifyIssuedAt (jwt.go) -/
def verifyIssuedAt (now : Go.Time) (issuedAt : Go.F64) : Go.Err :=
  (verifyTimeConstraint now issuedAt ['i','a','t'] false)

/-- verifyNotBefore (jwt.go) -/
def verifyNotBefore (now : Go.Time) (notBefore : Go.F64) : Go.Err :=
  (verifyTimeConstraint now notBefore ['n','b','f'] false)

/-- verifyAudience (jwt.go) -/
def verifyAudience (tokenAudience : Go.Any) (expectedAudience : Go.Str) : Go.Err :=
  match tokenAudience with
  | .str aud =>
    if (aud != expectedAudience) then
      (some (['i','n','v','a','l','i','d',' ','a','u','d','i','e','n','c','e']))
    else
      (none : Go.Err)
  | .arr aud =>
    let found := false
    match Go.forRange aud found (fun v found =>
      let (str, ok) := Go.asStr v
      if (ok && (str == expectedAudience)) then
        let found := true
        .brk found
      else
        .next found) with
    | .ret r => r
    | .next found =>
      if (!found) then
        (some (['i','n','v','a','l','i','d',' ','a','u','d','i','e','n','c','e']))
      else
        (none : Go.Err)
    | .brk found =>
      if (!found) then
        (some (['i','n','v','a','l','i','d',' ','a','u','d','i','e','n','c','e']))
      else
        (none : Go.Err)
  | _ =>
    (some (['i','n','v','a','l','i','d',' ','\'','a','u','d','\'',' ','c','l','a','i','m',' ','t','y','p','e']))

/-- JWT.Verify (jwt.go) -/
def JWT_Verify (now : Go.Time) (j : Go.JWT) (issuerURL : Go.Str) (clientID : Go.Str) : Go.Err :=
  let (alg, ok) := Go.asStr (Go.mapGet j.Header ['a','l','g'])
  if (!ok) then
    (some (['m','i','s','s','i','n','g',' ','\'','a','l','g','\'',' ','h','e','a','d','e','r']))
  else
    let supportedAlgs := ([(['R','S','2','5','6'], true), (['R','S','3','8','4'], true), (['R','S','5','1','2'], true), (['P','S','2','5','6'], true), (['P','S','3','8','4'], true), (['P','S','5','1','2'], true), (['E','S','2','5','6'], true), (['E','S','3','8','4'], true), (['E','S','5','1','2'], true)] : List (Go.Str × Bool))
    if (!(Go.boolMapGet supportedAlgs alg)) then
      (some (['u','n','s','u','p','p','o','r','t','e','d',' ','a','l','g','o','r','i','t','h','m',':',' '] ++ alg))
    else
      let claims := j.Claims
      let (iss, ok) := Go.asStr (Go.mapGet claims ['i','s','s'])
      if (!ok) then
        (some (['m','i','s','s','i','n','g',' ','\'','i','s','s','\'',' ','c','l','a','i','m']))
      else
        let err := (verifyIssuer iss issuerURL)
        if err.isSome then
          err
        else
          let (aud, ok) := Go.mapGet2 claims ['a','u','d']
          if (!ok) then
            (some (['m','i','s','s','i','n','g',' ','\'','a','u','d','\'',' ','c','l','a','i','m']))
          else
            let err := (verifyAudience aud clientID)
            if err.isSome then
              err
            else
              let (exp, ok) := Go.asF64 (Go.mapGet claims ['e','x','p'])
              if (!ok) then
                (some (['m','i','s','s','i','n','g',' ','o','r',' ','i','n','v','a','l','i','d',' ','\'','e','x','p','\'',' ','c','l','a','i','m']))
              else
                let err := (verifyExpiration now exp)
                if err.isSome then
                  err
                else
                  let (iat, ok) := Go.asF64 (Go.mapGet claims ['i','a','t'])
                  if (!ok) then
                    (some (['m','i','s','s','i','n','g',' ','o','r',' ','i','n','v','a','l','i','d',' ','\'','i','a','t','\'',' ','c','l','a','i','m']))
                  else
                    let err := (verifyIssuedAt now iat)
                    if err.isSome then
                      err
                    else
                      let (nbfClaim, present) := Go.mapGet2 claims ['n','b','f']
                      if present then
                        let (nbf, ok_1) := Go.asF64 nbfClaim
                        if (!ok_1) then
                          (some (['i','n','v','a','l','i','d',' ','\'','n','b','f','\'',' ','c','l','a','i','m']))
                        else
                          let err := (verifyNotBefore now nbf)
                          if err.isSome then
                            err
                          else
                            let (sub, ok) := Go.asStr (Go.mapGet claims ['s','u','b'])
                            if ((!ok) || (sub == ([] : Go.Str))) then
                              (some (['m','i','s','s','i','n','g',' ','o','r',' ','e','m','p','t','y',' ','\'','s','u','b','\'',' ','c','l','a','i','m']))
                            else
                              (none : Go.Err)
                      else
                        let (sub, ok) := Go.asStr (Go.mapGet claims ['s','u','b'])
                        if ((!ok) || (sub == ([] : Go.Str))) then
                          (some (['m','i','s','s','i','n','g',' ','o','r',' ','e','m','p','t','y',' ','\'','s','u','b','\'',' ','c','l','a','i','m']))
                        else
                          (none : Go.Err)

/-- TraefikOidc.determineScheme (main.go) -/
def TraefikOidc_determineScheme (t : Go.Inst) (req : Go.Request) : Go.Str :=
  let scheme := (Go.headerGet req ['X','-','F','o','r','w','a','r','d','e','d','-','P','r','o','t','o'])
  if (scheme != ([] : Go.Str)) then
    scheme
  else
    if req.tls then
      ['h','t','t','p','s']
    else
      ['h','t','t','p']

/-- TraefikOidc.determineHost (main.go) -/
def TraefikOidc_determineHost (t : Go.Inst) (req : Go.Request) : Go.Str :=
  let host := (Go.headerGet req ['X','-','F','o','r','w','a','r','d','e','d','-','H','o','s','t'])
  if (host != ([] : Go.Str)) then
    host
  else
    req.host

/-- TraefikOidc.determineExcludedURL (main.go) -/
def TraefikOidc_determineExcludedURL (t : Go.Inst) (currentRequest : Go.Str) : Bool :=
  match Go.forRange t.excludedURLs () (fun excludedURL () =>
    if (Go.hasPrefix currentRequest excludedURL) then
      .ret (true)
    else
      .next ()) with
  | .ret r => r
  | .next () =>
    false
  | .brk () =>
    false

/-- TraefikOidc.isAllowedDomain (main.go) -/
def TraefikOidc_isAllowedDomain (t : Go.Inst) (email : Go.Str) : Bool :=
  if ((t.allowedUserDomains.length : Int) == (0 : Int)) then
    true
  else
    let parts := (Go.split email ['@'])
    if ((parts.length : Int) != (2 : Int)) then
      false
    else
      let domain := (Go.idx parts (1 : Int))
      let ok := Go.setHas t.allowedUserDomains domain
      ok

/-- isLocalRedirectTarget (main.go) -/
def isLocalRedirectTarget (target : Go.Str) : Bool :=
  if (!(Go.hasPrefix target ['/'])) then
    false
  else
    ((!(Go.hasPrefix target ['/','/'])) && (!(Go.hasPrefix target ['/','\\'])))

/-- buildFullURL (main.go) -/
def buildFullURL (scheme : Go.Str) (host : Go.Str) (path : Go.Str) : Go.Str :=
  if ((Go.hasPrefix path ['h','t','t','p',':','/','/']) || (Go.hasPrefix path ['h','t','t','p','s',':','/','/'])) then
    path
  else
    if (!(Go.hasPrefix path ['/'])) then
      let path := (['/'] ++ path)
      (scheme ++ [':','/','/'] ++ host ++ path)
    else
      (scheme ++ [':','/','/'] ++ host ++ path)

/-- TraefikOidc.extractGroupsAndRoles (main.go) -/
def TraefikOidc_extractGroupsAndRoles (t : Go.Inst) (idToken : Go.Str) : (List Go.Str) × (List Go.Str) × Go.Err :=
  let (claims, err) := (t.extractClaimsFunc idToken)
  if err.isSome then
    (([] : List Go.Str), ([] : List Go.Str), (some (['f','a','i','l','e','d',' ','t','o',' ','e','x','t','r','a','c','t',' ','c','l','a','i','m','s',':',' '] ++ (Go.errText err))))
  else
    let groups := ([] : List Go.Str)
    let roles := ([] : List Go.Str)
    let (groupsClaim, exists_) := Go.mapGet2 claims ['g','r','o','u','p','s']
    if exists_ then
      let (groupsSlice, ok) := Go.asArr groupsClaim
      if (!ok) then
        (([] : List Go.Str), ([] : List Go.Str), (some (['g','r','o','u','p','s',' ','c','l','a','i','m',' ','i','s',' ','n','o','t',' ','a','n',' ','a','r','r','a','y'])))
      else
        match Go.forRange groupsSlice groups (fun group groups =>
          let (groupStr, ok_1) := Go.asStr group
          if ok_1 then
            let groups := (groups ++ [groupStr])
            .next groups
          else
            .next groups) with
        | .ret r => r
        | .next groups =>
          let (rolesClaim, exists_) := Go.mapGet2 claims ['r','o','l','e','s']
          if exists_ then
            let (rolesSlice, ok) := Go.asArr rolesClaim
            if (!ok) then
              (([] : List Go.Str), ([] : List Go.Str), (some (['r','o','l','e','s',' ','c','l','a','i','m',' ','i','s',' ','n','o','t',' ','a','n',' ','a','r','r','a','y'])))
            else
              match Go.forRange rolesSlice roles (fun role roles =>
                let (roleStr, ok_2) := Go.asStr role
                if ok_2 then
                  let roles := (roles ++ [roleStr])
                  .next roles
                else
                  .next roles) with
              | .ret r => r
              | .next roles =>
                (groups, roles, (none : Go.Err))
              | .brk roles =>
                (groups, roles, (none : Go.Err))
          else
            (groups, roles, (none : Go.Err))
        | .brk groups =>
          let (rolesClaim, exists_) := Go.mapGet2 claims ['r','o','l','e','s']
          if exists_ then
            let (rolesSlice, ok) := Go.asArr rolesClaim
            if (!ok) then
              (([] : List Go.Str), ([] : List Go.Str), (some (['r','o','l','e','s',' ','c','l','a','i','m',' ','i','s',' ','n','o','t',' ','a','n',' ','a','r','r','a','y'])))
            else
              match Go.forRange rolesSlice roles (fun role roles =>
                let (roleStr, ok_2) := Go.asStr role
                if ok_2 then
                  let roles := (roles ++ [roleStr])
                  .next roles
                else
                  .next roles) with
              | .ret r => r
              | .next roles =>
                (groups, roles, (none : Go.Err))
              | .brk roles =>
                (groups, roles, (none : Go.Err))
          else
            (groups, roles, (none : Go.Err))
    else
      let (rolesClaim, exists_) := Go.mapGet2 claims ['r','o','l','e','s']
      if exists_ then
        let (rolesSlice, ok) := Go.asArr rolesClaim
        if (!ok) then
          (([] : List Go.Str), ([] : List Go.Str), (some (['r','o','l','e','s',' ','c','l','a','i','m',' ','i','s',' ','n','o','t',' ','a','n',' ','a','r','r','a','y'])))
        else
          match Go.forRange rolesSlice roles (fun role roles =>
            let (roleStr, ok_3) := Go.asStr role
            if ok_3 then
              let roles := (roles ++ [roleStr])
              .next roles
            else
              .next roles) with
          | .ret r => r
          | .next roles =>
            (groups, roles, (none : Go.Err))
          | .brk roles =>
            (groups, roles, (none : Go.Err))
      else
        (groups, roles, (none : Go.Err))

/-- splitIntoChunks (session.go) -/
def splitIntoChunks (fuel : Nat) (s : Go.Str) (chunkSize : Int) : Option ((List Go.Str)) :=
  let chunks := ([] : List Go.Str)
  match Go.forWhile fuel (chunks, s) (fun (chunks, s) => (decide ((s.length : Int) > (0 : Int)))) (fun (chunks, s) =>
    if (decide ((s.length : Int) > chunkSize)) then
      let chunks := (chunks ++ [(Go.sliceTo s chunkSize)])
      let s := (Go.sliceFrom s chunkSize)
      .next (chunks, s)
    else
      let chunks := (chunks ++ [s])
      .brk (chunks, s)) with
  | none => none
  | some (.ret r) => some r
  | some (.next (chunks, s)) =>
    some (chunks)
  | some (.brk (chunks, s)) =>
    some (chunks)

/-- TraefikOidc.VerifyJWTSignatureAndClaims (main.go) -/
def TraefikOidc_VerifyJWTSignatureAndClaims (now : Go.Time) (t : Go.Inst) (jwt : Go.JWT) (token : Go.Str) : Go.Err :=
  let (jwks, err) := t.getJWKS
  if err.isSome then
    (some (['f','a','i','l','e','d',' ','t','o',' ','g','e','t',' ','J','W','K','S',':',' '] ++ (Go.errText err)))
  else
    let (kid, ok) := Go.asStr (Go.mapGet jwt.Header ['k','i','d'])
    if (!ok) then
      (some (['m','i','s','s','i','n','g',' ','k','e','y',' ','I','D',' ','i','n',' ','t','o','k','e','n',' ','h','e','a','d','e','r']))
    else
      let (alg, ok) := Go.asStr (Go.mapGet jwt.Header ['a','l','g'])
      if (!ok) then
        (some (['m','i','s','s','i','n','g',' ','a','l','g','o','r','i','t','h','m',' ','i','n',' ','t','o','k','e','n',' ','h','e','a','d','e','r']))
      else
        let matchingKey := (none : Option Go.JWK)
        match Go.forRange jwks.Keys matchingKey (fun key matchingKey =>
          if (key.Kid == kid) then
            let matchingKey := (some key)
            .brk matchingKey
          else
            .next matchingKey) with
        | .ret r => r
        | .next matchingKey =>
          if matchingKey.isNone then
            (some (['n','o',' ','m','a','t','c','h','i','n','g',' ','p','u','b','l','i','c',' ','k','e','y',' ','f','o','u','n','d',' ','f','o','r',' ','k','i','d',':',' '] ++ kid))
          else
            let (publicKeyPEM, err) := (t.jwkToPEM matchingKey)
            if err.isSome then
              (some (['f','a','i','l','e','d',' ','t','o',' ','c','o','n','v','e','r','t',' ','J','W','K',' ','t','o',' ','P','E','M',':',' '] ++ (Go.errText err)))
            else
              let err_1 := (t.verifySignature token publicKeyPEM alg)
              if err_1.isSome then
                (some (['s','i','g','n','a','t','u','r','e',' ','v','e','r','i','f','i','c','a','t','i','o','n',' ','f','a','i','l','e','d',':',' '] ++ (Go.errText err_1)))
              else
                let err_2 := (JWT_Verify now jwt t.issuerURL t.clientID)
                if err_2.isSome then
                  (some (['s','t','a','n','d','a','r','d',' ','c','l','a','i','m',' ','v','e','r','i','f','i','c','a','t','i','o','n',' ','f','a','i','l','e','d',':',' '] ++ (Go.errText err_2)))
                else
                  (none : Go.Err)
        | .brk matchingKey =>
          if matchingKey.isNone then
            (some (['n','o',' ','m','a','t','c','h','i','n','g',' ','p','u','b','l','i','c',' ','k','e','y',' ','f','o','u','n','d',' ','f','o','r',' ','k','i','d',':',' '] ++ kid))
          else
            let (publicKeyPEM, err) := (t.jwkToPEM matchingKey)
            if err.isSome then
              (some (['f','a','i','l','e','d',' ','t','o',' ','c','o','n','v','e','r','t',' ','J','W','K',' ','t','o',' ','P','E','M',':',' '] ++ (Go.errText err)))
            else
              let err_1 := (t.verifySignature token publicKeyPEM alg)
              if err_1.isSome then
                (some (['s','i','g','n','a','t','u','r','e',' ','v','e','r','i','f','i','c','a','t','i','o','n',' ','f','a','i','l','e','d',':',' '] ++ (Go.errText err_1)))
              else
                let err_2 := (JWT_Verify now jwt t.issuerURL t.clientID)
                if err_2.isSome then
                  (some (['s','t','a','n','d','a','r','d',' ','c','l','a','i','m',' ','v','e','r','i','f','i','c','a','t','i','o','n',' ','f','a','i','l','e','d',':',' '] ++ (Go.errText err_2)))
                else
                  (none : Go.Err)

/-- TraefikOidc.isUserAuthenticated (main.go) -/
def TraefikOidc_isUserAuthenticated (now : Go.Time) (t : Go.Inst) (session : Go.Sess) : Bool × Bool × Bool :=
  if (!session.GetAuthenticated) then
    if (session.GetRefreshToken != ([] : Go.Str)) then
      (false, true, false)
    else
      (false, false, false)
  else
    let accessToken := session.GetAccessToken
    if (accessToken == ([] : Go.Str)) then
      if (session.GetRefreshToken != ([] : Go.Str)) then
        (false, true, false)
      else
        (false, false, true)
    else
      let (jwt, err) := (t.parseJWT accessToken)
      if err.isSome then
        if (session.GetRefreshToken != ([] : Go.Str)) then
          (false, true, false)
        else
          (false, false, true)
      else
        let err_1 := (TraefikOidc_VerifyJWTSignatureAndClaims now t jwt accessToken)
        if err_1.isSome then
          if (Go.contains (Go.errText err_1) ['t','o','k','e','n',' ','h','a','s',' ','e','x','p','i','r','e','d']) then
            if (session.GetRefreshToken != ([] : Go.Str)) then
              (false, true, false)
            else
              (false, false, true)
          else
            if (session.GetRefreshToken != ([] : Go.Str)) then
              (false, true, false)
            else
              (false, false, true)
        else
          let claims := jwt.Claims
          let (expClaim, ok) := Go.asF64 (Go.mapGet claims ['e','x','p'])
          if (!ok) then
            if (session.GetRefreshToken != ([] : Go.Str)) then
              (false, true, false)
            else
              (false, false, true)
          else
            let expTime := (Go.int64 expClaim)
            if (Go.timeBefore (Go.timeUnix expTime (0 : Int)) (Go.timeAdd now t.refreshGracePeriod)) then
              let remainingSeconds := (Go.int64 (Go.durSeconds (Go.timeSub (Go.timeUnix expTime (0 : Int)) now)))
              if (session.GetRefreshToken != ([] : Go.Str)) then
                (true, true, false)
              else
                (true, false, false)
            else
              (true, false, false)

/-- TraefikOidc.performPreVerificationChecks (main.go) -/
def TraefikOidc_performPreVerificationChecks {σ : Type} (ops : Go.VOps σ) (now : Go.Time) (t : Go.Inst) (token : Go.Str) (w : σ) : Go.Err × σ :=
  let (r_1, w) := (ops.limiterAllow w now)
  if (!r_1) then
    ((some (['r','a','t','e',' ','l','i','m','i','t',' ','e','x','c','e','e','d','e','d'])), w)
  else
    let ((_u2, exists_), w) := (ops.blacklistGet w now token)
    if exists_ then
      ((some (['t','o','k','e','n',' ','i','s',' ','b','l','a','c','k','l','i','s','t','e','d',' ','(','r','a','w',' ','s','t','r','i','n','g',')',' ','i','n',' ','c','a','c','h','e'])), w)
    else
      let (claims, err) := (t.extractClaims token)
      if err.isNone then
        let (jti, ok) := Go.asStr (Go.mapGet claims ['j','t','i'])
        if (ok && (jti != ([] : Go.Str))) then
          let ((_u3, exists_), w) := (ops.blacklistGet w now jti)
          if exists_ then
            ((some (['t','o','k','e','n',' ','r','e','p','l','a','y',' ','d','e','t','e','c','t','e','d',' ','(','j','t','i',':',' '] ++ jti ++ [')',' ','i','n',' ','c','a','c','h','e'])), w)
          else
            ((none : Go.Err), w)
        else
          ((none : Go.Err), w)
      else
        ((none : Go.Err), w)

/-- TraefikOidc.cacheVerifiedToken (main.go) -/
def TraefikOidc_cacheVerifiedToken {σ : Type} (ops : Go.VOps σ) (now : Go.Time) (t : Go.Inst) (token : Go.Str) (claims : Go.Obj) (w : σ) : σ :=
  let expirationTime := (Go.timeUnix (Go.int64 (Go.assertF64 (Go.mapGet claims ['e','x','p']))) (0 : Int))
  let now_1 := now
  let duration := (Go.timeSub expirationTime now_1)
  let w := (ops.tokenCacheSet w now token claims duration)
  w

/-- TraefikOidc.VerifyToken (main.go) -/
def TraefikOidc_VerifyToken {σ : Type} (ops : Go.VOps σ) (now : Go.Time) (t : Go.Inst) (token : Go.Str) (w : σ) : Go.Err × σ :=
  let ((claims, exists_), w) := (ops.tokenCacheGet w now token)
  if (exists_ && (decide ((claims.length : Int) > (0 : Int)))) then
    ((none : Go.Err), w)
  else
    let (r_1, w) := (TraefikOidc_performPreVerificationChecks ops now t token w)
    let err := r_1
    if err.isSome then
      (err, w)
    else
      let (jwt, err) := (t.parseJWT token)
      if err.isSome then
        ((some (['f','a','i','l','e','d',' ','t','o',' ','p','a','r','s','e',' ','J','W','T',':',' '] ++ (Go.errText err))), w)
      else
        let err_2 := (TraefikOidc_VerifyJWTSignatureAndClaims now t jwt token)
        if err_2.isSome then
          (err_2, w)
        else
          let w := (TraefikOidc_cacheVerifiedToken ops now t token jwt.Claims w)
          let (jti, ok) := Go.asStr (Go.mapGet jwt.Claims ['j','t','i'])
          if (ok && (jti != ([] : Go.Str))) then
            let expiry := (Go.timeAdd now defaultBlacklistDuration)
            let (expClaim, expOk) := Go.asF64 (Go.mapGet jwt.Claims ['e','x','p'])
            if expOk then
              let expTime := (Go.timeUnix (Go.int64 expClaim) (0 : Int))
              let tokenDuration := (Go.timeSub expTime now)
              if ((decide (tokenDuration > defaultBlacklistDuration)) && (decide (tokenDuration < (((24 : Int) * Go.Hour))))) then
                let expiry := expTime
                let w := (ops.blacklistSet w now jti (Go.Any.bool true) (Go.timeSub expiry now))
                ((none : Go.Err), w)
              else
                if (decide (tokenDuration ≤ (0 : Int))) then
                  let expiry := (Go.timeAdd now defaultBlacklistDuration)
                  let w := (ops.blacklistSet w now jti (Go.Any.bool true) (Go.timeSub expiry now))
                  ((none : Go.Err), w)
                else
                  let expiry := (Go.timeAdd now defaultBlacklistDuration)
                  let w := (ops.blacklistSet w now jti (Go.Any.bool true) (Go.timeSub expiry now))
                  ((none : Go.Err), w)
            else
              let w := (ops.blacklistSet w now jti (Go.Any.bool true) (Go.timeSub expiry now))
              ((none : Go.Err), w)
          else
            ((none : Go.Err), w)

/-- TraefikOidc.RevokeToken (main.go) -/
def TraefikOidc_RevokeToken {σ : Type} (ops : Go.VOps σ) (now : Go.Time) (t : Go.Inst) (token : Go.Str) (w : σ) : σ :=
  let w := (ops.tokenCacheDelete w token)
  let expiry := (Go.timeAdd now ((24 : Int) * Go.Hour))
  let (claims, err) := (t.extractClaims token)
  if err.isNone then
    let (expClaim, ok) := Go.asF64 (Go.mapGet claims ['e','x','p'])
    if ok then
      let tokenEnd := (Go.timeAdd (Go.timeUnix (Go.int64 expClaim) (0 : Int)) ClockSkewToleranceFuture)
      if (Go.timeAfter tokenEnd expiry) then
        let expiry := tokenEnd
        let w := (ops.blacklistSet w now token (Go.Any.bool true) (Go.timeSub expiry now))
        w
      else
        let w := (ops.blacklistSet w now token (Go.Any.bool true) (Go.timeSub expiry now))
        w
    else
      let w := (ops.blacklistSet w now token (Go.Any.bool true) (Go.timeSub expiry now))
      w
  else
    let w := (ops.blacklistSet w now token (Go.Any.bool true) (Go.timeSub expiry now))
    w

/-- Cache.removeItem (cache.go) -/
def Cache_removeItem (c : Go.CacheS) (key : Go.Str) : Go.CacheS :=
  let c := { c with items := Go.cmapDel c.items key }
  let (elem, ok) := Go.emapGet c.elems key
  if ok then
    let c := { c with order := Go.listRemove c.order elem }
    let c := { c with elems := Go.emapDel c.elems key }
    c
  else
    c

/-- Cache.evictOldest (cache.go) -/
def Cache_evictOldest (fuel : Nat) (now : Go.Time) (c : Go.CacheS) : Option (Go.CacheS) :=
  let now_1 := now
  let elem := (Go.listFront c.order)
  match Go.forWhile fuel (c, elem) (fun (c, elem) => elem.isSome) (fun (c, elem) =>
    let entry := (Go.elemValue elem)
    let (item, exists_) := Go.cmapGet c.items (Go.lruKey entry)
    if exists_ then
      if (!(Go.timeBefore now_1 item.ExpiresAt)) then
        let c := (Cache_removeItem c (Go.lruKey entry))
        .ret (c)
      else
        let elem := (Go.listNext c.order elem)
        .next (c, elem)
    else
      let elem := (Go.listNext c.order elem)
      .next (c, elem)) with
  | none => none
  | some (.ret r) => some r
  | some (.next (c, elem)) =>
    let elem := (Go.listFront c.order)
    if elem.isSome then
      let entry := (Go.elemValue elem)
      let c := (Cache_removeItem c (Go.lruKey entry))
      some (c)
    else
      some (c)
  | some (.brk (c, elem)) =>
    let elem := (Go.listFront c.order)
    if elem.isSome then
      let entry := (Go.elemValue elem)
      let c := (Cache_removeItem c (Go.lruKey entry))
      some (c)
    else
      some (c)

/-- Cache.Set (cache.go) -/
def Cache_Set (fuel : Nat) (now : Go.Time) (c : Go.CacheS) (key : Go.Str) (value : Go.Any) (expiration : Go.Duration) : Option (Go.CacheS) :=
  let now_1 := now
  let expTime := (Go.timeAdd now_1 expiration)
  let (_u2, exists_) := Go.cmapGet c.items key
  if exists_ then
    let c := { c with items := Go.cmapSet c.items key ({ Value := value, ExpiresAt := expTime } : Go.CacheItem) }
    let (elem, ok) := Go.emapGet c.elems key
    if ok then
      let c := { c with order := Go.listMoveToBack c.order elem }
      some (c)
    else
      some (c)
  else
    if (decide ((c.items.length : Int) ≥ c.maxSize)) then
      match (Cache_evictOldest fuel now c) with
      | none => none
      | some c =>
        let c := { c with items := Go.cmapSet c.items key ({ Value := value, ExpiresAt := expTime } : Go.CacheItem) }
        let (elem, l_3) := Go.listPushBack c.order (Go.lruEntry key)
        let c := { c with order := l_3 }
        let c := { c with elems := Go.emapSet c.elems key elem }
        some (c)
    else
      let c := { c with items := Go.cmapSet c.items key ({ Value := value, ExpiresAt := expTime } : Go.CacheItem) }
      let (elem, l_4) := Go.listPushBack c.order (Go.lruEntry key)
      let c := { c with order := l_4 }
      let c := { c with elems := Go.emapSet c.elems key elem }
      some (c)

/-- Cache.Get (cache.go) -/
def Cache_Get (now : Go.Time) (c : Go.CacheS) (key : Go.Str) : (Go.Any × Bool) × Go.CacheS :=
  let (item, exists_) := Go.cmapGet c.items key
  if (!exists_) then
    ((Go.Any.nil, false), c)
  else
    if (!(Go.timeBefore now item.ExpiresAt)) then
      let c := (Cache_removeItem c key)
      ((Go.Any.nil, false), c)
    else
      let (elem, ok) := Go.emapGet c.elems key
      if ok then
        let c := { c with order := Go.listMoveToBack c.order elem }
        ((item.Value, true), c)
      else
        ((item.Value, true), c)

/-- Cache.Delete (cache.go) -/
def Cache_Delete (c : Go.CacheS) (key : Go.Str) : Go.CacheS :=
  let c := (Cache_removeItem c key)
  c

/-- Cache.Cleanup (cache.go) -/
def Cache_Cleanup (now : Go.Time) (c : Go.CacheS) : Go.CacheS :=
  let now_1 := now
  match Go.forRange c.items c (fun (key, item) c =>
    if ((!(Go.timeBefore now_1 item.ExpiresAt)) || (Go.timeAfter (Go.timeAdd now_1 (Go.durScale (Go.timeSub item.ExpiresAt now_1) (1 : Int) (10 : Int))) item.ExpiresAt)) then
      let c := (Cache_removeItem c key)
      .next c
    else
      .next c) with
  | .ret r => r
  | .next c =>
    c
  | .brk c =>
    c

/-- TokenCache.Set (helpers.go) -/
def TokenCache_Set (fuel : Nat) (now : Go.Time) (tc : Go.CacheS) (token : Go.Str) (claims : Go.Obj) (expiration : Go.Duration) : Option (Go.CacheS) :=
  let token := (['t','-'] ++ token)
  match (Cache_Set fuel now tc token (Go.Any.obj claims) expiration) with
  | none => none
  | some tc =>
    some (tc)

/-- TokenCache.Get (helpers.go) -/
def TokenCache_Get (now : Go.Time) (tc : Go.CacheS) (token : Go.Str) : (Go.Obj × Bool) × Go.CacheS :=
  let token := (['t','-'] ++ token)
  let ((value, found), tc) := (Cache_Get now tc token)
  if (!found) then
    ((([] : Go.Obj), false), tc)
  else
    let (claims, ok) := Go.asObj value
    ((claims, ok), tc)

/-- TokenCache.Delete (helpers.go) -/
def TokenCache_Delete (tc : Go.CacheS) (token : Go.Str) : Go.CacheS :=
  let token := (['t','-'] ++ token)
  let tc := (Cache_Delete tc token)
  tc

/-- TokenCache.Cleanup (helpers.go) -/
def TokenCache_Cleanup (now : Go.Time) (tc : Go.CacheS) : Go.CacheS :=
  let tc := (Cache_Cleanup now tc)
  tc

/-- discoverProviderMetadata (main.go) -/
def discoverProviderMetadata (fuel : Nat) {σ : Type} (ops : Go.DOps σ) (providerURL : Go.Str) (httpClient : Go.HTTPClient) (l : Go.Logger) (w : σ) : Option (((Option Go.Meta) × Go.Err) × σ) :=
  let wellKnownURL := ((Go.trimSuffix providerURL ['/']) ++ ['/','.','w','e','l','l','-','k','n','o','w','n','/','o','p','e','n','i','d','-','c','o','n','f','i','g','u','r','a','t','i','o','n'])
  let maxRetries := (5 : Int)
  let baseDelay := ((1 : Int) * Go.Second)
  let maxDelay := ((30 : Int) * Go.Second)
  let totalTimeout := ((5 : Int) * Go.Minute)
  let start := (ops.clock w)
  let lastErr := (none : Go.Err)
  let attempt := (0 : Int)
  match Go.forWhile fuel (attempt, lastErr, w) (fun (attempt, lastErr, w) => (decide (attempt < maxRetries))) (fun (attempt, lastErr, w) =>
    if (decide ((Go.timeSub (ops.clock w) start) > totalTimeout)) then
      .ret ((((none : Option Go.Meta), (some (['t','i','m','e','o','u','t',' ','e','x','c','e','e','d','e','d',' ','w','h','i','l','e',' ','f','e','t','c','h','i','n','g',' ','p','r','o','v','i','d','e','r',' ','m','e','t','a','d','a','t','a',':',' '] ++ (Go.errText lastErr)))), w))
    else
      let ((metadata, err), w) := (ops.fetchMetadata w wellKnownURL)
      if err.isNone then
        .ret (((metadata, (none : Go.Err)), w))
      else
        let lastErr := err
        let delay := ((Go.pow2 attempt) * baseDelay)
        if (decide (delay > maxDelay)) then
          let delay := maxDelay
          let w := (ops.sleep w delay)
          let attempt := (attempt + (1 : Int))
          .next (attempt, lastErr, w)
        else
          let w := (ops.sleep w delay)
          let attempt := (attempt + (1 : Int))
          .next (attempt, lastErr, w)) with
  | none => none
  | some (.ret r) => some r
  | some (.next (attempt, lastErr, w)) =>
    some ((((none : Option Go.Meta), (some (['m','a','x',' ','r','e','t','r','i','e','s',' ','e','x','c','e','e','d','e','d',' ','w','h','i','l','e',' ','f','e','t','c','h','i','n','g',' ','p','r','o','v','i','d','e','r',' ','m','e','t','a','d','a','t','a',':',' '] ++ (Go.errText lastErr)))), w))
  | some (.brk (attempt, lastErr, w)) =>
    some ((((none : Option Go.Meta), (some (['m','a','x',' ','r','e','t','r','i','e','s',' ','e','x','c','e','e','d','e','d',' ','w','h','i','l','e',' ','f','e','t','c','h','i','n','g',' ','p','r','o','v','i','d','e','r',' ','m','e','t','a','d','a','t','a',':',' '] ++ (Go.errText lastErr)))), w))

/-- MetadataCache.isCacheValid (metadata_cache.go) -/
def MetadataCache_isCacheValid (now : Go.Time) (c : Go.MetaCache) : Bool :=
  (c.metadata.isSome && (Go.timeBefore now c.expiresAt))

/-- MetadataCache.Cleanup (metadata_cache.go) -/
def MetadataCache_Cleanup (now : Go.Time) (c : Go.MetaCache) : Go.MetaCache :=
  let now_1 := now
  if (c.metadata.isSome && (Go.timeAfter now_1 c.expiresAt)) then
    let c := { c with metadata := (none : Option Go.Meta) }
    c
  else
    c

/-- MetadataCache.GetMetadata (metadata_cache.go) -/
def MetadataCache_GetMetadata (fuel : Nat) {σ : Type} (ops : Go.DOps σ) (c : Go.MetaCache) (providerURL : Go.Str) (httpClient : Go.HTTPClient) (logger : Go.Logger) (w : σ) : Option ((((Option Go.Meta) × Go.Err) × Go.MetaCache) × σ) :=
  if (MetadataCache_isCacheValid (ops.clock w) c) then
    some ((((c.metadata, (none : Go.Err)), c), w))
  else
    if (MetadataCache_isCacheValid (ops.clock w) c) then
      some ((((c.metadata, (none : Go.Err)), c), w))
    else
      match (discoverProviderMetadata fuel ops providerURL httpClient logger w) with
      | none => none
      | some ((metadata, err), w) =>
        if err.isSome then
          if c.metadata.isSome then
            let c := { c with expiresAt := (Go.timeAdd (ops.clock w) ((5 : Int) * Go.Minute)) }
            some ((((c.metadata, (none : Go.Err)), c), w))
          else
            some (((((none : Option Go.Meta), (some (['f','a','i','l','e','d',' ','t','o',' ','f','e','t','c','h',' ','p','r','o','v','i','d','e','r',' ','m','e','t','a','d','a','t','a',':',' '] ++ (Go.errText err)))), c), w))
        else
          let c := { c with metadata := metadata }
          let c := { c with expiresAt := (Go.timeAdd (ops.clock w) ((1 : Int) * Go.Hour)) }
          some ((((metadata, (none : Go.Err)), c), w))

/-- JWKCache.Cleanup (jwk.go) -/
def JWKCache_Cleanup (now : Go.Time) (c : Go.JwkCache) : Go.JwkCache :=
  let now_1 := now
  if (c.jwks.isSome && (Go.timeAfter now_1 c.expiresAt)) then
    let c := { c with jwks := (none : Option Go.JWKSet) }
    c
  else
    c

/-- JWKCache.GetJWKS (jwk.go) -/
def JWKCache_GetJWKS {σ : Type} (ops : Go.DOps σ) (c : Go.JwkCache) (ctx : Go.Ctx) (jwksURL : Go.Str) (httpClient : Go.HTTPClient) (w : σ) : (((Option Go.JWKSet) × Go.Err) × Go.JwkCache) × σ :=
  if (c.jwks.isSome && (Go.timeBefore (ops.clock w) c.expiresAt)) then
    (((c.jwks, (none : Go.Err)), c), w)
  else
    if (c.jwks.isSome && (Go.timeBefore (ops.clock w) c.expiresAt)) then
      (((c.jwks, (none : Go.Err)), c), w)
    else
      let ((jwks, err), w) := (ops.fetchJWKS w jwksURL)
      if err.isSome then
        ((((none : Option Go.JWKSet), err), c), w)
      else
        let c := { c with jwks := jwks }
        let lifetime := c.CacheLifetime
        if (lifetime == (0 : Int)) then
          let lifetime := ((1 : Int) * Go.Hour)
          let c := { c with expiresAt := (Go.timeAdd (ops.clock w) lifetime) }
          (((jwks, (none : Go.Err)), c), w)
        else
          let c := { c with expiresAt := (Go.timeAdd (ops.clock w) lifetime) }
          (((jwks, (none : Go.Err)), c), w)

/-- isValidLogLevel (settings.go) -/
def isValidLogLevel (level : Go.Str) : Bool :=
  (((level == ['d','e','b','u','g']) || (level == ['i','n','f','o'])) || (level == ['e','r','r','o','r']))

/-- Config.Validate (settings.go) -/
def Config_Validate (c : Go.Config) : Go.Err :=
  if (c.ProviderURL == ([] : Go.Str)) then
    (some (['p','r','o','v','i','d','e','r','U','R','L',' ','i','s',' ','r','e','q','u','i','r','e','d']))
  else
    if (!(c.isValidSecureURL c.ProviderURL)) then
      (some (['p','r','o','v','i','d','e','r','U','R','L',' ','m','u','s','t',' ','b','e',' ','a',' ','v','a','l','i','d',' ','H','T','T','P','S',' ','U','R','L']))
    else
      if (c.CallbackURL == ([] : Go.Str)) then
        (some (['c','a','l','l','b','a','c','k','U','R','L',' ','i','s',' ','r','e','q','u','i','r','e','d']))
      else
        if (!(Go.hasPrefix c.CallbackURL ['/'])) then
          (some (['c','a','l','l','b','a','c','k','U','R','L',' ','m','u','s','t',' ','s','t','a','r','t',' ','w','i','t','h',' ','/']))
        else
          if (c.ClientID == ([] : Go.Str)) then
            (some (['c','l','i','e','n','t','I','D',' ','i','s',' ','r','e','q','u','i','r','e','d']))
          else
            if (c.ClientSecret == ([] : Go.Str)) then
              (some (['c','l','i','e','n','t','S','e','c','r','e','t',' ','i','s',' ','r','e','q','u','i','r','e','d']))
            else
              if (c.SessionEncryptionKey == ([] : Go.Str)) then
                (some (['s','e','s','s','i','o','n','E','n','c','r','y','p','t','i','o','n','K','e','y',' ','i','s',' ','r','e','q','u','i','r','e','d']))
              else
                if (decide ((c.SessionEncryptionKey.length : Int) < MinSessionEncryptionKeyLength)) then
                  (some (['s','e','s','s','i','o','n','E','n','c','r','y','p','t','i','o','n','K','e','y',' ','m','u','s','t',' ','b','e',' ','a','t',' ','l','e','a','s','t',' ','%','d'] ++ [' ','c','h','a','r','a','c','t','e','r','s',' ','l','o','n','g']))
                else
                  if ((c.LogLevel != ([] : Go.Str)) && (!(isValidLogLevel c.LogLevel))) then
                    (some (['l','o','g','L','e','v','e','l',' ','m','u','s','t',' ','b','e',' ','o','n','e',' ','o','f',':',' ','d','e','b','u','g',',',' ','i','n','f','o',',',' ','e','r','r','o','r']))
                  else
                    match Go.forRange c.ExcludedURLs () (fun url () =>
                      if (!(Go.hasPrefix url ['/'])) then
                        .ret ((some (['e','x','c','l','u','d','e','d',' ','U','R','L',' ','m','u','s','t',' ','s','t','a','r','t',' ','w','i','t','h',' ','/',':',' '] ++ url)))
                      else
                        if (Go.contains url ['.','.']) then
                          .ret ((some (['e','x','c','l','u','d','e','d',' ','U','R','L',' ','m','u','s','t',' ','n','o','t',' ','c','o','n','t','a','i','n',' ','p','a','t','h',' ','t','r','a','v','e','r','s','a','l',':',' '] ++ url)))
                        else
                          if (Go.contains url ['*']) then
                            .ret ((some (['e','x','c','l','u','d','e','d',' ','U','R','L',' ','m','u','s','t',' ','n','o','t',' ','c','o','n','t','a','i','n',' ','w','i','l','d','c','a','r','d','s',':',' '] ++ url)))
                          else
                            .next ()) with
                    | .ret r => r
                    | .next () =>
                      if ((c.RevocationURL != ([] : Go.Str)) && (!(c.isValidSecureURL c.RevocationURL))) then
                        (some (['r','e','v','o','c','a','t','i','o','n','U','R','L',' ','m','u','s','t',' ','b','e',' ','a',' ','v','a','l','i','d',' ','H','T','T','P','S',' ','U','R','L']))
                      else
                        if ((c.OIDCEndSessionURL != ([] : Go.Str)) && (!(c.isValidSecureURL c.OIDCEndSessionURL))) then
                          (some (['o','i','d','c','E','n','d','S','e','s','s','i','o','n','U','R','L',' ','m','u','s','t',' ','b','e',' ','a',' ','v','a','l','i','d',' ','H','T','T','P','S',' ','U','R','L']))
                        else
                          if ((c.PostLogoutRedirectURI != ([] : Go.Str)) && (c.PostLogoutRedirectURI != ['/'])) then
                            if ((!(c.isValidSecureURL c.PostLogoutRedirectURI)) && (!(Go.hasPrefix c.PostLogoutRedirectURI ['/']))) then
                              (some (['p','o','s','t','L','o','g','o','u','t','R','e','d','i','r','e','c','t','U','R','I',' ','m','u','s','t',' ','b','e',' ','e','i','t','h','e','r',' ','a',' ','v','a','l','i','d',' ','H','T','T','P','S',' ','U','R','L',' ','o','r',' ','s','t','a','r','t',' ','w','i','t','h',' ','/']))
                            else
                              if (decide (c.RateLimit < MinRateLimit)) then
                                (some (['r','a','t','e','L','i','m','i','t',' ','m','u','s','t',' ','b','e',' ','a','t',' ','l','e','a','s','t',' ','%','d']))
                              else
                                if (decide (c.RefreshGracePeriodSeconds < (0 : Int))) then
                                  (some (['r','e','f','r','e','s','h','G','r','a','c','e','P','e','r','i','o','d','S','e','c','o','n','d','s',' ','c','a','n','n','o','t',' ','b','e',' ','n','e','g','a','t','i','v','e']))
                                else
                                  match Go.forRange c.Headers () (fun header () =>
                                    if (header.Name == ([] : Go.Str)) then
                                      .ret ((some (['h','e','a','d','e','r',' ','n','a','m','e',' ','c','a','n','n','o','t',' ','b','e',' ','e','m','p','t','y'])))
                                    else
                                      if (header.Value == ([] : Go.Str)) then
                                        .ret ((some (['h','e','a','d','e','r',' ','v','a','l','u','e',' ','t','e','m','p','l','a','t','e',' ','c','a','n','n','o','t',' ','b','e',' ','e','m','p','t','y'])))
                                      else
                                        if ((!(Go.contains header.Value ['{','{'])) || (!(Go.contains header.Value ['}','}']))) then
                                          .ret ((some (['h','e','a','d','e','r',' ','v','a','l','u','e',' ','\''] ++ header.Value ++ ['\'',' ','d','o','e','s',' ','n','o','t',' ','a','p','p','e','a','r',' ','t','o',' ','b','e',' ','a',' ','v','a','l','i','d',' ','t','e','m','p','l','a','t','e',' ','(','m','i','s','s','i','n','g',' ','{','{',' ','}','}',')'])))
                                        else
                                          if (Go.contains header.Value ['{','{','.','c','l','a','i','m','s']) then
                                            .ret ((some (['h','e','a','d','e','r',' ','t','e','m','p','l','a','t','e',' ','\''] ++ header.Value ++ ['\'',' ','a','p','p','e','a','r','s',' ','t','o',' ','u','s','e',' ','l','o','w','e','r','c','a','s','e',' ','\'','c','l','a','i','m','s','\'',' ','-',' ','u','s','e',' ','\'','{','{','.','C','l','a','i','m','s','.','.','.','\'',' ','i','n','s','t','e','a','d',' ','(','c','a','s','e',' ','s','e','n','s','i','t','i','v','e',')'])))
                                          else
                                            if (Go.contains header.Value ['{','{','.','a','c','c','e','s','s','T','o','k','e','n']) then
                                              .ret ((some (['h','e','a','d','e','r',' ','t','e','m','p','l','a','t','e',' ','\''] ++ header.Value ++ ['\'',' ','a','p','p','e','a','r','s',' ','t','o',' ','u','s','e',' ','l','o','w','e','r','c','a','s','e',' ','\'','a','c','c','e','s','s','T','o','k','e','n','\'',' ','-',' ','u','s','e',' ','\'','{','{','.','A','c','c','e','s','s','T','o','k','e','n','.','.','.','\'',' ','i','n','s','t','e','a','d',' ','(','c','a','s','e',' ','s','e','n','s','i','t','i','v','e',')'])))
                                            else
                                              if (Go.contains header.Value ['{','{','.','i','d','T','o','k','e','n']) then
                                                .ret ((some (['h','e','a','d','e','r',' ','t','e','m','p','l','a','t','e',' ','\''] ++ header.Value ++ ['\'',' ','a','p','p','e','a','r','s',' ','t','o',' ','u','s','e',' ','l','o','w','e','r','c','a','s','e',' ','\'','i','d','T','o','k','e','n','\'',' ','-',' ','u','s','e',' ','\'','{','{','.','I','d','T','o','k','e','n','.','.','.','\'',' ','i','n','s','t','e','a','d',' ','(','c','a','s','e',' ','s','e','n','s','i','t','i','v','e',')'])))
                                              else
                                                if (Go.contains header.Value ['{','{','.','r','e','f','r','e','s','h','T','o','k','e','n']) then
                                                  .ret ((some (['h','e','a','d','e','r',' ','t','e','m','p','l','a','t','e',' ','\''] ++ header.Value ++ ['\'',' ','a','p','p','e','a','r','s',' ','t','o',' ','u','s','e',' ','l','o','w','e','r','c','a','s','e',' ','\'','r','e','f','r','e','s','h','T','o','k','e','n','\'',' ','-',' ','u','s','e',' ','\'','{','{','.','R','e','f','r','e','s','h','T','o','k','e','n','.','.','.','\'',' ','i','n','s','t','e','a','d',' ','(','c','a','s','e',' ','s','e','n','s','i','t','i','v','e',')'])))
                                                else
                                                  .next ()) with
                                  | .ret r => r
                                  | .next () =>
                                    (none : Go.Err)
                                  | .brk () =>
                                    (none : Go.Err)
                          else
                            if (decide (c.RateLimit < MinRateLimit)) then
                              (some (['r','a','t','e','L','i','m','i','t',' ','m','u','s','t',' ','b','e',' ','a','t',' ','l','e','a','s','t',' ','%','d']))
                            else
                              if (decide (c.RefreshGracePeriodSeconds < (0 : Int))) then
                                (some (['r','e','f','r','e','s','h','G','r','a','c','e','P','e','r','i','o','d','S','e','c','o','n','d','s',' ','c','a','n','n','o','t',' ','b','e',' ','n','e','g','a','t','i','v','e']))
                              else
                                match Go.forRange c.Headers () (fun header () =>
                                  if (header.Name == ([] : Go.Str)) then
                                    .ret ((some (['h','e','a','d','e','r',' ','n','a','m','e',' ','c','a','n','n','o','t',' ','b','e',' ','e','m','p','t','y'])))
                                  else
                                    if (header.Value == ([] : Go.Str)) then
                                      .ret ((some (['h','e','a','d','e','r',' ','v','a','l','u','e',' ','t','e','m','p','l','a','t','e',' ','c','a','n','n','o','t',' ','b','e',' ','e','m','p','t','y'])))
                                    else
                                      if ((!(Go.contains header.Value ['{','{'])) || (!(Go.contains header.Value ['}','}']))) then
                                        .ret ((some (['h','e','a','d','e','r',' ','v','a','l','u','e',' ','\''] ++ header.Value ++ ['\'',' ','d','o','e','s',' ','n','o','t',' ','a','p','p','e','a','r',' ','t','o',' ','b','e',' ','a',' ','v','a','l','i','d',' ','t','e','m','p','l','a','t','e',' ','(','m','i','s','s','i','n','g',' ','{','{',' ','}','}',')'])))
                                      else
                                        if (Go.contains header.Value ['{','{','.','c','l','a','i','m','s']) then
                                          .ret ((some (['h','e','a','d','e','r',' ','t','e','m','p','l','a','t','e',' ','\''] ++ header.Value ++ ['\'',' ','a','p','p','e','a','r','s',' ','t','o',' ','u','s','e',' ','l','o','w','e','r','c','a','s','e',' ','\'','c','l','a','i','m','s','\'',' ','-',' ','u','s','e',' ','\'','{','{','.','C','l','a','i','m','s','.','.','.','\'',' ','i','n','s','t','e','a','d',' ','(','c','a','s','e',' ','s','e','n','s','i','t','i','v','e',')'])))
                                        else
                                          if (Go.contains header.Value ['{','{','.','a','c','c','e','s','s','T','o','k','e','n']) then
                                            .ret ((some (['h','e','a','d','e','r',' ','t','e','m','p','l','a','t','e',' ','\''] ++ header.Value ++ ['\'',' ','a','p','p','e','a','r','s',' ','t','o',' ','u','s','e',' ','l','o','w','e','r','c','a','s','e',' ','\'','a','c','c','e','s','s','T','o','k','e','n','\'',' ','-',' ','u','s','e',' ','\'','{','{','.','A','c','c','e','s','s','T','o','k','e','n','.','.','.','\'',' ','i','n','s','t','e','a','d',' ','(','c','a','s','e',' ','s','e','n','s','i','t','i','v','e',')'])))
                                          else
                                            if (Go.contains header.Value ['{','{','.','i','d','T','o','k','e','n']) then
                                              .ret ((some (['h','e','a','d','e','r',' ','t','e','m','p','l','a','t','e',' ','\''] ++ header.Value ++ ['\'',' ','a','p','p','e','a','r','s',' ','t','o',' ','u','s','e',' ','l','o','w','e','r','c','a','s','e',' ','\'','i','d','T','o','k','e','n','\'',' ','-',' ','u','s','e',' ','\'','{','{','.','I','d','T','o','k','e','n','.','.','.','\'',' ','i','n','s','t','e','a','d',' ','(','c','a','s','e',' ','s','e','n','s','i','t','i','v','e',')'])))
                                            else
                                              if (Go.contains header.Value ['{','{','.','r','e','f','r','e','s','h','T','o','k','e','n']) then
                                                .ret ((some (['h','e','a','d','e','r',' ','t','e','m','p','l','a','t','e',' ','\''] ++ header.Value ++ ['\'',' ','a','p','p','e','a','r','s',' ','t','o',' ','u','s','e',' ','l','o','w','e','r','c','a','s','e',' ','\'','r','e','f','r','e','s','h','T','o','k','e','n','\'',' ','-',' ','u','s','e',' ','\'','{','{','.','R','e','f','r','e','s','h','T','o','k','e','n','.','.','.','\'',' ','i','n','s','t','e','a','d',' ','(','c','a','s','e',' ','s','e','n','s','i','t','i','v','e',')'])))
                                              else
                                                .next ()) with
                                | .ret r => r
                                | .next () =>
                                  (none : Go.Err)
                                | .brk () =>
                                  (none : Go.Err)
                    | .brk () =>
                      if ((c.RevocationURL != ([] : Go.Str)) && (!(c.isValidSecureURL c.RevocationURL))) then
                        (some (['r','e','v','o','c','a','t','i','o','n','U','R','L',' ','m','u','s','t',' ','b','e',' ','a',' ','v','a','l','i','d',' ','H','T','T','P','S',' ','U','R','L']))
                      else
                        if ((c.OIDCEndSessionURL != ([] : Go.Str)) && (!(c.isValidSecureURL c.OIDCEndSessionURL))) then
                          (some (['o','i','d','c','E','n','d','S','e','s','s','i','o','n','U','R','L',' ','m','u','s','t',' ','b','e',' ','a',' ','v','a','l','i','d',' ','H','T','T','P','S',' ','U','R','L']))
                        else
                          if ((c.PostLogoutRedirectURI != ([] : Go.Str)) && (c.PostLogoutRedirectURI != ['/'])) then
                            if ((!(c.isValidSecureURL c.PostLogoutRedirectURI)) && (!(Go.hasPrefix c.PostLogoutRedirectURI ['/']))) then
                              (some (['p','o','s','t','L','o','g','o','u','t','R','e','d','i','r','e','c','t','U','R','I',' ','m','u','s','t',' ','b','e',' ','e','i','t','h','e','r',' ','a',' ','v','a','l','i','d',' ','H','T','T','P','S',' ','U','R','L',' ','o','r',' ','s','t','a','r','t',' ','w','i','t','h',' ','/']))
                            else
                              if (decide (c.RateLimit < MinRateLimit)) then
                                (some (['r','a','t','e','L','i','m','i','t',' ','m','u','s','t',' ','b','e',' ','a','t',' ','l','e','a','s','t',' ','%','d']))
                              else
                                if (decide (c.RefreshGracePeriodSeconds < (0 : Int))) then
                                  (some (['r','e','f','r','e','s','h','G','r','a','c','e','P','e','r','i','o','d','S','e','c','o','n','d','s',' ','c','a','n','n','o','t',' ','b','e',' ','n','e','g','a','t','i','v','e']))
                                else
                                  match Go.forRange c.Headers () (fun header () =>
                                    if (header.Name == ([] : Go.Str)) then
                                      .ret ((some (['h','e','a','d','e','r',' ','n','a','m','e',' ','c','a','n','n','o','t',' ','b','e',' ','e','m','p','t','y'])))
                                    else
                                      if (header.Value == ([] : Go.Str)) then
                                        .ret ((some (['h','e','a','d','e','r',' ','v','a','l','u','e',' ','t','e','m','p','l','a','t','e',' ','c','a','n','n','o','t',' ','b','e',' ','e','m','p','t','y'])))
                                      else
                                        if ((!(Go.contains header.Value ['{','{'])) || (!(Go.contains header.Value ['}','}']))) then
                                          .ret ((some (['h','e','a','d','e','r',' ','v','a','l','u','e',' ','\''] ++ header.Value ++ ['\'',' ','d','o','e','s',' ','n','o','t',' ','a','p','p','e','a','r',' ','t','o',' ','b','e',' ','a',' ','v','a','l','i','d',' ','t','e','m','p','l','a','t','e',' ','(','m','i','s','s','i','n','g',' ','{','{',' ','}','}',')'])))
                                        else
                                          if (Go.contains header.Value ['{','{','.','c','l','a','i','m','s']) then
                                            .ret ((some (['h','e','a','d','e','r',' ','t','e','m','p','l','a','t','e',' ','\''] ++ header.Value ++ ['\'',' ','a','p','p','e','a','r','s',' ','t','o',' ','u','s','e',' ','l','o','w','e','r','c','a','s','e',' ','\'','c','l','a','i','m','s','\'',' ','-',' ','u','s','e',' ','\'','{','{','.','C','l','a','i','m','s','.','.','.','\'',' ','i','n','s','t','e','a','d',' ','(','c','a','s','e',' ','s','e','n','s','i','t','i','v','e',')'])))
                                          else
                                            if (Go.contains header.Value ['{','{','.','a','c','c','e','s','s','T','o','k','e','n']) then
                                              .ret ((some (['h','e','a','d','e','r',' ','t','e','m','p','l','a','t','e',' ','\''] ++ header.Value ++ ['\'',' ','a','p','p','e','a','r','s',' ','t','o',' ','u','s','e',' ','l','o','w','e','r','c','a','s','e',' ','\'','a','c','c','e','s','s','T','o','k','e','n','\'',' ','-',' ','u','s','e',' ','\'','{','{','.','A','c','c','e','s','s','T','o','k','e','n','.','.','.','\'',' ','i','n','s','t','e','a','d',' ','(','c','a','s','e',' ','s','e','n','s','i','t','i','v','e',')'])))
                                            else
                                              if (Go.contains header.Value ['{','{','.','i','d','T','o','k','e','n']) then
                                                .ret ((some (['h','e','a','d','e','r',' ','t','e','m','p','l','a','t','e',' ','\''] ++ header.Value ++ ['\'',' ','a','p','p','e','a','r','s',' ','t','o',' ','u','s','e',' ','l','o','w','e','r','c','a','s','e',' ','\'','i','d','T','o','k','e','n','\'',' ','-',' ','u','s','e',' ','\'','{','{','.','I','d','T','o','k','e','n','.','.','.','\'',' ','i','n','s','t','e','a','d',' ','(','c','a','s','e',' ','s','e','n','s','i','t','i','v','e',')'])))
                                              else
                                                if (Go.contains header.Value ['{','{','.','r','e','f','r','e','s','h','T','o','k','e','n']) then
                                                  .ret ((some (['h','e','a','d','e','r',' ','t','e','m','p','l','a','t','e',' ','\''] ++ header.Value ++ ['\'',' ','a','p','p','e','a','r','s',' ','t','o',' ','u','s','e',' ','l','o','w','e','r','c','a','s','e',' ','\'','r','e','f','r','e','s','h','T','o','k','e','n','\'',' ','-',' ','u','s','e',' ','\'','{','{','.','R','e','f','r','e','s','h','T','o','k','e','n','.','.','.','\'',' ','i','n','s','t','e','a','d',' ','(','c','a','s','e',' ','s','e','n','s','i','t','i','v','e',')'])))
                                                else
                                                  .next ()) with
                                  | .ret r => r
                                  | .next () =>
                                    (none : Go.Err)
                                  | .brk () =>
                                    (none : Go.Err)
                          else
                            if (decide (c.RateLimit < MinRateLimit)) then
                              (some (['r','a','t','e','L','i','m','i','t',' ','m','u','s','t',' ','b','e',' ','a','t',' ','l','e','a','s','t',' ','%','d']))
                            else
                              if (decide (c.RefreshGracePeriodSeconds < (0 : Int))) then
                                (some (['r','e','f','r','e','s','h','G','r','a','c','e','P','e','r','i','o','d','S','e','c','o','n','d','s',' ','c','a','n','n','o','t',' ','b','e',' ','n','e','g','a','t','i','v','e']))
                              else
                                match Go.forRange c.Headers () (fun header () =>
                                  if (header.Name == ([] : Go.Str)) then
                                    .ret ((some (['h','e','a','d','e','r',' ','n','a','m','e',' ','c','a','n','n','o','t',' ','b','e',' ','e','m','p','t','y'])))
                                  else
                                    if (header.Value == ([] : Go.Str)) then
                                      .ret ((some (['h','e','a','d','e','r',' ','v','a','l','u','e',' ','t','e','m','p','l','a','t','e',' ','c','a','n','n','o','t',' ','b','e',' ','e','m','p','t','y'])))
                                    else
                                      if ((!(Go.contains header.Value ['{','{'])) || (!(Go.contains header.Value ['}','}']))) then
                                        .ret ((some (['h','e','a','d','e','r',' ','v','a','l','u','e',' ','\''] ++ header.Value ++ ['\'',' ','d','o','e','s',' ','n','o','t',' ','a','p','p','e','a','r',' ','t','o',' ','b','e',' ','a',' ','v','a','l','i','d',' ','t','e','m','p','l','a','t','e',' ','(','m','i','s','s','i','n','g',' ','{','{',' ','}','}',')'])))
                                      else
                                        if (Go.contains header.Value ['{','{','.','c','l','a','i','m','s']) then
                                          .ret ((some (['h','e','a','d','e','r',' ','t','e','m','p','l','a','t','e',' ','\''] ++ header.Value ++ ['\'',' ','a','p','p','e','a','r','s',' ','t','o',' ','u','s','e',' ','l','o','w','e','r','c','a','s','e',' ','\'','c','l','a','i','m','s','\'',' ','-',' ','u','s','e',' ','\'','{','{','.','C','l','a','i','m','s','.','.','.','\'',' ','i','n','s','t','e','a','d',' ','(','c','a','s','e',' ','s','e','n','s','i','t','i','v','e',')'])))
                                        else
                                          if (Go.contains header.Value ['{','{','.','a','c','c','e','s','s','T','o','k','e','n']) then
                                            .ret ((some (['h','e','a','d','e','r',' ','t','e','m','p','l','a','t','e',' ','\''] ++ header.Value ++ ['\'',' ','a','p','p','e','a','r','s',' ','t','o',' ','u','s','e',' ','l','o','w','e','r','c','a','s','e',' ','\'','a','c','c','e','s','s','T','o','k','e','n','\'',' ','-',' ','u','s','e',' ','\'','{','{','.','A','c','c','e','s','s','T','o','k','e','n','.','.','.','\'',' ','i','n','s','t','e','a','d',' ','(','c','a','s','e',' ','s','e','n','s','i','t','i','v','e',')'])))
                                          else
                                            if (Go.contains header.Value ['{','{','.','i','d','T','o','k','e','n']) then
                                              .ret ((some (['h','e','a','d','e','r',' ','t','e','m','p','l','a','t','e',' ','\''] ++ header.Value ++ ['\'',' ','a','p','p','e','a','r','s',' ','t','o',' ','u','s','e',' ','l','o','w','e','r','c','a','s','e',' ','\'','i','d','T','o','k','e','n','\'',' ','-',' ','u','s','e',' ','\'','{','{','.','I','d','T','o','k','e','n','.','.','.','\'',' ','i','n','s','t','e','a','d',' ','(','c','a','s','e',' ','s','e','n','s','i','t','i','v','e',')'])))
                                            else
                                              if (Go.contains header.Value ['{','{','.','r','e','f','r','e','s','h','T','o','k','e','n']) then
                                                .ret ((some (['h','e','a','d','e','r',' ','t','e','m','p','l','a','t','e',' ','\''] ++ header.Value ++ ['\'',' ','a','p','p','e','a','r','s',' ','t','o',' ','u','s','e',' ','l','o','w','e','r','c','a','s','e',' ','\'','r','e','f','r','e','s','h','T','o','k','e','n','\'',' ','-',' ','u','s','e',' ','\'','{','{','.','R','e','f','r','e','s','h','T','o','k','e','n','.','.','.','\'',' ','i','n','s','t','e','a','d',' ','(','c','a','s','e',' ','s','e','n','s','i','t','i','v','e',')'])))
                                              else
                                                .next ()) with
                                | .ret r => r
                                | .next () =>
                                  (none : Go.Err)
                                | .brk () =>
                                  (none : Go.Err)

/-- SessionManager.getSessionOptions (session.go) -/
def SessionManager_getSessionOptions (sm : Go.SessMgr) (isSecure : Bool) : Go.SessOptions :=
  ({ HttpOnly := true, Secure := (isSecure || sm.forceHTTPS), SameSite := Go.SameSite.lax, MaxAge := (Go.int64 (Go.durSeconds absoluteSessionTimeout)), Path := ['/'], Domain := ([] : Go.Str) } : Go.SessOptions)

/-- SessionData.expireAccessTokenChunks (session.go) -/
def SessionData_expireAccessTokenChunks (fuel : Nat) (sd : Go.SessData) (w : Bool) : Option (Go.SessData) :=
  let i := (0 : Int)
  match Go.forWhile fuel (i, sd) (fun (i, sd) => true) (fun (i, sd) =>
    let sessionName := (Go.chunkName accessTokenCookie i)
    let ((session, err), sd) := Go.storeGet sd sessionName
    if (err.isSome || (Go.sessIsNew sd session)) then
      .brk (i, sd)
    else
      let sd := Go.sessSetMaxAge sd session (-(1 : Int))
      let sd := Go.sessClearValues sd session
      if w then
        let (saveErr_1, sd) := Go.sessSave sd session
        
        let err_2 := saveErr_1
        if err_2.isSome then
          let i := (i + (1 : Int))
          .next (i, sd)
        else
          let i := (i + (1 : Int))
          .next (i, sd)
      else
        let i := (i + (1 : Int))
        .next (i, sd)) with
  | none => none
  | some (.ret r) => some r
  | some (.next (i, sd)) =>
    some (sd)
  | some (.brk (i, sd)) =>
    some (sd)

/-- SessionData.expireRefreshTokenChunks (session.go) -/
def SessionData_expireRefreshTokenChunks (fuel : Nat) (sd : Go.SessData) (w : Bool) : Option (Go.SessData) :=
  let i := (0 : Int)
  match Go.forWhile fuel (i, sd) (fun (i, sd) => true) (fun (i, sd) =>
    let sessionName := (Go.chunkName refreshTokenCookie i)
    let ((session, err), sd) := Go.storeGet sd sessionName
    if (err.isSome || (Go.sessIsNew sd session)) then
      .brk (i, sd)
    else
      let sd := Go.sessSetMaxAge sd session (-(1 : Int))
      let sd := Go.sessClearValues sd session
      if w then
        let (saveErr_1, sd) := Go.sessSave sd session
        
        let err_2 := saveErr_1
        if err_2.isSome then
          let i := (i + (1 : Int))
          .next (i, sd)
        else
          let i := (i + (1 : Int))
          .next (i, sd)
      else
        let i := (i + (1 : Int))
        .next (i, sd)) with
  | none => none
  | some (.ret r) => some r
  | some (.next (i, sd)) =>
    some (sd)
  | some (.brk (i, sd)) =>
    some (sd)

/-- SessionData.SetAccessToken (session.go) -/
def SessionData_SetAccessToken (fuel : Nat) (sd : Go.SessData) (token : Go.Str) : Option (Go.SessData) :=
  if sd.hasRequest then
    match (SessionData_expireAccessTokenChunks fuel sd false) with
    | none => none
    | some sd =>
      let sd := { sd with accessTokenChunks := ([] : List (Int × Go.SessPtr)) }
      let compressed := (sd.compress token)
      if (decide ((compressed.length : Int) ≤ maxCookieSize)) then
        let sd := Go.sessSetVal sd sd.accessSession ['t','o','k','e','n'] (Go.Any.str compressed)
        let sd := Go.sessSetVal sd sd.accessSession ['c','o','m','p','r','e','s','s','e','d'] (Go.Any.bool true)
        some (sd)
      else
        let sd := Go.sessSetVal sd sd.accessSession ['t','o','k','e','n'] (Go.Any.str ([] : Go.Str))
        let sd := Go.sessSetVal sd sd.accessSession ['c','o','m','p','r','e','s','s','e','d'] (Go.Any.bool true)
        match (splitIntoChunks fuel compressed maxCookieSize) with
        | none => none
        | some chunks =>
          match Go.forRange (Go.enum chunks) sd (fun (i, chunk) sd =>
            let sessionName := (Go.chunkName accessTokenCookie i)
            let ((session, _u1), sd) := Go.storeGet sd sessionName
            let sd := Go.sessSetVal sd session ['t','o','k','e','n','_','c','h','u','n','k'] (Go.Any.str chunk)
            let sd := { sd with accessTokenChunks := Go.imapSet sd.accessTokenChunks i session }
            .next sd) with
          | .ret r => some (r)
          | .next sd =>
            some (sd)
          | .brk sd =>
            some (sd)
  else
    let sd := { sd with accessTokenChunks := ([] : List (Int × Go.SessPtr)) }
    let compressed := (sd.compress token)
    if (decide ((compressed.length : Int) ≤ maxCookieSize)) then
      let sd := Go.sessSetVal sd sd.accessSession ['t','o','k','e','n'] (Go.Any.str compressed)
      let sd := Go.sessSetVal sd sd.accessSession ['c','o','m','p','r','e','s','s','e','d'] (Go.Any.bool true)
      some (sd)
    else
      let sd := Go.sessSetVal sd sd.accessSession ['t','o','k','e','n'] (Go.Any.str ([] : Go.Str))
      let sd := Go.sessSetVal sd sd.accessSession ['c','o','m','p','r','e','s','s','e','d'] (Go.Any.bool true)
      match (splitIntoChunks fuel compressed maxCookieSize) with
      | none => none
      | some chunks =>
        match Go.forRange (Go.enum chunks) sd (fun (i, chunk) sd =>
          let sessionName := (Go.chunkName accessTokenCookie i)
          let ((session, _u2), sd) := Go.storeGet sd sessionName
          let sd := Go.sessSetVal sd session ['t','o','k','e','n','_','c','h','u','n','k'] (Go.Any.str chunk)
          let sd := { sd with accessTokenChunks := Go.imapSet sd.accessTokenChunks i session }
          .next sd) with
        | .ret r => some (r)
        | .next sd =>
          some (sd)
        | .brk sd =>
          some (sd)

/-- SessionData.GetAccessToken (session.go) -/
def SessionData_GetAccessToken (fuel : Nat) (sd : Go.SessData) : Option (Go.Str) :=
  let (token, _u1) := Go.asStr (Go.sessVal sd sd.accessSession ['t','o','k','e','n'])
  if (token != ([] : Go.Str)) then
    let (compressed, _u2) := Go.asBool (Go.sessVal sd sd.accessSession ['c','o','m','p','r','e','s','s','e','d'])
    if compressed then
      some ((sd.decompress token))
    else
      some (token)
  else
    if ((sd.accessTokenChunks.length : Int) == (0 : Int)) then
      some (([] : Go.Str))
    else
      let chunks := ([] : List Go.Str)
      let i := (0 : Int)
      match Go.forWhile fuel (chunks, i) (fun (chunks, i) => true) (fun (chunks, i) =>
        let (session, ok) := Go.imapGet sd.accessTokenChunks i
        if (!ok) then
          .brk (chunks, i)
        else
          let (chunk, _u3) := Go.asStr (Go.sessVal sd session ['t','o','k','e','n','_','c','h','u','n','k'])
          let chunks := (chunks ++ [chunk])
          let i := (i + (1 : Int))
          .next (chunks, i)) with
      | none => none
      | some (.ret r) => some r
      | some (.next (chunks, i)) =>
        let token := (Go.strsJoin chunks ([] : Go.Str))
        let (compressed, _u4) := Go.asBool (Go.sessVal sd sd.accessSession ['c','o','m','p','r','e','s','s','e','d'])
        if compressed then
          some ((sd.decompress token))
        else
          some (token)
      | some (.brk (chunks, i)) =>
        let token := (Go.strsJoin chunks ([] : Go.Str))
        let (compressed, _u4) := Go.asBool (Go.sessVal sd sd.accessSession ['c','o','m','p','r','e','s','s','e','d'])
        if compressed then
          some ((sd.decompress token))
        else
          some (token)

/-- SessionData.SetRefreshToken (session.go) -/
def SessionData_SetRefreshToken (fuel : Nat) (sd : Go.SessData) (token : Go.Str) : Option (Go.SessData) :=
  if sd.hasRequest then
    match (SessionData_expireRefreshTokenChunks fuel sd false) with
    | none => none
    | some sd =>
      let sd := { sd with refreshTokenChunks := ([] : List (Int × Go.SessPtr)) }
      let compressed := (sd.compress token)
      if (decide ((compressed.length : Int) ≤ maxCookieSize)) then
        let sd := Go.sessSetVal sd sd.refreshSession ['t','o','k','e','n'] (Go.Any.str compressed)
        let sd := Go.sessSetVal sd sd.refreshSession ['c','o','m','p','r','e','s','s','e','d'] (Go.Any.bool true)
        some (sd)
      else
        let sd := Go.sessSetVal sd sd.refreshSession ['t','o','k','e','n'] (Go.Any.str ([] : Go.Str))
        let sd := Go.sessSetVal sd sd.refreshSession ['c','o','m','p','r','e','s','s','e','d'] (Go.Any.bool true)
        match (splitIntoChunks fuel compressed maxCookieSize) with
        | none => none
        | some chunks =>
          match Go.forRange (Go.enum chunks) sd (fun (i, chunk) sd =>
            let sessionName := (Go.chunkName refreshTokenCookie i)
            let ((session, _u1), sd) := Go.storeGet sd sessionName
            let sd := Go.sessSetVal sd session ['t','o','k','e','n','_','c','h','u','n','k'] (Go.Any.str chunk)
            let sd := { sd with refreshTokenChunks := Go.imapSet sd.refreshTokenChunks i session }
            .next sd) with
          | .ret r => some (r)
          | .next sd =>
            some (sd)
          | .brk sd =>
            some (sd)
  else
    let sd := { sd with refreshTokenChunks := ([] : List (Int × Go.SessPtr)) }
    let compressed := (sd.compress token)
    if (decide ((compressed.length : Int) ≤ maxCookieSize)) then
      let sd := Go.sessSetVal sd sd.refreshSession ['t','o','k','e','n'] (Go.Any.str compressed)
      let sd := Go.sessSetVal sd sd.refreshSession ['c','o','m','p','r','e','s','s','e','d'] (Go.Any.bool true)
      some (sd)
    else
      let sd := Go.sessSetVal sd sd.refreshSession ['t','o','k','e','n'] (Go.Any.str ([] : Go.Str))
      let sd := Go.sessSetVal sd sd.refreshSession ['c','o','m','p','r','e','s','s','e','d'] (Go.Any.bool true)
      match (splitIntoChunks fuel compressed maxCookieSize) with
      | none => none
      | some chunks =>
        match Go.forRange (Go.enum chunks) sd (fun (i, chunk) sd =>
          let sessionName := (Go.chunkName refreshTokenCookie i)
          let ((session, _u2), sd) := Go.storeGet sd sessionName
          let sd := Go.sessSetVal sd session ['t','o','k','e','n','_','c','h','u','n','k'] (Go.Any.str chunk)
          let sd := { sd with refreshTokenChunks := Go.imapSet sd.refreshTokenChunks i session }
          .next sd) with
        | .ret r => some (r)
        | .next sd =>
          some (sd)
        | .brk sd =>
          some (sd)

/-- SessionData.GetRefreshToken (session.go) -/
def SessionData_GetRefreshToken (fuel : Nat) (sd : Go.SessData) : Option (Go.Str) :=
  let (token, _u1) := Go.asStr (Go.sessVal sd sd.refreshSession ['t','o','k','e','n'])
  if (token != ([] : Go.Str)) then
    let (compressed, _u2) := Go.asBool (Go.sessVal sd sd.refreshSession ['c','o','m','p','r','e','s','s','e','d'])
    if compressed then
      some ((sd.decompress token))
    else
      some (token)
  else
    if ((sd.refreshTokenChunks.length : Int) == (0 : Int)) then
      some (([] : Go.Str))
    else
      let chunks := ([] : List Go.Str)
      let i := (0 : Int)
      match Go.forWhile fuel (chunks, i) (fun (chunks, i) => true) (fun (chunks, i) =>
        let (session, ok) := Go.imapGet sd.refreshTokenChunks i
        if (!ok) then
          .brk (chunks, i)
        else
          let (chunk, _u3) := Go.asStr (Go.sessVal sd session ['t','o','k','e','n','_','c','h','u','n','k'])
          let chunks := (chunks ++ [chunk])
          let i := (i + (1 : Int))
          .next (chunks, i)) with
      | none => none
      | some (.ret r) => some r
      | some (.next (chunks, i)) =>
        let token := (Go.strsJoin chunks ([] : Go.Str))
        let (compressed, _u4) := Go.asBool (Go.sessVal sd sd.refreshSession ['c','o','m','p','r','e','s','s','e','d'])
        if compressed then
          some ((sd.decompress token))
        else
          some (token)
      | some (.brk (chunks, i)) =>
        let token := (Go.strsJoin chunks ([] : Go.Str))
        let (compressed, _u4) := Go.asBool (Go.sessVal sd sd.refreshSession ['c','o','m','p','r','e','s','s','e','d'])
        if compressed then
          some ((sd.decompress token))
        else
          some (token)

/-- SessionData.GetCSRF (session.go) -/
def SessionData_GetCSRF (sd : Go.SessData) : Go.Str :=
  let (csrf, _u1) := Go.asStr (Go.sessVal sd sd.mainSession ['c','s','r','f'])
  csrf

/-- SessionData.SetCSRF (session.go) -/
def SessionData_SetCSRF (sd : Go.SessData) (token : Go.Str) : Go.SessData :=
  let sd := Go.sessSetVal sd sd.mainSession ['c','s','r','f'] (Go.Any.str token)
  sd

/-- SessionData.GetNonce (session.go) -/
def SessionData_GetNonce (sd : Go.SessData) : Go.Str :=
  let (nonce, _u1) := Go.asStr (Go.sessVal sd sd.mainSession ['n','o','n','c','e'])
  nonce

/-- SessionData.SetNonce (session.go) -/
def SessionData_SetNonce (sd : Go.SessData) (nonce : Go.Str) : Go.SessData :=
  let sd := Go.sessSetVal sd sd.mainSession ['n','o','n','c','e'] (Go.Any.str nonce)
  sd

/-- SessionData.GetCodeVerifier (session.go) -/
def SessionData_GetCodeVerifier (sd : Go.SessData) : Go.Str :=
  let (codeVerifier, _u1) := Go.asStr (Go.sessVal sd sd.mainSession ['c','o','d','e','_','v','e','r','i','f','i','e','r'])
  codeVerifier

/-- SessionData.SetCodeVerifier (session.go) -/
def SessionData_SetCodeVerifier (sd : Go.SessData) (codeVerifier : Go.Str) : Go.SessData :=
  let sd := Go.sessSetVal sd sd.mainSession ['c','o','d','e','_','v','e','r','i','f','i','e','r'] (Go.Any.str codeVerifier)
  sd

/-- SessionData.GetEmail (session.go) -/
def SessionData_GetEmail (sd : Go.SessData) : Go.Str :=
  let (email, _u1) := Go.asStr (Go.sessVal sd sd.mainSession ['e','m','a','i','l'])
  email

/-- SessionData.SetEmail (session.go) -/
def SessionData_SetEmail (sd : Go.SessData) (email : Go.Str) : Go.SessData :=
  let sd := Go.sessSetVal sd sd.mainSession ['e','m','a','i','l'] (Go.Any.str email)
  sd

/-- SessionData.GetIncomingPath (session.go) -/
def SessionData_GetIncomingPath (sd : Go.SessData) : Go.Str :=
  let (path, _u1) := Go.asStr (Go.sessVal sd sd.mainSession ['i','n','c','o','m','i','n','g','_','p','a','t','h'])
  path

/-- SessionData.SetIncomingPath (session.go) -/
def SessionData_SetIncomingPath (sd : Go.SessData) (path : Go.Str) : Go.SessData :=
  let sd := Go.sessSetVal sd sd.mainSession ['i','n','c','o','m','i','n','g','_','p','a','t','h'] (Go.Any.str path)
  sd

/-- SessionData.GetAuthenticated (session.go) -/
def SessionData_GetAuthenticated (now : Go.Time) (sd : Go.SessData) : Bool :=
  let (auth, _u1) := Go.asBool (Go.sessVal sd sd.mainSession ['a','u','t','h','e','n','t','i','c','a','t','e','d'])
  if (!auth) then
    false
  else
    let (createdAt, ok) := Go.asInt (Go.sessVal sd sd.mainSession ['c','r','e','a','t','e','d','_','a','t'])
    if (!ok) then
      false
    else
      (decide ((Go.timeSub now (Go.timeUnix createdAt (0 : Int))) ≤ absoluteSessionTimeout))

/-- SessionData.SetAuthenticated (session.go) -/
def SessionData_SetAuthenticated (now : Go.Time) (sd : Go.SessData) (value : Bool) : Go.Err × Go.SessData :=
  if value then
    let (id, err) := (sd.generateSecureRandomString (32 : Int))
    if err.isSome then
      ((some (['f','a','i','l','e','d',' ','t','o',' ','g','e','n','e','r','a','t','e',' ','s','e','c','u','r','e',' ','s','e','s','s','i','o','n',' ','i','d',':',' '] ++ (Go.errText err))), sd)
    else
      let sd := Go.sessSetVal sd sd.mainSession ['c','r','e','a','t','e','d','_','a','t'] (Go.Any.int (Go.timeToUnix now))
      let sd := Go.sessSetVal sd sd.mainSession ['a','u','t','h','e','n','t','i','c','a','t','e','d'] (Go.Any.bool value)
      ((none : Go.Err), sd)
  else
    let sd := Go.sessSetVal sd sd.mainSession ['a','u','t','h','e','n','t','i','c','a','t','e','d'] (Go.Any.bool value)
    ((none : Go.Err), sd)

end Oidc.Generated.Code
