/-!
# The fragment of Go and of its standard library that the translated functions use

`tools/go2lean` translates a fixed list of /repo's functions, statement by statement, into Lean definitions
(`Oidc/Generated/Code.lean`, regenerated on every run).  This file gives the meaning of what those definitions mention:
Go's values (strings as character lists, `time.Time` and `time.Duration` as integer nanoseconds, `interface{}` holding a decoded
JSON value, `error` as an optional message), the library calls (`strings.*`, `time.*`, `http.Header.Get`) and the control
operators the translation needs (`forRange` for `for … range` with `break` and `return`).

Everything here is part of the trusted base of the translated definitions: it states what the Go constructs mean.
-/
namespace Oidc.Go

abbrev Str := List Char

/-! ## time -/
abbrev Time := Int        -- nanoseconds since the epoch
abbrev Duration := Int    -- nanoseconds
def Nanosecond : Duration := 1
def Microsecond : Duration := 1000
def Millisecond : Duration := 1000000
def Second : Duration := 1000000000
def Minute : Duration := 60 * Second
def Hour : Duration := 60 * Minute
def timeUnix (sec nsec : Int) : Time := sec * 1000000000 + nsec
def timeToUnix (t : Time) : Int := t / 1000000000
def timeAdd (t : Time) (d : Duration) : Time := t + d
def timeSub (t u : Time) : Duration := t - u
def timeAfter (t u : Time) : Bool := decide (u < t)
def timeBefore (t u : Time) : Bool := decide (t < u)
def timeEqual (t u : Time) : Bool := decide (t = u)

/-- a `float64` holding a JSON number: the translated code observes it only through `int64(x)` -/
structure F64 where
  trunc : Int
  deriving DecidableEq, Repr
def int64 (x : F64) : Int := x.trunc
/-- `v >= c` for an integer constant `c ≥ 0`, `v <= c` for an integer constant `c ≤ 0`: decided by the whole-number part (truncation
    toward zero) — exact for constants of that sign -/
def f64GeNonneg (v : F64) (c : Int) : Bool := decide (v.trunc ≥ c)
def f64LeNonpos (v : F64) (c : Int) : Bool := decide (v.trunc ≤ c)

/-! ## errors: `nil` is `none`; an error is represented by its format string (arguments are not part of the decision logic) -/
abbrev Err := Option Str
/-- `err.Error()` of a non-nil error -/
def errText (e : Err) : Str := e.getD []
/-- `d.Seconds()` as far as `int64(…)` observes it: whole seconds, truncated toward zero -/
def durSeconds (d : Duration) : F64 := ⟨Int.tdiv d 1000000000⟩

/-! ## `interface{}` holding a decoded JSON value -/
inductive Any where
  | nil
  | str (s : Str)
  | num (x : F64)
  | bool (b : Bool)
  | arr (xs : List Any)
  | obj (kv : List (Str × Any))
  | int (i : Int)     -- an `int64` stored in a `map[interface{}]interface{}` (session values; never produced by JSON decoding)

abbrev Obj := List (Str × Any)

/-- `x.(string)` in its comma-ok form: the zero value and `false` when `x` holds another type -/
def asStr : Any → Str × Bool
  | .str s => (s, true)
  | _ => ([], false)
/-- `x.(int64)` -/
def asInt : Any → Int × Bool
  | .int i => (i, true)
  | _ => (0, false)
def asF64 : Any → F64 × Bool
  | .num x => (x, true)
  | _ => (⟨0⟩, false)
def asBool : Any → Bool × Bool
  | .bool b => (b, true)
  | _ => (false, false)
def asArr : Any → List Any × Bool
  | .arr xs => (xs, true)
  | _ => ([], false)
def asObj : Any → Obj × Bool
  | .obj kv => (kv, true)
  | _ => ([], false)
/-- `x.(float64)` without comma-ok: Go panics when `x` holds another type; the translated functions reach it only for values a
    preceding check has typed (this total version yields 0 there) -/
def assertF64 (x : Any) : F64 := (asF64 x).1

/-- `m[k]` on a `map[string]interface{}` (a decoded JSON object: the first binding of a key is the one kept here) -/
def mapGet (m : Obj) (k : Str) : Any := match m.find? (fun p => p.1 == k) with | some p => p.2 | none => .nil
def mapGet2 (m : Obj) (k : Str) : Any × Bool := match m.find? (fun p => p.1 == k) with | some p => (p.2, true) | none => (.nil, false)

/-- `map[string]bool` literals -/
def boolMapGet (m : List (Str × Bool)) (k : Str) : Bool := match m.find? (fun p => p.1 == k) with | some p => p.2 | none => false

/-- `map[string]struct{}` used as a set: its keys in some order (the translated loops over it are shown order-independent) -/
abbrev Set := List Str
def setHas (s : Set) (k : Str) : Bool := s.contains k

/-! ## strings -/
def hasPrefix (s p : Str) : Bool := p.isPrefixOf s
def hasSuffix (s p : Str) : Bool := p.reverse.isPrefixOf s.reverse

/-- `strings.Split(s, sep)` for a one-character separator -/
def splitOn1 (c : Char) : Str → List Str
  | [] => [[]]
  | x :: rest =>
    if x = c then [] :: splitOn1 c rest
    else match splitOn1 c rest with
      | [] => [[x]]
      | h :: t => (x :: h) :: t
def split (s sep : Str) : List Str :=
  match sep with
  | [c] => splitOn1 c s
  | _ => [s]          -- (only one-character separators occur in the translated functions; `Oidc.Generated.Code` says which)
def idx (xs : List Str) (i : Int) : Str := xs.getD i.toNat []

/-- `strings.TrimSuffix` -/
def trimSuffix (s suf : Str) : Str := if hasSuffix s suf then s.take (s.length - suf.length) else s

/-- `strings.Contains` -/
def contains (s sub : Str) : Bool :=
  match s with
  | [] => sub.isEmpty
  | c :: t => sub.isPrefixOf (c :: t) || contains t sub

/-- `s[:n]` and `s[n:]`: Go panics unless `0 ≤ n ≤ len(s)`; the translated functions use them under that guard, and the
    theorems about them are stated under it (outside it these total versions clamp) -/
def sliceTo (s : Str) (n : Int) : Str := s.take n.toNat
def sliceFrom (s : Str) (n : Int) : Str := s.drop n.toNat

/-! ## net/http: what the translated functions read of a request -/
structure Request where
  /-- `req.Header.Get(name)` for a name in canonical form: the first value, `""` when absent -/
  header : Str → Str
  host : Str
  /-- `req.TLS != nil` -/
  tls : Bool

def headerGet (r : Request) (name : Str) : Str := r.header name

/-! ## the fields of the middleware instance and of a parsed token that the translated functions read -/
structure JWT where
  Header : Obj
  Claims : Obj

/-- a key of the provider's key set as the translated functions read it -/
structure JWK where
  Kid : Str
  Kty : Str
structure JWKSet where
  Keys : List JWK
/-- a PEM-encoded public key (only handed from `jwkToPEM` to `verifySignature`) -/
abbrev Pem := Str

/-- the instance: the fields the translated functions read, and the functions of /repo they call that are not themselves
    translated (`tools/go2lean` lists them as `externals`): these are parameters the theorems quantify over -/
structure Inst where
  excludedURLs : Set
  allowedUserDomains : Set
  allowedRolesAndGroups : Set
  refreshGracePeriod : Duration
  /-- `t.extractClaimsFunc(token)`: claims of a token string, or an error -/
  extractClaimsFunc : Str → Obj × Err
  /-- `extractClaims(token)` (the package-level helper: payload of a token string, no verification) -/
  extractClaims : Str → Obj × Err
  /-- `parseJWT(token)` -/
  parseJWT : Str → JWT × Err
  issuerURL : Str
  clientID : Str
  /-- `t.jwkCache.GetJWKS(ctx, t.jwksURL, t.httpClient)`: the provider's key set as cached or fetched, or an error -/
  getJWKS : JWKSet × Err
  /-- `jwkToPEM(key)` -/
  jwkToPEM : Option JWK → Pem × Err
  /-- `verifySignature(token, pem, alg)` -/
  verifySignature : Str → Pem → Str → Err

/-- `http.SameSite` -/
inductive SameSite | default | lax | strict | none
  deriving DecidableEq, Repr
/-- gorilla `sessions.Options` (the attributes of the cookies a session is saved in) -/
structure SessOptions where
  HttpOnly : Bool
  Secure : Bool
  SameSite : SameSite
  MaxAge : Int
  Path : Str
  Domain : Str
/-- session.go `SessionManager`: the field `getSessionOptions` reads -/
structure SessMgr where
  forceHTTPS : Bool

/-- settings.go `TemplatedHeader` -/
structure TemplatedHeader where
  Name : Str
  Value : Str
/-- settings.go `Config`: the fields `Validate` reads; `isValidSecureURL` (net/url parsing) is a parameter -/
structure Config where
  ProviderURL : Str
  CallbackURL : Str
  ClientID : Str
  ClientSecret : Str
  SessionEncryptionKey : Str
  LogLevel : Str
  ExcludedURLs : List Str
  RevocationURL : Str
  OIDCEndSessionURL : Str
  PostLogoutRedirectURI : Str
  RateLimit : Int
  RefreshGracePeriodSeconds : Int
  Headers : List TemplatedHeader
  isValidSecureURL : Str → Bool

/-- `*SessionData` as the translated functions read it: the results of its getters -/
structure Sess where
  GetAuthenticated : Bool
  GetAccessToken : Str
  GetRefreshToken : Str
  GetEmail : Str

/-! ## `for … range` with `break` and `return` -/
inductive Ctl (σ ρ : Type) where
  | next (s : σ)      -- the body ran to its end (or `continue`)
  | brk (s : σ)       -- `break`
  | ret (r : ρ)       -- `return r`

def forRange {α σ ρ : Type} (xs : List α) (s : σ) (f : α → σ → Ctl σ ρ) : Ctl σ ρ :=
  match xs with
  | [] => .next s
  | x :: rest =>
    match f x s with
    | .next s' => forRange rest s' f
    | .brk s' => .next s'
    | .ret r => .ret r

/-! ## cache.go: the struct its methods change in place, `container/list`, the two maps

The translated methods of `*Cache` take the struct and return the new one.  An element of the LRU list (`*list.Element`) is
identified by the value it holds (`lruEntry{key}`, i.e. the key): `Remove(e)` / `MoveToBack(e)` act on the first element holding
that key, `e.Next()` is the element after it.  That is what `container/list` does as long as no two elements of the list hold the
same key; the refinement theorems (`Oidc/Proofs/CodeCache.lean`) carry that as part of their invariant and show that every
translated method preserves it, so it holds in every state reachable from `NewCache()`.  A Go map is an association list with one
entry per key (its iteration order is arbitrary: the one loop over a map, in `Cleanup`, is shown not to depend on it). -/
abbrev Elem := Str
def lruEntry (k : Str) : Elem := k
def lruKey (e : Elem) : Str := e
/-- `elem.Value.(lruEntry)` (Go panics on a nil element; the code reaches it only under `elem != nil`) -/
def elemValue (e : Option Elem) : Elem := e.getD []

structure CacheItem where
  Value : Any
  ExpiresAt : Time

structure CacheS where
  items : List (Str × CacheItem)
  order : List Elem
  elems : List (Str × Elem)
  maxSize : Int

def cmapGet (m : List (Str × CacheItem)) (k : Str) : CacheItem × Bool :=
  match m.find? (fun p => p.1 == k) with
  | some p => (p.2, true)
  | none => (⟨.nil, 0⟩, false)
def cmapSet (m : List (Str × CacheItem)) (k : Str) (v : CacheItem) : List (Str × CacheItem) := m.filter (fun p => p.1 != k) ++ [(k, v)]
def cmapDel (m : List (Str × CacheItem)) (k : Str) : List (Str × CacheItem) := m.filter (fun p => p.1 != k)
def emapGet (m : List (Str × Elem)) (k : Str) : Option Elem × Bool :=
  match m.find? (fun p => p.1 == k) with
  | some p => (some p.2, true)
  | none => (none, false)
def emapSet (m : List (Str × Elem)) (k : Str) (e : Option Elem) : List (Str × Elem) := (k, e.getD []) :: m.filter (fun p => p.1 != k)
def emapDel (m : List (Str × Elem)) (k : Str) : List (Str × Elem) := m.filter (fun p => p.1 != k)

def listFront (l : List Elem) : Option Elem := l.head?
/-- `e.Next()`: the element after (the first occurrence of) `e`, nil at the end -/
def listNext : List Elem → Option Elem → Option Elem
  | _, none => none
  | [], some _ => none
  | x :: rest, some e => if x = e then rest.head? else listNext rest (some e)
def listPushBack (l : List Elem) (v : Elem) : Option Elem × List Elem := (some v, l ++ [v])
def listMoveToBack (l : List Elem) (e : Option Elem) : List Elem :=
  match e with
  | some x => if x ∈ l then l.erase x ++ [x] else l
  | none => l
def listRemove (l : List Elem) (e : Option Elem) : List Elem :=
  match e with
  | some x => l.erase x
  | none => l

/-- `time.Duration(float64(d) * p/q)` for a decimal constant `p/q`: the product truncated toward zero (float rounding aside: the one
    use, in `Cleanup`, only needs that the result lies between 0 and `d` for `d ≥ 0`) -/
def durScale (d : Duration) (p q : Int) : Duration := if 0 ≤ d * p then (d * p) / q else -((-(d * p)) / q)

/-! ## the state shared between requests: token cache, revocation list, limiter

The translated `VerifyToken`, `RevokeToken` and their helpers take the state as an argument and return the new one; what the
operations the code calls on it do is a parameter (`VOps`), so that the theorems hold for every implementation of the caches and
the limiter that satisfies the hypotheses they state. -/
structure VOps (σ : Type) where
  /-- `t.tokenCache.Get(token)`: the cached claims and whether there was a (live) entry; a lookup may reorder or drop entries -/
  tokenCacheGet : σ → Time → Str → (Obj × Bool) × σ
  /-- `t.tokenCache.Set(token, claims, duration)` -/
  tokenCacheSet : σ → Time → Str → Obj → Duration → σ
  /-- `t.tokenCache.Delete(token)` -/
  tokenCacheDelete : σ → Str → σ
  /-- `t.tokenBlacklist.Get(key)` -/
  blacklistGet : σ → Time → Str → (Any × Bool) × σ
  /-- `t.tokenBlacklist.Set(key, value, duration)` -/
  blacklistSet : σ → Time → Str → Any → Duration → σ
  /-- `t.limiter.Allow()` -/
  limiterAllow : σ → Time → Bool × σ

/-! ## discovery: the outside world and the clock

`discoverProviderMetadata` as translated reads the clock, sleeps and fetches through the operations of `DOps` on a state `w` (the
virtual clock and whatever the provider is going to answer live there). -/
/-- the discovery document as far as the translated functions look at it (they only pass it on) -/
structure Meta where
  doc : Nat
/-- metadata_cache.go `MetadataCache`: the cached document (nil when there is none) and the instant up to which it is served
    without asking the provider (the mutex and the clean-up goroutine's fields are not data) -/
structure MetaCache where
  metadata : Option Meta
  expiresAt : Time
/-- jwk.go `JWKCache`: the cached key set (nil when there is none), the instant up to which it is served without asking the provider,
    and the configured lifetime (0 = one hour) -/
structure JwkCache where
  jwks : Option JWKSet
  expiresAt : Time
  CacheLifetime : Duration
/-- `*http.Client`, `*Logger`, `context.Context`: passed along, never inspected by the translated functions -/
structure HTTPClient where
structure Logger where
structure Ctx where

structure DOps (σ : Type) where
  /-- `time.Now()` -/
  clock : σ → Time
  /-- `time.Sleep(d)` -/
  sleep : σ → Duration → σ
  /-- `fetchMetadata(url, client)`: one HTTP attempt at the discovery endpoint -/
  fetchMetadata : σ → Str → (Option Meta × Err) × σ
  /-- `fetchJWKS(ctx, url, client)`: one HTTP request at the key-set endpoint -/
  fetchJWKS : σ → Str → (Option JWKSet × Err) × σ

/-- `time.Duration(math.Pow(2, float64(n)))` for `n ≥ 0` -/
def pow2 (n : Int) : Duration := ((2 ^ n.toNat : Nat) : Int)

/-- `for cond { body }`: runs at most `fuel` iterations; `none` when the fuel runs out (the theorems about a translated
    function with such a loop say for which fuel it does not, i.e. that the loop terminates) -/
def forWhile {σ ρ : Type} : Nat → σ → (σ → Bool) → (σ → Ctl σ ρ) → Option (Ctl σ ρ)
  | 0, _, _, _ => none
  | n + 1, s, c, b =>
    if c s then
      match b s with
      | .next s' => forWhile n s' c b
      | .brk s' => some (.next s')
      | .ret r => some (.ret r)
    else some (.next s)

/-- marker the translator emits for a function it cannot translate (any statement about it then fails to type-check) -/
structure Untranslatable where
  reason : String


/-! ## session.go: the in-memory session between `GetSession` and `Save`

A `*sessions.Session` is identified by its cookie name inside gorilla's per-request registry (`store.Get` hands out the same
pointer for the same name during one request), so a pointer is a name and the registry is the heap. -/
structure GSess where
  Values : Obj        -- `map[interface{}]interface{}` (the code uses string keys only)
  MaxAge : Int        -- `Options.MaxAge`
  IsNew : Bool
abbrev SessPtr := Str

structure SessData where
  hasRequest : Bool                      -- `sd.request != nil`
  reg : List (Str × GSess)               -- the registry: every session fetched during this request, by cookie name
  cookie : Str → Option Obj              -- what the request's cookie of that name decodes to (none: absent or undecodable)
  maxAgeDefault : Int                    -- `Options.MaxAge` of a session as the store hands it out
  compress : Str → Str                   -- `compressToken`, `decompressToken` (gzip + base64: parameters of the theorems)
  decompress : Str → Str
  mainSession : SessPtr
  accessSession : SessPtr
  refreshSession : SessPtr
  accessTokenChunks : List (Int × SessPtr)      -- `map[int]*sessions.Session`
  refreshTokenChunks : List (Int × SessPtr)
  saved : List (Str × GSess)             -- what has been written to the response so far (one Set-Cookie line each), in order
  generateSecureRandomString : Int → Str × Err   -- crypto/rand (a parameter)

def regGet (reg : List (Str × GSess)) (n : Str) : GSess :=
  match reg.find? (fun p => p.1 == n) with | some p => p.2 | none => ⟨[], 0, true⟩
def regHas (reg : List (Str × GSess)) (n : Str) : Bool := reg.any (fun p => p.1 == n)
/-- (association lists, newest binding first; a rebinding drops the older one, so lengths count distinct keys) -/
def regSet (reg : List (Str × GSess)) (n : Str) (g : GSess) : List (Str × GSess) :=
  (n, g) :: reg.filter (fun p => p.1 != n)

/-- `sd.manager.store.Get(sd.request, name)`: the registry's session of that name, created on first use from the request's cookie
    (a cookie that does not decode gives a new, empty session — the error gorilla reports next to it comes with `IsNew`) -/
def storeGet (sd : SessData) (n : Str) : (SessPtr × Err) × SessData :=
  if regHas sd.reg n then ((n, none), sd)
  else
    let g : GSess := match sd.cookie n with
      | some vals => ⟨vals, sd.maxAgeDefault, false⟩
      | none => ⟨[], sd.maxAgeDefault, true⟩
    ((n, none), { sd with reg := (n, g) :: sd.reg })

def mapSet (m : Obj) (k : Str) (v : Any) : Obj := (k, v) :: m.filter (fun p => p.1 != k)

def sessVal (sd : SessData) (p : SessPtr) (k : Str) : Any := mapGet (regGet sd.reg p).Values k
def sessIsNew (sd : SessData) (p : SessPtr) : Bool := (regGet sd.reg p).IsNew
def sessSetVal (sd : SessData) (p : SessPtr) (k : Str) (v : Any) : SessData :=
  { sd with reg := regSet sd.reg p { regGet sd.reg p with Values := mapSet (regGet sd.reg p).Values k v } }
def sessClearValues (sd : SessData) (p : SessPtr) : SessData :=
  { sd with reg := regSet sd.reg p { regGet sd.reg p with Values := [] } }
def sessSetMaxAge (sd : SessData) (p : SessPtr) (a : Int) : SessData :=
  { sd with reg := regSet sd.reg p { regGet sd.reg p with MaxAge := a } }
/-- `session.Save(r, w)`: one more Set-Cookie line (the encoding error a too long value gives is `Codec.fits`' business) -/
def sessSave (sd : SessData) (p : SessPtr) : Err × SessData :=
  (none, { sd with saved := sd.saved ++ [(p, regGet sd.reg p)] })

def imapGet (m : List (Int × SessPtr)) (i : Int) : SessPtr × Bool :=
  match m.find? (fun p => p.1 == i) with | some p => (p.2, true) | none => ([], false)
def imapSet (m : List (Int × SessPtr)) (i : Int) (s : SessPtr) : List (Int × SessPtr) :=
  (i, s) :: m.filter (fun p => p.1 != i)

/-- `fmt.Sprintf("%s_%d", base, i)` -/
def chunkName (base : Str) (i : Int) : Str := base ++ ['_'] ++ (toString i).toList
/-- `strings.Join(xs, sep)` -/
def strsJoin (xs : List Str) (sep : Str) : Str := sep.intercalate xs
/-- `for i, x := range xs` -/
def enum {α : Type} (xs : List α) : List (Int × α) := xs.zipIdx.map (fun p => ((p.2 : Int), p.1))

end Oidc.Go
