/-! Shared basic abbreviations. -/
namespace Oidc
abbrev Str := List Char
end Oidc
