/-!
# TTL + LRU cache (cache.go)

Abstract model: one list of entries, front = least recently used.  `se` ("strict expiry") is the
regenerated fact telling which comparison the code uses: `true`  = `time.Now().After(ExpiresAt)`
(expired iff now > exp), `false` = `!time.Now().Before(ExpiresAt)` (expired iff now ≥ exp).
-/
namespace Oidc.Cache

structure Entry where
  key : String
  val : Nat
  exp : Int
  deriving Repr, DecidableEq

structure C where
  cap   : Nat
  order : List Entry
  deriving Repr

def expired (se : Bool) (now : Int) (e : Entry) : Bool :=
  if se then decide (now > e.exp) else decide (now ≥ e.exp)

def lookup (l : List Entry) (k : String) : Option Entry := l.find? (·.key == k)
def remove (l : List Entry) (k : String) : List Entry := l.filter (·.key != k)

/-- `Get`: miss; or expired → removed, miss; or hit → moved to the back -/
def get (se : Bool) (c : C) (now : Int) (k : String) : C × Option Nat :=
  match lookup c.order k with
  | none => (c, none)
  | some e =>
    if expired se now e then ({ c with order := remove c.order k }, none)
    else ({ c with order := remove c.order k ++ [e] }, some e.val)

/-- `evictOldest`: first expired entry in LRU order, else the front -/
def evict (se : Bool) (now : Int) (l : List Entry) : List Entry :=
  match l.find? (expired se now) with
  | some e => remove l e.key
  | none => l.tail

/-- `Set` -/
def set (se : Bool) (c : C) (now : Int) (k : String) (v : Nat) (ttl : Int) : C :=
  let e : Entry := ⟨k, v, now + ttl⟩
  match lookup c.order k with
  | some _ => { c with order := remove c.order k ++ [e] }
  | none =>
    let l := if c.order.length ≥ c.cap then evict se now c.order else c.order
    { c with order := l ++ [e] }

def delete (c : C) (k : String) : C := { c with order := remove c.order k }

/-- `Cleanup` (the second disjunct of the Go condition is unsatisfiable for live entries; the
    regenerated fact `cleanupFactorLeOne` guards that) -/
def cleanup (se : Bool) (c : C) (now : Int) : C :=
  { c with order := c.order.filter (fun e => !expired se now e) }

inductive Op where
  | set (now : Int) (k : String) (v : Nat) (ttl : Int)
  | get (now : Int) (k : String)
  | del (k : String)
  | clean (now : Int)
  deriving Repr

def Op.time : Op → Option Int
  | .set now .. => some now
  | .get now _ => some now
  | .clean now => some now
  | .del _ => none

def step (se : Bool) (c : C) : Op → C
  | .set now k v ttl => set se c now k v ttl
  | .get now k => (get se c now k).1
  | .del k => delete c k
  | .clean now => cleanup se c now

def run (se : Bool) (c : C) (ops : List Op) : C := ops.foldl (step se) c
def init (cap : Nat) : C := ⟨cap, []⟩

end Oidc.Cache
