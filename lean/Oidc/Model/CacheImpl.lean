import Oidc.Model.Cache
/-!
# cache.go at the level of its three structures

`items map[string]CacheItem`, `order *list.List` (of `lruEntry{key}`, front = least recently used) and
`elems map[string]*list.Element`.  A Go map is modelled as an association list with one entry per key (its order is
unobservable: the code only looks keys up, takes `len`, and ranges over it in `Cleanup`, whose effect does not depend on
the order); `elems` as the list of its keys — the element a key maps to is the list element holding that very key, so
`order.Remove(elem)` / `order.MoveToBack(elem)` act on the (unique) occurrence of the key.
-/
namespace Oidc.CacheImpl
open Oidc.Cache

structure Impl where
  cap   : Nat
  items : List Entry
  order : List String
  elems : List String
  deriving Repr

def mget (m : List Entry) (k : String) : Option Entry := lookup m k
def mset (m : List Entry) (e : Entry) : List Entry := remove m e.key ++ [e]
def mdel (m : List Entry) (k : String) : List Entry := remove m k

/-- `removeItem` -/
def removeItem (c : Impl) (k : String) : Impl :=
  if k ∈ c.elems then { c with items := mdel c.items k, order := c.order.erase k, elems := c.elems.erase k }
  else { c with items := mdel c.items k }

/-- `if elem, ok := c.elems[key]; ok { c.order.MoveToBack(elem) }` -/
def moveToBack (c : Impl) (k : String) : Impl :=
  if k ∈ c.elems then { c with order := c.order.erase k ++ [k] } else c

def expiredKey (se : Bool) (now : Int) (items : List Entry) (k : String) : Bool :=
  match mget items k with
  | some e => expired se now e
  | none => false

/-- `evictOldest`: walk the list from the front for an entry whose item exists and has expired; else remove the front -/
def evictOldest (se : Bool) (now : Int) (c : Impl) : Impl :=
  match c.order.find? (expiredKey se now c.items) with
  | some k => removeItem c k
  | none =>
    match c.order.head? with
    | some k => removeItem c k
    | none => c

/-- `Set` -/
def set (se : Bool) (c : Impl) (now : Int) (k : String) (v : Nat) (ttl : Int) : Impl :=
  let e : Entry := ⟨k, v, now + ttl⟩
  match mget c.items k with
  | some _ => moveToBack { c with items := mset c.items e } k
  | none =>
    let c1 := if c.items.length ≥ c.cap then evictOldest se now c else c
    { c1 with items := mset c1.items e, order := c1.order ++ [k], elems := k :: c1.elems }

/-- `Get` -/
def get (se : Bool) (c : Impl) (now : Int) (k : String) : Impl × Option Nat :=
  match mget c.items k with
  | none => (c, none)
  | some e => if expired se now e then (removeItem c k, none) else (moveToBack c k, some e.val)

/-- `Delete` -/
def delete (c : Impl) (k : String) : Impl := removeItem c k

/-- `Cleanup`: range over the map, `removeItem` for every expired entry (the second disjunct of the Go condition never
    holds for an unexpired entry — regenerated fact `cacheCleanupFactorMilli`) -/
def cleanup (se : Bool) (c : Impl) (now : Int) : Impl :=
  (c.items.filter (expired se now)).foldl (fun c e => removeItem c e.key) c

def step (se : Bool) (c : Impl) : Op → Impl
  | .set now k v ttl => set se c now k v ttl
  | .get now k => (get se c now k).1
  | .del k => delete c k
  | .clean now => cleanup se c now

def run (se : Bool) (c : Impl) (ops : List Op) : Impl := ops.foldl (step se) c
def init (cap : Nat) : Impl := ⟨cap, [], [], []⟩

end Oidc.CacheImpl
