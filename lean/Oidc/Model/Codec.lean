/-!
# securecookie framing and the byte length of every Set-Cookie line

Primitives (HMAC, the cipher, gob, base64) are parameters; what is modelled is the framing
`base64( ts | base64(body) | mac(name | ts | base64(body)) )` and the arithmetic of lengths.
-/
namespace Oidc.Codec

abbrev Bytes := List Nat

def bar : Nat := 124          -- '|'

/-- bytes up to the first '|', and what follows it -/
def takeField : Bytes → Bytes × Option Bytes
  | [] => ([], none)
  | x :: xs => if x = bar then ([], some xs) else ((x :: (takeField xs).1), (takeField xs).2)

/-- `bytes.SplitN(b, "|", 3)` -/
def split3 (b : Bytes) : Option (Bytes × Bytes × Bytes) :=
  match takeField b with
  | (p0, some r0) =>
    match takeField r0 with
    | (p1, some r1) => some (p0, p1, r1)
    | _ => none
  | _ => none

def frame (name ts body : Bytes) : Bytes := name ++ [bar] ++ ts ++ [bar] ++ body

section
variable (mac : Bytes → Bytes → Bytes)           -- hash key → message → tag
variable (b64 : Bytes → Bytes) (unb64 : Bytes → Option Bytes)

def encode (hk name ts body : Bytes) : Bytes :=
  b64 (ts ++ [bar] ++ body ++ [bar] ++ mac hk (frame name ts body))

/-- `Decode` up to and including the MAC check; yields timestamp and (still encoded, possibly encrypted) body -/
def decode (hk name : Bytes) (maxLen : Nat) (s : Bytes) : Option (Bytes × Bytes) :=
  if s.length > maxLen then none else
  match unb64 s with
  | none => none
  | some b =>
    match split3 b with
    | none => none
    | some (ts, body, tag) => if tag = mac hk (frame name ts body) then some (ts, body) else none
end

/-- stream cipher: XOR with a keystream -/
def xor (a b : Bytes) : Bytes := List.zipWith Nat.xor a b

/-! ### lengths -/

def b64len (n : Nat) : Nat := 4 * ((n + 2) / 3)

/-- number of bytes of a positive integer (1 for 0) -/
def byteLen (x : Nat) : Nat :=
  if x < 256 then 1 else if x < 65536 then 2 else if x < 16777216 then 3 else 4   -- enough for < 2^32

/-- gob's unsigned integer -/
def uvarLen (x : Nat) : Nat := if x < 128 then 1 else 1 + byteLen x

/-- an `interface{}` holding a string of length `n`: name "string", type id, length, delta 0, string -/
def ifaceStr (n : Nat) : Nat := 7 + 1 + uvarLen (1 + uvarLen n + n) + 1 + uvarLen n + n
def ifaceBool : Nat := 9
/-- an `interface{}` holding an int64 whose gob integer encoding takes `ilen` bytes (1 or 1 + byte count) -/
def ifaceInt (ilen : Nat) : Nat := 6 + 1 + uvarLen (1 + ilen) + 1 + ilen

/-- a gob-encoded `map[interface{}]interface{}` whose entries total `entries` bytes -/
def gobMap (count entries : Nat) : Nat :=
  let body := 2 + 1 + uvarLen count + entries
  14 + uvarLen body + body

structure LenFacts where
  encrypted : Bool        -- a block key is configured: 16-byte IV precedes the ciphertext
  secure    : Bool        -- the Secure attribute is emitted
  tsDigits  : Nat         -- decimal digits of the Unix timestamp (10 until the year 2286)

def valueLen (f : LenFacts) (gob : Nat) : Nat :=
  b64len (f.tsDigits + 1 + b64len (gob + (if f.encrypted then 16 else 0)) + 1 + 32)

/-- "; Path=/; Expires=<29>; Max-Age=86400; HttpOnly[; Secure]; SameSite=Lax" -/
def attrsLen (f : LenFacts) : Nat := 8 + 39 + 15 + 10 + (if f.secure then 8 else 0) + 14

def lineLen (f : LenFacts) (nameLen gob : Nat) : Nat := nameLen + 1 + valueLen f gob + attrsLen f

/-- a line that deletes a cookie: `name=; Path=/; Expires=<29>; Max-Age=0; HttpOnly[; Secure]; SameSite=Lax` -/
def delLineLen (secure : Bool) (nameLen : Nat) : Nat := nameLen + 1 + (8 + 39 + 11 + 10 + (if secure then 8 else 0) + 14)

/-- securecookie's length check in `Encode`: a value longer than the codec's ceiling is not produced (`Save` returns an error
    and writes no cookie); a ceiling of 0 switches the check off -/
def fits (ceiling : Nat) (f : LenFacts) (gob : Nat) : Bool := ceiling == 0 || decide (valueLen f gob ≤ ceiling)

/-- the attributes of a Set-Cookie line as net/http prints them for the `sessions.Options` of `getSessionOptions`, in order, without
    the `Expires` attribute (whose value is the date `Max-Age` seconds ahead); `maxAge ≤ 0` is how a cookie is deleted -/
def attrsOf (secure : Bool) (maxAge : Int) : List String :=
  ["Path=/", if maxAge > 0 then s!"Max-Age={maxAge}" else "Max-Age=0", "HttpOnly"] ++ (if secure then ["Secure"] else []) ++ ["SameSite=Lax"]

def attrsText (secure : Bool) (maxAge : Int) : String := "; ".intercalate (attrsOf secure maxAge)

/-- chunk cookie `{"token_chunk": c}` -/
def chunkGob (n : Nat) : Nat := gobMap 1 (ifaceStr 11 + ifaceStr n)
/-- whole-token cookie `{"token": z, "compressed": true}` -/
def wholeGob (n : Nat) : Nat := gobMap 2 (ifaceStr 5 + ifaceStr n + ifaceStr 10 + ifaceBool)

end Oidc.Codec
