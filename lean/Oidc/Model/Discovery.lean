/-!
# Provider discovery and initialisation (main.go `initializeMetadata`, `discoverProviderMetadata`, the wait in `ServeHTTP`)

One outcome per HTTP attempt at the discovery endpoint, in the order the attempts happen.  Time in ns on the virtual clock.
-/
namespace Oidc.Discovery

inductive Outcome (Doc : Type)
  | fail (dur : Int)                 -- refused connection, 5xx, malformed JSON, slow answer: takes `dur`
  | ok (doc : Doc) (dur : Int)

structure Facts where
  maxRetries    : Nat                -- attempts per `GetMetadata` call (5)
  baseDelay     : Int                -- 1 s
  maxDelay      : Int                -- 30 s
  retryInterval : Int                -- pause between `GetMetadata` calls (fix F13)
  loops         : Bool               -- `initializeMetadata` keeps calling `GetMetadata` until success
  initWait      : Int                -- 30 s

def backoff (f : Facts) (i : Nat) : Int :=
  if f.baseDelay * (2 ^ i : Nat) > f.maxDelay then f.maxDelay else f.baseDelay * (2 ^ i : Nat)

/-- run the initialisation against a script of outcomes; returns the instant it ends and the document obtained -/
def initRun {Doc : Type} (f : Facts) : List (Outcome Doc) → Int → Nat → Int × Option Doc
  | [], t, _ => (t, none)
  | .ok d dur :: _, t, _ => (t + dur, some d)
  | .fail dur :: rest, t, i =>
    if i + 1 < f.maxRetries then initRun f rest (t + dur + backoff f i) (i + 1)
    else if f.loops then initRun f rest (t + dur + backoff f i + f.retryInterval) 0
    else (t + dur + backoff f i, none)

inductive Early | serve | unavailable503 | timeout408
  deriving DecidableEq, Repr

def beforeGiveUp (t : Int) : Option Int → Bool
  | some g => decide (t ≤ g)
  | none => true

def giveUpAnswer (deadline : Int) : Option Int → Early
  | some g => if g < deadline then .timeout408 else .unavailable503
  | none => .unavailable503

/-- the first thing `ServeHTTP` does: wait for initialisation (at most `initWait`, or until the client gives up) -/
def early (f : Facts) (initAt : Option Int) (issuerEmpty : Bool) (reqAt : Int) (clientGivesUpAt : Option Int) : Early :=
  match initAt with
  | some t =>
    if decide (t ≤ reqAt) || (decide (t ≤ reqAt + f.initWait) && beforeGiveUp t clientGivesUpAt) then
      (if issuerEmpty then .unavailable503 else .serve)
    else giveUpAnswer (reqAt + f.initWait) clientGivesUpAt
  | none => giveUpAnswer (reqAt + f.initWait) clientGivesUpAt

end Oidc.Discovery
