/-!
# Provider discovery and initialisation (main.go `initializeMetadata`, `discoverProviderMetadata`, the wait in `ServeHTTP`)

One outcome per HTTP attempt at the discovery endpoint, in the order the attempts happen.  Time in ns on the virtual clock.
-/
namespace Oidc.Discovery

inductive Outcome (Doc : Type)
  | fail (dur : Int)                 -- refused connection, 5xx, malformed JSON, slow answer: takes `dur`
  | ok (doc : Doc) (dur : Int)

structure Facts where
  maxRetries    : Nat                -- attempts per `GetMetadata` call (5)
  baseDelay     : Int                -- 1 s
  maxDelay      : Int                -- 30 s
  retryInterval : Int                -- pause between `GetMetadata` calls (fix F13)
  loops         : Bool               -- `initializeMetadata` keeps calling `GetMetadata` until success
  initWait      : Int                -- 30 s

def backoff (f : Facts) (i : Nat) : Int :=
  if f.baseDelay * (2 ^ i : Nat) > f.maxDelay then f.maxDelay else f.baseDelay * (2 ^ i : Nat)

/-- run the initialisation against a script of outcomes; returns the instant it ends and the document obtained -/
def initRun {Doc : Type} (f : Facts) : List (Outcome Doc) → Int → Nat → Int × Option Doc
  | [], t, _ => (t, none)
  | .ok d dur :: _, t, _ => (t + dur, some d)
  | .fail dur :: rest, t, i =>
    if i + 1 < f.maxRetries then initRun f rest (t + dur + backoff f i) (i + 1)
    else if f.loops then initRun f rest (t + dur + backoff f i + f.retryInterval) 0
    else (t + dur + backoff f i, none)

inductive Early | serve | unavailable503 | timeout408
  deriving DecidableEq, Repr

def beforeGiveUp (t : Int) : Option Int → Bool
  | some g => decide (t ≤ g)
  | none => true

def giveUpAnswer (deadline : Int) : Option Int → Early
  | some g => if g < deadline then .timeout408 else .unavailable503
  | none => .unavailable503

/-- the first thing `ServeHTTP` does: wait for initialisation (at most `initWait`, or until the client gives up) -/
def early (f : Facts) (initAt : Option Int) (issuerEmpty : Bool) (reqAt : Int) (clientGivesUpAt : Option Int) : Early :=
  match initAt with
  | some t =>
    if decide (t ≤ reqAt) || (decide (t ≤ reqAt + f.initWait) && beforeGiveUp t clientGivesUpAt) then
      (if issuerEmpty then .unavailable503 else .serve)
    else giveUpAnswer (reqAt + f.initWait) clientGivesUpAt
  | none => giveUpAnswer (reqAt + f.initWait) clientGivesUpAt

/-! ### attempt instants and the hourly refresh (main.go `startMetadataRefresh`, metadata_cache.go `GetMetadata`) -/

/-- the instants at which the attempts of the initialisation start (same recursion as `initRun`) -/
def initAttempts {Doc : Type} (f : Facts) : List (Outcome Doc) → Int → Nat → List Int
  | [], _, _ => []
  | .ok _ _ :: _, t, _ => [t]
  | .fail dur :: rest, t, i =>
    t :: (if i + 1 < f.maxRetries then initAttempts f rest (t + dur + backoff f i) (i + 1)
          else if f.loops then initAttempts f rest (t + dur + backoff f i + f.retryInterval) 0
          else [])

/-- what the initialisation consumed of the script -/
def initRest {Doc : Type} (f : Facts) : List (Outcome Doc) → Nat → List (Outcome Doc)
  | [], _ => []
  | .ok _ _ :: rest, _ => rest
  | .fail _ :: rest, i =>
    if i + 1 < f.maxRetries then initRest f rest (i + 1)
    else if f.loops then initRest f rest 0
    else rest

/-- one `discoverProviderMetadata` round (refresh): up to `maxRetries` attempts; returns end instant, document, rest of
    the script and the attempt instants -/
def round {Doc : Type} (f : Facts) : List (Outcome Doc) → Int → Nat → Int × Option Doc × List (Outcome Doc) × List Int
  | [], t, _ => (t, none, [], [])
  | .ok d dur :: rest, t, _ => (t + dur, some d, rest, [t])
  | .fail dur :: rest, t, i =>
    if i + 1 < f.maxRetries then
      let r := round f rest (t + dur + backoff f i) (i + 1)
      (r.1, r.2.1, r.2.2.1, t :: r.2.2.2)
    else (t + dur + backoff f i, none, rest, [t])

structure RState (Doc : Type) where
  doc     : Doc          -- the endpoints the instance serves with
  expires : Int          -- metadata cache entry valid while now < expires

/-- one tick of the hourly refresh at instant `now`; `hour`/`fiveMin` in the clock's unit.  (The cache's own 5-minute
    clean-up only ever drops a document that is already expired, which `now < expires` covers.) -/
def refreshTick {Doc : Type} (f : Facts) (hour fiveMin : Int) (s : RState Doc) (now : Int) (script : List (Outcome Doc)) :
    RState Doc × List (Outcome Doc) × List Int :=
  if now < s.expires then (s, script, [])
  else
    let r := round f script now 0
    match r.2.1 with
    | some d => ({ doc := d, expires := r.1 + hour }, r.2.2.1, r.2.2.2)
    | none => ({ s with expires := r.1 + fiveMin }, r.2.2.1, r.2.2.2)   -- a failed refresh keeps the endpoints


/-! ### what counts as provider metadata (main.go `fetchMetadata`)

An answer of the discovery endpoint as the HTTP client sees it.  A 200 answer that decodes is provider metadata only when every
required member is a non-empty string; anything else is a failed attempt like a refused connection. -/

inductive Answer (Doc : Type)
  | noAnswer (dur : Int)                 -- refused connection, time-out
  | notMetadata (dur : Int)              -- failing status, or a body that does not decode into the metadata structure
  | json (doc : Doc) (dur : Int)         -- 200 and decodes

/-- every required member is among the members the document carries non-empty -/
def complete (required present : List String) : Bool := required.all (fun m => present.contains m)

def classify {Doc : Type} (required : List String) (present : Doc → List String) : Answer Doc → Outcome Doc
  | .noAnswer dur => .fail dur
  | .notMetadata dur => .fail dur
  | .json doc dur => if complete required (present doc) then .ok doc dur else .fail dur

end Oidc.Discovery
