import Oidc.Model.Session
import Oidc.Model.Strings
/-!
# The request handler on decoded session views (main.go `ServeHTTP` and friends, after fixes F1, F6, F8, F9, F10, F16)

`serveV` takes the view delivered by `GetSession` and returns the response class, the views it saved (in order) and
the provider calls it made.  Cookie encoding, jar semantics and the length limit live in `Oidc.Session`/`Oidc.Codec`;
token verification lives in `Oidc.Jwt`/`Oidc.Verify` and enters through `Env`.
-/
namespace Oidc.Handler
open Oidc.Session Oidc.Strings

inductive Verdict | accept | expired | invalid
  deriving DecidableEq, Repr

/-- what the handler can learn from a token string -/
structure TokInfo where
  parses   : Bool                      -- three-part JWT with JSON header/claims (`parseJWT`, `extractClaims`)
  verdict  : Int → Verdict             -- `VerifyJWTSignatureAndClaims` at an instant (only meaningful if `parses`)
  exp      : Int
  email    : Option Str                -- string-typed e-mail claim
  nonce    : Option Str                -- string-typed nonce claim
  groups   : Claim
  roles    : Claim

structure Cfg where
  excluded     : List Str
  callback     : Str
  logout       : Str
  grace        : Int
  maxAge       : Int
  pkce         : Bool
  allowDomains : List Str
  allowRoles   : List Str
  templates    : List (Str × Nat)      -- header name × template id
  endSession   : Str
  postLogout   : Str                   -- "" , relative or absolute
  maxIncoming  : Nat
  maxSz        : Nat                   -- chunk size

inductive ExchangeAns | ok (idToken refresh : Str) | rejected4xx | failed
inductive RefreshAns | ok (idToken refresh : Str) | error (invalidGrant : Bool)

/-- everything outside the handler -/
structure Env where
  now        : Int
  tok        : Str → TokInfo                       -- abstraction of token strings
  verifyTok  : Str → Bool                          -- `VerifyToken` (limiter, caches, full verification)
  exchange   : (code verifier redirectURI : Str) → ExchangeAns
  refresh    : Str → RefreshAns
  rnd        : Nat → Str                           -- fresh random strings: state, nonce, verifier
  s256       : Str → Str
  exec       : Nat → Str → Option Str              -- template id → token → rendered value (none = failure)
  compress   : Str → Str
  decompress : Str → Str

structure Req where
  method   : Str
  path     : Str
  rawURI   : Str
  qError   : Str
  qErrDesc : Str
  qState   : Str
  qCode    : Str
  json     : Bool                      -- Accept contains application/json
  preflight : Bool                     -- OPTIONS with a non-empty Origin
  base     : Str                       -- scheme://host as determined from X-Forwarded-* / request
  hdrs     : List (Str × Str)          -- client-supplied headers, canonical names

/-! ### from the request as net/http delivers it to the digested `Req` (the glue in front of the decision logic) -/

/-- `http.Header.Get`: the first value stored under the canonical name, "" if none -/
def hdrGet (hdrs : List (Str × Str)) (name : Str) : Str :=
  match hdrs.find? (fun p => p.1 = name) with
  | some p => p.2
  | none => []

/-- `strings.Contains` -/
def isInfix (p : Str) : Str → Bool
  | [] => p.isEmpty
  | c :: t => p.isPrefixOf (c :: t) || isInfix p t

/-- what the handler reads of a request: method, Host, whether the connection is TLS, the parsed target and query parameters,
    and the client's headers under their canonical names -/
structure RawReq where
  method   : Str
  host     : Str
  tls      : Bool
  path     : Str
  rawURI   : Str
  qError   : Str
  qErrDesc : Str
  qState   : Str
  qCode    : Str
  hdrs     : List (Str × Str)

/-- `determineScheme`: X-Forwarded-Proto if present, else by TLS -/
def determineScheme (q : RawReq) : Str :=
  if hdrGet q.hdrs "X-Forwarded-Proto".toList ≠ [] then hdrGet q.hdrs "X-Forwarded-Proto".toList
  else if q.tls then "https".toList else "http".toList

/-- `determineHost`: X-Forwarded-Host if present, else the request's Host -/
def determineHost (q : RawReq) : Str :=
  if hdrGet q.hdrs "X-Forwarded-Host".toList ≠ [] then hdrGet q.hdrs "X-Forwarded-Host".toList else q.host

/-- the digested request the decision logic works on -/
def digest (q : RawReq) : Req :=
  { method := q.method, path := q.path, rawURI := q.rawURI, qError := q.qError, qErrDesc := q.qErrDesc, qState := q.qState,
    qCode := q.qCode,
    json := isInfix "application/json".toList (hdrGet q.hdrs "Accept".toList),
    preflight := decide (q.method = "OPTIONS".toList) && decide (hdrGet q.hdrs "Origin".toList ≠ []),
    base := determineScheme q ++ "://".toList ++ determineHost q,
    hdrs := q.hdrs }

inductive Body | html (escapedMsg : Str) | json (msg : Str) | plain
inductive Resp
  | forward (hdrs : List (Str × Str))
  | passthrough
  | redirectAuth (state nonce challenge redirectURI : Str)
  | redirectLocal (target : Str)
  | redirectEndSession (hint postLogout : Str)
  | redirectPostLogout (uri : Str)
  | status (code : Nat) (body : Body)
  | preflightOK

inductive Call | exchange (code verifier redirectURI : Str) | refresh (rt : Str)

structure Out where
  resp  : Resp
  saved : List View
  calls : List Call

def excludedPath (c : Cfg) (p : Str) : Bool := c.excluded.any (fun e => e.isPrefixOf p)

def errPage (r : Req) (code : Nat) (msg : Str) : Resp :=
  if r.json then .status code (.json msg) else .status code (.html (htmlEscape msg))

/-- (authenticated, needsRefresh, expired) exactly as `isUserAuthenticated` -/
def classify (c : Cfg) (e : Env) (v : View) : Bool × Bool × Bool :=
  let hasRT := decide (getToken e.decompress v .refresh ≠ [])
  if !getAuth c.maxAge e.now v then (false, hasRT, false)
  else
    let t := getToken e.decompress v .access
    if t = [] then (if hasRT then (false, true, false) else (false, false, true))
    else if !(e.tok t).parses then (if hasRT then (false, true, false) else (false, false, true))
    else match (e.tok t).verdict e.now with
      | .accept =>
        if (e.tok t).exp < e.now + c.grace then (if hasRT then (true, true, false) else (true, false, false))
        else (true, false, false)
      | _ => if hasRT then (false, true, false) else (false, false, true)

def identityNames : List Str :=
  ["X-Forwarded-User".toList, "X-Auth-Request-User".toList, "X-Auth-Request-Token".toList,
   "X-User-Groups".toList, "X-User-Roles".toList]

def joinComma : List Str → Str
  | [] => []
  | [x] => x
  | x :: t => x ++ ',' :: joinComma t

/-- the headers the middleware derives from the session and its ID token -/
def derivedHdrs (c : Cfg) (e : Env) (email tokRaw : Str) : List (Str × Str) :=
  let ti := e.tok tokRaw
  let gr := if ti.parses then extract ti.groups ti.roles else none
  let g := match gr with | some (g, _) => if g = [] then [] else [("X-User-Groups".toList, joinComma g)] | none => []
  let ro := match gr with | some (_, ro) => if ro = [] then [] else [("X-User-Roles".toList, joinComma ro)] | none => []
  let tokH := if tokRaw = [] then [] else [("X-Auth-Request-Token".toList, tokRaw)]
  let tpl := if ti.parses then c.templates.filterMap (fun (n, id) => (e.exec id tokRaw).map (fun val => (n, val))) else []
  g ++ ro ++ [("X-Forwarded-User".toList, email), ("X-Auth-Request-User".toList, email)] ++ tokH ++ tpl

def protectedNames (c : Cfg) : List Str := identityNames ++ c.templates.map (·.1)

/-- headers seen downstream: client headers minus every identity/template name (fix F6), plus the derived ones -/
def downstreamHdrs (c : Cfg) (e : Env) (r : Req) (email tokRaw : Str) : List (Str × Str) :=
  r.hdrs.filter (fun h => !(protectedNames c).contains h.1) ++ derivedHdrs c e email tokRaw

/-- start a login: clear, store fresh state/nonce/verifier and the (sanitised) original URI, redirect -/
def initiate (c : Cfg) (e : Env) (r : Req) (v : View) (earlier : List View) (calls : List Call) : Out :=
  let v0 := clearView v
  let st := e.rnd 0
  let no := e.rnd 1
  let ve := e.rnd 2
  let v1 := setNonce (setCSRF v0 st) no
  let v2 := if c.pkce then setVerifier v1 ve else v1
  let v3 := setIncoming v2 (sanitizeIncoming c.maxIncoming r.rawURI)
  { resp := .redirectAuth st no (if c.pkce then e.s256 ve else []) (r.base ++ c.callback),
    saved := earlier ++ [v0, v3], calls := calls }

/-- `processAuthorizedRequest` -/
def authorized (c : Cfg) (e : Env) (r : Req) (v : View) (earlier : List View) (calls : List Call) : Out :=
  let email := getEmail v
  let tokRaw := getToken e.decompress v .access
  if email = [] then initiate c e r v earlier calls
  else if !isAllowedDomain c.allowDomains email then { resp := errPage r 403 "Access denied".toList, saved := earlier, calls := calls }
  else
    let ti := e.tok tokRaw
    let gate := if c.allowRoles.isEmpty then true
                else if ti.parses then rolesGate c.allowRoles ti.groups ti.roles else false
    if !gate then { resp := errPage r 403 "Access denied".toList, saved := earlier, calls := calls }
    else if r.preflight then { resp := .preflightOK, saved := earlier, calls := calls }
    else { resp := .forward (downstreamHdrs c e r email tokRaw), saved := earlier, calls := calls }

/-- a failed refresh: 401 for JSON clients, otherwise a new login -/
def refreshFail (c : Cfg) (e : Env) (r : Req) (calls : List Call) (earlier : List View) (vcur : View) : Out :=
  if r.json then { resp := .status 401 (.json "Token refresh failed".toList), saved := earlier, calls := calls }
  else initiate c e r vcur earlier calls

/-- the view a successful refresh stores and continues with -/
def refreshedView (c : Cfg) (e : Env) (v : View) (idRaw rt' em : Str) : View :=
  setAuthenticated
    (setToken e.compress c.maxSz
      (setToken e.compress c.maxSz (setEmail v em) .access idRaw) .refresh
      (if rt' = [] then getToken e.decompress v .refresh else rt')) e.now true

/-- the refresh branch (`refreshToken` + its callers) -/
def refreshFlow (c : Cfg) (e : Env) (r : Req) (v : View) : Out :=
  let rt := getToken e.decompress v .refresh
  let calls := [Call.refresh rt]
  match e.refresh rt with
  | .error ig =>
    if ig then refreshFail c e r calls [setToken e.compress c.maxSz v .refresh []] (setToken e.compress c.maxSz v .refresh [])
    else refreshFail c e r calls [] v
  | .ok idRaw rt' =>
    if idRaw = [] then refreshFail c e r calls [] v
    else if !e.verifyTok idRaw then refreshFail c e r calls [] v
    else if !(e.tok idRaw).parses then refreshFail c e r calls [] v
    else match (e.tok idRaw).email with
      | none => refreshFail c e r calls [] v
      | some em =>
        if em = [] then refreshFail c e r calls [] v
        else authorized c e r (refreshedView c e v idRaw rt' em) [refreshedView c e v idRaw rt' em] calls

def postLogoutURI (c : Cfg) (r : Req) : Str :=
  if c.postLogout = [] then r.base ++ ['/']
  else if "http".toList.isPrefixOf c.postLogout then c.postLogout
  else r.base ++ c.postLogout

def handleLogout (c : Cfg) (e : Env) (r : Req) (v : View) : Out :=
  let tokRaw := getToken e.decompress v .access
  let v0 := clearView v
  let target := postLogoutURI c r
  if c.endSession ≠ [] ∧ tokRaw ≠ [] then { resp := .redirectEndSession tokRaw target, saved := [v0], calls := [] }
  else { resp := .redirectPostLogout target, saved := [v0], calls := [] }

def cbErr (r : Req) (code : Nat) (msg : Str) (calls : List Call) : Out :=
  { resp := errPage r code msg, saved := [], calls := calls }

/-- the view a successful login stores -/
def loggedInView (c : Cfg) (e : Env) (v : View) (idRaw rt em : Str) : View :=
  setIncoming
    (setVerifier (setNonce (setCSRF
      (setToken e.compress c.maxSz
        (setToken e.compress c.maxSz (setEmail (setAuthenticated v e.now true) em) .access idRaw) .refresh rt)
      []) []) []) []

def postLoginTarget (c : Cfg) (v : View) : Str :=
  if getIncoming v ≠ [] ∧ getIncoming v ≠ c.callback ∧ isLocalTarget (getIncoming v) then getIncoming v else ['/']

/-- callback, after the token endpoint answered with tokens -/
def cbToken (c : Cfg) (e : Env) (r : Req) (v : View) (idRaw rt : Str) (calls : List Call) : Out :=
  if !e.verifyTok idRaw then cbErr r 500 "Authentication failed: Could not verify ID token".toList calls
  else if !(e.tok idRaw).parses then cbErr r 500 "Authentication failed: Could not extract claims from token".toList calls
  else match (e.tok idRaw).nonce with
    | none => cbErr r 500 "Authentication failed: Nonce missing in token".toList calls
    | some n =>
      if n = [] then cbErr r 500 "Authentication failed: Nonce missing in token".toList calls
      else if getNonce v = [] then cbErr r 500 "Authentication failed: Nonce missing in session".toList calls
      else if n ≠ getNonce v then cbErr r 500 "Authentication failed: Nonce mismatch".toList calls
      else if ((e.tok idRaw).email).getD [] = [] then cbErr r 500 "Authentication failed: Email missing in token".toList calls
      else if !isAllowedDomain c.allowDomains (((e.tok idRaw).email).getD []) then
        cbErr r 403 "Authentication failed: Email domain not allowed".toList calls
      else { resp := .redirectLocal (postLoginTarget c v),
             saved := [loggedInView c e v idRaw rt (((e.tok idRaw).email).getD [])], calls := calls }

def handleCallback (c : Cfg) (e : Env) (r : Req) (v : View) : Out :=
  if r.qError ≠ [] then
    cbErr r 400 ("Authentication error from provider: ".toList ++ (if r.qErrDesc = [] then r.qError else r.qErrDesc)) []
  else if r.qState = [] then cbErr r 400 "State parameter missing in callback".toList []
  else if getCSRF v = [] then cbErr r 400 "CSRF token missing in session".toList []
  else if r.qState ≠ getCSRF v then cbErr r 400 "Invalid state parameter (CSRF mismatch)".toList []
  else if r.qCode = [] then cbErr r 400 "No authorization code received in callback".toList []
  else
    match e.exchange r.qCode (getVerifier v) (r.base ++ c.callback) with
    | .rejected4xx => cbErr r 400 "Authentication failed: Could not exchange code for token".toList
        [Call.exchange r.qCode (getVerifier v) (r.base ++ c.callback)]
    | .failed => cbErr r 500 "Authentication failed: Could not exchange code for token".toList
        [Call.exchange r.qCode (getVerifier v) (r.base ++ c.callback)]
    | .ok idRaw rt => cbToken c e r v idRaw rt [Call.exchange r.qCode (getVerifier v) (r.base ++ c.callback)]

/-- `ServeHTTP` once the instance is initialised -/
def serveV (c : Cfg) (e : Env) (r : Req) (v : View) : Out :=
  if excludedPath c r.path then { resp := .passthrough, saved := [], calls := [] }
  else if r.path = c.logout then handleLogout c e r v
  else if r.path = c.callback then handleCallback c e r v
  else
    match classify c e v with
    | (_, _, true) =>
      -- handleExpiredToken
      let v1 := setAuthenticated v e.now false
      let v2 := setToken e.compress c.maxSz v1 .access []
      let v3 := setToken e.compress c.maxSz v2 .refresh []
      let v4 := setEmail v3 []
      initiate c e r v4 [v4] []
    | (true, false, false) => authorized c e r v [] []
    | (_, true, false) =>
      if getToken e.decompress v .refresh ≠ [] then refreshFlow c e r v else initiate c e r v [] []
    | (false, false, false) => initiate c e r v [] []

end Oidc.Handler
