/-!
# ID-token verification (jwt.go `Verify`, `verifySignature`; main.go `VerifyJWTSignatureAndClaims`)

The model starts from the *parsed* token (three-part split, strict base64url, JSON objects): that part and the
cryptographic check live in the harness's reference decoder (abstraction α).  What is modelled is the decision
logic, in the code's order, including every type test.
-/
namespace Oidc.Jwt

/-- JSON value shapes the verifier distinguishes; numbers are already truncated to whole seconds (`int64(float)`) -/
inductive J where
  | str (s : String)
  | num (n : Int)
  | arr (items : List J)
  | other                      -- bool, null, object
  deriving Repr

inductive Family | rsa | ec | unsupported
  deriving DecidableEq, Repr

structure Key where
  kid : String
  fam : Family
  deriving Repr

/-- a token as presented -/
structure Tok where
  parsed : Bool                -- exactly three parts, each strict base64url; header and payload JSON objects
  (alg kid : Option J)           -- header fields
  (iss aud exp iat nbf sub : Option J)
  /-- the signature verifies over the exact `header.payload` bytes with the key selected by `kid` under the
      scheme named by `alg` (RSASSA-PKCS1-v1_5 / PSS / ECDSA with exact r‖s length, hash by suffix) -/
  sigValid : Bool
  deriving Repr

/-- regenerated facts -/
structure Facts where
  supportedAlgs : List String      -- allow-list of `JWT.Verify`
  hashAlgs      : List String      -- algorithms `verifySignature` knows a hash for
  skewFuture    : Int              -- seconds an expired token is still accepted
  skewPast      : Int              -- seconds a not-yet-valid token is already accepted
  nbfTypeChecked : Bool            -- a present `nbf` of wrong type is rejected
  deriving Repr

/-- `strings.HasPrefix(alg, p)` for the two-character prefixes of `verifySignature` (kernel-reducible form) -/
def hasPrefix2 (a : String) (p : List Char) : Bool := a.toList.take 2 == p

def familyOfAlg (a : String) : Family :=
  if hasPrefix2 a ['R', 'S'] || hasPrefix2 a ['P', 'S'] then .rsa
  else if hasPrefix2 a ['E', 'S'] then .ec
  else .unsupported

inductive Reject
  | unparsable | noKid | noAlg | unknownKid | keyType | algUnknown | familyMismatch | badSignature
  | algNotAllowed | iss | aud | exp | iat | nbf | sub
  deriving DecidableEq, Repr

def asStr : Option J → Option String
  | some (.str s) => some s
  | _ => none
def asNum : Option J → Option Int
  | some (.num n) => some n
  | _ => none
inductive NbfClass | absent | num (n : Int) | wrongType
def nbfClass : Option J → NbfClass
  | none => .absent
  | some (.num n) => .num n
  | some _ => .wrongType

def audOK (clientID : String) : Option J → Bool
  | some (.str s) => s == clientID
  | some (.arr items) => items.any (fun j => match j with | .str s => s == clientID | _ => false)
  | _ => false

/-- the verifier, stage by stage in the code's order -/
def verifyStaged (f : Facts) (issuer clientID : String) (keys : List Key) (now : Int) (t : Tok) : Except Reject Unit :=
  if !t.parsed then .error .unparsable else
  match asStr t.kid with
  | none => .error .noKid
  | some kid =>
  match asStr t.alg with
  | none => .error .noAlg
  | some alg =>
  match keys.find? (·.kid == kid) with
  | none => .error .unknownKid
  | some key =>
  if key.fam = .unsupported then .error .keyType else
  if !f.hashAlgs.contains alg then .error .algUnknown else
  if familyOfAlg alg ≠ key.fam then .error .familyMismatch else
  if !t.sigValid then .error .badSignature else
  if !f.supportedAlgs.contains alg then .error .algNotAllowed else
  match asStr t.iss with
  | none => .error .iss
  | some iss =>
  if iss ≠ issuer then .error .iss else
  if !audOK clientID t.aud then .error .aud else
  match asNum t.exp with
  | none => .error .exp
  | some e =>
  if now > e + f.skewFuture then .error .exp else
  match asNum t.iat with
  | none => .error .iat
  | some i =>
  if now < i - f.skewPast then .error .iat else
  match nbfClass t.nbf with
  | .num n => if now < n - f.skewPast then .error .nbf else
      (match asStr t.sub with | none => .error .sub | some s => if s = "" then .error .sub else .ok ())
  | .wrongType => if f.nbfTypeChecked then .error .nbf else
      (match asStr t.sub with | none => .error .sub | some s => if s = "" then .error .sub else .ok ())
  | .absent =>
      (match asStr t.sub with | none => .error .sub | some s => if s = "" then .error .sub else .ok ())

def accept (f : Facts) (issuer clientID : String) (keys : List Key) (now : Int) (t : Tok) : Bool :=
  match verifyStaged f issuer clientID keys now t with
  | .ok _ => true
  | .error _ => false

/-- the property, written flat -/
def Spec (f : Facts) (issuer clientID : String) (keys : List Key) (now : Int) (t : Tok) : Prop :=
  t.parsed = true ∧
  ∃ kid alg key e i s,
    asStr t.kid = some kid ∧ asStr t.alg = some alg ∧
    keys.find? (·.kid == kid) = some key ∧ key.fam ≠ .unsupported ∧
    f.hashAlgs.contains alg = true ∧ f.supportedAlgs.contains alg = true ∧
    familyOfAlg alg = key.fam ∧ t.sigValid = true ∧
    asStr t.iss = some issuer ∧ audOK clientID t.aud = true ∧
    asNum t.exp = some e ∧ now ≤ e + f.skewFuture ∧
    asNum t.iat = some i ∧ i - f.skewPast ≤ now ∧
    (match nbfClass t.nbf with
      | .absent => True
      | .num n => n - f.skewPast ≤ now
      | .wrongType => f.nbfTypeChecked = false) ∧
    asStr t.sub = some s ∧ s ≠ ""

/-! ### the two halves of the verifier: the part in front of `JWT.Verify` (key selection, signature) and `JWT.Verify` itself.
    `verifyStaged` is their sequence (`Oidc.Jwt.verifyStaged_eq`); the second half is what `tools/go2lean` translates from jwt.go. -/
def sigStage (f : Facts) (keys : List Key) (t : Tok) : Except Reject Unit :=
  if !t.parsed then .error .unparsable else
  match asStr t.kid with
  | none => .error .noKid
  | some kid =>
  match asStr t.alg with
  | none => .error .noAlg
  | some alg =>
  match keys.find? (·.kid == kid) with
  | none => .error .unknownKid
  | some key =>
  if key.fam = .unsupported then .error .keyType else
  if !f.hashAlgs.contains alg then .error .algUnknown else
  if familyOfAlg alg ≠ key.fam then .error .familyMismatch else
  if !t.sigValid then .error .badSignature else .ok ()

def subStage (t : Tok) : Except Reject Unit :=
  match asStr t.sub with | none => .error .sub | some s => if s = "" then .error .sub else .ok ()

def claimsStage (f : Facts) (issuer clientID : String) (now : Int) (t : Tok) : Except Reject Unit :=
  match asStr t.alg with
  | none => .error .noAlg
  | some alg =>
  if !f.supportedAlgs.contains alg then .error .algNotAllowed else
  match asStr t.iss with
  | none => .error .iss
  | some iss =>
  if iss ≠ issuer then .error .iss else
  if !audOK clientID t.aud then .error .aud else
  match asNum t.exp with
  | none => .error .exp
  | some e =>
  if now > e + f.skewFuture then .error .exp else
  match asNum t.iat with
  | none => .error .iat
  | some i =>
  if now < i - f.skewPast then .error .iat else
  match nbfClass t.nbf with
  | .num n => if now < n - f.skewPast then .error .nbf else subStage t
  | .wrongType => if f.nbfTypeChecked then .error .nbf else subStage t
  | .absent => subStage t

def isOk : Except Reject Unit → Bool
  | .ok _ => true
  | .error _ => false

end Oidc.Jwt
