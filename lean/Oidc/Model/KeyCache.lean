/-!
# The provider key-set cache (jwk.go `JWKCache.GetJWKS`, `JWKCache.Cleanup`)

One cached key set with an expiry instant.  A lookup serves the cached set only while it is fresh; otherwise the provider is
asked, and a failing answer yields *no* keys (the stale set is never served).  Time in ns.
-/
namespace Oidc.KeyCache

structure St (K : Type) where
  keys     : Option K     -- the cached key set (none: nothing cached)
  expires  : Int          -- served without asking the provider while now < expires
  lifetime : Int          -- configured lifetime; 0 = one hour
  deriving DecidableEq, Repr

def fresh {K : Type} (s : St K) (now : Int) : Bool := s.keys.isSome && decide (now < s.expires)

/-- one lookup at instant `now`.  `answer` is what the provider says if asked (none = the request failed) and `after` the instant
    its answer has arrived. -/
def get {K : Type} (hour : Int) (s : St K) (now : Int) (answer : Option K) (after : Int) : Option K × St K :=
  if fresh s now then (s.keys, s)
  else match answer with
    | none => (none, s)
    | some k => (some k, { s with keys := some k, expires := after + (if s.lifetime = 0 then hour else s.lifetime) })

/-- whether the lookup asks the provider -/
def asks {K : Type} (s : St K) (now : Int) : Bool := !fresh s now

/-- the periodic clean-up: drops a key set that has expired -/
def cleanup {K : Type} (s : St K) (now : Int) : St K :=
  if s.keys.isSome && decide (s.expires < now) then { s with keys := none } else s

end Oidc.KeyCache
