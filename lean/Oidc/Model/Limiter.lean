/-!
# Token bucket (golang.org/x/time/rate as used by `VerifyToken`)

Exact integer arithmetic: time in ns, 1 token = `U` = 10^9 units, refill `r` units per ns
(`r` = tokens per second), bucket size `b` units (= burst · U).  The implementation computes in
float64; the correspondence compares decisions only away from the threshold.
-/
namespace Oidc.Limiter

structure L where
  tok  : Int
  last : Int
  deriving Repr, DecidableEq

def U : Int := 1000000000

def refill (r b : Int) (l : L) (now : Int) : Int :=
  if l.tok + r * (now - l.last) > b then b else l.tok + r * (now - l.last)

/-- `Allow()` at instant `now` (the clock never runs backwards in our histories; if it did the state is kept) -/
def allow (r b : Int) (l : L) (now : Int) : L × Bool :=
  if now < l.last then (l, false) else
  if refill r b l now ≥ U then (⟨refill r b l now - U, now⟩, true) else (⟨refill r b l now, now⟩, false)

/-- run a list of arrival instants; returns final state and the number admitted -/
def run (r b : Int) : L → List Int → L × Nat
  | l, [] => (l, 0)
  | l, t :: ts =>
    let (l', ok) := allow r b l t
    let (l'', n) := run r b l' ts
    (l'', n + (if ok then 1 else 0))

/-- decisions, one per arrival -/
def decisions (r b : Int) : L → List Int → List Bool
  | _, [] => []
  | l, t :: ts => (allow r b l t).2 :: decisions r b (allow r b l t).1 ts

def init (burstTokens : Int) : L := ⟨burstTokens * U, 0⟩

end Oidc.Limiter
