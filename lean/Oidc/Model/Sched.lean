/-!
# Concurrent requests sharing the pool of session objects (session.go `sessionPool`, `GetSession`, `Clear`)

A request is a list of actions on "its" session object; between two actions any other request may run (the
scheduling points of the harness).  `D` is whatever the object holds (the session view).
-/
namespace Oidc.Sched

inductive Act (D : Type)
  | get (d : D)              -- `GetSession`: take an object from the pool (or a new one) and load the request's cookies into it
  | write (f : D → D)        -- a setter through the request's reference
  | emit                     -- `Save`: write the object's content to this request's response
  | clear (toPool : Bool)    -- `Clear`: empty the object; `toPool` = also hand it back to the pool (the unfixed code)

structure Th (D : Type) where
  prog : List (Act D)
  ref  : Option Nat
  out  : List D

structure St (D : Type) where
  heap  : Nat → D
  pool  : List Nat
  fresh : Nat
  ths   : Nat → Th D

def setHeap {D} (h : Nat → D) (o : Nat) (d : D) : Nat → D := fun x => if x = o then d else h x

/-- one action of one thread against the shared heap and pool -/
def act {D} (cleared : D) (heap : Nat → D) (pool : List Nat) (fresh : Nat) (t : Th D) :
    (Nat → D) × List Nat × Nat × Th D :=
  match t.prog with
  | [] => (heap, pool, fresh, t)
  | .get d :: rest =>
    (match pool with
     | o :: p => (setHeap heap o d, p, fresh, { prog := rest, ref := some o, out := t.out })
     | [] => (setHeap heap fresh d, [], fresh + 1, { prog := rest, ref := some fresh, out := t.out }))
  | .write f :: rest =>
    (match t.ref with
     | some o => (setHeap heap o (f (heap o)), pool, fresh, { t with prog := rest })
     | none => (heap, pool, fresh, { t with prog := rest }))
  | .emit :: rest =>
    (match t.ref with
     | some o => (heap, pool, fresh, { t with prog := rest, out := t.out ++ [heap o] })
     | none => (heap, pool, fresh, { t with prog := rest }))
  | .clear toPool :: rest =>
    (match t.ref with
     | some o => (setHeap heap o cleared, (if toPool then o :: pool else pool), fresh, { t with prog := rest })
     | none => (heap, pool, fresh, { t with prog := rest }))

def stepTh {D} (cleared : D) (s : St D) (i : Nat) : St D :=
  let r := act cleared s.heap s.pool s.fresh (s.ths i)
  { heap := r.1, pool := r.2.1, fresh := r.2.2.1, ths := fun j => if j = i then r.2.2.2 else s.ths j }

/-- run a schedule (a list of thread indices) -/
def runSched {D} (cleared : D) (s : St D) (sched : List Nat) : St D := sched.foldl (stepTh cleared) s

/-- what a request emits when it runs alone: a pure function of its program -/
def solo {D} (cleared : D) : List (Act D) → Option D → List D
  | [], _ => []
  | .get d :: rest, _ => solo cleared rest (some d)
  | .write f :: rest, cur => solo cleared rest (cur.map f)
  | .emit :: rest, cur => (match cur with | some d => d :: solo cleared rest cur | none => solo cleared rest cur)
  | .clear _ :: rest, cur => solo cleared rest (cur.map (fun _ => cleared))

def usesPool {D} : List (Act D) → Bool
  | [] => false
  | .clear true :: _ => true
  | _ :: rest => usesPool rest

end Oidc.Sched
