import Oidc.Model.Basic
/-!
# Cookie jar, chunked token storage, session views (session.go after fixes F4, F10)

Abstraction level: a cookie value is `good payload` (authentic under the deployment key for that exact name, fresh
timestamp, within the length limit) or `bad` (anything else) — justified by `Oidc.Codec`.  `compress` is an abstract
injective function (gzip + base64) with inverse `decompress`.
-/
namespace Oidc.Session
open Oidc


inductive TokKind | access | refresh
  deriving DecidableEq, Repr

inductive Name where
  | main
  | whole (k : TokKind)             -- _oidc_raczylo_a / _r
  | chunk (k : TokKind) (i : Nat)   -- _oidc_raczylo_a_<i> / _r_<i>
  deriving DecidableEq, Repr

inductive Val | s (v : Str) | b (v : Bool) | i (v : Int)
  deriving DecidableEq, Repr

/-- gob-encoded `map[interface{}]interface{}`: association list, keys unique -/
abbrev Payload := List (String × Val)

def pget (p : Payload) (k : String) : Option Val := (p.find? (·.1 == k)).map (·.2)
def pset (p : Payload) (k : String) (v : Val) : Payload :=
  match p with
  | [] => [(k, v)]
  | (k', v') :: t => if k' == k then (k, v) :: t else (k', v') :: pset t k v

def pstr (p : Payload) (k : String) : Str := match pget p k with | some (.s v) => v | _ => []
def pbool (p : Payload) (k : String) : Bool := match pget p k with | some (.b v) => v | _ => false
def pint (p : Payload) (k : String) : Option Int := match pget p k with | some (.i v) => some v | _ => none

inductive CV | good (p : Payload) | bad
  deriving Repr

abbrev Jar := Name → Option CV

/-- what `GetSession` hands to the handler -/
structure View where
  main   : Payload
  whole  : TokKind → Payload
  chunks : TokKind → List Payload

/-- an undecodable or missing cookie is an empty session (fix F10a) -/
def loadOne (j : Jar) (n : Name) : Payload := match j n with | some (.good p) => p | _ => []

/-- `getTokenChunkSessions`: contiguous decodable chunk cookies from index `i` -/
def loadChunks (j : Jar) (k : TokKind) : Nat → Nat → List Payload
  | _, 0 => []
  | i, fuel+1 =>
    match j (.chunk k i) with
    | some (.good p) => p :: loadChunks j k (i+1) fuel
    | _ => []

def clearView (v : View) : View :=
  { main := [], whole := fun _ => [], chunks := fun k => (v.chunks k).map (fun _ => []) }

/-- the loaded cookies before the age check -/
def rawView (j : Jar) (fuel : Nat) : View :=
  { main := loadOne j .main, whole := fun k => loadOne j (.whole k), chunks := fun k => loadChunks j k 0 fuel }

/-- an over-age session is dropped and the request continues with an empty one (fix F10b) -/
def ageCheck (maxAge now : Int) (v : View) : View :=
  match pint v.main "created_at" with
  | some t => if now - t > maxAge then clearView v else v
  | none => v

/-- `GetSession` -/
def getSession (maxAge : Int) (j : Jar) (now : Int) (fuel : Nat) : View := ageCheck maxAge now (rawView j fuel)

/-! getters -/
def getAuth (maxAge : Int) (now : Int) (v : View) : Bool :=
  pbool v.main "authenticated" &&
    (match pint v.main "created_at" with | some t => decide (now - t ≤ maxAge) | none => false)
def getEmail (v : View) : Str := pstr v.main "email"
def getCSRF (v : View) : Str := pstr v.main "csrf"
def getNonce (v : View) : Str := pstr v.main "nonce"
def getVerifier (v : View) : Str := pstr v.main "code_verifier"
def getIncoming (v : View) : Str := pstr v.main "incoming_path"

def pieceText (p : Payload) : Str := pstr p "token_chunk"

variable (compress decompress : Str → Str)

def getToken (v : View) (k : TokKind) : Str :=
  let z := pstr (v.whole k) "token"
  let c := pbool (v.whole k) "compressed"
  if z ≠ [] then (if c then decompress z else z)
  else if v.chunks k = [] then []
  else
    let joined := ((v.chunks k).map pieceText).flatten
    if c then decompress joined else joined

/-! setters -/
def setMain (v : View) (k : String) (x : Val) : View := { v with main := pset v.main k x }
def setAuthenticated (v : View) (now : Int) (value : Bool) : View :=
  let m := if value then pset v.main "created_at" (.i now) else v.main
  { v with main := pset m "authenticated" (.b value) }
def setEmail (v : View) (e : Str) : View := setMain v "email" (.s e)
def setCSRF (v : View) (e : Str) : View := setMain v "csrf" (.s e)
def setNonce (v : View) (e : Str) : View := setMain v "nonce" (.s e)
def setVerifier (v : View) (e : Str) : View := setMain v "code_verifier" (.s e)
def setIncoming (v : View) (e : Str) : View := setMain v "incoming_path" (.s e)

def splitN (n : Nat) (s : Str) : List Str :=
  if h : n = 0 ∨ s = [] then [] else
    s.take n :: splitN n (s.drop n)
termination_by s.length
decreasing_by
  simp only [List.length_drop]
  have : s.length > 0 := by cases s <;> simp_all
  omega

def upd {α : Type} (f : TokKind → α) (k : TokKind) (x : α) : TokKind → α := fun k' => if k' = k then x else f k'

def setToken (maxSz : Nat) (v : View) (k : TokKind) (t : Str) : View :=
  if (compress t).length ≤ maxSz then
    { v with whole := upd v.whole k (pset (pset (v.whole k) "token" (.s (compress t))) "compressed" (.b true)),
             chunks := upd v.chunks k [] }
  else
    { v with whole := upd v.whole k (pset (pset (v.whole k) "token" (.s [])) "compressed" (.b true)),
             chunks := upd v.chunks k ((splitN maxSz (compress t)).map (fun c => [("token_chunk", .s c)])) }

/-- the browser's jar after it applied all Set-Cookie lines of one successful `Save`: every cookie of the view is
    (re)written; every other chunk cookie that the request carried or that an earlier `Save` of the same response
    wrote is deleted (fix F4), so no chunk cookie beyond the current count remains -/
def saveApply (v : View) : Jar
  | .main => some (.good v.main)
  | .whole k => some (.good (v.whole k))
  | .chunk k i => ((v.chunks k)[i]?).map .good

end Oidc.Session
