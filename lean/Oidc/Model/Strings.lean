import Oidc.Model.Basic
/-! String-level decision functions of the handler, over `List Char`. -/
namespace Oidc.Strings
open Oidc


/-- `strings.Split(s, sep)` for a one-character separator -/
def split (c : Char) : Str → List Str
  | [] => [[]]
  | x :: xs =>
    if x = c then [] :: split c xs
    else match split c xs with
      | [] => [[x]]          -- unreachable: `split` never returns []
      | p :: ps => (x :: p) :: ps

/-- main.go `isAllowedDomain` -/
def isAllowedDomain (doms : List Str) (email : Str) : Bool :=
  if doms.isEmpty then true
  else match split '@' email with
    | [_, d] => doms.contains d
    | _ => false

/-- shapes of the `groups` / `roles` claims -/
inductive JItem | str (s : Str) | nonStr
  deriving Repr
inductive Claim | absent | array (items : List JItem) | other
  deriving Repr

def itemStrings : List JItem → List Str
  | [] => []
  | .str s :: t => s :: itemStrings t
  | .nonStr :: t => itemStrings t

/-- main.go `extractGroupsAndRoles`: `none` = extraction error (a present claim is not an array) -/
def extract (groups roles : Claim) : Option (List Str × List Str) :=
  match groups, roles with
  | .other, _ => none
  | _, .other => none
  | g, r =>
    some ((match g with | .array i => itemStrings i | _ => []),
          (match r with | .array i => itemStrings i | _ => []))

/-- the role/group gate of `processAuthorizedRequest` -/
def rolesGate (allow : List Str) (groups roles : Claim) : Bool :=
  if allow.isEmpty then true
  else match extract groups roles with
    | none => false
    | some (g, r) => (g ++ r).any (fun v => allow.contains v)

/-- Go's `html.EscapeString` -/
def esc1 (c : Char) : Str :=
  if c = '<' then "&lt;".toList else if c = '>' then "&gt;".toList else if c = '&' then "&amp;".toList
  else if c = '\'' then "&#39;".toList else if c = '"' then "&#34;".toList else [c]
def htmlEscape (s : Str) : Str := s.flatMap esc1

/-- main.go `isLocalRedirectTarget` (fix F8) -/
def isLocalTarget : Str → Bool
  | [] => false
  | a :: rest => a == '/' && (match rest with | [] => true | c :: _ => c != '/' && c != '\\')

def sanitizeIncoming (maxLen : Nat) (uri : Str) : Str :=
  if isLocalTarget uri && decide (uri.length ≤ maxLen) then uri else ['/']

/-! A browser-like classification of a `Location` value relative to a base with a special scheme (http/https):
    does the reference stay on the base's origin?  (WHATWG URL: tab/newline removal, leading C0/space removal,
    scheme detection, backslash treated as slash, "special authority ignore slashes".) -/
inductive Origin | same | other
  deriving DecidableEq, Repr

def isTabNl (c : Char) : Bool := c = '\t' || c = '\n' || c = '\r'
def isC0Space (c : Char) : Bool := c.toNat ≤ 32
def isSlash (c : Char) : Bool := c = '/' || c = '\\'

/-- a scheme prefix `alpha (alnum | + | - | .)* :` -/
def hasScheme : Str → Bool
  | [] => false
  | c :: rest => c.isAlpha && go rest
where go : Str → Bool
  | [] => false
  | c :: rest => if c = ':' then true else if c.isAlphanum || c = '+' || c = '-' || c = '.' then go rest else false

def resolveOrigin (loc : Str) : Origin :=
  let s := (loc.dropWhile isC0Space).filter (fun c => !isTabNl c)
  if hasScheme s then .other            -- conservative: any absolute URL counts as leaving
  else match s with
    | a :: b :: _ => if isSlash a && isSlash b then .other else .same
    | _ => .same

end Oidc.Strings
