import Oidc.Model.Cache
import Oidc.Model.Limiter
/-!
# `VerifyToken` / `RevokeToken` (main.go:154-255, 1433-1442): token cache × revocation cache × limiter

Tokens are identified by their raw string; `exp`, `jti` and the verdict of a from-scratch verification are functions
of that string (`TokOf`).  Time in ns.
-/
namespace Oidc.Verify
open Oidc

structure TokOf where
  exp     : String → Int
  jti     : String → Option String
  scratch : String → Int → Bool          -- parse + signature + claims at an instant (C02)

structure Facts where
  se      : Bool        -- strict expiry comparison in the cache
  r       : Int         -- limiter refill, tokens per second
  b       : Int         -- limiter bucket, units
  blTTL   : Int         -- 24 h
  skew    : Int         -- 2 min
  revokeUntilExp : Bool -- fix F7

structure V where
  tc  : Cache.C
  bl  : Cache.C
  lim : Limiter.L

def revTTL (F : Facts) (T : TokOf) (now : Int) (id : String) : Int :=
  if F.revokeUntilExp then (if T.exp id + F.skew - now > F.blTTL then T.exp id + F.skew - now else F.blTTL) else F.blTTL

/-- replay check on the `jti`, if the token has one -/
def jtiCheck (F : Facts) (T : TokOf) (bl : Cache.C) (now : Int) (id : String) : Cache.C × Option Nat :=
  match T.jti id with
  | some j => Cache.get F.se bl now j
  | none => (bl, none)

def jtiList (F : Facts) (T : TokOf) (bl : Cache.C) (now : Int) (id : String) : Cache.C :=
  match T.jti id with
  | some j => Cache.set F.se bl now j 1 F.blTTL
  | none => bl

/-- `VerifyToken`, given the limiter's decision `a` (new limiter state, admitted?) -/
def verifyWith (F : Facts) (T : TokOf) (v : V) (now : Int) (id : String) (a : Limiter.L × Bool) : V × Bool :=
  let g := Cache.get F.se v.tc now id
  if g.2.isSome then ({ v with tc := g.1 }, true) else
  if !a.2 then (⟨g.1, v.bl, a.1⟩, false) else
  let b1 := Cache.get F.se v.bl now id
  if b1.2.isSome then (⟨g.1, b1.1, a.1⟩, false) else
  let b2 := jtiCheck F T b1.1 now id
  if b2.2.isSome then (⟨g.1, b2.1, a.1⟩, false) else
  if !T.scratch id now then (⟨g.1, b2.1, a.1⟩, false) else
  (⟨Cache.set F.se g.1 now id 1 (T.exp id - now), jtiList F T b2.1 now id, a.1⟩, true)

/-- `VerifyToken` -/
def verify (F : Facts) (T : TokOf) (v : V) (now : Int) (id : String) : V × Bool :=
  verifyWith F T v now id (Limiter.allow F.r F.b v.lim now)

/-- `RevokeToken` -/
def revoke (F : Facts) (T : TokOf) (v : V) (now : Int) (id : String) : V :=
  { v with tc := Cache.delete v.tc id, bl := Cache.set F.se v.bl now id 1 (revTTL F T now id) }

inductive Op | verify (now : Int) (id : String) | revoke (now : Int) (id : String) | tick (now : Int)

def Op.time : Op → Int
  | .verify n _ => n | .revoke n _ => n | .tick n => n

def step (F : Facts) (T : TokOf) (v : V) : Op → V × Option Bool
  | .verify now id => let (v', ok) := verify F T v now id; (v', some ok)
  | .revoke now id => (revoke F T v now id, none)
  | .tick now => ({ v with tc := Cache.cleanup F.se v.tc now, bl := Cache.cleanup F.se v.bl now }, none)

def run (F : Facts) (T : TokOf) : V → List Op → V × List (Option Bool)
  | v, [] => (v, [])
  | v, op :: t =>
    let (v', o) := step F T v op
    let (vf, os) := run F T v' t
    (vf, o :: os)

end Oidc.Verify
