import Oidc.Model.Handler
/-!
# One browser's cookie jar across successive requests

`serveJar` = `GetSession` ∘ handler ∘ browser applying the Set-Cookie lines.  Every successful `Save` rewrites every
cookie of the session and deletes surplus chunk cookies, so the jar after a response is determined by the *last*
view saved in it; a response without `Save` leaves the jar alone.  (`Save` succeeds because every line fits — C18.)
-/
namespace Oidc.World
open Oidc Oidc.Session Oidc.Handler

def applySaves (j : Jar) (saved : List View) : Jar :=
  match saved.getLast? with
  | some v => saveApply v
  | none => j

def serveJar (c : Cfg) (e : Env) (r : Req) (j : Jar) (fuel : Nat) : Out × Jar :=
  let o := serveV c e r (getSession c.maxAge j e.now fuel)
  (o, applySaves j o.saved)

/-- a sequence of requests of one browser, each with its own environment (time passes, any instance answers) -/
def runBrowser (c : Cfg) (fuel : Nat) : Jar → List (Env × Req) → Jar × List Out
  | j, [] => (j, [])
  | j, (e, r) :: t =>
    let (o, j') := serveJar c e r j fuel
    let (jf, os) := runBrowser c fuel j' t
    (jf, o :: os)

end Oidc.World
