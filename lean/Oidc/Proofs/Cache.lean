import Oidc.Model.Cache
/-! Lemmas and invariants for the cache model. -/
namespace Oidc.Cache

/-! ### list helpers -/

theorem mem_remove {l : List Entry} {k} {e} (h : e ∈ remove l k) : e ∈ l ∧ e.key ≠ k := by
  unfold remove at h
  have := List.mem_filter.mp h
  exact ⟨this.1, by simpa using this.2⟩

theorem mem_remove_of {l : List Entry} {k} {e} (h : e ∈ l) (hk : e.key ≠ k) : e ∈ remove l k := by
  unfold remove
  exact List.mem_filter.mpr ⟨h, by simpa using hk⟩

theorem remove_length_le (l : List Entry) (k) : (remove l k).length ≤ l.length :=
  List.length_filter_le _ _

theorem mem_evict {se now} {l : List Entry} {e} (h : e ∈ evict se now l) : e ∈ l := by
  unfold evict at h
  split at h
  · exact (mem_remove h).1
  · exact List.mem_of_mem_tail h

theorem lookup_some {l : List Entry} {k} {e} (h : lookup l k = some e) : e ∈ l ∧ e.key = k := by
  unfold lookup at h
  exact ⟨List.mem_of_find?_eq_some h, by simpa using List.find?_some h⟩

theorem lookup_none {l : List Entry} {k} (h : lookup l k = none) : ∀ e ∈ l, e.key ≠ k := by
  intro e he hk
  unfold lookup at h
  have := List.find?_eq_none.mp h e he
  simp [hk] at this

/-! ### structural invariant: keys unique, size within capacity -/

def NoDup (l : List Entry) : Prop := (l.map (·.key)).Nodup
def Inv (c : C) : Prop := NoDup c.order ∧ c.order.length ≤ c.cap

theorem nodup_filter (l : List Entry) (p) (h : NoDup l) : NoDup (l.filter p) := by
  unfold NoDup at *
  exact List.Nodup.sublist (List.Sublist.map _ List.filter_sublist) h

theorem nodup_tail (l : List Entry) (h : NoDup l) : NoDup l.tail := by
  unfold NoDup at *
  exact List.Nodup.sublist (List.Sublist.map _ (List.tail_sublist l)) h

theorem nodup_evict (se now) (l : List Entry) (h : NoDup l) : NoDup (evict se now l) := by
  unfold evict; split
  · exact nodup_filter _ _ h
  · exact nodup_tail _ h

theorem nodup_snoc (l : List Entry) (e : Entry) (h : NoDup l) (hk : ∀ a ∈ l, a.key ≠ e.key) :
    NoDup (l ++ [e]) := by
  unfold NoDup at *
  simp only [List.map_append, List.map_cons, List.map_nil]
  rw [List.nodup_append]
  refine ⟨h, by simp, ?_⟩
  intro a ha b hb
  simp at hb
  subst hb
  obtain ⟨x, hx, rfl⟩ := List.mem_map.mp ha
  exact hk x hx

/-- removing a key that is present shrinks the list (keys unique or not) -/
theorem remove_length_lt {l : List Entry} {k} {e} (h : e ∈ l) (hk : e.key = k) :
    (remove l k).length < l.length := by
  unfold remove
  induction l with
  | nil => cases h
  | cons a t ih =>
    simp only [List.filter_cons]
    rcases List.mem_cons.mp h with rfl | h'
    · simp [hk]
      exact Nat.lt_succ_of_le (List.length_filter_le _ _)
    · split
      · simp only [List.length_cons]; exact Nat.succ_lt_succ (ih h')
      · simp only [List.length_cons]; exact Nat.lt_succ_of_le (List.length_filter_le _ _)

theorem evict_length_lt (se now) {l : List Entry} (h : l ≠ []) : (evict se now l).length < l.length := by
  unfold evict
  split
  · rename_i e he
    exact remove_length_lt (List.mem_of_find?_eq_some he) rfl
  · cases l with
    | nil => exact absurd rfl h
    | cons a t => simp

theorem inv_set (se) (c : C) (now k v ttl) (hc : 0 < c.cap) (h : Inv c) : Inv (set se c now k v ttl) := by
  obtain ⟨hnd, hlen⟩ := h
  unfold set
  split
  · rename_i e' hl
    obtain ⟨hmem, hkey⟩ := lookup_some hl
    refine ⟨nodup_snoc _ _ (nodup_filter _ _ hnd) (fun a ha => (mem_remove ha).2), ?_⟩
    simp only [List.length_append, List.length_singleton]
    have := remove_length_lt hmem hkey
    omega
  · rename_i hl
    have hne := lookup_none hl
    simp only
    split
    · rename_i hfull
      refine ⟨nodup_snoc _ _ (nodup_evict _ _ _ hnd) (fun a ha => hne a (mem_evict ha)), ?_⟩
      simp only [List.length_append, List.length_singleton]
      have hnil : c.order ≠ [] := by
        intro h0; rw [h0] at hfull; simp at hfull; omega
      have := evict_length_lt se now hnil
      omega
    · rename_i hnf
      refine ⟨nodup_snoc _ _ hnd hne, ?_⟩
      simp only [List.length_append, List.length_singleton]
      omega

theorem inv_get (se) (c : C) (now k) (h : Inv c) : Inv (get se c now k).1 := by
  obtain ⟨hnd, hlen⟩ := h
  unfold get
  split
  · exact ⟨hnd, hlen⟩
  · rename_i e hl
    obtain ⟨hmem, hkey⟩ := lookup_some hl
    split
    · exact ⟨nodup_filter _ _ hnd, Nat.le_trans (remove_length_le _ _) hlen⟩
    · refine ⟨nodup_snoc _ _ (nodup_filter _ _ hnd) (fun a ha => by rw [hkey]; exact (mem_remove ha).2), ?_⟩
      simp only [List.length_append, List.length_singleton]
      have := remove_length_lt hmem hkey
      omega

theorem inv_delete (c : C) (k) (h : Inv c) : Inv (delete c k) :=
  ⟨nodup_filter _ _ h.1, Nat.le_trans (remove_length_le _ _) h.2⟩

theorem inv_cleanup (se) (c : C) (now) (h : Inv c) : Inv (cleanup se c now) :=
  ⟨nodup_filter _ _ h.1, Nat.le_trans (List.length_filter_le _ _) h.2⟩

theorem step_cap (se) (c : C) (op : Op) : (step se c op).cap = c.cap := by
  cases op <;> simp only [step, set, get, delete, cleanup]
  · split <;> rfl
  · split
    · rfl
    · split <;> rfl

theorem inv_step (se) (c : C) (op : Op) (hc : 0 < c.cap) (h : Inv c) : Inv (step se c op) := by
  cases op with
  | set now k v ttl => exact inv_set se c now k v ttl hc h
  | get now k => exact inv_get se c now k h
  | del k => exact inv_delete c k h
  | clean now => exact inv_cleanup se c now h

theorem inv_run (se) (c : C) (ops : List Op) (hc : 0 < c.cap) (h : Inv c) :
    Inv (run se c ops) ∧ (run se c ops).cap = c.cap := by
  unfold run
  induction ops generalizing c with
  | nil => exact ⟨h, rfl⟩
  | cons op t ih =>
    simp only [List.foldl_cons]
    have hcap := step_cap se c op
    have := ih (step se c op) (by rw [hcap]; exact hc) (inv_step se c op hc h)
    exact ⟨this.1, by rw [this.2, hcap]⟩

end Oidc.Cache
