import Oidc.Proofs.CacheSpec
/-! Completeness of lookups while capacity is not exceeded, and the exact effect of an eviction. -/
namespace Oidc.Cache

def expiredAt (se : Bool) (now exp : Int) : Bool := if se then decide (now > exp) else decide (now ≥ exp)

theorem expired_eq (se now) (e : Entry) : expired se now e = expiredAt se now e.exp := rfl

theorem expiredAt_mono (se : Bool) {t1 t2 exp : Int} (h : t1 ≤ t2) (he : expiredAt se t1 exp = true) :
    expiredAt se t2 exp = true := by
  unfold expiredAt at *
  cases se <;> simp at he ⊢ <;> omega

/-- no `Set` of a new key ever finds the cache full -/
def NoEvict (se : Bool) : C → List Op → Prop
  | _, [] => True
  | c, op :: t =>
    (match op with
      | .set _ k _ _ => lookup c.order k ≠ none ∨ c.order.length < c.cap
      | _ => True) ∧ NoEvict se (step se c op) t

/-- weaker: a `Set` of a new key may find the cache full, provided an entry whose lifetime has elapsed is among the
    stored ones (the eviction then reclaims that slot — the live entries still fit the capacity) -/
def NoLiveEvict (se : Bool) : C → List Op → Prop
  | _, [] => True
  | c, op :: t =>
    (match op with
      | .set now k _ _ => lookup c.order k ≠ none ∨ c.order.length < c.cap ∨ (c.order.find? (expired se now)).isSome = true
      | _ => True) ∧ NoLiveEvict se (step se c op) t

theorem NoEvict.weaken (se : Bool) : ∀ (ops : List Op) (c : C), NoEvict se c ops → NoLiveEvict se c ops
  | [], _, _ => trivial
  | op :: t, c, h => by
    unfold NoEvict at h
    unfold NoLiveEvict
    refine ⟨?_, NoEvict.weaken se t _ h.2⟩
    cases op with
    | set now k v ttl =>
      rcases h.1 with h1 | h1
      · exact .inl h1
      · exact .inr (.inl h1)
    | _ => trivial

/-- every stored, undeleted value is either present with the right expiry or already expired -/
def Complete (se : Bool) (c : C) (m : Spec) (last : Int) : Prop :=
  ∀ k v ts ttl, m k = some (v, ts, ttl) →
    (∃ e ∈ c.order, e.key = k ∧ e.val = v ∧ e.exp = ts + ttl) ∨ expiredAt se last (ts + ttl) = true

theorem unique_of_nodup {l : List Entry} (h : NoDup l) {a b : Entry} (ha : a ∈ l) (hb : b ∈ l)
    (hk : a.key = b.key) : a = b := by
  unfold NoDup at h
  induction l with
  | nil => cases ha
  | cons x t ih =>
    simp only [List.map_cons, List.nodup_cons] at h
    rcases List.mem_cons.mp ha with rfl | ha' <;> rcases List.mem_cons.mp hb with rfl | hb'
    · rfl
    · exact absurd (List.mem_map.mpr ⟨b, hb', hk.symm⟩) h.1
    · exact absurd (List.mem_map.mpr ⟨a, ha', hk⟩) h.1
    · exact ih h.2 ha' hb'

theorem complete_step (se) (c : C) (m : Spec) (last : Int) (op : Op) (hinv : Inv c)
    (h : Complete se c m last)
    (hne : match op with
      | .set now k _ _ => lookup c.order k ≠ none ∨ c.order.length < c.cap ∨ (c.order.find? (expired se now)).isSome = true
      | _ => True)
    (hlast : ∀ now, op.time = some now → last ≤ now) :
    Complete se (step se c op) (specStep m op) (match op.time with | some now => now | none => last) := by
  intro k' v' ts' ttl' hm
  cases op with
  | set now k v ttl =>
    have hl := hlast now rfl
    simp only [specStep] at hm
    simp only [Op.time, step, set]
    by_cases hk : k' = k
    · subst hk
      simp only [if_true, Option.some.injEq, Prod.mk.injEq] at hm
      obtain ⟨h1, h2, h3⟩ := hm
      subst h1; subst h2; subst h3
      left
      split
      · exact ⟨⟨k', v, now + ttl⟩, by simp, rfl, rfl, rfl⟩
      · simp only; exact ⟨⟨k', v, now + ttl⟩, by simp, rfl, rfl, rfl⟩
    · simp only [hk, if_false] at hm
      rcases h k' v' ts' ttl' hm with ⟨e, he, hek, hev, hee⟩ | hexp
      · have hek' : e.key ≠ k := by rw [hek]; exact hk
        split
        · left; exact ⟨e, List.mem_append_left _ (mem_remove_of he hek'), hek, hev, hee⟩
        · rename_i hnone
          simp only at hne
          by_cases hfull : c.order.length ≥ c.cap
          · simp only [hfull, if_true]
            have hsome : (c.order.find? (expired se now)).isSome = true := by
              rcases hne with h1 | h1 | h1
              · exact absurd hnone h1
              · omega
              · exact h1
            obtain ⟨x, hx⟩ := Option.isSome_iff_exists.mp hsome
            unfold evict
            simp only [hx]
            by_cases hxe : e.key = x.key
            · -- the reclaimed entry is this one: its lifetime has elapsed
              have hxm : x ∈ c.order := List.mem_of_find?_eq_some hx
              have : e = x := unique_of_nodup hinv.1 he hxm hxe
              subst this
              have hxp : expired se now e = true := List.find?_some hx
              right; rw [expired_eq, hee] at hxp; exact hxp
            · left; exact ⟨e, List.mem_append_left _ (mem_remove_of he hxe), hek, hev, hee⟩
          · simp only [hfull, if_false]
            left; exact ⟨e, List.mem_append_left _ he, hek, hev, hee⟩
      · right; exact expiredAt_mono se hl hexp
  | get now k =>
    have hl := hlast now rfl
    simp only [specStep] at hm
    simp only [Op.time, step, get]
    rcases h k' v' ts' ttl' hm with ⟨e, he, hek, hev, hee⟩ | hexp
    · split
      · left; exact ⟨e, he, hek, hev, hee⟩
      · rename_i e0 hl0
        obtain ⟨hmem0, hkey0⟩ := lookup_some hl0
        by_cases hk : k' = k
        · have : e = e0 := unique_of_nodup hinv.1 he hmem0 (by rw [hek, hkey0, hk])
          subst this
          split
          · rename_i hx
            right; rw [expired_eq, hee] at hx; exact hx
          · left; exact ⟨e, by simp, hek, hev, hee⟩
        · have hek' : e.key ≠ k := by rw [hek]; exact hk
          left
          split
          · exact ⟨e, mem_remove_of he hek', hek, hev, hee⟩
          · exact ⟨e, List.mem_append_left _ (mem_remove_of he hek'), hek, hev, hee⟩
    · right; exact expiredAt_mono se hl hexp
  | del k =>
    simp only [specStep] at hm
    simp only [Op.time, step, delete]
    by_cases hk : k' = k
    · simp [hk] at hm
    · simp only [hk, if_false] at hm
      rcases h k' v' ts' ttl' hm with ⟨e, he, hek, hev, hee⟩ | hexp
      · left; exact ⟨e, mem_remove_of he (by rw [hek]; exact hk), hek, hev, hee⟩
      · right; exact hexp
  | clean now =>
    have hl := hlast now rfl
    simp only [specStep] at hm
    simp only [Op.time, step, cleanup]
    rcases h k' v' ts' ttl' hm with ⟨e, he, hek, hev, hee⟩ | hexp
    · by_cases hx : expired se now e = true
      · right; rw [expired_eq, hee] at hx; exact hx
      · left; exact ⟨e, List.mem_filter.mpr ⟨he, by simpa using hx⟩, hek, hev, hee⟩
    · right; exact expiredAt_mono se hl hexp

theorem complete_run (se) (ops : List Op) (c : C) (m : Spec) (lo hi : Int) (hc : 0 < c.cap) (hinv : Inv c)
    (h : Complete se c m lo) (hne : NoLiveEvict se c ops) (hm : Mono lo ops hi) :
    Complete se (ops.foldl (step se) c) (ops.foldl specStep m) hi := by
  induction ops generalizing c m lo with
  | nil =>
    intro k v ts ttl hk
    rcases h k v ts ttl hk with h1 | h1
    · exact Or.inl h1
    · exact Or.inr (expiredAt_mono se hm h1)
  | cons op t ih =>
    simp only [List.foldl_cons]
    unfold NoLiveEvict at hne
    unfold Mono at hm
    have hcap := step_cap se c op
    have hinv' := inv_step se c op hc hinv
    cases hot : op.time with
    | some now =>
      simp only [hot] at hm
      have := complete_step se c m lo op hinv h hne.1 (fun n hn => by rw [hot] at hn; cases hn; exact hm.1)
      simp only [hot] at this
      exact ih _ _ now (by rw [hcap]; exact hc) hinv' this hne.2 hm.2
    | none =>
      simp only [hot] at hm
      have := complete_step se c m lo op hinv h hne.1 (fun n hn => by rw [hot] at hn; cases hn)
      simp only [hot] at this
      exact ih _ _ lo (by rw [hcap]; exact hc) hinv' this hne.2 hm

/-- **C12 completeness.** While the *live* entries fit the capacity (a `Set` of a new key finds a free slot, or an entry
    whose lifetime has elapsed to reclaim), a value that was stored, not deleted and not overwritten since, and whose
    lifetime has not elapsed, is returned. -/
theorem get_complete_live (se : Bool) (cap : Nat) (hc : 0 < cap) (ops : List Op) (t0 now : Int) (k : String)
    (v : Nat) (ts ttl : Int) (hm : Mono t0 ops now) (hne : NoLiveEvict se (init cap) ops)
    (hs : spec ops k = some (v, ts, ttl)) (hlive : expiredAt se now (ts + ttl) = false) :
    (get se (run se (init cap) ops) now k).2 = some v := by
  have hinv0 : Inv (init cap) := ⟨by simp [init, NoDup], by simp [init]⟩
  have hcomp := complete_run se ops (init cap) (fun _ => none) t0 now hc hinv0
    (fun _ _ _ _ h => by simp at h) hne hm
  have hinv := (inv_run se (init cap) ops hc hinv0).1
  rcases hcomp k v ts ttl hs with ⟨e, he, hek, hev, hee⟩ | hexp
  · rw [get_out]
    cases hl : lookup (run se (init cap) ops).order k with
    | none => exact absurd hek (lookup_none hl e he)
    | some e0 =>
      obtain ⟨hmem0, hkey0⟩ := lookup_some hl
      have : e = e0 := unique_of_nodup hinv.1 he hmem0 (by rw [hek, hkey0])
      subst this
      simp only
      rw [expired_eq, hee, hlive]
      simp [hev]
  · rw [hlive] at hexp; cases hexp

/-- the special case in which no `Set` of a new key ever finds the cache full -/
theorem get_complete (se : Bool) (cap : Nat) (hc : 0 < cap) (ops : List Op) (t0 now : Int) (k : String)
    (v : Nat) (ts ttl : Int) (hm : Mono t0 ops now) (hne : NoEvict se (init cap) ops)
    (hs : spec ops k = some (v, ts, ttl)) (hlive : expiredAt se now (ts + ttl) = false) :
    (get se (run se (init cap) ops) now k).2 = some v :=
  get_complete_live se cap hc ops t0 now k v ts ttl hm (NoEvict.weaken se ops _ hne) hs hlive

end Oidc.Cache
