import Oidc.Model.CacheImpl
import Oidc.Proofs.CacheLru
/-!
# The three structures of cache.go simulate the abstract LRU list

`R c a`: the concrete state `c` (item map, LRU list of keys, element map) represents the abstract list `a`.  Every
operation preserves `R` and returns the same observation, so every theorem about the abstract model holds of the three
structures, and their mutual consistency (C13, "internal consistency") is part of `R`.
-/
namespace Oidc.CacheImpl
open Oidc.Cache

/-! ### lookups in association lists -/

theorem lookup_remove (l : List Entry) (k k' : String) :
    lookup (remove l k) k' = if k' = k then none else lookup l k' := by
  unfold lookup remove
  induction l with
  | nil => simp
  | cons a t ih =>
    simp only [List.filter_cons]
    by_cases hak : a.key = k
    · have h1 : (a.key != k) = false := by simp [hak]
      simp only [h1, Bool.false_eq_true, if_false, ih, List.find?_cons]
      by_cases hk' : k' = k
      · simp [hk']
      · have : (a.key == k') = false := by
          simp only [beq_eq_false_iff_ne, ne_eq]; intro h; exact hk' (by rw [← h, hak])
        simp [hk', this]
    · have h1 : (a.key != k) = true := by simp [hak]
      simp only [h1, if_true, List.find?_cons, ih]
      by_cases hk' : k' = k
      · subst hk'
        have : (a.key == k') = false := by
          simp only [beq_eq_false_iff_ne, ne_eq]; exact hak
        simp [this]
      · simp only [hk', if_false]

theorem lookup_snoc (l : List Entry) (e : Entry) (k' : String) :
    lookup (l ++ [e]) k' = (lookup l k').or (if e.key = k' then some e else none) := by
  unfold lookup
  rw [List.find?_append]
  by_cases h : e.key = k' <;> simp [List.find?_cons, h]

theorem lookup_mset (l : List Entry) (e : Entry) (k' : String) :
    lookup (mset l e) k' = if k' = e.key then some e else lookup l k' := by
  unfold mset
  rw [lookup_snoc, lookup_remove]
  by_cases h : k' = e.key
  · simp [h]
  · have : ¬ e.key = k' := fun h' => h h'.symm
    simp [h, this]

theorem lookup_of_mem {l : List Entry} (h : NoDup l) {e : Entry} (he : e ∈ l) : lookup l e.key = some e := by
  cases hl : lookup l e.key with
  | none => exact absurd rfl (lookup_none hl e he)
  | some x =>
    obtain ⟨hx, hk⟩ := lookup_some hl
    rw [unique_of_nodup h hx he hk]

theorem mem_keys_iff (l : List Entry) (k : String) : k ∈ l.map (·.key) ↔ lookup l k ≠ none := by
  constructor
  · intro h hl
    obtain ⟨e, he, hk⟩ := List.mem_map.mp h
    exact lookup_none hl e he hk
  · intro h
    cases hl : lookup l k with
    | none => exact absurd hl h
    | some e =>
      obtain ⟨he, hk⟩ := lookup_some hl
      exact List.mem_map.mpr ⟨e, he, hk⟩

theorem remove_eq_self {l : List Entry} {k : String} (h : lookup l k = none) : remove l k = l := by
  unfold remove
  apply List.filter_eq_self.mpr
  intro a ha
  have := lookup_none h a ha
  simpa using this

theorem keys_remove (l : List Entry) (k : String) (h : NoDup l) :
    (remove l k).map (·.key) = (l.map (·.key)).erase k := by
  rw [List.Nodup.erase_eq_filter h, List.filter_map]
  rfl

theorem nodup_keys {l : List Entry} (h : NoDup l) : (l.map (·.key)).Nodup := h

theorem nodup_mset (l : List Entry) (e : Entry) (h : NoDup l) : NoDup (mset l e) := by
  unfold mset
  apply nodup_snoc _ _ (nodup_filter l _ h)
  intro a ha
  exact (mem_remove ha).2

theorem mset_length_new (l : List Entry) (e : Entry) (h : lookup l e.key = none) : (mset l e).length = l.length + 1 := by
  unfold mset; rw [remove_eq_self h]; simp

theorem mset_length_old (l : List Entry) (e : Entry) (hnd : NoDup l) (x : Entry) (h : lookup l e.key = some x) :
    (mset l e).length = l.length := by
  unfold mset
  obtain ⟨hx, hk⟩ := lookup_some h
  have := remove_length_unique hnd hx
  rw [hk] at this
  simp; omega

/-! ### the representation relation -/

structure R (c : Impl) (a : C) : Prop where
  cap : a.cap = c.cap
  nd : NoDup a.order
  ord : c.order = a.order.map (·.key)
  look : ∀ k, lookup c.items k = lookup a.order k
  ndi : NoDup c.items
  len : c.items.length = a.order.length
  ndel : c.elems.Nodup
  el : ∀ k, k ∈ c.elems ↔ k ∈ c.order

theorem R.ordNodup {c a} (h : R c a) : c.order.Nodup := by rw [h.ord]; exact h.nd

theorem R.mem_elems {c a} (h : R c a) (k : String) : k ∈ c.elems ↔ lookup a.order k ≠ none := by
  rw [h.el, h.ord]; exact mem_keys_iff _ _

theorem R_init (cap : Nat) : R (init cap) (Cache.init cap) :=
  ⟨rfl, by simp [Cache.init, NoDup], rfl, fun _ => rfl, by simp [init, NoDup], rfl, by simp [init], by simp [init]⟩

/-- `removeItem` is `remove` on the abstract list -/
theorem R_removeItem {c a} (h : R c a) (k : String) : R (removeItem c k) ⟨a.cap, remove a.order k⟩ := by
  unfold removeItem
  by_cases hk : k ∈ c.elems
  · simp only [hk, if_true]
    have hsome := (h.mem_elems k).mp hk
    cases hl : lookup a.order k with
    | none => exact absurd hl hsome
    | some e =>
      have hli : lookup c.items k = some e := by rw [h.look]; exact hl
      obtain ⟨he, hek⟩ := lookup_some hl
      obtain ⟨hei, _⟩ := lookup_some hli
      refine ⟨h.cap, nodup_filter _ _ h.nd, ?_, ?_, nodup_filter _ _ h.ndi, ?_, h.ndel.erase k, ?_⟩
      · show c.order.erase k = (remove a.order k).map (·.key)
        rw [keys_remove _ _ h.nd, h.ord]
      · intro k'
        show lookup (remove c.items k) k' = lookup (remove a.order k) k'
        rw [lookup_remove, lookup_remove, h.look]
      · show (remove c.items k).length = (remove a.order k).length
        have h1 := remove_length_unique h.nd he
        have h2 := remove_length_unique h.ndi hei
        rw [hek] at h1 h2
        have := h.len
        omega
      · intro k'
        show k' ∈ c.elems.erase k ↔ k' ∈ c.order.erase k
        rw [h.ndel.mem_erase_iff, h.ordNodup.mem_erase_iff, h.el]
  · simp only [hk, if_false]
    have hnone : lookup a.order k = none := by
      cases hl : lookup a.order k with
      | none => rfl
      | some e => exact absurd ((h.mem_elems k).mpr (by rw [hl]; simp)) hk
    have hnonei : lookup c.items k = none := by rw [h.look]; exact hnone
    have e1 : mdel c.items k = c.items := remove_eq_self hnonei
    have e2 : remove a.order k = a.order := remove_eq_self hnone
    rw [e1, e2]
    exact ⟨h.cap, h.nd, h.ord, h.look, h.ndi, h.len, h.ndel, h.el⟩

/-- re-storing or touching a present key: the entry moves to the back of the list -/
theorem R_touch {c a} (h : R c a) (k : String) (e' : Entry) (hk' : e'.key = k) (items' : List Entry)
    (hpres : lookup a.order k ≠ none)
    (hlook : ∀ k', lookup items' k' = if k' = k then some e' else lookup c.items k')
    (hnd : NoDup items') (hlen : items'.length = c.items.length) :
    R (moveToBack { c with items := items' } k) ⟨a.cap, remove a.order k ++ [e']⟩ := by
  have hk : k ∈ c.elems := (h.mem_elems k).mpr hpres
  unfold moveToBack
  simp only [hk, if_true]
  cases hl : lookup a.order k with
  | none => exact absurd hl hpres
  | some e =>
    obtain ⟨he, hek⟩ := lookup_some hl
    have hndr : NoDup (remove a.order k ++ [e']) := by
      apply nodup_snoc _ _ (nodup_filter _ _ h.nd)
      intro x hx; rw [hk']; exact (mem_remove hx).2
    refine ⟨h.cap, hndr, ?_, ?_, hnd, ?_, h.ndel, ?_⟩
    · show c.order.erase k ++ [k] = (remove a.order k ++ [e']).map (·.key)
      rw [List.map_append, keys_remove _ _ h.nd, h.ord]; simp [hk']
    · intro k''
      show lookup items' k'' = lookup (remove a.order k ++ [e']) k''
      rw [hlook, lookup_snoc, lookup_remove, hk']
      by_cases hkk : k'' = k
      · simp [hkk]
      · have : ¬ k = k'' := fun h' => hkk h'.symm
        simp only [hkk, if_false, this, Option.or_none, h.look]
    · show items'.length = (remove a.order k ++ [e']).length
      have h1 := remove_length_unique h.nd he
      rw [hek] at h1
      rw [hlen, h.len]; simp; omega
    · intro k''
      show k'' ∈ c.elems ↔ k'' ∈ c.order.erase k ++ [k]
      rw [List.mem_append, h.ordNodup.mem_erase_iff, h.el, List.mem_singleton]
      constructor
      · intro hm
        by_cases hkk : k'' = k
        · exact .inr hkk
        · exact .inl ⟨hkk, hm⟩
      · rintro (⟨_, hm⟩ | hkk)
        · exact hm
        · rw [hkk, ← h.el]; exact hk

/-- storing a key that is not present: appended at the back of all three structures -/
theorem R_push {c a} (h : R c a) (e : Entry) (hnone : lookup a.order e.key = none) :
    R { c with items := mset c.items e, order := c.order ++ [e.key], elems := e.key :: c.elems } ⟨a.cap, a.order ++ [e]⟩ := by
  have hnonei : lookup c.items e.key = none := by rw [h.look]; exact hnone
  have hnotin : e.key ∉ c.elems := fun hm => (h.mem_elems _).mp hm hnone
  refine ⟨h.cap, nodup_snoc _ _ h.nd (lookup_none hnone), ?_, ?_, nodup_mset _ _ h.ndi, ?_, ?_, ?_⟩
  · show c.order ++ [e.key] = (a.order ++ [e]).map (·.key)
    rw [List.map_append, h.ord]; rfl
  · intro k'
    show lookup (mset c.items e) k' = lookup (a.order ++ [e]) k'
    rw [lookup_mset, lookup_snoc, h.look]
    by_cases hkk : k' = e.key
    · simp [hkk, hnone]
    · have : ¬ e.key = k' := fun h' => hkk h'.symm
      simp [hkk, this]
  · show (mset c.items e).length = (a.order ++ [e]).length
    rw [mset_length_new _ _ hnonei, h.len]; simp
  · exact List.nodup_cons.mpr ⟨hnotin, h.ndel⟩
  · intro k'
    show k' ∈ e.key :: c.elems ↔ k' ∈ c.order ++ [e.key]
    rw [List.mem_cons, List.mem_append, List.mem_singleton, h.el]
    constructor
    · rintro (h1 | h1)
      · exact .inr h1
      · exact .inl h1
    · rintro (h1 | h1)
      · exact .inr h1
      · exact .inl h1

/-! ### eviction -/

theorem find_congr {α} {p q : α → Bool} : ∀ {l : List α}, (∀ x ∈ l, p x = q x) → l.find? p = l.find? q
  | [], _ => rfl
  | a :: t, h => by
    simp only [List.find?_cons, h a (by simp)]
    cases q a
    · exact find_congr (fun x hx => h x (by simp [hx]))
    · rfl

theorem remove_head {x : Entry} {t : List Entry} (h : NoDup (x :: t)) : remove (x :: t) x.key = t := by
  unfold remove
  unfold NoDup at h
  simp only [List.map_cons, List.nodup_cons] at h
  simp only [List.filter_cons, bne_self_eq_false, Bool.false_eq_true, if_false]
  apply List.filter_eq_self.mpr
  intro a ha
  have : a.key ≠ x.key := fun hk => h.1 (List.mem_map.mpr ⟨a, ha, hk⟩)
  simpa using this

theorem R_evict {c a} (se : Bool) (now : Int) (h : R c a) : R (evictOldest se now c) ⟨a.cap, evict se now a.order⟩ := by
  unfold evictOldest evict
  have hfind : c.order.find? (expiredKey se now c.items) = (a.order.find? (expired se now)).map (·.key) := by
    rw [h.ord, List.find?_map]
    congr 1
    apply find_congr
    intro x hx
    simp only [Function.comp, expiredKey, mget, h.look, lookup_of_mem h.nd hx]
  rw [hfind]
  cases hf : a.order.find? (expired se now) with
  | some x => simp only [Option.map_some]; exact R_removeItem h x.key
  | none =>
    simp only [Option.map_none]
    rw [h.ord, List.head?_map]
    cases hl : a.order with
    | nil => simp only [List.head?_nil, Option.map_none, List.tail_nil]; rw [← hl]; exact ⟨h.cap, h.nd, h.ord, h.look, h.ndi, h.len, h.ndel, h.el⟩
    | cons x t =>
      simp only [List.head?_cons, Option.map_some, List.tail_cons]
      have := R_removeItem h x.key
      rw [hl, remove_head (by rw [← hl]; exact h.nd)] at this
      exact this

/-! ### the operations -/

theorem R_set {c a} (se : Bool) (now : Int) (k : String) (v : Nat) (ttl : Int) (h : R c a) :
    R (set se c now k v ttl) (Cache.set se a now k v ttl) := by
  unfold set Cache.set mget
  rw [h.look]
  cases hl : lookup a.order k with
  | some e0 =>
    simp only
    have := R_touch h k ⟨k, v, now + ttl⟩ rfl (mset c.items ⟨k, v, now + ttl⟩) (by rw [hl]; simp)
      (fun k' => by rw [lookup_mset])
      (nodup_mset _ _ h.ndi) (mset_length_old _ _ h.ndi e0 (by rw [h.look]; exact hl))
    exact this
  | none =>
    simp only
    -- the state after the optional eviction represents the abstract list after it
    have hstep : R (if c.items.length ≥ c.cap then evictOldest se now c else c)
        ⟨a.cap, if a.order.length ≥ a.cap then evict se now a.order else a.order⟩ := by
      have hcond : (c.items.length ≥ c.cap) ↔ (a.order.length ≥ a.cap) := by rw [h.len, h.cap]
      by_cases hfull : a.order.length ≥ a.cap
      · rw [if_pos (hcond.mpr hfull), if_pos hfull]; exact R_evict se now h
      · rw [if_neg (fun hh => hfull (hcond.mp hh)), if_neg hfull]
        exact ⟨h.cap, h.nd, h.ord, h.look, h.ndi, h.len, h.ndel, h.el⟩
    have hnone : lookup (if a.order.length ≥ a.cap then evict se now a.order else a.order) k = none := by
      split
      · cases hx : lookup (evict se now a.order) k with
        | none => rfl
        | some x =>
          obtain ⟨hm, hk⟩ := lookup_some hx
          exact absurd hk (lookup_none hl x (mem_evict hm))
      · exact hl
    exact R_push hstep ⟨k, v, now + ttl⟩ hnone

theorem R_get {c a} (se : Bool) (now : Int) (k : String) (h : R c a) :
    R (get se c now k).1 (Cache.get se a now k).1 ∧ (get se c now k).2 = (Cache.get se a now k).2 := by
  unfold get Cache.get mget
  rw [h.look]
  cases hl : lookup a.order k with
  | none => exact ⟨⟨h.cap, h.nd, h.ord, h.look, h.ndi, h.len, h.ndel, h.el⟩, rfl⟩
  | some e =>
    simp only
    by_cases hx : expired se now e = true
    · simp only [hx, if_true]; exact ⟨R_removeItem h k, trivial⟩
    · simp only [hx, Bool.false_eq_true, if_false]
      refine ⟨?_, trivial⟩
      have hek := (lookup_some hl).2
      have := R_touch h k e hek c.items (by rw [hl]; simp)
        (fun k' => by
          by_cases hkk : k' = k
          · simp only [hkk, if_true, h.look, hl]
          · simp only [hkk, if_false])
        h.ndi rfl
      exact this

theorem R_delete {c a} (k : String) (h : R c a) : R (delete c k) (Cache.delete a k) := R_removeItem h k

/-- removing a list of keys one after the other -/
theorem R_removeAll {c a} (E : List Entry) (h : R c a) :
    R (E.foldl (fun c e => removeItem c e.key) c) ⟨a.cap, E.foldl (fun l e => remove l e.key) a.order⟩ := by
  induction E generalizing c a with
  | nil => exact ⟨h.cap, h.nd, h.ord, h.look, h.ndi, h.len, h.ndel, h.el⟩
  | cons x t ih => simp only [List.foldl_cons]; exact ih (R_removeItem h x.key)

theorem removeAll_eq_filter (E : List Entry) (l : List Entry) :
    E.foldl (fun l e => remove l e.key) l = l.filter (fun x => !(E.any (fun e => e.key == x.key))) := by
  induction E generalizing l with
  | nil => exact (List.filter_eq_self.mpr (fun _ _ => rfl)).symm
  | cons y t ih =>
    simp only [List.foldl_cons]
    rw [ih]
    unfold remove
    rw [List.filter_filter]
    apply List.filter_congr
    intro x _
    by_cases hxy : x.key = y.key
    · simp [hxy]
    · have h1 : (x.key != y.key) = true := by simpa using hxy
      have h2 : (y.key == x.key) = false := by
        simp only [beq_eq_false_iff_ne, ne_eq]; exact fun h => hxy h.symm
      simp [h1, h2]

theorem R_cleanup {c a} (se : Bool) (now : Int) (h : R c a) : R (cleanup se c now) (Cache.cleanup se a now) := by
  unfold cleanup Cache.cleanup
  have := R_removeAll (c.items.filter (expired se now)) h
  rw [removeAll_eq_filter] at this
  have heq : a.order.filter (fun x => !((c.items.filter (expired se now)).any (fun e => e.key == x.key)))
      = a.order.filter (fun e => !expired se now e) := by
    apply List.filter_congr
    intro x hx
    congr 1
    have hxi : lookup c.items x.key = some x := by rw [h.look]; exact lookup_of_mem h.nd hx
    by_cases hexp : expired se now x = true
    · rw [hexp]
      apply List.any_eq_true.mpr
      exact ⟨x, List.mem_filter.mpr ⟨(lookup_some hxi).1, hexp⟩, by simp⟩
    · have hf : expired se now x = false := by simpa using hexp
      rw [hf]
      apply Bool.eq_false_iff.mpr
      intro hany
      obtain ⟨y, hy, hyk⟩ := List.any_eq_true.mp hany
      obtain ⟨hyi, hyexp⟩ := List.mem_filter.mp hy
      have hk : y.key = x.key := by simpa using hyk
      have : y = x := unique_of_nodup h.ndi hyi (lookup_some hxi).1 hk
      rw [this, hf] at hyexp
      cases hyexp
  rw [heq] at this
  exact this

theorem R_step {c a} (se : Bool) (op : Op) (h : R c a) : R (step se c op) (Cache.step se a op) := by
  cases op with
  | set now k v ttl => exact R_set se now k v ttl h
  | get now k => exact (R_get se now k h).1
  | del k => exact R_delete k h
  | clean now => exact R_cleanup se now h

/-- **simulation.** after any history the three structures represent the abstract cache after the same history -/
theorem R_run (se : Bool) (cap : Nat) (ops : List Op) : R (run se (init cap) ops) (Cache.run se (Cache.init cap) ops) := by
  have : ∀ (ops : List Op) (c : Impl) (a : C), R c a → R (ops.foldl (step se) c) (ops.foldl (Cache.step se) a) := by
    intro ops
    induction ops with
    | nil => intro c a h; exact h
    | cons op t ih => intro c a h; exact ih _ _ (R_step se op h)
  exact this ops _ _ (R_init cap)

/-- lookups on the three structures return what the abstract cache returns -/
theorem get_refines (se : Bool) (cap : Nat) (ops : List Op) (now : Int) (k : String) :
    (get se (run se (init cap) ops) now k).2 = (Cache.get se (Cache.run se (Cache.init cap) ops) now k).2 :=
  (R_get se now k (R_run se cap ops)).2

/-- **C13, internal consistency.** after any history: the LRU list has no duplicates; the element map, the item map and the
    list hold exactly the same keys; the item map has one entry per key; all three have the same size, at most the capacity -/
theorem consistent (se : Bool) (cap : Nat) (hc : 0 < cap) (ops : List Op) :
    let c := run se (init cap) ops
    c.order.Nodup ∧ c.elems.Nodup ∧ NoDup c.items ∧
    (∀ k, k ∈ c.elems ↔ k ∈ c.order) ∧ (∀ k, k ∈ c.order ↔ lookup c.items k ≠ none) ∧
    c.items.length = c.order.length ∧ c.order.length ≤ cap := by
  intro c
  have h := R_run se cap ops
  have hinv := inv_run se (Cache.init cap) ops hc ⟨by simp [Cache.init, NoDup], by simp [Cache.init]⟩
  refine ⟨h.ordNodup, h.ndel, h.ndi, h.el, ?_, ?_, ?_⟩
  · intro k
    rw [h.look, h.ord]; exact mem_keys_iff _ _
  · rw [h.len, h.ord]; simp
  · rw [h.ord, List.length_map]
    have := hinv.1.2
    rw [hinv.2] at this
    exact this

end Oidc.CacheImpl
