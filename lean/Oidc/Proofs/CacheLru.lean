import Oidc.Proofs.CacheComplete
/-! Eviction: exactly one victim, expired first, else least recently used; survival of recently used entries. -/
namespace Oidc.Cache

/-! ### exactly one victim -/

theorem remove_length_unique {l : List Entry} (h : NoDup l) {e : Entry} (he : e ∈ l) :
    (remove l e.key).length + 1 = l.length := by
  unfold remove
  induction l with
  | nil => cases he
  | cons a t ih =>
    have hnd : NoDup t := nodup_tail (a :: t) h
    unfold NoDup at h
    simp only [List.map_cons, List.nodup_cons] at h
    simp only [List.filter_cons]
    rcases List.mem_cons.mp he with rfl | he'
    · -- head is the victim; nothing else carries its key
      have : List.filter (fun x => x.key != e.key) t = t := by
        apply List.filter_eq_self.mpr
        intro x hx
        have : x.key ≠ e.key := fun hk => h.1 (List.mem_map.mpr ⟨x, hx, hk⟩)
        simpa using this
      simp [this]
    · have hne : a.key ≠ e.key := fun hk => h.1 (List.mem_map.mpr ⟨e, he', hk.symm⟩)
      have : (a.key != e.key) = true := by simpa using hne
      simp only [this, if_true, List.length_cons]
      have := ih hnd he'
      omega

/-- **C13: inserting into a full cache removes exactly one entry** — the first expired one in LRU order if
    any exists, otherwise the LRU front — and leaves the others in their relative order. -/
theorem evict_exactly_one (se : Bool) (now : Int) (l : List Entry) (hnd : NoDup l) (hne : l ≠ []) :
    (evict se now l).length + 1 = l.length ∧ (evict se now l).Sublist l ∧
    ((∃ e, l.find? (expired se now) = some e ∧ evict se now l = remove l e.key) ∨
     (l.find? (expired se now) = none ∧ evict se now l = l.tail)) := by
  unfold evict
  cases hf : l.find? (expired se now) with
  | some e =>
    simp only
    exact ⟨remove_length_unique hnd (List.mem_of_find?_eq_some hf), List.filter_sublist, Or.inl (by simp)⟩
  | none =>
    simp only
    refine ⟨?_, List.tail_sublist l, Or.inr (by simp)⟩
    cases l with
    | nil => exact absurd rfl hne
    | cons a t => simp

/-- a victim chosen by the expired-first rule is expired; nothing unexpired is lost while an expired entry exists -/
theorem evict_keeps_live_if_expired_exists (se : Bool) (now : Int) (l : List Entry) (hnd : NoDup l) (e x : Entry)
    (hf : l.find? (expired se now) = some x) (he : e ∈ l) (hlive : expired se now e = false) :
    e ∈ evict se now l := by
  unfold evict
  simp only [hf]
  apply mem_remove_of he
  intro hk
  have hx : expired se now x = true := by simpa using List.find?_some hf
  have : e = x := unique_of_nodup hnd he (List.mem_of_find?_eq_some hf) hk
  rw [this, hx] at hlive
  cases hlive

/-! ### recency -/

/-- which key an operation *uses* (stores always, lookups when they hit) -/
def usedKey (se : Bool) (c : C) : Op → Option String
  | .set _ k _ _ => some k
  | .get now k => if (get se c now k).2.isSome then some k else none
  | _ => none

/-- distinct other keys used since the last use of `k`, reading the use log left to right -/
def sinceStep (k : String) (acc : List String) : Option String → List String
  | none => acc
  | some x => if x = k then [] else if x ∈ acc then acc else x :: acc
def sinceOf (k : String) (log : List (Option String)) : List String := log.foldl (sinceStep k) []

theorem sinceOf_snoc (k : String) (log : List (Option String)) (u : Option String) :
    sinceOf k (log ++ [u]) = sinceStep k (sinceOf k log) u := by
  simp [sinceOf, List.foldl_append]

theorem mem_since_snoc_of_mem {k x : String} {log} {u : Option String} (h : x ∈ sinceOf k log)
    (hu : u ≠ some k) : x ∈ sinceOf k (log ++ [u]) := by
  rw [sinceOf_snoc]
  unfold sinceStep
  cases u with
  | none => exact h
  | some y =>
    have : y ≠ k := fun hy => hu (by rw [hy])
    simp only [this, if_false]
    split
    · exact h
    · exact List.mem_cons_of_mem _ h

theorem mem_since_snoc_self {k x : String} {log} (hx : x ≠ k) : x ∈ sinceOf k (log ++ [some x]) := by
  rw [sinceOf_snoc]
  unfold sinceStep
  simp only [hx, if_false]
  split
  · assumption
  · exact List.mem_cons_self

/-- recency invariant: whoever sits behind `a` in the order was used since `a`'s own last use -/
def Rec (l : List Entry) (log : List (Option String)) : Prop :=
  l.Pairwise (fun a b => b.key ∈ sinceOf a.key log)

theorem rec_sublist {l l' : List Entry} {log} (h : Rec l log) (hs : l'.Sublist l) : Rec l' log :=
  List.Pairwise.sublist hs h

theorem rec_log_snoc {l : List Entry} {log} {u : Option String} (h : Rec l log)
    (hu : ∀ a ∈ l, u ≠ some a.key) : Rec l (log ++ [u]) := by
  unfold Rec at *
  induction l with
  | nil => exact List.Pairwise.nil
  | cons a t ih =>
    rw [List.pairwise_cons] at h ⊢
    refine ⟨fun b hb => mem_since_snoc_of_mem (h.1 b hb) (hu a (by simp)), ?_⟩
    exact ih h.2 (fun x hx => hu x (by simp [hx]))

theorem rec_snoc_used {l : List Entry} {log} {k : String} (e : Entry) (hek : e.key = k) (h : Rec l log)
    (hk : ∀ a ∈ l, a.key ≠ k) : Rec (l ++ [e]) (log ++ [some k]) := by
  have h' : Rec l (log ++ [some k]) := rec_log_snoc h (fun a ha hc => hk a ha (by cases hc; rfl))
  unfold Rec at *
  rw [List.pairwise_append]
  refine ⟨h', by simp, ?_⟩
  intro a ha b hb
  simp only [List.mem_singleton] at hb
  subst hb
  rw [hek]
  exact mem_since_snoc_self (fun hx => hk a ha hx.symm)

theorem rec_step (se : Bool) (c : C) (log : List (Option String)) (op : Op) (h : Rec c.order log) :
    Rec (step se c op).order (log ++ [usedKey se c op]) := by
  cases op with
  | set now k v ttl =>
    simp only [step, set, usedKey]
    split
    · exact rec_snoc_used _ rfl (rec_sublist h List.filter_sublist) (fun a ha => (mem_remove ha).2)
    · rename_i hnone
      simp only
      apply rec_snoc_used _ rfl
      · split
        · unfold evict; split
          · exact rec_sublist h List.filter_sublist
          · exact rec_sublist h (List.tail_sublist _)
        · exact h
      · intro a ha
        have : a ∈ c.order := by
          split at ha
          · exact mem_evict ha
          · exact ha
        exact lookup_none hnone a this
  | get now k =>
    simp only [step, usedKey]
    rw [get_out]
    unfold get
    cases hl : lookup c.order k with
    | none => simp only; exact rec_log_snoc h (fun _ _ hc => by cases hc)
    | some e =>
      obtain ⟨hmem, hkey⟩ := lookup_some hl
      simp only
      by_cases hx : expired se now e = true
      · simp only [hx, if_true]
        exact rec_log_snoc (rec_sublist h List.filter_sublist) (fun _ _ hc => by simp at hc)
      · simp only [hx, Bool.false_eq_true, if_false, Option.isSome_some, if_true]
        exact rec_snoc_used e hkey (rec_sublist h List.filter_sublist) (fun a ha => (mem_remove ha).2)
  | del k =>
    simp only [step, delete, usedKey]
    exact rec_log_snoc (rec_sublist h List.filter_sublist) (fun _ _ hc => by cases hc)
  | clean now =>
    simp only [step, cleanup, usedKey]
    exact rec_log_snoc (rec_sublist h List.filter_sublist) (fun _ _ hc => by cases hc)

/-- the use log of a history -/
def useLog (se : Bool) : C → List Op → List (Option String)
  | _, [] => []
  | c, op :: t => usedKey se c op :: useLog se (step se c op) t

theorem rec_run (se : Bool) (ops : List Op) (c : C) (log : List (Option String)) (h : Rec c.order log) :
    Rec (run se c ops).order (log ++ useLog se c ops) := by
  unfold run
  induction ops generalizing c log with
  | nil => simpa [useLog] using h
  | cons op t ih =>
    simp only [List.foldl_cons, useLog]
    have := ih (step se c op) (log ++ [usedKey se c op]) (rec_step se c log op h)
    simpa [List.append_assoc] using this

/-- **C13: LRU survival.** Take any history from the empty cache. If storing a *new* key `x` makes an entry `e`
    disappear although `e` is unexpired and no expired entry was available, then at least `cap` distinct keys
    other than `e.key` have been used (stored, or looked up successfully) since `e`'s own last use — `x` included.
    Contrapositive: an unexpired entry is never lost while fewer than `cap` other keys have been used since its
    last use. -/
theorem lru_loss (se : Bool) (cap : Nat) (hc : 0 < cap) (ops : List Op) (now : Int) (x : String) (v : Nat) (ttl : Int)
    (e : Entry)
    (he : e ∈ (run se (init cap) ops).order) (hx : x ≠ e.key)
    (hlost : ∀ a ∈ (set se (run se (init cap) ops) now x v ttl).order, a.key ≠ e.key)
    (hnoexp : (run se (init cap) ops).order.find? (expired se now) = none) :
    ∃ used : List String, used.Nodup ∧ (∀ u ∈ used, u ≠ e.key) ∧ cap ≤ used.length ∧
      ∀ u ∈ used, u ∈ sinceOf e.key (useLog se (init cap) (ops ++ [.set now x v ttl])) := by
  have hinv0 : Inv (init cap) := ⟨by simp [init, NoDup], by simp [init]⟩
  obtain ⟨hinv, hcap⟩ := inv_run se (init cap) ops hc hinv0
  have hrec : Rec (run se (init cap) ops).order (useLog se (init cap) ops) := by
    have := rec_run se ops (init cap) [] (by simp [Rec, init])
    simpa using this
  generalize hcdef : run se (init cap) ops = c at *
  -- the log of the extended history
  have hlog : useLog se (init cap) (ops ++ [.set now x v ttl]) = useLog se (init cap) ops ++ [some x] := by
    have : ∀ (c0 : C) (l : List Op), useLog se c0 (l ++ [.set now x v ttl]) = useLog se c0 l ++ [some x] := by
      intro c0 l
      induction l generalizing c0 with
      | nil => simp [useLog, usedKey]
      | cons op t ih => simp [useLog, ih]
    exact this _ _
  rw [hlog]
  -- x was not in the cache (otherwise nothing is evicted and e stays)
  unfold set at hlost
  cases hl : lookup c.order x with
  | some e' =>
    simp only [hl] at hlost
    exact absurd rfl (hlost e (List.mem_append_left _ (mem_remove_of he (fun h => hx h.symm))))
  | none =>
    simp only [hl] at hlost
    have hxnot := lookup_none hl
    by_cases hfull : c.order.length ≥ c.cap
    · simp only [hfull, if_true] at hlost
      unfold evict at hlost
      simp only [hnoexp] at hlost
      -- e is not in the tail, so e is the head
      cases hord : c.order with
      | nil => rw [hord] at he; cases he
      | cons a rest =>
        rw [hord] at hlost he hrec hxnot
        have hea : e = a := by
          rcases List.mem_cons.mp he with h | h
          · exact h
          · exact absurd rfl (hlost e (by simp [h]))
        subst hea
        have hnd := hinv.1
        rw [hord] at hnd
        unfold NoDup at hnd
        simp only [List.map_cons, List.nodup_cons] at hnd
        have hlen : (e :: rest).length = cap := by
          have h1 := hinv.2
          rw [hord] at h1 hfull
          rw [hcap] at h1 hfull
          simp [init] at h1 hfull ⊢
          omega
        refine ⟨x :: rest.map (·.key), ?_, ?_, ?_, ?_⟩
        · simp only [List.nodup_cons]
          refine ⟨?_, hnd.2⟩
          intro hmem
          obtain ⟨b, hb, hbk⟩ := List.mem_map.mp hmem
          exact hxnot b (List.mem_cons_of_mem _ hb) hbk
        · intro u hu
          rcases List.mem_cons.mp hu with rfl | hu
          · exact hx
          · intro h; subst h; exact hnd.1 hu
        · simp at hlen ⊢; omega
        · intro u hu
          rcases List.mem_cons.mp hu with rfl | hu
          · exact mem_since_snoc_self hx
          · obtain ⟨b, hb, rfl⟩ := List.mem_map.mp hu
            apply mem_since_snoc_of_mem
            · unfold Rec at hrec
              exact (List.pairwise_cons.mp hrec).1 b hb
            · intro hcontra
              cases hcontra
              exact hx rfl
    · simp only [hfull, if_false] at hlost
      exact absurd rfl (hlost e (List.mem_append_left _ he))

end Oidc.Cache
