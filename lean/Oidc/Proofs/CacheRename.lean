import Oidc.Proofs.CacheImpl
/-!
# The abstract cache under an injective renaming of its keys; the abstract list a three-structure state represents

`TokenCache` stores every token under the key `"t-" ++ token`.  An injective renaming of keys commutes with every operation of
the abstract cache, so the token cache behaves like a cache keyed by the token itself.
-/
namespace Oidc.Cache

def renE (g : String → String) (e : Entry) : Entry := ⟨g e.key, e.val, e.exp⟩
def ren (g : String → String) (c : C) : C := ⟨c.cap, c.order.map (renE g)⟩

variable {g : String → String} (hg : ∀ a b, g a = g b → a = b)
include hg

theorem lookup_ren (l : List Entry) (k : String) : lookup (l.map (renE g)) (g k) = (lookup l k).map (renE g) := by
  unfold lookup
  induction l with
  | nil => rfl
  | cons e t ih =>
    simp only [List.map_cons, List.find?_cons, renE]
    by_cases h : e.key = k
    · subst h; simp [renE]
    · have h1 : (e.key == k) = false := by simpa using h
      have h2 : (g e.key == g k) = false := by
        simp only [beq_eq_false_iff_ne, ne_eq]; intro x; exact h (hg _ _ x)
      simp only [h1, h2]
      exact ih

theorem remove_ren (l : List Entry) (k : String) : remove (l.map (renE g)) (g k) = (remove l k).map (renE g) := by
  unfold remove
  induction l with
  | nil => rfl
  | cons e t ih =>
    simp only [List.map_cons, List.filter_cons, renE]
    by_cases h : e.key = k
    · subst h; simp [ih]
    · have h1 : (e.key != k) = true := by simpa using h
      have h2 : (g e.key != g k) = true := by
        simp only [bne_iff_ne, ne_eq]; intro x; exact h (hg _ _ x)
      simp only [h1, h2, if_true, List.map_cons, renE, ih]

omit hg in
theorem expired_ren (se : Bool) (now : Int) (e : Entry) : expired se now (renE g e) = expired se now e := rfl

omit hg in
theorem find_expired_ren (se : Bool) (now : Int) (l : List Entry) :
    (l.map (renE g)).find? (expired se now) = (l.find? (expired se now)).map (renE g) := by
  induction l with
  | nil => rfl
  | cons e t ih =>
    simp only [List.map_cons, List.find?_cons, expired_ren]
    cases expired se now e <;> simp [ih]

theorem evict_ren (se : Bool) (now : Int) (l : List Entry) : evict se now (l.map (renE g)) = (evict se now l).map (renE g) := by
  unfold evict
  rw [find_expired_ren]
  cases h : l.find? (expired se now) with
  | none => simp
  | some e =>
    simp only [Option.map_some]
    have : (renE g e).key = g e.key := rfl
    rw [this, remove_ren hg]

theorem get_ren (se : Bool) (c : C) (now : Int) (k : String) :
    get se (ren g c) now (g k) = (ren g (get se c now k).1, (get se c now k).2) := by
  unfold get ren
  simp only [lookup_ren hg]
  cases h : lookup c.order k with
  | none => rfl
  | some e =>
    simp only [Option.map_some, expired_ren]
    by_cases hx : expired se now e = true
    · simp only [hx, if_true, remove_ren hg]
    · simp only [hx, Bool.false_eq_true, if_false, remove_ren hg, List.map_append, List.map_cons, List.map_nil]
      rfl

theorem set_ren (se : Bool) (c : C) (now : Int) (k : String) (v : Nat) (ttl : Int) :
    set se (ren g c) now (g k) v ttl = ren g (set se c now k v ttl) := by
  unfold set ren
  simp only [lookup_ren hg, List.length_map]
  cases h : lookup c.order k with
  | some e =>
    simp only [Option.map_some, remove_ren hg, List.map_append, List.map_cons, List.map_nil]
    rfl
  | none =>
    simp only [Option.map_none]
    by_cases hfull : c.order.length ≥ c.cap
    · simp only [hfull, if_true, evict_ren hg, List.map_append, List.map_cons, List.map_nil]
      rfl
    · simp only [hfull, if_false, List.map_append, List.map_cons, List.map_nil]
      rfl

omit hg in
theorem cleanup_ren (se : Bool) (c : C) (now : Int) : cleanup se (ren g c) now = ren g (cleanup se c now) := by
  unfold cleanup ren
  simp only [List.filter_map]
  rfl

theorem delete_ren (c : C) (k : String) : delete (ren g c) (g k) = ren g (delete c k) := by
  unfold delete ren
  simp only [remove_ren hg]

end Oidc.Cache

namespace Oidc.CacheImpl
open Oidc.Cache

/-- the abstract list a three-structure state represents: its keys in list order, each with its item -/
def absA (i : Impl) : C := ⟨i.cap, i.order.filterMap (fun k => lookup i.items k)⟩

theorem R_absA {i : Impl} {a : C} (h : R i a) : a = absA i := by
  have hord : i.order.filterMap (fun k => lookup i.items k) = a.order := by
    rw [h.ord, List.filterMap_map]
    have : ∀ e ∈ a.order, ((fun k => lookup i.items k) ∘ (·.key)) e = some e := by
      intro e he
      simp only [Function.comp, h.look]
      exact lookup_of_mem h.nd he

    generalize a.order = l at this
    induction l with
    | nil => rfl
    | cons x t ih =>
      rw [List.filterMap_cons, this x (List.mem_cons_self)]
      simp only
      rw [ih (fun e he => this e (List.mem_cons_of_mem _ he))]
  cases a
  simp only [absA, hord]
  simp only at hord
  rw [← h.cap]

end Oidc.CacheImpl
