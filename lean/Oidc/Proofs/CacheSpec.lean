import Oidc.Proofs.Cache
/-! Refinement of the cache model to the simplest possible spec: "last stored, not deleted". -/
namespace Oidc.Cache

/-- what the spec remembers per key: value, instant of the Set, requested lifetime -/
abbrev Spec := String → Option (Nat × Int × Int)

def specStep (m : Spec) : Op → Spec
  | .set now k v ttl => fun k' => if k' = k then some (v, now, ttl) else m k'
  | .del k => fun k' => if k' = k then none else m k'
  | _ => m
def spec (ops : List Op) : Spec := ops.foldl specStep (fun _ => none)

/-- times never go backwards along the history and stay ≤ `hi` -/
def Mono : Int → List Op → Int → Prop
  | lo, [], hi => lo ≤ hi
  | lo, op :: t, hi =>
    match op.time with
    | some now => lo ≤ now ∧ Mono now t hi
    | none => Mono lo t hi

theorem Mono.le {lo ops hi} (h : Mono lo ops hi) : lo ≤ hi := by
  induction ops generalizing lo with
  | nil => exact h
  | cons op t ih =>
    unfold Mono at h
    split at h
    · exact Int.le_trans h.1 (ih h.2)
    · exact ih h

/-- everything in the cache is what the spec says was last stored, with its expiry = set time + ttl,
    and no stored Set lies in the future of `last` -/
def Sound (c : C) (m : Spec) (last : Int) : Prop :=
  (∀ e ∈ c.order, ∃ ts ttl, m e.key = some (e.val, ts, ttl) ∧ e.exp = ts + ttl) ∧
  (∀ k v ts ttl, m k = some (v, ts, ttl) → ts ≤ last)

theorem sound_step (se) (c : C) (m : Spec) (last : Int) (op : Op) (h : Sound c m last)
    (hlast : ∀ now, op.time = some now → last ≤ now) :
    Sound (step se c op) (specStep m op) (match op.time with | some now => now | none => last) := by
  obtain ⟨h1, h2⟩ := h
  cases op with
  | set now k v ttl =>
    have hl := hlast now rfl
    refine ⟨?_, ?_⟩
    · intro e he
      simp only [step, set] at he
      simp only [specStep]
      split at he
      · simp only [List.mem_append, List.mem_singleton] at he
        rcases he with he | he
        · have := mem_remove he
          simp only [this.2, if_false]; exact h1 e this.1
        · subst he; exact ⟨now, ttl, by simp, rfl⟩
      · rename_i hnone
        simp only [List.mem_append, List.mem_singleton] at he
        rcases he with he | he
        · have hin : e ∈ c.order := by
            split at he
            · exact mem_evict he
            · exact he
          have hk : e.key ≠ k := lookup_none hnone e hin
          simp only [hk, if_false]; exact h1 e hin
        · subst he; exact ⟨now, ttl, by simp, rfl⟩
    · intro k' v' ts ttl' hm
      simp only [specStep] at hm
      simp only [Op.time]
      split at hm
      · cases hm; exact Int.le_refl _
      · exact Int.le_trans (h2 _ _ _ _ hm) hl
  | get now k =>
    have hl := hlast now rfl
    refine ⟨?_, fun k' v' ts ttl' hm => Int.le_trans (h2 _ _ _ _ hm) hl⟩
    intro e he
    simp only [step, get] at he
    simp only [specStep]
    split at he
    · exact h1 e he
    · rename_i e' hlk
      split at he
      · exact h1 e (mem_remove he).1
      · simp only [List.mem_append, List.mem_singleton] at he
        rcases he with he | he
        · exact h1 e (mem_remove he).1
        · subst he; exact h1 e (lookup_some hlk).1
  | del k =>
    refine ⟨?_, ?_⟩
    · intro e he
      simp only [step, delete] at he
      simp only [specStep]
      have := mem_remove he
      simp only [this.2, if_false]; exact h1 e this.1
    · intro k' v' ts ttl' hm
      simp only [specStep] at hm
      simp only [Op.time]
      split at hm
      · cases hm
      · exact h2 _ _ _ _ hm
  | clean now =>
    have hl := hlast now rfl
    refine ⟨?_, fun k' v' ts ttl' hm => Int.le_trans (h2 _ _ _ _ hm) hl⟩
    intro e he
    simp only [step, cleanup] at he
    exact h1 e (List.mem_filter.mp he).1

theorem sound_run (se) (ops : List Op) (c : C) (m : Spec) (lo hi : Int) (h : Sound c m lo)
    (hm : Mono lo ops hi) : Sound (ops.foldl (step se) c) (ops.foldl specStep m) hi := by
  induction ops generalizing c m lo with
  | nil =>
    exact ⟨h.1, fun k v ts ttl hk => Int.le_trans (h.2 k v ts ttl hk) hm⟩
  | cons op t ih =>
    simp only [List.foldl_cons]
    unfold Mono at hm
    cases hot : op.time with
    | some now =>
      simp only [hot] at hm
      have := sound_step se c m lo op h (fun n hn => by rw [hot] at hn; cases hn; exact hm.1)
      simp only [hot] at this
      exact ih _ _ now this hm.2
    | none =>
      simp only [hot] at hm
      have := sound_step se c m lo op h (fun n hn => by rw [hot] at hn; cases hn)
      simp only [hot] at this
      exact ih _ _ lo this hm

/-- **C12 soundness.** On every history with a non-decreasing clock, a hit returns the value of the most
    recent `Set` of that key that was not followed by a `Delete`; that `Set` is not in the future and its
    lifetime has not elapsed according to the code's comparison. -/
theorem get_sound (se : Bool) (cap : Nat) (ops : List Op) (t0 now : Int) (k : String) (v : Nat)
    (hm : Mono t0 ops now)
    (h : (get se (run se (init cap) ops) now k).2 = some v) :
    ∃ ts ttl, spec ops k = some (v, ts, ttl) ∧ ts ≤ now ∧
      (if se then now ≤ ts + ttl else now < ts + ttl) := by
  have hs : Sound (run se (init cap) ops) (spec ops) now :=
    sound_run se ops (init cap) (fun _ => none) t0 now
      ⟨fun e he => by simp [init] at he, fun _ _ _ _ h => by simp at h⟩ hm
  unfold get at h
  split at h
  · cases h
  · rename_i e hl
    split at h
    · cases h
    · rename_i hne
      simp only [Option.some.injEq] at h; subst h
      obtain ⟨hmem, hkey⟩ := lookup_some hl
      obtain ⟨ts, ttl, hsp, hexp⟩ := hs.1 e hmem
      refine ⟨ts, ttl, by rw [← hkey]; exact hsp, hs.2 _ _ _ _ hsp, ?_⟩
      unfold expired at hne
      cases se <;> simp at hne ⊢ <;> omega

/-- **C12: entries stored with a non-positive lifetime are never observable** once the comparison is
    `now ≥ exp` (fact `se = false`). -/
theorem nonpositive_invisible (cap : Nat) (ops : List Op) (t0 now : Int) (k : String) (v : Nat)
    (hm : Mono t0 ops now)
    (h : (get false (run false (init cap) ops) now k).2 = some v) :
    ∃ ts ttl, spec ops k = some (v, ts, ttl) ∧ 0 < ttl := by
  obtain ⟨ts, ttl, hsp, hts, hlive⟩ := get_sound false cap ops t0 now k v hm h
  exact ⟨ts, ttl, hsp, by simp at hlive; omega⟩

/-- with the strict comparison the same holds except for a lookup at the very instant of a zero-lifetime Set -/
theorem nonpositive_invisible_strict (cap : Nat) (ops : List Op) (t0 now : Int) (k : String) (v : Nat)
    (hm : Mono t0 ops now)
    (h : (get true (run true (init cap) ops) now k).2 = some v) :
    ∃ ts ttl, spec ops k = some (v, ts, ttl) ∧ (0 < ttl ∨ (ttl = 0 ∧ now = ts)) := by
  obtain ⟨ts, ttl, hsp, hts, hlive⟩ := get_sound true cap ops t0 now k v hm h
  exact ⟨ts, ttl, hsp, by simp at hlive; omega⟩

/-- the boundary case is real for the strict comparison (regression witness for F14) -/
theorem zero_ttl_visible_strict :
    (get true (run true (init 500) [.set 7 "k" 1 0]) 7 "k").2 = some 1 := by decide

theorem zero_ttl_invisible_nonstrict :
    (get false (run false (init 500) [.set 7 "k" 1 0]) 7 "k").2 = none := by decide

/-- output of `Get` as a function of the looked-up entry -/
theorem get_out (se : Bool) (c : C) (now : Int) (k : String) :
    (get se c now k).2 = match lookup c.order k with
      | some e => if expired se now e then none else some e.val
      | none => none := by
  unfold get
  split
  · rename_i h; simp [h]
  · rename_i e h
    simp only [h]
    split <;> rfl

theorem lookup_filter (l : List Entry) (p : Entry → Bool) (k : String) (h : NoDup l) :
    lookup (l.filter p) k = (lookup l k).filter p := by
  unfold lookup
  induction l with
  | nil => simp
  | cons a t ih =>
    have hnd : NoDup t := nodup_tail (a :: t) h
    have ih := ih hnd
    simp only [List.filter_cons, List.find?_cons]
    by_cases hk : (a.key == k) = true
    · simp only [hk]
      by_cases hp : p a = true
      · simp [hp, hk, Option.filter]
      · simp only [hp, Bool.false_eq_true, if_false]
        -- no other entry carries key k
        have hnone : List.find? (fun x => x.key == k) t = none := by
          apply List.find?_eq_none.mpr
          intro x hx hxk
          unfold NoDup at h
          simp only [List.map_cons, List.nodup_cons] at h
          apply h.1
          have : x.key = a.key := by
            have h1 : x.key = k := by simpa using hxk
            have h2 : a.key = k := by simpa using hk
            rw [h1, h2]
          rw [← this]
          exact List.mem_map.mpr ⟨x, hx, rfl⟩
        rw [ih, hnone]; simp [hp, Option.filter]
    · simp only [hk]
      by_cases hp : p a = true
      · simp [hp, hk, ih]
      · simp [hp, ih]

/-- **C12: Cleanup is invisible to lookups** at any instant not earlier than the cleanup
    (so it removes only entries whose lifetime has elapsed, and no live entry is lost). -/
theorem cleanup_transparent (se : Bool) (c : C) (tc now : Int) (k : String) (hinv : NoDup c.order)
    (h : tc ≤ now) : (get se (cleanup se c tc) now k).2 = (get se c now k).2 := by
  rw [get_out, get_out]
  simp only [cleanup]
  rw [lookup_filter _ _ _ hinv]
  cases hl : lookup c.order k with
  | none => simp
  | some e =>
    simp only [Option.filter]
    by_cases hexp : expired se tc e = true
    · have hexpn : expired se now e = true := by
        unfold expired at hexp ⊢
        cases se <;> simp at hexp ⊢ <;> omega
      simp [hexp, hexpn]
    · simp [hexp]

/-- what `Cleanup` removes is exactly the expired entries -/
theorem cleanup_removes_only_expired (se : Bool) (c : C) (tc : Int) (e : Entry) :
    e ∈ (cleanup se c tc).order ↔ e ∈ c.order ∧ expired se tc e = false := by
  simp [cleanup, List.mem_filter]

end Oidc.Cache
