import Oidc.Generated.Code
import Oidc.Proofs.CacheImpl
import Oidc.Proofs.CodeJwt
/-!
# cache.go as translated from the source refines the three-structure model `Oidc.CacheImpl` (with the non-strict expiry test)

`abs enc c` reads a translated cache struct as the model's `Impl` (keys as strings, values through any `enc : Go.Any → Nat`).
Under the invariant `Inv` — the model-level representation relation `R` holds of `abs c` for some abstract list (which includes
the mutual consistency of the three structures and the absence of duplicates in the LRU list), every entry of `elems` maps a key
to the list element holding that very key, and the capacity is not negative — each translated method computes the model's
operation and preserves the invariant.
-/
namespace Oidc.CodeRefine
open Oidc Oidc.Generated Oidc.Cache Oidc.CacheImpl

def absEntry (enc : Go.Any → Nat) (p : Go.Str × Go.CacheItem) : Entry := ⟨String.ofList p.1, enc p.2.Value, p.2.ExpiresAt⟩

def absC (enc : Go.Any → Nat) (c : Go.CacheS) : Impl :=
  { cap := c.maxSize.toNat, items := c.items.map (absEntry enc), order := c.order.map String.ofList,
    elems := c.elems.map (fun p => String.ofList p.1) }

structure CInv (enc : Go.Any → Nat) (c : Go.CacheS) : Prop where
  handles : ∀ p ∈ c.elems, p.2 = p.1
  cap : 0 ≤ c.maxSize
  rep : ∃ a, R (absC enc c) a

theorem ofList_beq (a b : Go.Str) : (String.ofList a == String.ofList b) = (a == b) := by
  rw [Bool.eq_iff_iff]; simp [ofList_inj]
theorem ofList_bne (a b : Go.Str) : (String.ofList a != String.ofList b) = (a != b) := by
  simp only [bne, ofList_beq]

/-! ### the maps -/
theorem abs_cmapDel (enc : Go.Any → Nat) (m : List (Go.Str × Go.CacheItem)) (k : Go.Str) :
    (Go.cmapDel m k).map (absEntry enc) = mdel (m.map (absEntry enc)) (String.ofList k) := by
  unfold Go.cmapDel mdel remove
  induction m with
  | nil => rfl
  | cons p t ih =>
    simp only [List.filter_cons, List.map_cons, absEntry, ofList_bne]
    cases (p.1 != k) <;> simp [ih, absEntry]

theorem abs_cmapSet (enc : Go.Any → Nat) (m : List (Go.Str × Go.CacheItem)) (k : Go.Str) (v : Go.CacheItem) :
    (Go.cmapSet m k v).map (absEntry enc) = mset (m.map (absEntry enc)) (absEntry enc (k, v)) := by
  have h := abs_cmapDel enc m k
  unfold Go.cmapDel mdel at h
  unfold Go.cmapSet mset
  rw [List.map_append, h]
  rfl

theorem abs_cmapGet (enc : Go.Any → Nat) (m : List (Go.Str × Go.CacheItem)) (k : Go.Str) :
    mget (m.map (absEntry enc)) (String.ofList k) =
      (if (Go.cmapGet m k).2 then some (absEntry enc (k, (Go.cmapGet m k).1)) else none) := by
  unfold Go.cmapGet mget lookup
  induction m with
  | nil => simp
  | cons p t ih =>
    simp only [List.map_cons, List.find?_cons, absEntry, ofList_beq]
    by_cases h : p.1 = k
    · subst h; simp
    · have : (p.1 == k) = false := by simpa using h
      simp only [this]
      exact ih

theorem mem_elems_keys (m : List (Go.Str × Go.Elem)) (k : Go.Str) :
    String.ofList k ∈ m.map (fun p => String.ofList p.1) ↔ (Go.emapGet m k).2 = true := by
  unfold Go.emapGet
  induction m with
  | nil => simp
  | cons p t ih =>
    simp only [List.map_cons, List.mem_cons, List.find?_cons, ofList_inj]
    by_cases h : p.1 = k
    · subst h; simp
    · have h' : (p.1 == k) = false := by simpa using h
      have h'' : ¬ k = p.1 := fun e => h e.symm
      simp only [h', h'', false_or]
      exact ih

theorem emapGet_handle (m : List (Go.Str × Go.Elem)) (k : Go.Str) (hh : ∀ p ∈ m, p.2 = p.1) (hf : (Go.emapGet m k).2 = true) :
    (Go.emapGet m k).1 = some k := by
  unfold Go.emapGet at hf ⊢
  cases hfind : m.find? (fun p => p.1 == k) with
  | none => simp [hfind] at hf
  | some p =>
    have hm := List.mem_of_find?_eq_some hfind
    have hk := List.find?_some hfind
    simp only [beq_iff_eq] at hk
    simp only [hfind]
    rw [hh p hm, hk]

theorem abs_emapDel (m : List (Go.Str × Go.Elem)) (k : Go.Str) (hnd : (m.map (fun p => String.ofList p.1)).Nodup) :
    (Go.emapDel m k).map (fun p => String.ofList p.1) = (m.map (fun p => String.ofList p.1)).erase (String.ofList k) := by
  unfold Go.emapDel
  induction m with
  | nil => rfl
  | cons p t ih =>
    simp only [List.map_cons, List.nodup_cons] at hnd
    simp only [List.filter_cons, List.map_cons]
    by_cases h : p.1 = k
    · subst h
      simp only [bne_self_eq_false, Bool.false_eq_true, if_false, List.erase_cons_head]
      rw [ih hnd.2, List.erase_of_not_mem hnd.1]
    · have h1 : (p.1 != k) = true := by simpa using h
      have h2 : ¬ String.ofList p.1 = String.ofList k := by rw [ofList_inj]; exact h
      simp only [h1, if_true, List.map_cons]
      rw [List.erase_cons_tail (by simpa using h2), ih hnd.2]

theorem map_erase_ofList (l : List Go.Str) (k : Go.Str) :
    (l.erase k).map String.ofList = (l.map String.ofList).erase (String.ofList k) := by
  induction l with
  | nil => rfl
  | cons x t ih =>
    by_cases h : x = k
    · subst h; simp
    · have h2 : ¬ String.ofList x = String.ofList k := by rw [ofList_inj]; exact h
      rw [List.erase_cons_tail (by simpa using h), List.map_cons, List.map_cons, List.erase_cons_tail (by simpa using h2), ih]

/-! ### `removeItem` -/
theorem removeItem_refines (enc : Go.Any → Nat) (c : Go.CacheS) (k : Go.Str) (h : CInv enc c) :
    absC enc (Code.Cache_removeItem c k) = removeItem (absC enc c) (String.ofList k) := by
  obtain ⟨a, hR⟩ := h.rep
  unfold Code.Cache_removeItem removeItem
  simp only []
  have hmem := mem_elems_keys c.elems k
  by_cases hf : (Go.emapGet c.elems k).2 = true
  · have hin : String.ofList k ∈ (absC enc c).elems := hmem.mpr hf
    have hh := emapGet_handle c.elems k h.handles hf
    rcases hg : Go.emapGet c.elems k with ⟨e, ok⟩
    rw [hg] at hf hh
    simp only at hf hh
    subst hf; subst hh
    simp only [if_true, hin]
    unfold absC
    simp only [abs_cmapDel, Go.listRemove, map_erase_ofList]
    rw [abs_emapDel c.elems k hR.ndel]
  · have hin : ¬ String.ofList k ∈ (absC enc c).elems := fun x => hf (hmem.mp x)
    rcases hg : Go.emapGet c.elems k with ⟨e, ok⟩
    rw [hg] at hf
    simp only at hf
    have : ok = false := by cases ok <;> simp_all
    subst this
    simp only [Bool.false_eq_true, if_false, hin]
    unfold absC
    simp only [abs_cmapDel]

theorem mem_map_ofList (l : List Go.Str) (k : Go.Str) : String.ofList k ∈ l.map String.ofList ↔ k ∈ l := by
  simp only [List.mem_map]
  constructor
  · rintro ⟨x, hx, he⟩; rw [ofList_inj] at he; rw [← he]; exact hx
  · intro h; exact ⟨k, h, rfl⟩

/-- the invariant after a step whose abstraction is a model step that preserves `R` -/
theorem CInv_of (enc : Go.Any → Nat) (c' : Go.CacheS) (a' : C) (hR : R (absC enc c') a')
    (hh : ∀ p ∈ c'.elems, p.2 = p.1) (hc : 0 ≤ c'.maxSize) : CInv enc c' := ⟨hh, hc, ⟨a', hR⟩⟩

theorem removeItem_elems (c : Go.CacheS) (k : Go.Str) : ∀ p ∈ (Code.Cache_removeItem c k).elems, p ∈ c.elems := by
  intro p hp
  unfold Code.Cache_removeItem at hp
  simp only [] at hp
  split at hp
  · simp only [Go.emapDel, List.mem_filter] at hp; exact hp.1
  · exact hp

theorem removeItem_items (c : Go.CacheS) (k : Go.Str) : ∀ p ∈ (Code.Cache_removeItem c k).items, p ∈ c.items := by
  intro p hp
  unfold Code.Cache_removeItem at hp
  simp only [] at hp
  split at hp <;> (simp only [Go.cmapDel, List.mem_filter] at hp; exact hp.1)

theorem removeItem_maxSize (c : Go.CacheS) (k : Go.Str) : (Code.Cache_removeItem c k).maxSize = c.maxSize := by
  unfold Code.Cache_removeItem
  simp only []
  split <;> rfl

theorem removeItem_inv (enc : Go.Any → Nat) (c : Go.CacheS) (k : Go.Str) (h : CInv enc c) : CInv enc (Code.Cache_removeItem c k) := by
  obtain ⟨a, hR⟩ := h.rep
  refine CInv_of enc _ ⟨a.cap, remove a.order (String.ofList k)⟩ ?_ ?_ ?_
  · rw [removeItem_refines enc c k h]; exact R_removeItem hR _
  · intro p hp; exact h.handles p (removeItem_elems c k p hp)
  · rw [removeItem_maxSize]; exact h.cap

/-! ### `Delete` -/
theorem Delete_refines (enc : Go.Any → Nat) (c : Go.CacheS) (k : Go.Str) (h : CInv enc c) :
    absC enc (Code.Cache_Delete c k) = CacheImpl.delete (absC enc c) (String.ofList k) ∧ CInv enc (Code.Cache_Delete c k) :=
  ⟨removeItem_refines enc c k h, removeItem_inv enc c k h⟩

/-! ### moving the element of a key to the back of the list -/
theorem moveToBack_refines (enc : Go.Any → Nat) (c : Go.CacheS) (k : Go.Str) (hh : ∀ p ∈ c.elems, p.2 = p.1)
    (hel : ∀ x, x ∈ (absC enc c).elems ↔ x ∈ (absC enc c).order) :
    absC enc (if (Go.emapGet c.elems k).2 = true then { c with order := Go.listMoveToBack c.order (Go.emapGet c.elems k).1 } else c) =
      moveToBack (absC enc c) (String.ofList k) := by
  unfold moveToBack
  have hmem := mem_elems_keys c.elems k
  by_cases hf : (Go.emapGet c.elems k).2 = true
  · have hin : String.ofList k ∈ (absC enc c).elems := hmem.mpr hf
    have hord : k ∈ c.order := (mem_map_ofList c.order k).mp ((hel _).mp hin)
    rw [emapGet_handle c.elems k hh hf]
    simp only [hf, if_true, hin]
    unfold absC Go.listMoveToBack
    simp only [hord, if_true, List.map_append, map_erase_ofList, List.map_cons, List.map_nil]
  · have hin : ¬ String.ofList k ∈ (absC enc c).elems := fun x => hf (hmem.mp x)
    simp only [hf, hin, if_false]
    rfl

/-! ### `Get` -/
theorem Get_refines (enc : Go.Any → Nat) (now : Int) (c : Go.CacheS) (k : Go.Str) (h : CInv enc c) :
    absC enc (Code.Cache_Get now c k).2 = (CacheImpl.get false (absC enc c) now (String.ofList k)).1 ∧
    (if (Code.Cache_Get now c k).1.2 then some (enc (Code.Cache_Get now c k).1.1) else none) =
      (CacheImpl.get false (absC enc c) now (String.ofList k)).2 := by
  obtain ⟨a, hR⟩ := h.rep
  unfold Code.Cache_Get CacheImpl.get
  have hg : mget (absC enc c).items (String.ofList k) =
      (if (Go.cmapGet c.items k).2 then some (absEntry enc (k, (Go.cmapGet c.items k).1)) else none) := abs_cmapGet enc c.items k
  rw [hg]
  rcases hgi : Go.cmapGet c.items k with ⟨item, ex⟩
  simp only []
  cases ex
  · simp
  · simp only [Bool.not_true, Bool.false_eq_true, if_false, if_true]
    have hexp : expired false now (absEntry enc (k, item)) = !(Go.timeBefore now item.ExpiresAt) := by
      unfold expired absEntry Go.timeBefore
      simp only [Bool.false_eq_true, if_false]
      by_cases hlt : now < item.ExpiresAt
      · have : ¬ now ≥ item.ExpiresAt := by omega
        simp [hlt, this]
      · have : now ≥ item.ExpiresAt := by omega
        simp [hlt, this]
    rw [hexp]
    cases hb : Go.timeBefore now item.ExpiresAt
    · simp only [Bool.not_false, if_true]
      exact ⟨removeItem_refines enc c k h, rfl⟩
    · simp only [Bool.not_true, Bool.false_eq_true, if_false]
      have hm := moveToBack_refines enc c k h.handles hR.el
      rcases hge : Go.emapGet c.elems k with ⟨e, ok⟩
      rw [hge] at hm
      simp only at hm
      cases ok
      · simp only [Bool.false_eq_true, if_false] at hm ⊢
        exact ⟨hm, rfl⟩
      · simp only [if_true] at hm ⊢
        exact ⟨hm, rfl⟩

theorem Get_inv (enc : Go.Any → Nat) (now : Int) (c : Go.CacheS) (k : Go.Str) (h : CInv enc c) :
    CInv enc (Code.Cache_Get now c k).2 := by
  obtain ⟨a, hR⟩ := h.rep
  refine CInv_of enc _ (Cache.get false a now (String.ofList k)).1 ?_ ?_ ?_
  · rw [(Get_refines enc now c k h).1]; exact (R_get false now _ hR).1
  · intro p hp
    unfold Code.Cache_Get at hp
    simp only [] at hp
    split at hp
    · exact h.handles p hp
    · split at hp
      · exact h.handles p (removeItem_elems c k p hp)
      · split at hp <;> exact h.handles p hp
  · unfold Code.Cache_Get
    simp only []
    split
    · exact h.cap
    · split
      · rw [removeItem_maxSize]; exact h.cap
      · split <;> exact h.cap

theorem Get_items (now : Int) (c : Go.CacheS) (k : Go.Str) :
    (∀ p ∈ (Code.Cache_Get now c k).2.items, p ∈ c.items) ∧
    ((Code.Cache_Get now c k).1.2 = true → ∃ p ∈ c.items, p.2.Value = (Code.Cache_Get now c k).1.1) := by
  unfold Code.Cache_Get
  simp only []
  have hfind : (Go.cmapGet c.items k).2 = true → ∃ p ∈ c.items, p.2 = (Go.cmapGet c.items k).1 := by
    unfold Go.cmapGet
    cases hf : c.items.find? (fun p => p.1 == k) with
    | none => simp
    | some p => intro _; exact ⟨p, List.mem_of_find?_eq_some hf, rfl⟩
  rcases hg : Go.cmapGet c.items k with ⟨item, ex⟩
  rw [hg] at hfind
  simp only at hfind
  cases ex
  · simp
  · obtain ⟨p, hp, hpe⟩ := hfind rfl
    simp only [Bool.not_true, Bool.false_eq_true, if_false]
    split
    · exact ⟨removeItem_items c k, by simp⟩
    · split
      · exact ⟨fun p hp => hp, fun _ => ⟨p, hp, by rw [hpe]⟩⟩
      · exact ⟨fun p hp => hp, fun _ => ⟨p, hp, by rw [hpe]⟩⟩

/-! ### `evictOldest`: walking the list from the front to the first expired entry -/
theorem listNext_suffix (pre : List Go.Str) (x : Go.Str) (s' : List Go.Str) (hnd : (pre ++ x :: s').Nodup) :
    Go.listNext (pre ++ x :: s') (some x) = s'.head? := by
  induction pre with
  | nil => simp [Go.listNext]
  | cons y pre ih =>
    have hne : ¬ y = x := by
      intro e; subst e
      simp only [List.cons_append, List.nodup_cons, List.mem_append, List.mem_cons, true_or, or_true, not_true_eq_false, false_and] at hnd
    simp only [List.cons_append, Go.listNext, hne, if_false]
    exact ih (List.nodup_cons.mp hnd).2

/-- is the entry of this key present and expired (non-strict comparison) -/
def expiredAt (now : Int) (c : Go.CacheS) (k : Go.Str) : Bool :=
  (Go.cmapGet c.items k).2 && !(Go.timeBefore now (Go.cmapGet c.items k).1.ExpiresAt)

theorem evictLoop (now : Int) (c : Go.CacheS)
    (cond : Go.CacheS × Option Go.Elem → Bool) (body : Go.CacheS × Option Go.Elem → Go.Ctl (Go.CacheS × Option Go.Elem) Go.CacheS)
    (hc : ∀ c e, cond (c, e) = e.isSome)
    (hb : ∀ c e, body (c, e) = if expiredAt now c (Go.lruKey (Go.elemValue e)) then .ret (Code.Cache_removeItem c (Go.lruKey (Go.elemValue e)))
                               else .next (c, Go.listNext c.order e))
    (hnd : c.order.Nodup) :
    ∀ (s pre : List Go.Str) (fuel : Nat), c.order = pre ++ s → s.length < fuel →
      Go.forWhile fuel (c, s.head?) cond body =
        some (match s.find? (expiredAt now c) with | some k => .ret (Code.Cache_removeItem c k) | none => .next (c, none)) := by
  intro s
  induction s with
  | nil =>
    intro pre fuel _ hf
    cases fuel with
    | zero => omega
    | succ f => unfold Go.forWhile; simp [hc]
  | cons x s' ih =>
    intro pre fuel hpre hf
    cases fuel with
    | zero => omega
    | succ f =>
      unfold Go.forWhile
      simp only [hc, List.head?_cons, Option.isSome_some, if_true, hb, Go.elemValue, Option.getD_some, Go.lruKey, List.find?_cons]
      by_cases hx : expiredAt now c x = true
      · simp [hx]
      · have hx' : expiredAt now c x = false := by simpa using hx
        simp only [hx', Bool.false_eq_true, if_false]
        have hn : Go.listNext c.order (some x) = s'.head? := by rw [hpre]; exact listNext_suffix pre x s' (hpre ▸ hnd)
        rw [hn]
        exact ih (pre ++ [x]) f (by rw [hpre]; simp) (by simp only [List.length_cons] at hf; omega)

theorem expiredKey_abs (enc : Go.Any → Nat) (now : Int) (c : Go.CacheS) (k : Go.Str) :
    expiredKey false now (absC enc c).items (String.ofList k) = expiredAt now c k := by
  unfold expiredKey expiredAt
  have hg : mget (absC enc c).items (String.ofList k) =
      (if (Go.cmapGet c.items k).2 then some (absEntry enc (k, (Go.cmapGet c.items k).1)) else none) := abs_cmapGet enc c.items k
  rw [hg]
  rcases Go.cmapGet c.items k with ⟨item, ex⟩
  cases ex
  · simp
  · simp only [if_true, Bool.true_and]
    unfold expired absEntry Go.timeBefore
    simp only [Bool.false_eq_true, if_false]
    by_cases hlt : now < item.ExpiresAt
    · have : ¬ now ≥ item.ExpiresAt := by omega
      simp [hlt, this]
    · have : now ≥ item.ExpiresAt := by omega
      simp [hlt, this]

theorem find_abs (enc : Go.Any → Nat) (now : Int) (c : Go.CacheS) (l : List Go.Str) :
    (l.map String.ofList).find? (expiredKey false now (absC enc c).items) = (l.find? (expiredAt now c)).map String.ofList := by
  induction l with
  | nil => rfl
  | cons x t ih =>
    simp only [List.map_cons, List.find?_cons, expiredKey_abs]
    cases expiredAt now c x <;> simp [ih]

theorem nodup_of_map_ofList (l : List Go.Str) (h : (l.map String.ofList).Nodup) : l.Nodup := by
  induction l with
  | nil => exact List.nodup_nil
  | cons x t ih =>
    simp only [List.map_cons, List.nodup_cons] at h ⊢
    exact ⟨fun hx => h.1 ((mem_map_ofList t x).mpr hx), ih h.2⟩

theorem evictOldest_refines (enc : Go.Any → Nat) (now : Int) (c : Go.CacheS) (h : CInv enc c) (fuel : Nat) (hf : c.order.length < fuel) :
    ∃ c', Code.Cache_evictOldest fuel now c = some c' ∧ absC enc c' = evictOldest false now (absC enc c) ∧ CInv enc c' ∧
      (∀ p ∈ c'.elems, p ∈ c.elems) ∧ c'.maxSize = c.maxSize ∧ (∀ p ∈ c'.items, p ∈ c.items) := by
  obtain ⟨a, hR⟩ := h.rep
  have hnd : c.order.Nodup := by
    have := hR.ordNodup
    unfold absC at this
    exact nodup_of_map_ofList _ this
  have hmodel : evictOldest false now (absC enc c) =
      (match c.order.find? (expiredAt now c) with
        | some k => removeItem (absC enc c) (String.ofList k)
        | none => match c.order.head? with | some k => removeItem (absC enc c) (String.ofList k) | none => absC enc c) := by
    unfold evictOldest
    have : (absC enc c).order = c.order.map String.ofList := rfl
    rw [this, find_abs]
    cases c.order.find? (expiredAt now c) with
    | some k => rfl
    | none =>
      simp only [Option.map_none]
      cases c.order with
      | nil => rfl
      | cons x t => rfl
  have key : ∀ (cond : Go.CacheS × Option Go.Elem → Bool) (body : Go.CacheS × Option Go.Elem → Go.Ctl (Go.CacheS × Option Go.Elem) Go.CacheS),
      (∀ c e, cond (c, e) = e.isSome) →
      (∀ c e, body (c, e) = if expiredAt now c (Go.lruKey (Go.elemValue e)) then .ret (Code.Cache_removeItem c (Go.lruKey (Go.elemValue e)))
                             else .next (c, Go.listNext c.order e)) →
      Go.forWhile fuel (c, Go.listFront c.order) cond body =
        some (match c.order.find? (expiredAt now c) with | some k => .ret (Code.Cache_removeItem c k) | none => .next (c, none)) := by
    intro cond body hc hb
    exact evictLoop now c cond body hc hb hnd c.order [] fuel rfl hf
  have hres : Code.Cache_evictOldest fuel now c = some (match c.order.find? (expiredAt now c) with
      | some k => Code.Cache_removeItem c k
      | none => match c.order.head? with | some k => Code.Cache_removeItem c k | none => c) := by
    unfold Code.Cache_evictOldest
    simp only []
    rw [key _ _ (by intro c e; rfl) (by
      intro c e
      unfold expiredAt
      rcases Go.cmapGet c.items (Go.lruKey (Go.elemValue e)) with ⟨item, ex⟩
      cases ex <;> simp)]
    cases c.order.find? (expiredAt now c) with
    | some k => rfl
    | none =>
      simp only [Go.listFront]
      cases c.order with
      | nil => rfl
      | cons x t => simp [Go.elemValue, Go.lruKey]
  refine ⟨_, hres, ?_, ?_, ?_, ?_, ?_⟩
  · rw [hmodel]
    cases c.order.find? (expiredAt now c) with
    | some k => exact removeItem_refines enc c k h
    | none =>
      cases c.order.head? with
      | some k => exact removeItem_refines enc c k h
      | none => rfl
  · cases c.order.find? (expiredAt now c) with
    | some k => exact removeItem_inv enc c k h
    | none =>
      cases c.order.head? with
      | some k => exact removeItem_inv enc c k h
      | none => exact h
  · cases c.order.find? (expiredAt now c) with
    | some k => exact removeItem_elems c k
    | none =>
      cases c.order.head? with
      | some k => exact removeItem_elems c k
      | none => exact fun p hp => hp
  · cases c.order.find? (expiredAt now c) with
    | some k => exact removeItem_maxSize c k
    | none =>
      cases c.order.head? with
      | some k => exact removeItem_maxSize c k
      | none => rfl
  · cases c.order.find? (expiredAt now c) with
    | some k => exact removeItem_items c k
    | none =>
      cases c.order.head? with
      | some k => exact removeItem_items c k
      | none => exact fun p hp => hp

/-! ### `Set` -/
theorem emapSet_new (m : List (Go.Str × Go.Elem)) (k : Go.Str) (hn : (Go.emapGet m k).2 = false) :
    Go.emapSet m k (some k) = (k, k) :: m := by
  unfold Go.emapSet
  simp only [Option.getD_some, List.cons.injEq, true_and]
  unfold Go.emapGet at hn
  induction m with
  | nil => rfl
  | cons p t ih =>
    simp only [List.find?_cons] at hn
    by_cases hp : p.1 = k
    · simp [hp] at hn
    · have hp' : (p.1 == k) = false := by simpa using hp
      have hp'' : (p.1 != k) = true := by simpa using hp
      simp only [hp'] at hn
      simp only [List.filter_cons, hp'', if_true, ih hn]

/-- what `Set` does for a new key once room has been made: store the item, push the key to the back, remember its element -/
def setNew (c1 : Go.CacheS) (k : Go.Str) (v : Go.Any) (exp : Int) : Go.CacheS :=
  { c1 with items := Go.cmapSet c1.items k ⟨v, exp⟩, order := c1.order ++ [k], elems := Go.emapSet c1.elems k (some k) }

theorem setNew_abs (enc : Go.Any → Nat) (c c1 : Go.CacheS) (k : Go.Str) (v : Go.Any) (exp : Int)
    (hnotel : (Go.emapGet c.elems k).2 = false) (h1 : CInv enc c1) (hsub : ∀ p ∈ c1.elems, p ∈ c.elems) :
    absC enc (setNew c1 k v exp) =
      { cap := (absC enc c1).cap, items := mset (absC enc c1).items ⟨String.ofList k, enc v, exp⟩,
        order := (absC enc c1).order ++ [String.ofList k], elems := String.ofList k :: (absC enc c1).elems } ∧
    (∀ p ∈ (setNew c1 k v exp).elems, p.2 = p.1) := by
  have hn1 : (Go.emapGet c1.elems k).2 = false := by
    cases hx : (Go.emapGet c1.elems k).2 with
    | false => rfl
    | true =>
      have hin1 : String.ofList k ∈ c1.elems.map (fun p => String.ofList p.1) := (mem_elems_keys c1.elems k).mpr hx
      obtain ⟨p, hp, hpe⟩ := List.mem_map.mp hin1
      have : String.ofList k ∈ c.elems.map (fun p => String.ofList p.1) := List.mem_map.mpr ⟨p, hsub p hp, hpe⟩
      rw [(mem_elems_keys c.elems k).mp this] at hnotel
      cases hnotel
  have he : Go.emapSet c1.elems k (some k) = (k, k) :: c1.elems := emapSet_new c1.elems k hn1
  constructor
  · unfold absC setNew
    simp only [abs_cmapSet, he, List.map_append, List.map_cons, List.map_nil]
    rfl
  · unfold setNew
    simp only [he]
    intro p hp
    rcases List.mem_cons.mp hp with rfl | hp
    · rfl
    · exact h1.handles p hp

theorem Set_refines (enc : Go.Any → Nat) (now : Int) (c : Go.CacheS) (k : Go.Str) (v : Go.Any) (d : Int) (h : CInv enc c)
    (fuel : Nat) (hf : c.order.length < fuel) :
    ∃ c', Code.Cache_Set fuel now c k v d = some c' ∧
      absC enc c' = CacheImpl.set false (absC enc c) now (String.ofList k) (enc v) d ∧ CInv enc c' ∧
      (∀ p ∈ c'.items, p ∈ c.items ∨ p = (k, ⟨v, now + d⟩)) := by
  have cmapSet_items : ∀ (m : List (Go.Str × Go.CacheItem)) (x : Go.CacheItem), ∀ p ∈ Go.cmapSet m k x, p ∈ m ∨ p = (k, x) := by
    intro m x p hp
    simp only [Go.cmapSet, List.mem_append, List.mem_filter, List.mem_cons, List.not_mem_nil, or_false] at hp
    rcases hp with hp | hp
    · exact Or.inl hp.1
    · exact Or.inr hp
  obtain ⟨a, hR⟩ := h.rep
  have hmodelR := R_set false now (String.ofList k) (enc v) d hR
  have hg : mget (absC enc c).items (String.ofList k) =
      (if (Go.cmapGet c.items k).2 then some (absEntry enc (k, (Go.cmapGet c.items k).1)) else none) := abs_cmapGet enc c.items k
  unfold Code.Cache_Set
  simp only []
  rcases hgi : Go.cmapGet c.items k with ⟨item, ex⟩
  rw [hgi] at hg
  dsimp only at hg ⊢
  cases ex
  · -- a new key
    simp only [Bool.false_eq_true, if_false] at hg ⊢
    have hnotel : (Go.emapGet c.elems k).2 = false := by
      cases hx : (Go.emapGet c.elems k).2 with
      | false => rfl
      | true =>
        have hin : String.ofList k ∈ (absC enc c).elems := (mem_elems_keys c.elems k).mpr hx
        have := (hR.mem_elems _).mp hin
        rw [← hR.look] at this
        exact absurd hg this
    have hlen : ((c.items.length : Int) ≥ c.maxSize) ↔ ((absC enc c).items.length ≥ (absC enc c).cap) := by
      have := h.cap
      unfold absC
      simp only [List.length_map]
      omega
    by_cases hfull : (c.items.length : Int) ≥ c.maxSize
    · have hfull' : (absC enc c).items.length ≥ (absC enc c).cap := hlen.mp hfull
      obtain ⟨c1, hev, habs1, hinv1, hsub1, hmax1, hitems1⟩ := evictOldest_refines enc now c h fuel hf
      obtain ⟨f1, f2⟩ := setNew_abs enc c c1 k v (now + d) hnotel hinv1 hsub1
      have habs : absC enc (setNew c1 k v (now + d)) = CacheImpl.set false (absC enc c) now (String.ofList k) (enc v) d := by
        rw [f1, habs1]; unfold CacheImpl.set; simp only [hg, hfull', if_true]
      simp only [hfull, decide_true, if_true, hev]
      refine ⟨setNew c1 k v (now + d), rfl, habs, CInv_of enc _ _ (habs ▸ hmodelR) f2 ?_, ?_⟩
      · show 0 ≤ c1.maxSize
        rw [hmax1]; exact h.cap
      · intro p hp
        rcases cmapSet_items c1.items ⟨v, now + d⟩ p hp with h1 | h1
        · exact Or.inl (hitems1 p h1)
        · exact Or.inr h1
    · have hfull' : ¬ (absC enc c).items.length ≥ (absC enc c).cap := fun hx => hfull (hlen.mpr hx)
      obtain ⟨f1, f2⟩ := setNew_abs enc c c k v (now + d) hnotel h (fun p hp => hp)
      have habs : absC enc (setNew c k v (now + d)) = CacheImpl.set false (absC enc c) now (String.ofList k) (enc v) d := by
        rw [f1]; unfold CacheImpl.set; simp only [hg, hfull', if_false]
      simp only [hfull, decide_false, Bool.false_eq_true, if_false]
      exact ⟨setNew c k v (now + d), rfl, habs, CInv_of enc _ _ (habs ▸ hmodelR) f2 h.cap, cmapSet_items c.items ⟨v, now + d⟩⟩
  · -- an existing key: new value and expiry, moved to the back
    simp only [if_true] at hg ⊢
    have hm := moveToBack_refines enc { c with items := Go.cmapSet c.items k ⟨v, Go.timeAdd now d⟩ } k h.handles hR.el
    have habs : absC enc (if (Go.emapGet c.elems k).2 = true then
          { c with items := Go.cmapSet c.items k ⟨v, Go.timeAdd now d⟩, order := Go.listMoveToBack c.order (Go.emapGet c.elems k).1 }
        else { c with items := Go.cmapSet c.items k ⟨v, Go.timeAdd now d⟩ }) =
        CacheImpl.set false (absC enc c) now (String.ofList k) (enc v) d := by
      unfold CacheImpl.set
      simp only [hg]
      have e1 : absC enc { c with items := Go.cmapSet c.items k ⟨v, Go.timeAdd now d⟩ } =
          { absC enc c with items := mset (absC enc c).items ⟨String.ofList k, enc v, now + d⟩ } := by
        unfold absC
        simp only [abs_cmapSet]
        rfl
      rw [← e1, ← hm]
    rcases hge : Go.emapGet c.elems k with ⟨e, ok⟩
    rw [hge] at habs
    dsimp only at habs ⊢
    cases ok
    · simp only [Bool.false_eq_true, if_false] at habs ⊢
      exact ⟨_, rfl, habs, CInv_of enc _ _ (habs ▸ hmodelR) h.handles h.cap, cmapSet_items c.items ⟨v, Go.timeAdd now d⟩⟩
    · simp only [if_true] at habs ⊢
      exact ⟨_, rfl, habs, CInv_of enc _ _ (habs ▸ hmodelR) h.handles h.cap, cmapSet_items c.items ⟨v, Go.timeAdd now d⟩⟩

/-! ### `Cleanup`: one pass over the map, dropping what has expired -/
/-- the condition of `Cleanup` is the non-strict expiry test: its second disjunct ("within 10 % of expiry") never holds for a live entry -/
theorem cleanupCond (now : Int) (item : Go.CacheItem) :
    ((!(Go.timeBefore now item.ExpiresAt)) ||
      (Go.timeAfter (Go.timeAdd now (Go.durScale (Go.timeSub item.ExpiresAt now) 1 10)) item.ExpiresAt)) =
    !(Go.timeBefore now item.ExpiresAt) := by
  unfold Go.timeBefore Go.timeAfter Go.timeAdd Go.durScale Go.timeSub
  by_cases hlt : now < item.ExpiresAt
  · simp [hlt]
    have hle : now ≤ item.ExpiresAt := Int.le_of_lt hlt
    simp only [hle, if_true]
    have h1 : (item.ExpiresAt - now) / 10 ≤ item.ExpiresAt - now := Int.ediv_le_self _ (by omega)
    show (now + (item.ExpiresAt - now) / 10 : Int) ≤ item.ExpiresAt
    omega
  · simp [hlt]

theorem forRange_fold {α σ ρ : Type} (xs : List α) (s : σ) (f : α → σ → Go.Ctl σ ρ) (g : σ → α → σ)
    (hf : ∀ x s, f x s = .next (g s x)) : Go.forRange xs s f = .next (xs.foldl g s) := by
  induction xs generalizing s with
  | nil => rfl
  | cons x t ih => unfold Go.forRange; rw [hf]; exact ih (g s x)

theorem cleanupFold (enc : Go.Any → Nat) (now : Int) (xs : List (Go.Str × Go.CacheItem)) :
    ∀ c, CInv enc c →
      absC enc (xs.foldl (fun c p => if !(Go.timeBefore now p.2.ExpiresAt) then Code.Cache_removeItem c p.1 else c) c) =
        ((xs.map (absEntry enc)).filter (expired false now)).foldl (fun c e => removeItem c e.key) (absC enc c) ∧
      CInv enc (xs.foldl (fun c p => if !(Go.timeBefore now p.2.ExpiresAt) then Code.Cache_removeItem c p.1 else c) c) := by
  induction xs with
  | nil => intro c h; exact ⟨rfl, h⟩
  | cons p t ih =>
    intro c h
    have hexp : expired false now (absEntry enc p) = !(Go.timeBefore now p.2.ExpiresAt) := by
      unfold expired absEntry Go.timeBefore
      simp only [Bool.false_eq_true, if_false]
      by_cases hlt : now < p.2.ExpiresAt
      · have : ¬ now ≥ p.2.ExpiresAt := by omega
        simp [hlt, this]
      · have : now ≥ p.2.ExpiresAt := by omega
        simp [hlt, this]
    simp only [List.foldl_cons, List.map_cons, List.filter_cons, hexp]
    cases hb : !(Go.timeBefore now p.2.ExpiresAt)
    · simp only [Bool.false_eq_true, if_false]
      exact ih c h
    · simp only [if_true, List.foldl_cons]
      have := ih (Code.Cache_removeItem c p.1) (removeItem_inv enc c p.1 h)
      rw [removeItem_refines enc c p.1 h] at this
      exact this

theorem Cleanup_refines (enc : Go.Any → Nat) (now : Int) (c : Go.CacheS) (h : CInv enc c) :
    absC enc (Code.Cache_Cleanup now c) = CacheImpl.cleanup false (absC enc c) now ∧ CInv enc (Code.Cache_Cleanup now c) := by
  have key : ∀ (f : Go.Str × Go.CacheItem → Go.CacheS → Go.Ctl Go.CacheS Go.CacheS),
      (∀ p c, f p c = .next (if !(Go.timeBefore now p.2.ExpiresAt) then Code.Cache_removeItem c p.1 else c)) →
      (match Go.forRange c.items c f with | .ret r => r | .next c => c | .brk c => c) =
        c.items.foldl (fun c p => if !(Go.timeBefore now p.2.ExpiresAt) then Code.Cache_removeItem c p.1 else c) c := by
    intro f hf
    rw [forRange_fold c.items c f _ hf]
  have hres : Code.Cache_Cleanup now c =
      c.items.foldl (fun c p => if !(Go.timeBefore now p.2.ExpiresAt) then Code.Cache_removeItem c p.1 else c) c := by
    unfold Code.Cache_Cleanup
    simp only []
    exact key _ (by
      intro p c
      rcases p with ⟨k, item⟩
      simp only [cleanupCond]
      cases !(Go.timeBefore now item.ExpiresAt) <;> rfl)
  rw [hres]
  exact cleanupFold enc now c.items c h

theorem Cleanup_items (now : Int) (c : Go.CacheS) : ∀ p ∈ (Code.Cache_Cleanup now c).items, p ∈ c.items := by
  have key : ∀ (f : Go.Str × Go.CacheItem → Go.CacheS → Go.Ctl Go.CacheS Go.CacheS),
      (∀ p c, f p c = .next (if !(Go.timeBefore now p.2.ExpiresAt) then Code.Cache_removeItem c p.1 else c)) →
      (match Go.forRange c.items c f with | .ret r => r | .next c => c | .brk c => c) =
        c.items.foldl (fun c p => if !(Go.timeBefore now p.2.ExpiresAt) then Code.Cache_removeItem c p.1 else c) c := by
    intro f hf
    rw [forRange_fold c.items c f _ hf]
  have hres : Code.Cache_Cleanup now c =
      c.items.foldl (fun c p => if !(Go.timeBefore now p.2.ExpiresAt) then Code.Cache_removeItem c p.1 else c) c := by
    unfold Code.Cache_Cleanup
    simp only []
    exact key _ (by
      intro p c
      rcases p with ⟨k, item⟩
      simp only [cleanupCond]
      cases !(Go.timeBefore now item.ExpiresAt) <;> rfl)
  rw [hres]
  have : ∀ (xs : List (Go.Str × Go.CacheItem)) (c0 : Go.CacheS),
      ∀ p ∈ (xs.foldl (fun c p => if !(Go.timeBefore now p.2.ExpiresAt) then Code.Cache_removeItem c p.1 else c) c0).items, p ∈ c0.items := by
    intro xs
    induction xs with
    | nil => intro c0 p hp; exact hp
    | cons x t ih =>
      intro c0 p hp
      simp only [List.foldl_cons] at hp
      have := ih _ p hp
      split at this
      · exact removeItem_items c0 x.1 p this
      · exact this
  exact this c.items c

/-! ### from `NewCache()`: the empty cache satisfies the invariant -/
theorem CInv_empty (enc : Go.Any → Nat) (n : Int) (hn : 0 ≤ n) : CInv enc ⟨[], [], [], n⟩ :=
  ⟨(by intro p hp; cases hp), hn, ⟨Cache.init n.toNat, R_init n.toNat⟩⟩

/-! ### histories: any sequence of the exported operations, from the empty cache -/
inductive COp where
  | set (now : Int) (k : Go.Str) (v : Go.Any) (ttl : Int)
  | get (now : Int) (k : Go.Str)
  | del (k : Go.Str)
  | clean (now : Int)

def COp.abs (enc : Go.Any → Nat) : COp → Op
  | .set now k v ttl => .set now (String.ofList k) (enc v) ttl
  | .get now k => .get now (String.ofList k)
  | .del k => .del (String.ofList k)
  | .clean now => .clean now

/-- one exported operation of the translated cache (`Set` runs its eviction scan with fuel for one pass over the list) -/
def codeStep (c : Go.CacheS) : COp → Go.CacheS
  | .set now k v ttl => (Code.Cache_Set (c.order.length + 1) now c k v ttl).getD c
  | .get now k => (Code.Cache_Get now c k).2
  | .del k => Code.Cache_Delete c k
  | .clean now => Code.Cache_Cleanup now c

theorem codeStep_refines (enc : Go.Any → Nat) (c : Go.CacheS) (op : COp) (h : CInv enc c) :
    absC enc (codeStep c op) = CacheImpl.step false (absC enc c) (op.abs enc) ∧ CInv enc (codeStep c op) := by
  cases op with
  | set now k v ttl =>
    obtain ⟨c', hs, ha, hi, _⟩ := Set_refines enc now c k v ttl h (c.order.length + 1) (Nat.lt_succ_self _)
    simp only [codeStep, hs, Option.getD_some, COp.abs, CacheImpl.step]
    exact ⟨ha, hi⟩
  | get now k => exact ⟨(Get_refines enc now c k h).1, Get_inv enc now c k h⟩
  | del k => exact Delete_refines enc c k h
  | clean now => exact Cleanup_refines enc now c h

/-- `Set` always terminates: the eviction scan needs at most one pass over the list -/
theorem Set_terminates (enc : Go.Any → Nat) (now : Int) (c : Go.CacheS) (k : Go.Str) (v : Go.Any) (d : Int) (h : CInv enc c) :
    (Code.Cache_Set (c.order.length + 1) now c k v d).isSome = true := by
  obtain ⟨c', hs, _⟩ := Set_refines enc now c k v d h (c.order.length + 1) (Nat.lt_succ_self _)
  rw [hs]; rfl

theorem codeRun_refines (enc : Go.Any → Nat) (ops : List COp) :
    ∀ c, CInv enc c → absC enc (ops.foldl codeStep c) = CacheImpl.run false (absC enc c) (ops.map (COp.abs enc)) ∧
      CInv enc (ops.foldl codeStep c) := by
  induction ops with
  | nil => intro c h; exact ⟨rfl, h⟩
  | cons op t ih =>
    intro c h
    obtain ⟨h1, h2⟩ := codeStep_refines enc c op h
    have := ih (codeStep c op) h2
    simp only [List.foldl_cons, List.map_cons, CacheImpl.run] at this ⊢
    rw [h1] at this
    exact this

/-- the translated cache after any history from `NewCache()` (capacity `n`), read through `absC`, is the three-structure model
    after the same history, hence represents the abstract LRU list after it -/
theorem code_history (enc : Go.Any → Nat) (n : Int) (hn : 0 ≤ n) (ops : List COp) :
    let c := ops.foldl codeStep ⟨[], [], [], n⟩
    absC enc c = CacheImpl.run false (CacheImpl.init n.toNat) (ops.map (COp.abs enc)) ∧
    R (absC enc c) (Cache.run false (Cache.init n.toNat) (ops.map (COp.abs enc))) ∧ CInv enc c := by
  intro c
  obtain ⟨h1, h2⟩ := codeRun_refines enc ops ⟨[], [], [], n⟩ (CInv_empty enc n hn)
  have e : absC enc ⟨[], [], [], n⟩ = CacheImpl.init n.toNat := rfl
  rw [e] at h1
  refine ⟨h1, ?_, h2⟩
  show R (absC enc (ops.foldl codeStep ⟨[], [], [], n⟩)) _
  rw [h1]
  exact R_run false n.toNat _

/-- a lookup on the translated cache after any history returns what the abstract cache returns after the same history -/
theorem code_get_history (enc : Go.Any → Nat) (n : Int) (hn : 0 ≤ n) (ops : List COp) (now : Int) (k : Go.Str) :
    let c := ops.foldl codeStep ⟨[], [], [], n⟩
    (if (Code.Cache_Get now c k).1.2 then some (enc (Code.Cache_Get now c k).1.1) else none) =
      (Cache.get false (Cache.run false (Cache.init n.toNat) (ops.map (COp.abs enc))) now (String.ofList k)).2 := by
  intro c
  obtain ⟨h1, _, h3⟩ := code_history enc n hn ops
  rw [(Get_refines enc now c k h3).2]
  show (CacheImpl.get false (absC enc (ops.foldl codeStep ⟨[], [], [], n⟩)) now (String.ofList k)).2 = _
  rw [h1]
  exact get_refines false n.toNat _ now _

end Oidc.CodeRefine
