import Oidc.Proofs.CodeCache
import Oidc.Proofs.CodeVerify
import Oidc.Proofs.CacheRename
import Oidc.Proofs.VerifyRevoke
/-!
# The translated `VerifyToken` / `RevokeToken` running on the translated cache.go

`Go.VOps` is instantiated with the translated code itself: the token cache is a translated `Cache` used through the translated
`TokenCache` wrapper (keys `"t-" ++ token`), the revocation list a translated `Cache`, the limiter the model's token bucket (x/time/rate
is not translated).  The state carries its invariant (a subtype), every operation preserves it, and through the abstraction
`absW` the operations satisfy `OpsSpec`; so `VerifyToken_refines` / `RevokeToken_refines` apply: the whole of main.go's
verification path over the whole of cache.go takes the steps of `Oidc.Verify`.
-/
namespace Oidc.CodeRefine
open Oidc Oidc.Generated Oidc.Cache Oidc.CacheImpl Oidc.Verify

/-! ### the key renaming of `TokenCache` -/
def tkey (id : String) : String := String.ofList ('t' :: '-' :: id.toList)
def strip (s : String) : String := String.ofList (s.toList.drop 2)

theorem tkey_inj (a b : String) (h : tkey a = tkey b) : a = b := by
  unfold tkey at h
  rw [ofList_inj] at h
  simp only [List.cons.injEq, true_and] at h
  have := congrArg String.ofList h
  simpa using this

theorem strip_tkey (id : String) : strip (tkey id) = id := by
  unfold strip tkey; simp

theorem tkey_ofList (k : Go.Str) : String.ofList (['t','-'] ++ k) = tkey (String.ofList k) := by
  unfold tkey; simp

def unren (c : C) : C := ⟨c.cap, c.order.map (fun e => ⟨strip e.key, e.val, e.exp⟩)⟩
def Prefixed (c : C) : Prop := ∀ e ∈ c.order, e.key = tkey (strip e.key)

theorem ren_unren (c : C) (h : Prefixed c) : ren tkey (unren c) = c := by
  unfold ren unren
  cases c with
  | mk cap order =>
    simp only [List.map_map]
    congr 1
    have : ∀ e ∈ order, (renE tkey ∘ fun e => (⟨strip e.key, e.val, e.exp⟩ : Entry)) e = e := by
      intro e he
      simp only [Function.comp, renE]
      have := h e he
      cases e with
      | mk k v x => simp only at this ⊢; rw [← this]
    clear h
    induction order with
    | nil => rfl
    | cons x t ih =>
      rw [List.map_cons, this x List.mem_cons_self, ih (fun e he => this e (List.mem_cons_of_mem _ he))]

/-! ### which entries an operation of the abstract cache can leave behind -/
theorem get_entries (se : Bool) (c : C) (now : Int) (k : String) : ∀ e ∈ (Cache.get se c now k).1.order, e ∈ c.order := by
  intro e he
  unfold Cache.get at he
  cases hl : lookup c.order k with
  | none => simp only [hl] at he; exact he
  | some x =>
    simp only [hl] at he
    split at he
    · exact (mem_remove he).1
    · simp only [List.mem_append, List.mem_cons, List.not_mem_nil, or_false] at he
      rcases he with he | rfl
      · exact (mem_remove he).1
      · exact (lookup_some hl).1

theorem evict_entries (se : Bool) (now : Int) (l : List Entry) : ∀ e ∈ Cache.evict se now l, e ∈ l := by
  intro e he
  unfold Cache.evict at he
  split at he
  · exact (mem_remove he).1
  · exact List.mem_of_mem_tail he

theorem set_entries (se : Bool) (c : C) (now : Int) (k : String) (v : Nat) (ttl : Int) :
    ∀ e ∈ (Cache.set se c now k v ttl).order, e ∈ c.order ∨ e.key = k := by
  intro e he
  unfold Cache.set at he
  cases hl : lookup c.order k with
  | some x =>
    simp only [hl, List.mem_append, List.mem_cons, List.not_mem_nil, or_false] at he
    rcases he with he | rfl
    · exact Or.inl (mem_remove he).1
    · exact Or.inr rfl
  | none =>
    simp only [hl, List.mem_append, List.mem_cons, List.not_mem_nil, or_false] at he
    rcases he with he | rfl
    · split at he
      · exact Or.inl (evict_entries se now _ e he)
      · exact Or.inl he
    · exact Or.inr rfl

theorem delete_entries (c : C) (k : String) : ∀ e ∈ (Cache.delete c k).order, e ∈ c.order := by
  intro e he; exact (mem_remove he).1

theorem Prefixed_sub {c c' : C} (h : Prefixed c) (hs : ∀ e ∈ c'.order, e ∈ c.order) : Prefixed c' :=
  fun e he => h e (hs e he)

theorem Prefixed_set (se : Bool) (c : C) (now : Int) (id : String) (v : Nat) (ttl : Int) (h : Prefixed c) :
    Prefixed (Cache.set se c now (tkey id) v ttl) := by
  intro e he
  rcases set_entries se c now (tkey id) v ttl e he with h1 | h1
  · exact h e h1
  · rw [h1, strip_tkey]

theorem unren_ren (c : C) : unren (ren tkey c) = c := by
  unfold unren ren
  cases c with
  | mk cap order =>
    simp only [List.map_map]
    congr 1
    have : ∀ e : Entry, ((fun e => (⟨strip e.key, e.val, e.exp⟩ : Entry)) ∘ renE tkey) e = e := by
      intro e; cases e; simp [Function.comp, renE, strip_tkey]
    induction order with
    | nil => rfl
    | cons x t ih => rw [List.map_cons, this x, ih]

/-! ### a translated cache and the abstract list it represents -/
theorem R_abs (enc : Go.Any → Nat) (c : Go.CacheS) (h : CInv enc c) : R (absC enc c) (absA (absC enc c)) := by
  obtain ⟨a, hR⟩ := h.rep
  rw [← R_absA hR]; exact hR

theorem cacheGet_abs (enc : Go.Any → Nat) (c : Go.CacheS) (h : CInv enc c) (now : Int) (k : Go.Str) :
    absA (absC enc (Code.Cache_Get now c k).2) = (Cache.get false (absA (absC enc c)) now (String.ofList k)).1 ∧
    (Code.Cache_Get now c k).1.2 = (Cache.get false (absA (absC enc c)) now (String.ofList k)).2.isSome := by
  obtain ⟨g1, g2⟩ := Get_refines enc now c k h
  obtain ⟨r1, r2⟩ := R_get false now (String.ofList k) (R_abs enc c h)
  rw [← g1] at r1
  refine ⟨(R_absA r1).symm, ?_⟩
  rw [← r2, ← g2]
  cases (Code.Cache_Get now c k).1.2 <;> rfl

theorem cacheSet_abs (enc : Go.Any → Nat) (c : Go.CacheS) (h : CInv enc c) (now : Int) (k : Go.Str) (v : Go.Any) (d : Int) :
    ∃ c', Code.Cache_Set (c.order.length + 1) now c k v d = some c' ∧ CInv enc c' ∧
      absA (absC enc c') = Cache.set false (absA (absC enc c)) now (String.ofList k) (enc v) d ∧
      (∀ p ∈ c'.items, p ∈ c.items ∨ p = (k, ⟨v, now + d⟩)) := by
  obtain ⟨c', hs, ha, hi, hit⟩ := Set_refines enc now c k v d h (c.order.length + 1) (Nat.lt_succ_self _)
  refine ⟨c', hs, hi, ?_, hit⟩
  have r := R_set false now (String.ofList k) (enc v) d (R_abs enc c h)
  rw [← ha] at r
  exact (R_absA r).symm

theorem cacheDel_abs (enc : Go.Any → Nat) (c : Go.CacheS) (h : CInv enc c) (k : Go.Str) :
    absA (absC enc (Code.Cache_Delete c k)) = Cache.delete (absA (absC enc c)) (String.ofList k) := by
  have r := R_delete (String.ofList k) (R_abs enc c h)
  rw [← (Delete_refines enc c k h).1] at r
  exact (R_absA r).symm

/-! ### the state of `VerifyToken` as translated code: two translated caches and a limiter -/
structure W where
  tc : Go.CacheS
  bl : Go.CacheS
  lim : Limiter.L

/-- every value of the token cache is a claims map (`TokenCache.Set` stores nothing else) -/
def AllObj (c : Go.CacheS) : Prop := ∀ p ∈ c.items, ∃ o, p.2.Value = Go.Any.obj o

structure WInv (enc : Go.Any → Nat) (w : W) : Prop where
  tc : CInv enc w.tc
  bl : CInv enc w.bl
  pre : Prefixed (absA (absC enc w.tc))
  obj : AllObj w.tc

def absW (enc : Go.Any → Nat) (w : W) : V := ⟨unren (absA (absC enc w.tc)), absA (absC enc w.bl), w.lim⟩

def tcGet (now : Int) (w : W) (k : Go.Str) : (Go.Obj × Bool) × W :=
  ((Code.TokenCache_Get now w.tc k).1, { w with tc := (Code.TokenCache_Get now w.tc k).2 })
def tcSet (now : Int) (w : W) (k : Go.Str) (c : Go.Obj) (d : Int) : W :=
  { w with tc := (Code.TokenCache_Set (w.tc.order.length + 1) now w.tc k c d).getD w.tc }
def tcDel (w : W) (k : Go.Str) : W := { w with tc := Code.TokenCache_Delete w.tc k }
def blGet (now : Int) (w : W) (k : Go.Str) : (Go.Any × Bool) × W :=
  ((Code.Cache_Get now w.bl k).1, { w with bl := (Code.Cache_Get now w.bl k).2 })
def blSet (now : Int) (w : W) (k : Go.Str) (v : Go.Any) (d : Int) : W :=
  { w with bl := (Code.Cache_Set (w.bl.order.length + 1) now w.bl k v d).getD w.bl }
def limAllow (F : Facts) (now : Int) (w : W) : Bool × W :=
  ((Limiter.allow F.r F.b w.lim now).2, { w with lim := (Limiter.allow F.r F.b w.lim now).1 })

/-- the token-cache side: a lookup through the translated wrapper is a lookup of the un-prefixed abstract cache -/
theorem tcGet_spec (enc : Go.Any → Nat) (now : Int) (w : W) (k : Go.Str) (h : WInv enc w) :
    WInv enc (tcGet now w k).2 ∧
    (absW enc (tcGet now w k).2).tc = (Cache.get false (absW enc w).tc now (String.ofList k)).1 ∧
    (tcGet now w k).1.2 = (Cache.get false (absW enc w).tc now (String.ofList k)).2.isSome := by
  have hcode : Code.TokenCache_Get now w.tc k =
      (if !(Code.Cache_Get now w.tc (['t','-'] ++ k)).1.2 then (([], false), (Code.Cache_Get now w.tc (['t','-'] ++ k)).2)
       else (Go.asObj (Code.Cache_Get now w.tc (['t','-'] ++ k)).1.1, (Code.Cache_Get now w.tc (['t','-'] ++ k)).2)) := by
    unfold Code.TokenCache_Get
    dsimp only
  have h2 : (Code.TokenCache_Get now w.tc k).2 = (Code.Cache_Get now w.tc (['t','-'] ++ k)).2 := by
    rw [hcode]; split <;> rfl
  obtain ⟨a1, a2⟩ := cacheGet_abs enc w.tc h.tc now (['t','-'] ++ k)
  rw [tkey_ofList] at a1 a2
  have hu : absA (absC enc w.tc) = ren tkey (unren (absA (absC enc w.tc))) := (ren_unren _ h.pre).symm
  rw [hu, get_ren tkey_inj] at a1 a2
  simp only at a1 a2
  obtain ⟨i1, i2⟩ := Get_items now w.tc (['t','-'] ++ k)
  refine ⟨⟨?_, h.bl, ?_, ?_⟩, ?_, ?_⟩
  · show CInv enc (Code.TokenCache_Get now w.tc k).2
    rw [h2]; exact Get_inv enc now w.tc _ h.tc
  · show Prefixed (absA (absC enc (Code.TokenCache_Get now w.tc k).2))
    rw [h2, a1]
    intro e he
    obtain ⟨e0, he0, rfl⟩ := List.mem_map.mp he
    simp [renE, strip_tkey]
  · show AllObj (Code.TokenCache_Get now w.tc k).2
    rw [h2]
    exact fun p hp => h.obj p (i1 p hp)
  · show unren (absA (absC enc (Code.TokenCache_Get now w.tc k).2)) = _
    rw [h2, a1, unren_ren]
    rfl
  · show (Code.TokenCache_Get now w.tc k).1.2 = _
    have : (absW enc w).tc = unren (absA (absC enc w.tc)) := rfl
    rw [this, ← a2, hcode]
    cases hf : (Code.Cache_Get now w.tc (['t','-'] ++ k)).1.2
    · simp
    · simp only [Bool.not_true, Bool.false_eq_true, if_false]
      obtain ⟨p, hp, hpv⟩ := i2 hf
      obtain ⟨o, ho⟩ := h.obj p hp
      rw [← hpv, ho]
      rfl

theorem tcSet_spec (enc : Go.Any → Nat) (now : Int) (w : W) (k : Go.Str) (c : Go.Obj) (d : Int) (h : WInv enc w) :
    WInv enc (tcSet now w k c d) ∧
    (absW enc (tcSet now w k c d)).tc = Cache.set false (absW enc w).tc now (String.ofList k) (enc (Go.Any.obj c)) d := by
  have hcode : Code.TokenCache_Set (w.tc.order.length + 1) now w.tc k c d =
      Code.Cache_Set (w.tc.order.length + 1) now w.tc (['t','-'] ++ k) (Go.Any.obj c) d := by
    unfold Code.TokenCache_Set
    dsimp only
    cases Code.Cache_Set (w.tc.order.length + 1) now w.tc (['t','-'] ++ k) (Go.Any.obj c) d <;> rfl
  obtain ⟨c', hs, hi, ha, hit⟩ := cacheSet_abs enc w.tc h.tc now (['t','-'] ++ k) (Go.Any.obj c) d
  have htc : (tcSet now w k c d).tc = c' := by
    unfold tcSet; simp only [hcode, hs, Option.getD_some]
  rw [tkey_ofList] at ha
  have hu : absA (absC enc w.tc) = ren tkey (unren (absA (absC enc w.tc))) := (ren_unren _ h.pre).symm
  refine ⟨⟨?_, h.bl, ?_, ?_⟩, ?_⟩
  · rw [htc]; exact hi
  · rw [htc, ha]; exact Prefixed_set false _ now _ _ d h.pre
  · rw [htc]
    intro p hp
    rcases hit p hp with h1 | h1
    · exact h.obj p h1
    · exact ⟨c, by rw [h1]⟩
  · show unren (absA (absC enc (tcSet now w k c d).tc)) = _
    rw [htc, ha, hu, set_ren tkey_inj, unren_ren]
    rfl

theorem tcDel_spec (enc : Go.Any → Nat) (w : W) (k : Go.Str) (h : WInv enc w) :
    WInv enc (tcDel w k) ∧ (absW enc (tcDel w k)).tc = Cache.delete (absW enc w).tc (String.ofList k) := by
  have hcode : Code.TokenCache_Delete w.tc k = Code.Cache_Delete w.tc (['t','-'] ++ k) := rfl
  have ha := cacheDel_abs enc w.tc h.tc (['t','-'] ++ k)
  rw [tkey_ofList] at ha
  have hu : absA (absC enc w.tc) = ren tkey (unren (absA (absC enc w.tc))) := (ren_unren _ h.pre).symm
  have htc : (tcDel w k).tc = Code.Cache_Delete w.tc (['t','-'] ++ k) := rfl
  refine ⟨⟨?_, h.bl, ?_, ?_⟩, ?_⟩
  · rw [htc]; exact (Delete_refines enc w.tc _ h.tc).2
  · rw [htc, ha]; exact Prefixed_sub h.pre (delete_entries _ _)
  · rw [htc]; exact fun p hp => h.obj p (removeItem_items w.tc _ p hp)
  · show unren (absA (absC enc (tcDel w k).tc)) = _
    rw [htc, ha, hu, delete_ren tkey_inj, unren_ren]
    rfl

theorem blGet_spec (enc : Go.Any → Nat) (now : Int) (w : W) (k : Go.Str) (h : WInv enc w) :
    WInv enc (blGet now w k).2 ∧
    (absW enc (blGet now w k).2).bl = (Cache.get false (absW enc w).bl now (String.ofList k)).1 ∧
    (blGet now w k).1.2 = (Cache.get false (absW enc w).bl now (String.ofList k)).2.isSome := by
  obtain ⟨a1, a2⟩ := cacheGet_abs enc w.bl h.bl now k
  exact ⟨⟨h.tc, Get_inv enc now w.bl k h.bl, h.pre, h.obj⟩, a1, a2⟩

theorem blSet_spec (enc : Go.Any → Nat) (now : Int) (w : W) (k : Go.Str) (v : Go.Any) (d : Int) (h : WInv enc w) :
    WInv enc (blSet now w k v d) ∧
    (absW enc (blSet now w k v d)).bl = Cache.set false (absW enc w).bl now (String.ofList k) (enc v) d := by
  obtain ⟨c', hs, hi, ha, _⟩ := cacheSet_abs enc w.bl h.bl now k v d
  have hbl : (blSet now w k v d).bl = c' := by unfold blSet; simp only [hs, Option.getD_some]
  refine ⟨⟨h.tc, ?_, h.pre, h.obj⟩, ?_⟩
  · rw [hbl]; exact hi
  · show absA (absC enc (blSet now w k v d).bl) = _
    rw [hbl, ha]; rfl

/-! ### the instance of `Go.VOps`: the state with its invariant -/
def SW (enc : Go.Any → Nat) := { w : W // WInv enc w }

def codeOps (enc : Go.Any → Nat) (F : Facts) : Go.VOps (SW enc) where
  tokenCacheGet w now k := ((tcGet now w.1 k).1, ⟨(tcGet now w.1 k).2, (tcGet_spec enc now w.1 k w.2).1⟩)
  tokenCacheSet w now k c d := ⟨tcSet now w.1 k c d, (tcSet_spec enc now w.1 k c d w.2).1⟩
  tokenCacheDelete w k := ⟨tcDel w.1 k, (tcDel_spec enc w.1 k w.2).1⟩
  blacklistGet w now k := ((blGet now w.1 k).1, ⟨(blGet now w.1 k).2, (blGet_spec enc now w.1 k w.2).1⟩)
  blacklistSet w now k v d := ⟨blSet now w.1 k v d, (blSet_spec enc now w.1 k v d w.2).1⟩
  limiterAllow w now := ((limAllow F now w.1).1, ⟨(limAllow F now w.1).2, ⟨w.2.tc, w.2.bl, w.2.pre, w.2.obj⟩⟩)

/-- the translated caches, used the way main.go uses them, behave like the model's caches: `OpsSpec` holds of the code itself
    (with the non-strict expiry comparison, and every stored value encoded as 1) -/
theorem codeOps_spec (F : Facts) (hse : F.se = false) :
    OpsSpec (codeOps (fun _ => 1) F) (fun w => absW (fun _ => 1) w.1) F where
  tcGet_tc w now k := by rw [hse]; exact (tcGet_spec _ now w.1 k w.2).2.1
  tcGet_bl w now k := rfl
  tcGet_lim w now k := rfl
  tcGet_hit w now k := by rw [hse]; exact (tcGet_spec _ now w.1 k w.2).2.2
  tcSet_tc w now k c d := by rw [hse]; exact (tcSet_spec _ now w.1 k c d w.2).2
  tcSet_bl w now k c d := rfl
  tcSet_lim w now k c d := rfl
  tcDel_tc w k := (tcDel_spec _ w.1 k w.2).2
  tcDel_bl w k := rfl
  tcDel_lim w k := rfl
  blGet_bl w now k := by rw [hse]; exact (blGet_spec _ now w.1 k w.2).2.1
  blGet_tc w now k := rfl
  blGet_lim w now k := rfl
  blGet_hit w now k := by rw [hse]; exact (blGet_spec _ now w.1 k w.2).2.2
  blSet_bl w now k v d := by rw [hse]; exact (blSet_spec _ now w.1 k v d w.2).2
  blSet_tc w now k v d := rfl
  blSet_lim w now k v d := rfl
  lim_lim w now := rfl
  lim_tc w now := rfl
  lim_bl w now := rfl
  lim_ok w now := rfl

/-! ### claims of a verified token are not empty, so a hit of the token cache never hands back an empty map -/
theorem verified_claims_nonempty (now : Int) (t : Go.Inst) (j : Go.JWT) (tok : Go.Str)
    (h : Code.TraefikOidc_VerifyJWTSignatureAndClaims now t j tok = none) : j.Claims ≠ [] := by
  have hJ : Code.JWT_Verify now j t.issuerURL t.clientID = none := by
    cases hj : Code.JWT_Verify now j t.issuerURL t.clientID with
    | none => rfl
    | some e =>
      exfalso
      unfold Code.TraefikOidc_VerifyJWTSignatureAndClaims at h
      simp only [hj, Option.isSome_some, if_true] at h
      revert h
      repeat' split
      all_goals first
        | (rename_i heq
           exact absurd heq (forRange_no_ret _ _ (by intro x s r; split <;> simp) _ _))
        | simp
  have hr := JWT_Verify_refines now j t.issuerURL t.clientID
  rw [hJ] at hr
  intro hnil
  have : Jwt.isOk (Jwt.claimsStage codeFacts (String.ofList t.issuerURL) (String.ofList t.clientID) now (absTok j)) = false := by
    unfold Jwt.claimsStage
    have hiss : (absTok j).iss = none := by simp [absTok, absField, hnil]
    cases Jwt.asStr (absTok j).alg with
    | none => rfl
    | some alg =>
      simp only []
      split
      · rfl
      · simp [hiss, Jwt.asStr, Jwt.isOk]
  rw [this] at hr
  cases hr

/-- every value of the token cache is a non-empty claims map -/
def NEClaims (w : W) : Prop := ∀ p ∈ w.tc.items, ∃ o, p.2.Value = Go.Any.obj o ∧ o ≠ []

theorem tcGet_claims (now : Int) (w : W) (k : Go.Str) (hf : (tcGet now w k).1.2 = true) :
    ∃ p ∈ w.tc.items, p.2.Value = Go.Any.obj (tcGet now w k).1.1 := by
  have hcode : Code.TokenCache_Get now w.tc k =
      (if !(Code.Cache_Get now w.tc (['t','-'] ++ k)).1.2 then (([], false), (Code.Cache_Get now w.tc (['t','-'] ++ k)).2)
       else (Go.asObj (Code.Cache_Get now w.tc (['t','-'] ++ k)).1.1, (Code.Cache_Get now w.tc (['t','-'] ++ k)).2)) := by
    unfold Code.TokenCache_Get
    dsimp only
  unfold tcGet at hf ⊢
  dsimp only at hf ⊢
  rw [hcode] at hf ⊢
  obtain ⟨_, i2⟩ := Get_items now w.tc (['t','-'] ++ k)
  cases hfound : (Code.Cache_Get now w.tc (['t','-'] ++ k)).1.2
  · rw [hfound] at hf; simp at hf
  · obtain ⟨p, hp, hpv⟩ := i2 hfound
    rw [hfound] at hf
    refine ⟨p, hp, ?_⟩
    rw [hpv]
    generalize (Code.Cache_Get now w.tc (['t','-'] ++ k)).1.1 = val at hf ⊢
    cases val <;> simp [Go.asObj] at hf ⊢

/-! ### histories of `VerifyToken` / `RevokeToken` / clean-up ticks on the translated code -/
inductive VOp where
  | verify (now : Int) (tok : Go.Str)
  | revoke (now : Int) (tok : Go.Str)

def VOp.abs : VOp → Verify.Op
  | .verify now tok => .verify now (String.ofList tok)
  | .revoke now tok => .revoke now (String.ofList tok)

abbrev enc1 : Go.Any → Nat := fun _ => 1

/-- one call of the translated code on the translated caches -/
def codeVStep (F : Facts) (t : Go.Inst) (w : SW enc1) : VOp → SW enc1 × Option Bool
  | .verify now tok => ((Code.TraefikOidc_VerifyToken (codeOps enc1 F) now t tok w).2,
                        some (Code.TraefikOidc_VerifyToken (codeOps enc1 F) now t tok w).1.isNone)
  | .revoke now tok => (Code.TraefikOidc_RevokeToken (codeOps enc1 F) now t tok w, none)

def codeAnswers (F : Facts) (t : Go.Inst) : SW enc1 → List VOp → List (VOp × Option Bool)
  | _, [] => []
  | w, op :: rest => (op, (codeVStep F t w op).2) :: codeAnswers F t (codeVStep F t w op).1 rest

/-- what the theorem needs of the functions that are not translated: `extractClaims` and `parseJWT` read the same claims, and a
    token that is revoked has extractable claims with a numeric `exp` -/
structure InstOk (t : Go.Inst) (ops : List VOp) : Prop where
  agree : ∀ tok, (t.parseJWT tok).2 = none → t.extractClaims tok = ((t.parseJWT tok).1.Claims, none)
  revocable : ∀ now tok, VOp.revoke now tok ∈ ops →
    ∃ claims, t.extractClaims tok = (claims, none) ∧ (Go.asF64 (Go.mapGet claims ['e','x','p'])).2 = true

theorem codeVStep_refines (F : Facts) (hse : F.se = false) (hF : F.blTTL = 24 * Go.Hour) (hS : F.skew = Code.ClockSkewToleranceFuture)
    (hR : F.revokeUntilExp = true) (t : Go.Inst) (w : SW enc1) (op : VOp) (ops : List VOp) (hmem : op ∈ ops)
    (hi : InstOk t ops) (hne : NEClaims w.1) :
    absW enc1 (codeVStep F t w op).1.1 = (Verify.step F (codeTok t) (absW enc1 w.1) op.abs).1 ∧
    (codeVStep F t w op).2 = (Verify.step F (codeTok t) (absW enc1 w.1) op.abs).2 ∧
    NEClaims (codeVStep F t w op).1.1 := by
  have S := codeOps_spec F hse
  cases op with
  | verify now tok =>
    have hne' : ((codeOps enc1 F).tokenCacheGet w now tok).1.2 = true → ((codeOps enc1 F).tokenCacheGet w now tok).1.1 ≠ [] := by
      intro hf
      obtain ⟨p, hp, hpv⟩ := tcGet_claims now w.1 tok hf
      obtain ⟨o, ho, hon⟩ := hne p hp
      rw [ho] at hpv
      cases hpv
      exact hon
    obtain ⟨r1, r2⟩ := VerifyToken_refines (codeOps enc1 F) (fun w => absW enc1 w.1) F S now t tok w
      (by rw [hF, default_is_24h]) (hi.agree tok) hne'
    refine ⟨r1, ?_, ?_⟩
    · simp only [codeVStep, VOp.abs, Verify.step]; rw [r2]
    · -- the only claims stored are those of a token that parsed and verified: not empty
      refine VerifyToken_preserves (codeOps enc1 F) (fun w => NEClaims w.1) now t tok ?_ ?_ ?_ ?_ ?_ w hne
      · intro w k h p hp
        have hcode : ((codeOps enc1 F).tokenCacheGet w now k).2.1.tc = (Code.Cache_Get now w.1.tc (['t','-'] ++ k)).2 := by
          show (Code.TokenCache_Get now w.1.tc k).2 = _
          unfold Code.TokenCache_Get
          dsimp only
          split <;> rfl
        rw [hcode] at hp
        exact h p ((Get_items now w.1.tc _).1 p hp)
      · intro w d h hp hv p hpm
        obtain ⟨c', hs, _, _, hit⟩ := cacheSet_abs enc1 w.1.tc w.2.tc now (['t','-'] ++ tok) (Go.Any.obj (t.parseJWT tok).1.Claims) d
        have hcode : Code.TokenCache_Set (w.1.tc.order.length + 1) now w.1.tc tok (t.parseJWT tok).1.Claims d =
            Code.Cache_Set (w.1.tc.order.length + 1) now w.1.tc (['t','-'] ++ tok) (Go.Any.obj (t.parseJWT tok).1.Claims) d := by
          unfold Code.TokenCache_Set
          dsimp only
          cases Code.Cache_Set (w.1.tc.order.length + 1) now w.1.tc (['t','-'] ++ tok) (Go.Any.obj (t.parseJWT tok).1.Claims) d <;> rfl
        have htc : ((codeOps enc1 F).tokenCacheSet w now tok (t.parseJWT tok).1.Claims d).1.tc = c' := by
          show (tcSet now w.1 tok (t.parseJWT tok).1.Claims d).tc = c'
          unfold tcSet; simp only [hcode, hs, Option.getD_some]
        rw [htc] at hpm
        rcases hit p hpm with h1 | h1
        · exact h p h1
        · exact ⟨(t.parseJWT tok).1.Claims, by rw [h1], verified_claims_nonempty now t _ tok hv⟩
      · intro w k h; exact h
      · intro w k v d h; exact h
      · intro w h; exact h
  | revoke now tok =>
    obtain ⟨claims, hc, hx⟩ := hi.revocable now tok hmem
    have r := RevokeToken_refines (codeOps enc1 F) (fun w => absW enc1 w.1) F S now t tok w hF hS hR claims hc hx
    refine ⟨r, rfl, ?_⟩
    refine RevokeToken_preserves (codeOps enc1 F) (fun w => NEClaims w.1) now t tok ?_ ?_ w hne
    · intro w k h p hp
      exact h p (removeItem_items w.1.tc _ p hp)
    · intro w k v d h; exact h

/-- **the verification path of main.go on cache.go, as translated, is the model.**  Along every history of `VerifyToken` and
    `RevokeToken` calls from freshly made caches, the translated code — `VerifyToken`, `performPreVerificationChecks`,
    `cacheVerifiedToken`, `RevokeToken`, `VerifyJWTSignatureAndClaims`, `JWT.Verify` and its helpers, the `TokenCache` wrapper and the
    six methods of cache.go — gives the answers of `Oidc.Verify` -/
theorem code_answers (F : Facts) (hse : F.se = false) (hF : F.blTTL = 24 * Go.Hour) (hS : F.skew = Code.ClockSkewToleranceFuture)
    (hR : F.revokeUntilExp = true) (t : Go.Inst) (all : List VOp) (hi : InstOk t all) :
    ∀ (ops : List VOp) (w : SW enc1), (∀ op ∈ ops, op ∈ all) → NEClaims w.1 →
      (codeAnswers F t w ops).map (fun p => (p.1.abs, p.2)) = Oidc.Verify.answers F (codeTok t) (absW enc1 w.1) (ops.map VOp.abs) := by
  intro ops
  induction ops with
  | nil => intro w _ _; rfl
  | cons op rest ih =>
    intro w hsub hne
    obtain ⟨h1, h2, h3⟩ := codeVStep_refines F hse hF hS hR t w op all (hsub op List.mem_cons_self) hi hne
    simp only [codeAnswers, List.map_cons, Oidc.Verify.answers]
    rw [h2, ← h1]
    congr 1
    exact ih _ (fun o ho => hsub o (List.mem_cons_of_mem _ ho)) h3

/-- the freshly made state: empty caches of capacity `n`, any limiter state -/
def freshW (n : Int) (hn : 0 ≤ n) (lim : Limiter.L) : SW enc1 :=
  ⟨⟨⟨[], [], [], n⟩, ⟨[], [], [], n⟩, lim⟩,
   ⟨CInv_empty enc1 n hn, CInv_empty enc1 n hn, (by intro e he; cases he), (by intro p hp; cases hp)⟩⟩

theorem freshW_abs (n : Int) (hn : 0 ≤ n) (lim : Limiter.L) :
    absW enc1 (freshW n hn lim).1 = ⟨Cache.init n.toNat, Cache.init n.toNat, lim⟩ := rfl

end Oidc.CodeRefine
