import Oidc.Generated.Code
/-! # The translated `Config.Validate` (settings.go): what a configuration that passes it satisfies

`Config.Validate` is translated from the source on every run; `isValidSecureURL` (net/url parsing) is a parameter.  The theorems
say what every accepted configuration satisfies — the facts the other models take as given about the deployment's
configuration (session key of at least 32 bytes, rate limit of at least 10, excluded prefixes that begin with `/` and contain
neither `..` nor `*`, …). -/
namespace Oidc.CodeConfig
open Oidc Oidc.Generated.Code

/-- a `for … range` whose body neither breaks nor changes state and that runs to its end: every element's body ran to its end -/
theorem forRange_unit_next {α ρ : Type} (xs : List α) (f : α → Unit → Go.Ctl Unit ρ)
    (h : Go.forRange xs () f = .next ()) (hb : ∀ x, f x () ≠ .brk ()) : ∀ x ∈ xs, f x () = .next () := by
  induction xs with
  | nil => intro x hx; cases hx
  | cons a rest ih =>
    intro x hx
    unfold Go.forRange at h
    cases hfa : f a () with
    | next s =>
      cases s
      rw [hfa] at h
      rcases List.mem_cons.mp hx with e | e
      · subst e; exact hfa
      · exact ih h x e
    | brk s => cases s; exact absurd hfa (hb a)
    | ret r => rw [hfa] at h; cases h

structure Valid (c : Go.Config) : Prop where
  provider : c.ProviderURL ≠ [] ∧ c.isValidSecureURL c.ProviderURL = true
  callback : Go.hasPrefix c.CallbackURL ['/'] = true
  client : c.ClientID ≠ [] ∧ c.ClientSecret ≠ []
  key : (32 : Int) ≤ c.SessionEncryptionKey.length
  logLevel : c.LogLevel = [] ∨ isValidLogLevel c.LogLevel = true
  excluded : ∀ u ∈ c.ExcludedURLs, Go.hasPrefix u ['/'] = true ∧ Go.contains u ['.','.'] = false ∧ Go.contains u ['*'] = false
  revocation : c.RevocationURL = [] ∨ c.isValidSecureURL c.RevocationURL = true
  endSession : c.OIDCEndSessionURL = [] ∨ c.isValidSecureURL c.OIDCEndSessionURL = true
  postLogout : c.PostLogoutRedirectURI = [] ∨ c.PostLogoutRedirectURI = ['/'] ∨ c.isValidSecureURL c.PostLogoutRedirectURI = true ∨
    Go.hasPrefix c.PostLogoutRedirectURI ['/'] = true
  rate : (10 : Int) ≤ c.RateLimit
  grace : (0 : Int) ≤ c.RefreshGracePeriodSeconds
  headers : ∀ h ∈ c.Headers, h.Name ≠ [] ∧ h.Value ≠ [] ∧ Go.contains h.Value ['{','{'] = true ∧ Go.contains h.Value ['}','}'] = true

/-- the body of the loop over the excluded URLs, as generated -/
def exclBody (url : Go.Str) (_ : Unit) : Go.Ctl Unit Go.Err :=
  if (!(Go.hasPrefix url ['/'])) then
    .ret ((some (['e','x','c','l','u','d','e','d',' ','U','R','L',' ','m','u','s','t',' ','s','t','a','r','t',' ','w','i','t','h',' ','/',':',' '] ++ url)))
  else
    if (Go.contains url ['.','.']) then
      .ret ((some (['e','x','c','l','u','d','e','d',' ','U','R','L',' ','m','u','s','t',' ','n','o','t',' ','c','o','n','t','a','i','n',' ','p','a','t','h',' ','t','r','a','v','e','r','s','a','l',':',' '] ++ url)))
    else
      if (Go.contains url ['*']) then
        .ret ((some (['e','x','c','l','u','d','e','d',' ','U','R','L',' ','m','u','s','t',' ','n','o','t',' ','c','o','n','t','a','i','n',' ','w','i','l','d','c','a','r','d','s',':',' '] ++ url)))
      else
        .next ()

theorem exclBody_next (u : Go.Str) (h : exclBody u () = .next ()) :
    Go.hasPrefix u ['/'] = true ∧ Go.contains u ['.','.'] = false ∧ Go.contains u ['*'] = false := by
  unfold exclBody at h
  split at h
  · cases h
  · rename_i h1
    split at h
    · cases h
    · rename_i h2
      split at h
      · cases h
      · rename_i h3
        exact ⟨by simpa using h1, by simpa using h2, by simpa using h3⟩

theorem exclBody_ne_brk (u : Go.Str) : exclBody u () ≠ .brk () := by
  unfold exclBody
  repeat' split
  all_goals (intro h; cases h)


/-- one `if` of the chain: the error branch contradicts `= none`, the other branch is kept -/
theorem step_if {b : Bool} {e : Go.Str} {rest : Go.Err} (h : (if b = true then some e else rest) = none) : b = false ∧ rest = none := by
  cases b
  · exact ⟨rfl, by simpa using h⟩
  · simp at h

theorem step_ret {b : Bool} {e : Go.Err} {rest : Go.Ctl Unit Go.Err}
    (h : (if b = true then Go.Ctl.ret e else rest) = .next ()) : b = false ∧ rest = .next () := by
  cases b
  · exact ⟨rfl, by simpa using h⟩
  · simp at h

theorem ne_brk_step {b : Bool} {e : Go.Err} {rest : Go.Ctl Unit Go.Err} (h : rest ≠ .brk ()) :
    (if b = true then Go.Ctl.ret e else rest) ≠ .brk () := by
  cases b
  · simpa using h
  · simp

theorem next_ne_brk : (Go.Ctl.next () : Go.Ctl Unit Go.Err) ≠ .brk () := by intro h; cases h

theorem forRange_ne_brk {α σ ρ : Type} (xs : List α) (s s' : σ) (f : α → σ → Go.Ctl σ ρ) : Go.forRange xs s f ≠ .brk s' := by
  induction xs generalizing s with
  | nil => intro h; cases h
  | cons a rest ih =>
    unfold Go.forRange
    cases f a s with
    | next t => exact ih t
    | brk t => intro h; cases h
    | ret r => intro h; cases h

/-- a loop whose body only ever returns errors does not return "no error" -/
theorem forRange_unit_ret {α : Type} (xs : List α) (f : α → Unit → Go.Ctl Unit Go.Err) (hn : ∀ x, f x () ≠ .ret none) :
    Go.forRange xs () f ≠ .ret none := by
  induction xs with
  | nil => intro h; cases h
  | cons a rest ih =>
    unfold Go.forRange
    cases hfa : f a () with
    | next t => cases t; exact ih
    | brk t => intro h; cases h
    | ret r => intro h; injection h with h; subst h; exact hn a hfa

theorem ne_retnone_step {b : Bool} {e : Go.Str} {rest : Go.Ctl Unit Go.Err} (h : rest ≠ .ret none) :
    (if b = true then Go.Ctl.ret (some e) else rest) ≠ .ret none := by
  cases b
  · simpa using h
  · simp

theorem next_ne_retnone : (Go.Ctl.next () : Go.Ctl Unit Go.Err) ≠ .ret none := by intro h; cases h

theorem step_if2 {a b : Bool} {e : Go.Str} {r : Go.Err}
    (h : (if a = true then (if b = true then some e else r) else r) = none) : (a = true → b = false) ∧ r = none := by
  cases a <;> cases b <;> simp at h ⊢ <;> exact h

set_option maxHeartbeats 1000000 in
/-- **every configuration `Validate` accepts is `Valid`** -/
theorem Validate_none (c : Go.Config) (h : Config_Validate c = none) : Valid c := by
  delta Config_Validate at h
  obtain ⟨p1, h⟩ := step_if h
  obtain ⟨p2, h⟩ := step_if h
  obtain ⟨cb1, h⟩ := step_if h
  obtain ⟨cb2, h⟩ := step_if h
  obtain ⟨id1, h⟩ := step_if h
  obtain ⟨sec1, h⟩ := step_if h
  obtain ⟨k1, h⟩ := step_if h
  obtain ⟨k2, h⟩ := step_if h
  obtain ⟨ll, h⟩ := step_if h
  generalize hl : Go.forRange c.ExcludedURLs () _ = r at h
  cases r with
  | ret e =>
    have h : e = none := h
    subst h
    exact absurd hl (forRange_unit_ret _ _ (fun x => ne_retnone_step (ne_retnone_step (ne_retnone_step next_ne_retnone))))
  | brk s => exact absurd hl (forRange_ne_brk _ _ _ _)
  | next s =>
    cases s
    change (if _ then _ else _) = none at h
    obtain ⟨rv, h⟩ := step_if h
    obtain ⟨es, h⟩ := step_if h
    obtain ⟨pl, h⟩ := step_if2 h
    obtain ⟨rl, h⟩ := step_if h
    obtain ⟨gr, h⟩ := step_if h
    generalize hh : Go.forRange c.Headers () _ = r2 at h
    cases r2 with
    | ret e =>
      have h : e = none := h
      subst h
      exact absurd hh (forRange_unit_ret _ _ (fun x => ne_retnone_step (ne_retnone_step (ne_retnone_step (ne_retnone_step (ne_retnone_step (ne_retnone_step (ne_retnone_step next_ne_retnone))))))))
    | brk s => exact absurd hh (forRange_ne_brk _ _ _ _)
    | next s =>
      cases s
      have exAll := forRange_unit_next _ _ hl (fun x => ne_brk_step (ne_brk_step (ne_brk_step next_ne_brk)))
      have hdAll := forRange_unit_next _ _ hh (fun x => ne_brk_step (ne_brk_step (ne_brk_step (ne_brk_step (ne_brk_step (ne_brk_step (ne_brk_step next_ne_brk)))))))
      refine ⟨⟨by simpa using p1, by simpa using p2⟩, by simpa using cb2, ⟨by simpa using id1, by simpa using sec1⟩, ?_, ?_, ?_, ?_, ?_, ?_, ?_, ?_, ?_⟩
      · have : ¬ ((c.SessionEncryptionKey.length : Int) < MinSessionEncryptionKeyLength) := by simpa using k2
        have e : MinSessionEncryptionKeyLength = 32 := rfl
        omega
      · cases hLL : c.LogLevel with
        | nil => exact Or.inl rfl
        | cons a t => right; rw [hLL] at ll; simpa using ll
      · intro u hu
        have hu' := exAll u hu
        obtain ⟨a1, hu'⟩ := step_ret hu'
        obtain ⟨a2, hu'⟩ := step_ret hu'
        obtain ⟨a3, _⟩ := step_ret hu'
        exact ⟨by simpa using a1, a2, a3⟩
      · cases hR : c.RevocationURL with
        | nil => exact Or.inl rfl
        | cons a t => right; rw [hR] at rv; simpa using rv
      · cases hR : c.OIDCEndSessionURL with
        | nil => exact Or.inl rfl
        | cons a t => right; rw [hR] at es; simpa using es
      · by_cases h1 : c.PostLogoutRedirectURI = []
        · exact Or.inl h1
        · by_cases h2 : c.PostLogoutRedirectURI = ['/']
          · exact Or.inr (Or.inl h2)
          · have := pl (by simp [h1, h2])
            right; right
            cases hs : c.isValidSecureURL c.PostLogoutRedirectURI
            · right; rw [hs] at this; simpa using this
            · exact Or.inl rfl
      · have : ¬ (c.RateLimit < MinRateLimit) := by simpa using rl
        have e : MinRateLimit = 10 := rfl
        omega
      · have : ¬ (c.RefreshGracePeriodSeconds < 0) := by simpa using gr
        omega
      · intro hd hhd
        have h' := hdAll hd hhd
        obtain ⟨b1, h'⟩ := step_ret h'
        obtain ⟨b2, h'⟩ := step_ret h'
        obtain ⟨b3, _⟩ := step_ret h'
        refine ⟨by simpa using b1, by simpa using b2, ?_, ?_⟩
        · have := b3; simp at this; exact this.1
        · have := b3; simp at this; exact this.2

/-- (premises satisfiable) a configuration `Validate` accepts -/
def exCfg : Go.Config :=
  { ProviderURL := ['h','t','t','p','s',':','/','/','i','d','p'], CallbackURL := ['/','c','b'], ClientID := ['c'], ClientSecret := ['s'],
    SessionEncryptionKey := List.replicate 32 'k', LogLevel := [], ExcludedURLs := [['/','p','u','b']], RevocationURL := [],
    OIDCEndSessionURL := [], PostLogoutRedirectURI := ['/'], RateLimit := 100, RefreshGracePeriodSeconds := 60,
    Headers := [⟨['X'], ['{','{','.','C','l','a','i','m','s','.','e','m','a','i','l','}','}']⟩],
    isValidSecureURL := fun s => Go.hasPrefix s ['h','t','t','p','s',':','/','/'] }

example : Config_Validate exCfg = none := by decide
example : (Config_Validate { exCfg with SessionEncryptionKey := List.replicate 31 'k' }).isSome = true := by decide
example : (Config_Validate { exCfg with RateLimit := 9 }).isSome = true := by decide
example : (Config_Validate { exCfg with ExcludedURLs := [['/','a','/','.','.','/','b']] }).isSome = true := by decide

end Oidc.CodeConfig
