import Oidc.Generated.Code
import Oidc.Model.Discovery
/-!
# main.go `discoverProviderMetadata` as translated from the source is the model's discovery round

The translated function runs over `Go.DOps`: a clock, `time.Sleep`, and one HTTP attempt at the discovery endpoint.  Instantiated
with a virtual clock and a script of outcomes (what the correspondence harness drives the real code with), it computes exactly
`Oidc.Discovery.round`: the same document or failure, the same instant, the same rest of the script — provided an attempt takes at
most the HTTP client's 15 s, which also makes the function's own five-minute guard unreachable.
-/
namespace Oidc.CodeRefine
open Oidc Oidc.Generated Oidc.Discovery

abbrev DW := List (Outcome Nat) × Int

/-- the world the harness provides: scripted outcomes, virtual clock -/
def scriptOps : Go.DOps DW where
  clock w := w.2
  sleep w d := (w.1, w.2 + d)
  fetchMetadata w _ :=
    match w.1 with
    | [] => ((none, some ['n','o',' ','a','n','s','w','e','r']), w)
    | .fail dur :: rest => ((none, some ['f','a','i','l','e','d']), (rest, w.2 + dur))
    | .ok d dur :: rest => ((some ⟨d⟩, none), (rest, w.2 + dur))
  fetchJWKS w _ := ((none, some ['n','o','t',' ','s','c','r','i','p','t','e','d']), w)   -- (not used by the discovery functions)

/-- the constants as the source has them -/
def codeDF : Facts := { maxRetries := 5, baseDelay := 1000000000, maxDelay := 30000000000, retryInterval := 0, loops := true, initWait := 0 }

def durOf : Outcome Nat → Int
  | .fail d => d
  | .ok _ d => d

theorem backoff_code (i : Nat) :
    (if decide (Go.pow2 (i : Int) * (1 * Go.Second) > 30 * Go.Second) then 30 * Go.Second else Go.pow2 (i : Int) * (1 * Go.Second)) = backoff codeDF i := by
  unfold backoff codeDF Go.pow2 Go.Second
  simp only [Int.toNat_natCast, decide_eq_true_eq]
  generalize ((2 ^ i : Nat) : Int) = p
  by_cases h : p * (1 * 1000000000) > 30 * 1000000000
  · have h' : (1000000000 : Int) * p > 30000000000 := by omega
    rw [if_pos h, if_pos h']
    show ((30 * 1000000000 : Int)) = 30000000000
    omega
  · have h' : ¬ (1000000000 : Int) * p > 30000000000 := by omega
    rw [if_neg h, if_neg h']
    show ((p * (1 * 1000000000) : Int)) = 1000000000 * p
    omega

theorem backoff_le (i : Nat) : 0 ≤ backoff codeDF i ∧ backoff codeDF i ≤ 30000000000 := by
  unfold backoff codeDF
  simp only
  split
  · omega
  · have : (0 : Int) ≤ ((2 ^ i : Nat) : Int) := Int.natCast_nonneg _
    constructor <;> omega

/-- the loop of `discoverProviderMetadata`, from attempt `i` with `n` attempts to go -/
theorem discLoop (start : Int)
    (cond : Int × Go.Err × DW → Bool) (body : Int × Go.Err × DW → Go.Ctl (Int × Go.Err × DW) ((Option Go.Meta × Go.Err) × DW))
    (hc : ∀ a e w, cond (a, e, w) = decide (a < 5))
    (hb : ∀ a e w, body (a, e, w) =
      if decide (Go.timeSub (scriptOps.clock w) start > 5 * Go.Minute) then
        .ret ((none, some (['t','i','m','e','o','u','t',' ','e','x','c','e','e','d','e','d',' ','w','h','i','l','e',' ','f','e','t','c','h','i','n','g',' ','p','r','o','v','i','d','e','r',' ','m','e','t','a','d','a','t','a',':',' '] ++ Go.errText e)), w)
      else
        if (scriptOps.fetchMetadata w (['x'] : Go.Str)).1.2.isNone then .ret (((scriptOps.fetchMetadata w ['x']).1.1, none), (scriptOps.fetchMetadata w ['x']).2)
        else .next (a + 1, (scriptOps.fetchMetadata w ['x']).1.2,
          scriptOps.sleep (scriptOps.fetchMetadata w ['x']).2
            (if decide (Go.pow2 a * (1 * Go.Second) > 30 * Go.Second) then 30 * Go.Second else Go.pow2 a * (1 * Go.Second)))) :
    ∀ (n i : Nat) (script : List (Outcome Nat)) (t : Int) (e : Go.Err) (fuel : Nat),
      i + (n + 1) = 5 → n + 1 ≤ script.length → n + 2 ≤ fuel →
      (∀ o ∈ script, 0 ≤ durOf o ∧ durOf o ≤ 15000000000) →
      start ≤ t → t - start ≤ 300000000000 - ((n : Int) + 1) * 45000000000 →
      Go.forWhile fuel ((i : Int), e, (script, t)) cond body =
        some (match (round codeDF script t i).2.1 with
          | some d => .ret ((some ⟨d⟩, none), ((round codeDF script t i).2.2.1, (round codeDF script t i).1))
          | none => .next (5, some ['f','a','i','l','e','d'], ((round codeDF script t i).2.2.1, (round codeDF script t i).1))) := by
  intro n
  induction n with
  | zero =>
    intro i script t e fuel hi hlen hf hd hst hb0
    have hi4 : i = 4 := by omega
    subst hi4
    obtain ⟨f, rfl⟩ : ∃ f, fuel = f + 2 := ⟨fuel - 2, by omega⟩
    cases script with
    | nil => simp at hlen
    | cons o rest =>
      have hguard : decide (Go.timeSub (scriptOps.clock (o :: rest, t)) start > 5 * Go.Minute) = false := by
        apply decide_eq_false
        show ¬ ((t - start : Int) > 5 * (60 * 1000000000))
        omega
      unfold Go.forWhile
      simp only [hc, hb, hguard]
      cases o with
      | ok d dur =>
        simp [scriptOps, round]
      | fail dur =>
        have hbk := backoff_code 4
        simp only [scriptOps, Option.isNone_some, Bool.false_eq_true, if_false, hbk]
        unfold Go.forWhile
        simp [hc, round, codeDF]
  | succ n ih =>
    intro i script t e fuel hi hlen hf hd hst hb0
    obtain ⟨f, rfl⟩ : ∃ f, fuel = f + 1 := ⟨fuel - 1, by omega⟩
    cases script with
    | nil => simp at hlen
    | cons o rest =>
      have hguard : decide (Go.timeSub (scriptOps.clock (o :: rest, t)) start > 5 * Go.Minute) = false := by
        apply decide_eq_false
        show ¬ ((t - start : Int) > 5 * (60 * 1000000000))
        have : (0 : Int) ≤ (n : Int) := Int.natCast_nonneg _
        push_cast at hb0
        omega
      have hlt : decide ((i : Int) < 5) = true := by apply decide_eq_true; omega
      unfold Go.forWhile
      simp only [hc, hb, hguard, hlt, if_true]
      cases o with
      | ok d dur =>
        simp [scriptOps, round]
      | fail dur =>
        have hbk := backoff_code i
        obtain ⟨hb1, hb2⟩ := backoff_le i
        have hdur := hd (.fail dur) List.mem_cons_self
        simp only [durOf] at hdur
        simp only [scriptOps, Option.isNone_some, Bool.false_eq_true, if_false, hbk]
        have hcont : i + 1 < codeDF.maxRetries := by simp [codeDF]; omega
        have he' := ih (i + 1) rest (t + dur + backoff codeDF i) (some ['f','a','i','l','e','d']) f
          (by omega) (by simp only [List.length_cons] at hlen; omega) (by omega)
          (fun o ho => hd o (List.mem_cons_of_mem _ ho)) (by omega)
          (by push_cast at hb0 ⊢; omega)
        have hcast : ((i : Int) + 1) = ((i + 1 : Nat) : Int) := by push_cast; rfl
        rw [hcast, he']
        simp only [round, hcont, if_true]

theorem discLoop0 (start : Int)
    (cond : Int × Go.Err × DW → Bool) (body : Int × Go.Err × DW → Go.Ctl (Int × Go.Err × DW) ((Option Go.Meta × Go.Err) × DW))
    (hc : ∀ a e w, cond (a, e, w) = decide (a < 5))
    (hb : ∀ a e w, body (a, e, w) =
      if decide (Go.timeSub (scriptOps.clock w) start > 5 * Go.Minute) then
        .ret ((none, some (['t','i','m','e','o','u','t',' ','e','x','c','e','e','d','e','d',' ','w','h','i','l','e',' ','f','e','t','c','h','i','n','g',' ','p','r','o','v','i','d','e','r',' ','m','e','t','a','d','a','t','a',':',' '] ++ Go.errText e)), w)
      else
        if (scriptOps.fetchMetadata w (['x'] : Go.Str)).1.2.isNone then .ret (((scriptOps.fetchMetadata w ['x']).1.1, none), (scriptOps.fetchMetadata w ['x']).2)
        else .next (a + 1, (scriptOps.fetchMetadata w ['x']).1.2,
          scriptOps.sleep (scriptOps.fetchMetadata w ['x']).2
            (if decide (Go.pow2 a * (1 * Go.Second) > 30 * Go.Second) then 30 * Go.Second else Go.pow2 a * (1 * Go.Second))))
    (script : List (Outcome Nat)) (fuel : Nat) (hf : 6 ≤ fuel) (hlen : 5 ≤ script.length)
    (hd : ∀ o ∈ script, 0 ≤ durOf o ∧ durOf o ≤ 15000000000) :
    Go.forWhile fuel ((0 : Int), (none : Go.Err), (script, start)) cond body =
      some (match (round codeDF script start 0).2.1 with
        | some d => .ret ((some ⟨d⟩, none), ((round codeDF script start 0).2.2.1, (round codeDF script start 0).1))
        | none => .next (5, some ['f','a','i','l','e','d'], ((round codeDF script start 0).2.2.1, (round codeDF script start 0).1))) := by
  have := discLoop start cond body hc hb 4 0 script start none fuel (by rfl) (by omega) (by omega) hd (Int.le_refl _) (by simp)
  simpa using this

/-- **`discoverProviderMetadata` is the model's round.**  Against a script of at least five outcomes, each taking between 0 and the
    HTTP client's 15 s, from any instant: the translated function terminates (six rounds of fuel suffice), returns the first healthy
    document or — after five failed attempts with the back-off 1, 2, 4, 8, 16 s after each — an error, at exactly the instant and with
    exactly the rest of the script that `Oidc.Discovery.round` says; its five-minute guard is never reached -/
theorem discoverProviderMetadata_refines (url : Go.Str) (hcl : Go.HTTPClient) (l : Go.Logger)
    (script : List (Outcome Nat)) (t : Int) (fuel : Nat) (hf : 6 ≤ fuel) (hlen : 5 ≤ script.length)
    (hd : ∀ o ∈ script, 0 ≤ durOf o ∧ durOf o ≤ 15000000000) :
    ∃ err, Code.discoverProviderMetadata fuel scriptOps url hcl l (script, t) =
        some (((round codeDF script t 0).2.1.map Go.Meta.mk, err), ((round codeDF script t 0).2.2.1, (round codeDF script t 0).1)) ∧
      err.isNone = (round codeDF script t 0).2.1.isSome := by
  unfold Code.discoverProviderMetadata
  simp only []
  rw [discLoop0 t _ _ (by intro a e w; rfl) (by
        intro a e w
        rcases w with ⟨sc, tt⟩
        cases sc with
        | nil => simp [scriptOps]; split <;> first | rfl | (split <;> simp_all)
        | cons o rest =>
          cases o with
          | ok d dur => simp [scriptOps]
          | fail dur => simp [scriptOps]; split <;> first | rfl | (split <;> simp_all)) script fuel hf hlen hd]
  cases hr : (round codeDF script t 0).2.1 with
  | some d => exact ⟨none, by simp, by simp⟩
  | none => exact ⟨_, rfl, by simp⟩

/-! ## metadata_cache.go `MetadataCache` as translated: the cached document and its hourly refresh -/

theorem isCacheValid_eq (now : Int) (c : Go.MetaCache) :
    Code.MetadataCache_isCacheValid now c = (c.metadata.isSome && decide (now < c.expiresAt)) := rfl

/-- `Cleanup` drops the document only once it has expired (strictly after `expiresAt`) -/
theorem Cleanup_eq (now : Int) (c : Go.MetaCache) :
    Code.MetadataCache_Cleanup now c = if c.metadata.isSome ∧ c.expiresAt < now then { c with metadata := none } else c := by
  unfold Code.MetadataCache_Cleanup Go.timeAfter
  by_cases h1 : c.metadata.isSome = true <;> by_cases h2 : c.expiresAt < now <;> simp [h1, h2]

/-- ... so the clean-up goroutine never changes whether a later lookup is served from the cache -/
theorem Cleanup_transparent (now later : Int) (c : Go.MetaCache) (h : now ≤ later) :
    Code.MetadataCache_isCacheValid later (Code.MetadataCache_Cleanup now c) = Code.MetadataCache_isCacheValid later c := by
  rw [Cleanup_eq, isCacheValid_eq, isCacheValid_eq]
  by_cases h1 : c.metadata.isSome = true <;> by_cases h2 : c.expiresAt < now
  · have : ¬ later < c.expiresAt := fun hl => Int.lt_irrefl _ (Int.lt_trans hl (Int.lt_of_lt_of_le h2 h))
    simp [h1, h2, this]
  · simp [h1, h2]
  · simp [h1]
  · simp [h1]

/-- **`GetMetadata` with a document in the cache is the model's refresh tick.**  While `now < expiresAt` the cached document is
    returned, the provider is not contacted and nothing changes; afterwards one discovery round runs: a healthy answer replaces the
    document and is good for one hour from the end of the round, a failed round keeps the old document for five more minutes — the
    instant, the rest of the script and the new cache state are `Oidc.Discovery.refreshTick`'s. -/
theorem GetMetadata_refines (url : Go.Str) (hcl : Go.HTTPClient) (l : Go.Logger) (c : Go.MetaCache) (d0 : Nat)
    (hc : c.metadata = some ⟨d0⟩) (script : List (Outcome Nat)) (t : Int) (fuel : Nat) (hf : 6 ≤ fuel) (hlen : 5 ≤ script.length)
    (hd : ∀ o ∈ script, 0 ≤ durOf o ∧ durOf o ≤ 15000000000) :
    let r := refreshTick codeDF Go.Hour (5 * Go.Minute) ⟨d0, c.expiresAt⟩ t script
    let tEnd := if t < c.expiresAt then t else (round codeDF script t 0).1
    Code.MetadataCache_GetMetadata fuel scriptOps c url hcl l (script, t) =
      some (((some ⟨r.1.doc⟩, none), ⟨some ⟨r.1.doc⟩, r.1.expires⟩), (r.2.1, tEnd)) := by
  intro r tEnd
  unfold Code.MetadataCache_GetMetadata
  simp only [isCacheValid_eq, hc, Option.isSome_some, Bool.true_and]
  have hclock : scriptOps.clock (script, t) = t := rfl
  simp only [hclock]
  by_cases hv : t < c.expiresAt
  · have hr : r = (⟨d0, c.expiresAt⟩, script, []) := by
      show refreshTick codeDF Go.Hour (5 * Go.Minute) ⟨d0, c.expiresAt⟩ t script = _
      unfold refreshTick; simp [hv]
    have ht : tEnd = t := by show (if t < c.expiresAt then t else _) = t; simp [hv]
    simp only [hv, decide_true, if_true, hr, ht]
    obtain ⟨m, e⟩ := c
    simp only at hc
    subst hc
    rfl
  · obtain ⟨err, hcode, herr⟩ := discoverProviderMetadata_refines url hcl l script t fuel hf hlen hd
    have ht : tEnd = (round codeDF script t 0).1 := by show (if t < c.expiresAt then t else _) = _; simp [hv]
    simp only [hv, decide_false, Bool.false_eq_true, if_false, hcode, ht]
    cases hdoc : (round codeDF script t 0).2.1 with
    | some d =>
      have hr : r = (⟨d, (round codeDF script t 0).1 + Go.Hour⟩, (round codeDF script t 0).2.2.1, (round codeDF script t 0).2.2.2) := by
        show refreshTick codeDF Go.Hour (5 * Go.Minute) ⟨d0, c.expiresAt⟩ t script = _
        unfold refreshTick; simp [hv, hdoc]
      rw [hdoc] at herr
      have he : err = none := by cases err <;> simp_all
      subst he
      simp only [hr, Option.map_some, Option.isSome_none, Bool.false_eq_true, if_false]
      show some _ = some _
      simp [Go.timeAdd, scriptOps]
    | none =>
      have hr : r = (⟨d0, (round codeDF script t 0).1 + 5 * Go.Minute⟩, (round codeDF script t 0).2.2.1, (round codeDF script t 0).2.2.2) := by
        show refreshTick codeDF Go.Hour (5 * Go.Minute) ⟨d0, c.expiresAt⟩ t script = _
        unfold refreshTick; simp [hv, hdoc]
      rw [hdoc] at herr
      have he : err.isSome = true := by cases err <;> simp_all
      simp only [hr, he, if_true]
      show some _ = some _
      simp [Go.timeAdd, scriptOps, hc]

/-- **the first load** (nothing cached): the document of a healthy round, good for one hour from its end; after a failed round an
    error and an unchanged, still empty cache (the caller, `initializeMetadata`, keeps asking) -/
theorem GetMetadata_first (url : Go.Str) (hcl : Go.HTTPClient) (l : Go.Logger) (c : Go.MetaCache)
    (hc : c.metadata = none) (script : List (Outcome Nat)) (t : Int) (fuel : Nat) (hf : 6 ≤ fuel) (hlen : 5 ≤ script.length)
    (hd : ∀ o ∈ script, 0 ≤ durOf o ∧ durOf o ≤ 15000000000) :
    let r := round codeDF script t 0
    ∃ res, Code.MetadataCache_GetMetadata fuel scriptOps c url hcl l (script, t) = some (res, (r.2.2.1, r.1)) ∧
      match r.2.1 with
      | some d => res = ((some ⟨d⟩, none), ⟨some ⟨d⟩, r.1 + Go.Hour⟩)
      | none => res.1.1 = none ∧ res.1.2.isSome = true ∧ res.2 = c := by
  intro r
  unfold Code.MetadataCache_GetMetadata
  simp only [isCacheValid_eq, hc, Option.isSome_none, Bool.false_and, Bool.false_eq_true, if_false]
  obtain ⟨err, hcode, herr⟩ := discoverProviderMetadata_refines url hcl l script t fuel hf hlen hd
  simp only [hcode]
  cases hdoc : (round codeDF script t 0).2.1 with
  | some d =>
    rw [hdoc] at herr
    have he : err = none := by cases err <;> simp_all
    subst he
    refine ⟨_, rfl, ?_⟩
    show _ = _
    simp [hdoc, Go.timeAdd, scriptOps, r]
  | none =>
    rw [hdoc] at herr
    have he : err.isSome = true := by cases err <;> simp_all
    simp only [he, if_true, Option.map_none]
    refine ⟨_, rfl, ?_⟩
    simp [hdoc, r]

end Oidc.CodeRefine
