import Oidc.Generated.Code
import Oidc.Model.Handler
import Oidc.Proofs.Strings
/-!
# main.go / session.go functions as translated from the source refine the model: `isLocalRedirectTarget`, `buildFullURL`,
`extractGroupsAndRoles`, `splitIntoChunks`, `isUserAuthenticated`
-/
namespace Oidc.CodeRefine
open Oidc Oidc.Generated

/-! ## `isLocalRedirectTarget` -/
theorem isLocalRedirectTarget_refines (s : Str) : Code.isLocalRedirectTarget s = Strings.isLocalTarget s := by
  unfold Code.isLocalRedirectTarget Strings.isLocalTarget Go.hasPrefix
  cases s with
  | nil => simp
  | cons a r =>
    cases r with
    | nil =>
      by_cases h : a = '/'
      · subst h; simp [List.isPrefixOf]
      · have h' : ('/' == a) = false := by simpa using (fun e => h e.symm)
        have h'' : (a == '/') = false := by simpa using h
        simp [List.isPrefixOf, h', h'']
    | cons b r' =>
      have eqf : ∀ (x y : Char), x ≠ y → (x == y) = false ∧ (y == x) = false := fun x y h =>
        ⟨by simpa using h, by simpa using (fun e => h e.symm)⟩
      by_cases ha : a = '/'
      · subst ha
        by_cases hb1 : b = '/'
        · subst hb1; simp [List.isPrefixOf]
        · by_cases hb2 : b = '\\'
          · subst hb2; simp [List.isPrefixOf]
          · obtain ⟨p1, p2⟩ := eqf b '/' hb1
            obtain ⟨q1, q2⟩ := eqf b '\\' hb2
            simp [List.isPrefixOf, p1, p2, q1, q2, hb1, hb2]
      · obtain ⟨p1, p2⟩ := eqf a '/' ha
        simp [List.isPrefixOf, p1, p2]

/-! ## `buildFullURL`: an absolute callback URL is kept, a path is appended to `scheme://host` with a leading slash -/
theorem buildFullURL_spec (scheme host path : Str) :
    Code.buildFullURL scheme host path =
      if "http://".toList.isPrefixOf path || "https://".toList.isPrefixOf path then path
      else if "/".toList.isPrefixOf path then scheme ++ "://".toList ++ host ++ path
      else scheme ++ "://".toList ++ host ++ ('/' :: path) := by
  unfold Code.buildFullURL Go.hasPrefix
  have e1 : (['h','t','t','p',':','/','/'] : Str) = "http://".toList := rfl
  have e2 : (['h','t','t','p','s',':','/','/'] : Str) = "https://".toList := rfl
  have e3 : (['/'] : Str) = "/".toList := rfl
  have e4 : ([':','/','/'] : Str) = "://".toList := rfl
  rw [e1, e2, e4, e3]
  split
  · rfl
  · have e5 : "/".toList ++ path = '/' :: path := rfl
    cases h : "/".toList.isPrefixOf path <;> simp [h, e5]

/-- a path that starts with `/` and is no absolute URL lands on the request's own origin -/
theorem buildFullURL_local (scheme host path : Str) (hl : Strings.isLocalTarget path = true) :
    Code.buildFullURL scheme host path = scheme ++ "://".toList ++ host ++ path := by
  rw [buildFullURL_spec]
  cases path with
  | nil => simp [Strings.isLocalTarget] at hl
  | cons a r =>
    have ha : a = '/' := by
      unfold Strings.isLocalTarget at hl; simp at hl; exact hl.1
    subst ha
    have h1 : "http://".toList.isPrefixOf ('/' :: r) = false := by
      show List.isPrefixOf ['h','t','t','p',':','/','/'] ('/' :: r) = false
      simp [List.isPrefixOf]
    have h2 : "https://".toList.isPrefixOf ('/' :: r) = false := by
      show List.isPrefixOf ['h','t','t','p','s',':','/','/'] ('/' :: r) = false
      simp [List.isPrefixOf]
    have h3 : "/".toList.isPrefixOf ('/' :: r) = true := by
      show List.isPrefixOf ['/'] ('/' :: r) = true
      simp [List.isPrefixOf]
    simp [h1, h2, h3]

/-! ## `extractGroupsAndRoles` -/
def absItem' : Go.Any → Strings.JItem
  | .str s => .str s
  | _ => .nonStr
/-- the shape of a `groups` / `roles` claim -/
def absClaim (m : Go.Obj) (k : Str) : Strings.Claim :=
  match Go.mapGet2 m k with
  | (v, true) => (match Go.asArr v with | (xs, true) => .array (xs.map absItem') | _ => .other)
  | _ => .absent

/-- the loops of `extractGroupsAndRoles` collect the string elements in order -/
theorem collectLoop {ρ : Type} (xs : List Go.Any) (acc : List Str) (f : Go.Any → List Str → Go.Ctl (List Str) ρ)
    (hf : ∀ v a, f v a = (match Go.asStr v with | (s, true) => .next (a ++ [s]) | _ => .next a)) :
    Go.forRange xs acc f = .next (acc ++ Strings.itemStrings (xs.map absItem')) := by
  induction xs generalizing acc with
  | nil => simp [Go.forRange, Strings.itemStrings]
  | cons x xs ih =>
    unfold Go.forRange
    rw [hf]
    cases x <;> simp [Go.asStr, absItem', Strings.itemStrings, ih]

theorem extractGroupsAndRoles_refines (t : Go.Inst) (tok : Str) (claims : Go.Obj)
    (hc : t.extractClaimsFunc tok = (claims, none)) :
    (match Strings.extract (absClaim claims "groups".toList) (absClaim claims "roles".toList) with
      | none => (Code.TraefikOidc_extractGroupsAndRoles t tok).2.2.isSome = true
      | some (g, r) => Code.TraefikOidc_extractGroupsAndRoles t tok = (g, r, none)) := by
  have eg : (['g','r','o','u','p','s'] : Str) = "groups".toList := rfl
  have er : (['r','o','l','e','s'] : Str) = "roles".toList := rfl
  unfold Code.TraefikOidc_extractGroupsAndRoles absClaim
  rw [hc, eg, er]
  simp only [Option.isSome_none, Bool.false_eq_true, if_false]
  rcases hg : Go.mapGet2 claims "groups".toList with ⟨gv, gok⟩
  rcases hr : Go.mapGet2 claims "roles".toList with ⟨rv, rok⟩
  cases gok
  · -- no groups claim
    cases rok
    · simp [Strings.extract]
    · rcases hra : Go.asArr rv with ⟨rxs, raok⟩
      cases raok
      · simp [Strings.extract, hra]
      · simp only [Strings.extract, if_true, Bool.not_true, Bool.false_eq_true, if_false, hra]
        rw [collectLoop rxs [] _ (by intro v a; rcases Go.asStr v with ⟨s, ok⟩; cases ok <;> rfl)]
        simp
  · rcases hga : Go.asArr gv with ⟨gxs, gaok⟩
    cases gaok
    · cases rok
      · simp [Strings.extract, hga]
      · rcases hra : Go.asArr rv with ⟨rxs, raok⟩
        cases raok <;> simp [Strings.extract, hga, hra]
    · simp only [if_true, Bool.not_true, Bool.false_eq_true, if_false, hga]
      rw [collectLoop gxs [] _ (by intro v a; rcases Go.asStr v with ⟨s, ok⟩; cases ok <;> rfl)]
      cases rok
      · simp [Strings.extract]
      · rcases hra : Go.asArr rv with ⟨rxs, raok⟩
        cases raok
        · simp [Strings.extract, hra]
        · simp only [Strings.extract, if_true, Bool.not_true, Bool.false_eq_true, if_false, hra]
          rw [collectLoop rxs [] _ (by intro v a; rcases Go.asStr v with ⟨s, ok⟩; cases ok <;> rfl)]
          simp

/-! ## `splitIntoChunks`: the loop terminates (for a positive chunk size) and computes the model's `splitN` -/
theorem splitN_step (k : Nat) (s : Str) (hk : k ≠ 0) (hs : s ≠ []) :
    Session.splitN k s = s.take k :: Session.splitN k (s.drop k) := by
  rw [Session.splitN]; simp [hk, hs]
theorem splitN_nil (k : Nat) : Session.splitN k [] = [] := by rw [Session.splitN]; simp

theorem splitLoop (n : Int) (hn : 0 < n) (c : List Str × Str → Bool) (b : List Str × Str → Go.Ctl (List Str × Str) (List Str))
    (hc : ∀ a s, c (a, s) = decide ((s.length : Int) > 0))
    (hb : ∀ a s, b (a, s) = if decide ((s.length : Int) > n) then .next (a ++ [Go.sliceTo s n], Go.sliceFrom s n) else .brk (a ++ [s], s)) :
    ∀ (fuel : Nat) (s : Str) (acc : List Str), s.length < fuel →
      ∃ s', Go.forWhile fuel (acc, s) c b = some (.next (acc ++ Session.splitN n.toNat s, s')) := by
  have hk : n.toNat ≠ 0 := by omega
  intro fuel
  induction fuel with
  | zero => intro s acc h; omega
  | succ f ih =>
    intro s acc h
    unfold Go.forWhile
    rw [hc]
    cases s with
    | nil => exact ⟨[], by simp [splitN_nil]⟩
    | cons x xs =>
      have hpos : decide (((x :: xs).length : Int) > 0) = true := by simp
      rw [hpos, hb]
      simp only [if_true]
      by_cases hgt : ((x :: xs).length : Int) > n
      · simp only [hgt, decide_true, if_true, Go.sliceTo, Go.sliceFrom]
        have hlen : ((x :: xs).drop n.toNat).length < f := by
          simp only [List.length_drop]; simp only [List.length_cons] at h hgt ⊢; omega
        obtain ⟨s', hs'⟩ := ih ((x :: xs).drop n.toNat) (acc ++ [(x :: xs).take n.toNat]) hlen
        refine ⟨s', ?_⟩
        rw [hs', splitN_step n.toNat (x :: xs) hk (by simp)]
        simp
      · simp only [hgt, decide_false, Bool.false_eq_true, if_false]
        refine ⟨x :: xs, ?_⟩
        rw [splitN_step n.toNat (x :: xs) hk (by simp)]
        have h1 : (x :: xs).take n.toNat = x :: xs := by
          apply List.take_of_length_le; simp only [List.length_cons] at hgt ⊢; omega
        have h2 : (x :: xs).drop n.toNat = [] := by
          apply List.drop_of_length_le; simp only [List.length_cons] at hgt ⊢; omega
        rw [h1, h2, splitN_nil]

theorem splitIntoChunks_refines (s : Str) (n : Int) (hn : 0 < n) (fuel : Nat) (hf : s.length < fuel) :
    Code.splitIntoChunks fuel s n = some (Session.splitN n.toNat s) := by
  unfold Code.splitIntoChunks
  have key : ∀ (c : List Str × Str → Bool) (b : List Str × Str → Go.Ctl (List Str × Str) (List Str)),
      (∀ a s, c (a, s) = decide ((s.length : Int) > 0)) →
      (∀ a s, b (a, s) = if decide ((s.length : Int) > n) then .next (a ++ [Go.sliceTo s n], Go.sliceFrom s n) else .brk (a ++ [s], s)) →
      (match Go.forWhile fuel (([] : List Str), s) c b with
        | none => none
        | some (.ret r) => some r
        | some (.next (chunks, _)) => some chunks
        | some (.brk (chunks, _)) => some chunks) = some (Session.splitN n.toNat s) := by
    intro c b hc hb
    obtain ⟨s', hs'⟩ := splitLoop n hn c b hc hb fuel s [] hf
    rw [hs']; simp
  exact key _ _ (by intro a s; rfl) (by intro a s; rfl)

/-- with a chunk size of zero the loop never ends (any fuel runs out): the code is only ever called with `maxCookieSize` -/
theorem splitIntoChunks_zero_diverges (fuel : Nat) (x : Char) (xs : Str) :
    Code.splitIntoChunks fuel (x :: xs) 0 = none := by
  unfold Code.splitIntoChunks
  have key : ∀ (c : List Str × Str → Bool) (b : List Str × Str → Go.Ctl (List Str × Str) (List Str)),
      (∀ a s, c (a, s) = decide ((s.length : Int) > 0)) →
      (∀ a s, b (a, s) = if decide ((s.length : Int) > 0) then .next (a ++ [Go.sliceTo s 0], Go.sliceFrom s 0) else .brk (a ++ [s], s)) →
      ∀ (f : Nat) (acc : List Str), Go.forWhile f (acc, x :: xs) c b = none := by
    intro c b hc hb f
    induction f with
    | zero => intro acc; rfl
    | succ f ih =>
      intro acc
      unfold Go.forWhile
      have hpos : decide (((x :: xs).length : Int) > 0) = true := by simp
      rw [hc, hpos, hb, hpos]
      simp only [if_true, Go.sliceFrom, Int.toNat_zero, List.drop_zero]
      exact ih _
  have key' : ∀ (c : List Str × Str → Bool) (b : List Str × Str → Go.Ctl (List Str × Str) (List Str)),
      (∀ a s, c (a, s) = decide ((s.length : Int) > 0)) →
      (∀ a s, b (a, s) = if decide ((s.length : Int) > 0) then .next (a ++ [Go.sliceTo s 0], Go.sliceFrom s 0) else .brk (a ++ [s], s)) →
      (match Go.forWhile fuel (([] : List Str), x :: xs) c b with
        | none => none
        | some (.ret r) => some r
        | some (.next (chunks, _)) => some chunks
        | some (.brk (chunks, _)) => some chunks) = (none : Option (List Str)) := by
    intro c b hc hb
    rw [key c b hc hb fuel []]
  exact key' _ _ (by intro a s; rfl) (by intro a s; rfl)

/-! ## `isUserAuthenticated` is the model's `classify`

The session enters through its getters, `parseJWT` and `VerifyJWTSignatureAndClaims` through what the model's environment says
about the token string; an accepted token has a numeric `exp` (`JWT.Verify` refuses it otherwise: `JWT_Verify_refines`).  The
model's clock counts seconds, the code's nanoseconds. -/
theorem isUserAuthenticated_refines (c : Handler.Cfg) (e : Handler.Env) (v : Session.View) (t : Go.Inst) (sess : Go.Sess)
    (hA : sess.GetAuthenticated = Session.getAuth c.maxAge e.now v)
    (hR : sess.GetRefreshToken = Session.getToken e.decompress v .refresh)
    (hT : sess.GetAccessToken = Session.getToken e.decompress v .access)
    (hG : t.refreshGracePeriod = c.grace * 1000000000)
    (hP : (t.parseJWT sess.GetAccessToken).2.isNone = (e.tok sess.GetAccessToken).parses)
    (hV : (Code.TraefikOidc_VerifyJWTSignatureAndClaims (e.now * 1000000000) t (t.parseJWT sess.GetAccessToken).1 sess.GetAccessToken).isNone
            = decide ((e.tok sess.GetAccessToken).verdict e.now = .accept))
    (hE : (e.tok sess.GetAccessToken).verdict e.now = .accept →
            ∃ x, Go.asF64 (Go.mapGet (t.parseJWT sess.GetAccessToken).1.Claims "exp".toList) = (x, true) ∧
                 x.trunc = (e.tok sess.GetAccessToken).exp) :
    Code.TraefikOidc_isUserAuthenticated (e.now * 1000000000) t sess = Handler.classify c e v := by
  unfold Code.TraefikOidc_isUserAuthenticated Handler.classify
  generalize hvj : Code.TraefikOidc_VerifyJWTSignatureAndClaims (e.now * 1000000000) t = vj at hV ⊢
  clear hvj
  obtain ⟨ex, ad, ar, gp, ecf, ecl, pj, iu, ci, gj, tp, vs⟩ := t
  simp only at hG hP hV hE
  rw [← hA, ← hR, ← hT]
  have ee : (['e','x','p'] : Str) = "exp".toList := rfl
  rw [ee]
  simp only []
  rcases hp : pj sess.GetAccessToken with ⟨jwt, perr⟩
  rw [hp] at hP hV hE
  simp only at hP hV hE
  cases hAu : sess.GetAuthenticated
  · by_cases hr : sess.GetRefreshToken = [] <;> simp [hr]
  · simp only [Bool.not_true, Bool.false_eq_true, if_false]
    by_cases ht : sess.GetAccessToken = []
    · by_cases hr : sess.GetRefreshToken = [] <;> simp [hr, ht]
    · have ht' : (sess.GetAccessToken == ([] : Str)) = false := by simpa using ht
      simp only [ht', Bool.false_eq_true, if_false, ht]
      cases perr with
      | some m =>
        have : (e.tok sess.GetAccessToken).parses = false := by rw [← hP]; rfl
        by_cases hr : sess.GetRefreshToken = [] <;> simp [hr, this]
      | none =>
        have hpar : (e.tok sess.GetAccessToken).parses = true := by rw [← hP]; rfl
        simp only [Option.isSome_none, Bool.false_eq_true, if_false, hpar, Bool.not_true]
        by_cases hsome : (vj jwt sess.GetAccessToken).isSome = true
        · have hna : (e.tok sess.GetAccessToken).verdict e.now ≠ .accept := by
            intro h
            have : (vj jwt sess.GetAccessToken).isNone = true := by rw [hV]; simp [h]
            cases hh : vj jwt sess.GetAccessToken <;> simp [hh] at hsome this
          simp only [hsome, if_true]
          cases hvd : (e.tok sess.GetAccessToken).verdict e.now with
          | accept => exact absurd hvd hna
          | expired => by_cases hr : sess.GetRefreshToken = [] <;> simp [hr]
          | invalid => by_cases hr : sess.GetRefreshToken = [] <;> simp [hr]
        · have hacc : (e.tok sess.GetAccessToken).verdict e.now = .accept := by
            have : (vj jwt sess.GetAccessToken).isNone = true := by
              cases hh : vj jwt sess.GetAccessToken <;> simp [hh] at hsome ⊢
            rw [hV] at this; simpa using this
          obtain ⟨x, hx, hxe⟩ := hE hacc
          simp only [hsome, Bool.false_eq_true, if_false, hacc, hx, Bool.not_true]
          simp only [Go.timeBefore, Go.timeUnix, Go.timeAdd, Go.int64, hG, hxe, Int.add_zero]
          by_cases hlt : (e.tok sess.GetAccessToken).exp < e.now + c.grace
          · have : (e.tok sess.GetAccessToken).exp * 1000000000 < e.now * 1000000000 + c.grace * 1000000000 := by omega
            by_cases hr : sess.GetRefreshToken = [] <;> simp [hr, hlt, this]
          · have : ¬ (e.tok sess.GetAccessToken).exp * 1000000000 < e.now * 1000000000 + c.grace * 1000000000 := by omega
            simp [hlt, this]

end Oidc.CodeRefine
