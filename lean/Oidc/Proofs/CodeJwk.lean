import Oidc.Generated.Code
import Oidc.Model.KeyCache
/-! # The translated `JWKCache.GetJWKS` / `JWKCache.Cleanup` (jwk.go) refine `Oidc.KeyCache`

The translated functions run over `Go.DOps` (clock, one HTTP request at the key-set endpoint).  The abstraction forgets nothing:
`abs` maps the struct field by field. -/
namespace Oidc.CodeJwk
open Oidc Oidc.KeyCache Oidc.Generated.Code

def abs (c : Go.JwkCache) : St Go.JWKSet := { keys := c.jwks, expires := c.expiresAt, lifetime := c.CacheLifetime }

theorem fresh_eq (c : Go.JwkCache) (now : Int) :
    (c.jwks.isSome && Go.timeBefore now c.expiresAt) = fresh (abs c) now := rfl

/-- the answer of the provider as the model sees it: an error is "no answer" -/
def answerOf (r : Option Go.JWKSet × Go.Err) : Option Go.JWKSet := if r.2.isSome then none else r.1

/-- **refinement**: result, new cache contents and world of the translated `GetJWKS` are those of the model's `get`, with the
    provider asked exactly when the model says so.  `hnil`: `fetchJWKS` returns a key set whenever it returns no error (it ends in
    `return &jwks, nil`: the text obligation `Text_fetchJWKS`). -/
theorem GetJWKS_refines {σ : Type} (ops : Go.DOps σ) (c : Go.JwkCache) (ctx : Go.Ctx) (url : Go.Str) (hc : Go.HTTPClient) (w : σ)
    (hnil : ∀ w u, ((ops.fetchJWKS w u).1.2.isNone → (ops.fetchJWKS w u).1.1.isSome)) :
    (JWKCache_GetJWKS ops c ctx url hc w).1.1.1
        = (KeyCache.get Go.Hour (abs c) (ops.clock w) (answerOf (ops.fetchJWKS w url).1) (ops.clock (ops.fetchJWKS w url).2)).1 ∧
    abs (JWKCache_GetJWKS ops c ctx url hc w).1.2
        = (KeyCache.get Go.Hour (abs c) (ops.clock w) (answerOf (ops.fetchJWKS w url).1) (ops.clock (ops.fetchJWKS w url).2)).2 ∧
    (JWKCache_GetJWKS ops c ctx url hc w).2 = (if asks (abs c) (ops.clock w) then (ops.fetchJWKS w url).2 else w) ∧
    ((JWKCache_GetJWKS ops c ctx url hc w).1.1.2.isSome ↔ (asks (abs c) (ops.clock w) = true ∧ (ops.fetchJWKS w url).1.2.isSome)) := by
  have hf := fresh_eq c (ops.clock w)
  by_cases hfr : fresh (abs c) (ops.clock w) = true
  · have h1 : (c.jwks.isSome && Go.timeBefore (ops.clock w) c.expiresAt) = true := by rw [hf]; exact hfr
    simp only [JWKCache_GetJWKS, h1, if_true, KeyCache.get, hfr, asks]
    simp [abs]
  · have hfr' : fresh (abs c) (ops.clock w) = false := by simpa using hfr
    have h1 : (c.jwks.isSome && Go.timeBefore (ops.clock w) c.expiresAt) = false := by rw [hf]; exact hfr'
    cases he : (ops.fetchJWKS w url).1.2 with
    | some e =>
      simp only [JWKCache_GetJWKS, h1, KeyCache.get, hfr', asks, answerOf, he]
      simp
    | none =>
      have hs := hnil w url (by simp [he])
      obtain ⟨k, hk⟩ := Option.isSome_iff_exists.mp hs
      simp only [JWKCache_GetJWKS, h1, KeyCache.get, hfr', asks, answerOf, he, hk]
      by_cases hl : c.CacheLifetime = 0
      · simp [hl, abs, Go.timeAdd, Go.Hour]
      · simp [hl, abs, Go.timeAdd]

theorem Cleanup_refines (now : Int) (c : Go.JwkCache) : abs (JWKCache_Cleanup now c) = cleanup (abs c) now := by
  unfold JWKCache_Cleanup cleanup
  have e : (c.jwks.isSome && Go.timeAfter now c.expiresAt) = ((abs c).keys.isSome && decide ((abs c).expires < now)) := rfl
  by_cases h : (c.jwks.isSome && Go.timeAfter now c.expiresAt) = true
  · have h2 := h; rw [e] at h2
    simp only [h, h2, if_true]; rfl
  · have h' : (c.jwks.isSome && Go.timeAfter now c.expiresAt) = false := by simpa using h
    have h2 := h'; rw [e] at h2
    simp only [h', h2]; rfl

/-! ### consequences, on the model -/

/-- keys are only ever served from a fresh cache entry or from the provider's answer to this very lookup -/
theorem get_some {K : Type} (hour : Int) (s : St K) (now : Int) (answer : Option K) (after : Int) (k : K)
    (h : (KeyCache.get hour s now answer after).1 = some k) :
    (s.keys = some k ∧ now < s.expires) ∨ (fresh s now = false ∧ answer = some k) := by
  unfold KeyCache.get at h
  by_cases hf : fresh s now = true
  · simp only [hf, if_true] at h
    left
    refine ⟨h, ?_⟩
    simp [fresh] at hf
    exact hf.2
  · have hf' : fresh s now = false := by simpa using hf
    simp only [hf'] at h
    right
    cases answer with
    | none => simp at h
    | some k' => simp at h; exact ⟨hf', by rw [h]⟩

/-- a failing provider and no fresh entry: no keys, cache untouched (an expired key set is never served) -/
theorem get_stale_failing {K : Type} (hour : Int) (s : St K) (now after : Int) (h : fresh s now = false) :
    KeyCache.get hour s now none after = (none, s) := by
  simp [KeyCache.get, h]

/-- the clean-up is invisible to lookups made at or after it -/
theorem get_after_cleanup {K : Type} (hour : Int) (s : St K) (t now : Int) (answer : Option K) (after : Int) (h : t ≤ now) :
    (KeyCache.get hour (cleanup s t) now answer after).1 = (KeyCache.get hour s now answer after).1 ∧
    asks (cleanup s t) now = asks s now := by
  unfold cleanup
  by_cases hc : (s.keys.isSome && decide (s.expires < t)) = true
  · simp only [hc, if_true]
    have hexp : s.expires < t := by simp at hc; exact hc.2
    have h1 : fresh s now = false := by
      simp only [fresh]
      have : ¬ now < s.expires := by omega
      simp [this]
    have h2 : fresh ({ s with keys := none } : St K) now = false := by simp [fresh]
    simp only [KeyCache.get, asks, h1, h2]
    cases answer <;> simp
  · have hc' : (s.keys.isSome && decide (s.expires < t)) = false := by simpa using hc
    simp [hc']

end Oidc.CodeJwk
