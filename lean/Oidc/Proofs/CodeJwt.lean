import Oidc.Generated.Code
import Oidc.Proofs.Jwt
import Oidc.Facts
/-!
# jwt.go `JWT.Verify` and its helpers, as translated from the source, refine the claims half of the model's verifier
-/
namespace Oidc.CodeRefine
open Oidc Oidc.Generated Oidc.Jwt

/-! ## the model's verifier is the signature half followed by the claims half -/
theorem verifyStaged_eq (f : Facts) (issuer clientID : String) (keys : List Key) (now : Int) (t : Tok) :
    verifyStaged f issuer clientID keys now t =
      (match sigStage f keys t with | .ok _ => claimsStage f issuer clientID now t | .error r => .error r) := by
  unfold verifyStaged sigStage
  cases hp : t.parsed
  · simp
  · cases hk : asStr t.kid with
    | none => simp
    | some kid =>
      cases ha : asStr t.alg with
      | none => simp
      | some alg =>
        cases hf : keys.find? (·.kid == kid) with
        | none => simp [hf]
        | some key =>
          by_cases h1 : key.fam = .unsupported
          · simp [hf, h1]
          · by_cases h2 : alg ∈ f.hashAlgs
            · by_cases h3 : familyOfAlg alg = key.fam
              · cases h4 : t.sigValid
                · simp [hf, h1, h2, h3, h4]
                · unfold claimsStage subStage
                  simp [hf, h1, h2, h3, h4, ha]
              · simp [hf, h1, h2, h3]
            · simp [hf, h1, h2]

theorem accept_eq (f : Facts) (issuer clientID : String) (keys : List Key) (now : Int) (t : Tok) :
    accept f issuer clientID keys now t = (isOk (sigStage f keys t) && isOk (claimsStage f issuer clientID now t)) := by
  unfold accept
  rw [verifyStaged_eq]
  cases sigStage f keys t <;> cases claimsStage f issuer clientID now t <;> rfl

/-! ## from the Go values the translated code works on to the model's token -/
/-- a NumericDate in whole seconds as `numericDateSeconds` reads it: saturated at ±2^62 (fix F20) -/
def sat (n : Int) : Int := if n ≥ 4611686018427387904 then 4611686018427387904 else if n ≤ -4611686018427387904 then -4611686018427387904 else n

theorem numericDateSeconds_eq (x : Go.F64) : Code.numericDateSeconds x = sat x.trunc := by
  unfold Code.numericDateSeconds sat Go.f64GeNonneg Go.f64LeNonpos Code.maxNumericDate Go.int64
  by_cases h1 : x.trunc ≥ 4611686018427387904
  · simp [h1]
  · by_cases h2 : x.trunc ≤ -4611686018427387904
    · simp [h1, h2]
    · simp [h1, h2]

/-- inside the range nothing changes -/
theorem sat_id (n : Int) (h : -4611686018427387904 < n ∧ n < 4611686018427387904) : sat n = n := by
  unfold sat; split
  · omega
  · split <;> omega

def absItem : Go.Any → J
  | .str s => .str (String.ofList s)
  | _ => .other
/-- a decoded JSON value as the model sees it; numbers become whole seconds (`numericDateSeconds(x)`: `int64(x)`, saturated at
    ±2^62) scaled to nanoseconds -/
def absJ : Go.Any → J
  | .str s => .str (String.ofList s)
  | .num x => .num (sat x.trunc * 1000000000)
  | .arr xs => .arr (xs.map absItem)
  | _ => .other
def absField (m : Go.Obj) (k : Go.Str) : Option J := (m.find? (fun p => p.1 == k)).map (fun p => absJ p.2)
def absTok (j : Go.JWT) : Tok :=
  { parsed := true, sigValid := true, alg := absField j.Header "alg".toList, kid := absField j.Header "kid".toList,
    iss := absField j.Claims "iss".toList, aud := absField j.Claims "aud".toList, exp := absField j.Claims "exp".toList,
    iat := absField j.Claims "iat".toList, nbf := absField j.Claims "nbf".toList, sub := absField j.Claims "sub".toList }

/-- the parameters of the model's verifier as the translated code has them: the allow-list literal of `JWT.Verify`, the two
    tolerances declared in jwt.go, a present `nbf` of another type is refused -/
def codeFacts : Facts :=
  { supportedAlgs := Oidc.Facts.nine, hashAlgs := Oidc.Facts.nine, skewFuture := Code.ClockSkewToleranceFuture,
    skewPast := Code.ClockSkewTolerancePast, nbfTypeChecked := true }

theorem ofList_inj {a b : List Char} : String.ofList a = String.ofList b ↔ a = b := by
  constructor
  · intro h; have := congrArg String.toList h; simpa using this
  · intro h; rw [h]

/-! ### helpers of jwt.go -/
theorem verifyIssuer_isSome (a b : Go.Str) : (Code.verifyIssuer a b).isSome = (a != b) := by
  unfold Code.verifyIssuer; cases h : (a != b) <;> simp

theorem verifyExpiration_isSome (now : Int) (x : Go.F64) :
    (Code.verifyExpiration now x).isSome = decide (sat x.trunc * 1000000000 + Code.ClockSkewToleranceFuture < now) := by
  unfold Code.verifyExpiration Code.verifyTimeConstraint
  simp only [Go.timeAfter, Go.timeAdd, Go.timeUnix, numericDateSeconds_eq, if_true, Int.add_zero]
  by_cases h : sat x.trunc * 1000000000 + Code.ClockSkewToleranceFuture < now <;> simp [h]

theorem notBefore_isSome (now : Int) (x : Go.F64) (name : Go.Str) :
    (Code.verifyTimeConstraint now x name false).isSome = decide (now < sat x.trunc * 1000000000 - Code.ClockSkewTolerancePast) := by
  unfold Code.verifyTimeConstraint
  simp only [Go.timeBefore, Go.timeAdd, Go.timeUnix, numericDateSeconds_eq, Bool.false_eq_true, if_false, Int.add_zero]
  have e : sat x.trunc * 1000000000 + -Code.ClockSkewTolerancePast = sat x.trunc * 1000000000 - Code.ClockSkewTolerancePast := by omega
  rw [e]
  by_cases h : now < sat x.trunc * 1000000000 - Code.ClockSkewTolerancePast
  · simp only [h, decide_true, if_true]; split <;> rfl
  · simp [h]

theorem verifyIssuedAt_isSome (now : Int) (x : Go.F64) :
    (Code.verifyIssuedAt now x).isSome = decide (now < sat x.trunc * 1000000000 - Code.ClockSkewTolerancePast) := by
  unfold Code.verifyIssuedAt; exact notBefore_isSome ..
theorem verifyNotBefore_isSome (now : Int) (x : Go.F64) :
    (Code.verifyNotBefore now x).isSome = decide (now < sat x.trunc * 1000000000 - Code.ClockSkewTolerancePast) := by
  unfold Code.verifyNotBefore; exact notBefore_isSome ..

/-- a `for … range` whose body sets a flag and breaks on the first hit computes `any` -/
theorem forRange_brk_true {α ρ : Type} (xs : List α) (p : α → Bool) (f : α → Bool → Go.Ctl Bool ρ)
    (hf : ∀ x s, f x s = if p x then .brk true else .next s) (found : Bool) :
    Go.forRange xs found f = .next (found || xs.any p) := by
  induction xs generalizing found with
  | nil => simp [Go.forRange]
  | cons x xs ih =>
    unfold Go.forRange
    rw [hf]
    cases hp : p x
    · simp only [Bool.false_eq_true, if_false, List.any_cons, hp, Bool.false_or]; exact ih found
    · simp [hp]

/-- the loop of `verifyAudience` -/
theorem audLoop (xs : List Go.Any) (cid : Go.Str) (found : Bool) :
    Go.forRange xs found (fun v found =>
      match Go.asStr v with
      | (str, ok) => if (ok && (str == cid)) = true then (.brk true : Go.Ctl Bool Go.Err) else .next found) =
    .next (found || xs.any (fun v => (Go.asStr v).2 && (Go.asStr v).1 == cid)) := by
  apply forRange_brk_true
  intro x s
  rcases Go.asStr x with ⟨a, b⟩
  rfl

theorem asStr_absItem (v : Go.Any) (cid : Go.Str) :
    ((Go.asStr v).2 && (Go.asStr v).1 == cid) = (match absItem v with | .str s => s == String.ofList cid | _ => false) := by
  cases v <;> simp [Go.asStr, absItem]
  rw [Bool.eq_iff_iff]; simp [ofList_inj]

theorem verifyAudience_isNone (aud : Go.Any) (cid : Go.Str) :
    (Code.verifyAudience aud cid).isNone = audOK (String.ofList cid) (some (absJ aud)) := by
  cases aud with
  | str s => unfold Code.verifyAudience; simp only [absJ, audOK]; by_cases h : s = cid <;> simp [h, ofList_inj]
  | arr xs =>
    unfold Code.verifyAudience
    simp only [absJ, audOK]
    have h := audLoop xs cid false
    simp only [Bool.false_or] at h
    rw [h]
    simp only [List.any_map]
    have : (xs.any fun v => (Go.asStr v).2 && (Go.asStr v).1 == cid) =
        (xs.any ((fun j => match j with | .str s => s == String.ofList cid | _ => false) ∘ absItem)) := by
      congr 1; funext v; exact asStr_absItem v cid
    rw [this]
    cases (xs.any ((fun j => match j with | .str s => s == String.ofList cid | _ => false) ∘ absItem)) <;> simp
  | nil => simp [Code.verifyAudience, absJ, audOK]
  | num x => simp [Code.verifyAudience, absJ, audOK]
  | bool b => simp [Code.verifyAudience, absJ, audOK]
  | obj kv => simp [Code.verifyAudience, absJ, audOK]
  | int i => simp [Code.verifyAudience, absJ, audOK]

/-! ### the allow-list literal of `JWT.Verify` -/
theorem boolMapGet_allTrue (ks : List Go.Str) (a : Go.Str) :
    Go.boolMapGet (ks.map (fun k => (k, true))) a = ks.contains a := by
  induction ks with
  | nil => rfl
  | cons k ks ih =>
    unfold Go.boolMapGet at ih ⊢
    simp only [List.map_cons, List.find?_cons, List.contains_cons]
    by_cases h : k = a
    · subst h; simp
    · have h' : (k == a) = false := by simpa using h
      have h'' : (a == k) = false := by simpa using (fun e => h e.symm)
      simp only [h', h'', Bool.false_or]
      exact ih

def nineChars : List Go.Str :=
  [['E','S','2','5','6'], ['E','S','3','8','4'], ['E','S','5','1','2'], ['P','S','2','5','6'], ['P','S','3','8','4'],
   ['P','S','5','1','2'], ['R','S','2','5','6'], ['R','S','3','8','4'], ['R','S','5','1','2']]
theorem nineChars_eq : Oidc.Facts.nine.map String.toList = nineChars := by decide

theorem nine_contains (a : Go.Str) : Oidc.Facts.nine.contains (String.ofList a) = nineChars.contains a := by
  rw [Bool.eq_iff_iff]
  simp only [List.contains_iff_mem]
  constructor
  · intro h
    have := List.mem_map_of_mem (f := String.toList) h
    rw [nineChars_eq] at this
    simpa using this
  · intro h
    rw [← nineChars_eq] at h
    obtain ⟨s, hs, rfl⟩ := List.mem_map.mp h
    simpa using hs

/-! ### reading a field of a JSON object: Go's comma-ok forms against the model's optional shapes -/
theorem asStr_field (m : Go.Obj) (k : Go.Str) :
    Go.asStr (Go.mapGet m k) = (match asStr (absField m k) with | some s => (s.toList, true) | none => ([], false)) := by
  unfold Go.mapGet absField
  cases h : m.find? (fun p => p.1 == k) with
  | none => simp [Go.asStr, asStr]
  | some p => rcases p with ⟨k', v⟩; cases v <;> simp [Go.asStr, asStr, absJ]

theorem asNum_field (m : Go.Obj) (k : Go.Str) :
    asNum (absField m k) =
      if (Go.asF64 (Go.mapGet m k)).2 then some (sat (Go.asF64 (Go.mapGet m k)).1.trunc * 1000000000) else none := by
  unfold Go.mapGet absField
  cases h : m.find? (fun p => p.1 == k) with
  | none => simp [Go.asF64, asNum]
  | some p => rcases p with ⟨k', v⟩; cases v <;> simp [Go.asF64, asNum, absJ]

theorem field_mapGet2 (m : Go.Obj) (k : Go.Str) :
    absField m k = if (Go.mapGet2 m k).2 then some (absJ (Go.mapGet2 m k).1) else none := by
  unfold Go.mapGet2 absField
  cases h : m.find? (fun p => p.1 == k) <;> simp

theorem nbfClass_absJ (v : Go.Any) :
    nbfClass (some (absJ v)) = if (Go.asF64 v).2 then .num (sat (Go.asF64 v).1.trunc * 1000000000) else .wrongType := by
  cases v <;> simp [Go.asF64, nbfClass, absJ]

/-- the last step of `JWT.Verify` -/
theorem sub_step (j : Go.JWT) :
    (match Go.asStr (Go.mapGet j.Claims ['s','u','b']) with
      | (sub, ok) => if ((!ok) || (sub == ([] : Go.Str))) = true then
          (some ['m','i','s','s','i','n','g',' ','o','r',' ','e','m','p','t','y',' ','\'','s','u','b','\'',' ','c','l','a','i','m'] : Go.Err)
        else (none : Go.Err)).isNone = isOk (subStage (absTok j)) := by
  have hs : (absTok j).sub = absField j.Claims ['s','u','b'] := rfl
  unfold subStage
  rw [asStr_field, hs]
  cases h : asStr (absField j.Claims ['s','u','b']) with
  | none => simp [isOk]
  | some s =>
    by_cases he : s = ""
    · subst he; simp [isOk]
    · have : s.toList ≠ [] := by
        intro h0; apply he; have := congrArg String.ofList h0; simpa using this
      simp [isOk, he, this]

/-! ### Boolean normal forms of "return the error if there is one, else go on" -/
theorem isNone_ite_some (c : Bool) (m : Go.Str) (k : Go.Err) :
    (if c = true then some m else k).isNone = (!c && k.isNone) := by cases c <;> simp
theorem isNone_ite_err (e k : Go.Err) : (if e.isSome = true then e else k).isNone = (e.isNone && k.isNone) := by
  cases e <;> simp
theorem isOk_ite (c : Prop) [Decidable c] (r : Reject) (k : Except Reject Unit) :
    isOk (if c then .error r else k) = (!decide c && isOk k) := by
  by_cases h : c <;> simp [h, isOk]

/-- the allow-list literal in the order the source has it -/
def codeOrder : List Go.Str :=
  [['R','S','2','5','6'], ['R','S','3','8','4'], ['R','S','5','1','2'], ['P','S','2','5','6'], ['P','S','3','8','4'],
   ['P','S','5','1','2'], ['E','S','2','5','6'], ['E','S','3','8','4'], ['E','S','5','1','2']]
theorem codeOrder_contains (a : Go.Str) : codeOrder.contains a = nineChars.contains a := by
  rw [Bool.eq_iff_iff]
  simp only [List.contains_iff_mem, codeOrder, nineChars, List.mem_cons, List.not_mem_nil, or_false]
  constructor <;> (intro h; rcases h with h|h|h|h|h|h|h|h|h <;> simp [h])

/-! ## `JWT.Verify` as translated accepts exactly when the claims half of the model's verifier does -/
theorem JWT_Verify_refines (now : Int) (j : Go.JWT) (iss cid : Go.Str) :
    (Code.JWT_Verify now j iss cid).isNone =
      isOk (claimsStage codeFacts (String.ofList iss) (String.ofList cid) now (absTok j)) := by
  have halg : (absTok j).alg = absField j.Header ['a','l','g'] := rfl
  have hiss : (absTok j).iss = absField j.Claims ['i','s','s'] := rfl
  have haud : (absTok j).aud = absField j.Claims ['a','u','d'] := rfl
  have hexp : (absTok j).exp = absField j.Claims ['e','x','p'] := rfl
  have hiat : (absTok j).iat = absField j.Claims ['i','a','t'] := rfl
  have hnbf : (absTok j).nbf = absField j.Claims ['n','b','f'] := rfl
  have hsub := sub_step j
  generalize hS : isOk (subStage (absTok j)) = S at hsub
  unfold Code.JWT_Verify claimsStage
  rw [halg, hiss, haud, hexp, hiat, hnbf, asStr_field]
  cases h1 : asStr (absField j.Header ['a','l','g']) with
  | none => simp [isOk]
  | some alg =>
    have hnine : Go.boolMapGet ([(['R','S','2','5','6'], true), (['R','S','3','8','4'], true), (['R','S','5','1','2'], true), (['P','S','2','5','6'], true), (['P','S','3','8','4'], true), (['P','S','5','1','2'], true), (['E','S','2','5','6'], true), (['E','S','3','8','4'], true), (['E','S','5','1','2'], true)] : List (Go.Str × Bool)) alg.toList
        = codeFacts.supportedAlgs.contains alg := by
      have := boolMapGet_allTrue codeOrder alg.toList
      rw [codeOrder_contains, ← nine_contains] at this
      simpa [codeOrder, codeFacts] using this
    simp only [hnine, Bool.not_true, Bool.false_eq_true, if_false, isNone_ite_some, isOk_ite]
    cases h2 : codeFacts.supportedAlgs.contains alg
    · simp
    · simp only [Bool.not_true, Bool.true_and, Bool.false_eq_true, decide_false]
      rw [asStr_field]
      cases h3 : asStr (absField j.Claims ['i','s','s']) with
      | none => simp [isOk]
      | some issS =>
        simp only [Bool.not_true, Bool.false_eq_true, if_false, isNone_ite_err, isNone_ite_some, isOk_ite]
        rw [field_mapGet2 j.Claims ['a','u','d'], asNum_field j.Claims ['e','x','p'], asNum_field j.Claims ['i','a','t'],
          field_mapGet2 j.Claims ['n','b','f']]
        rcases haudv : Go.mapGet2 j.Claims ['a','u','d'] with ⟨audV, audOk⟩
        rcases hexpv : Go.asF64 (Go.mapGet j.Claims ['e','x','p']) with ⟨expX, expOk⟩
        rcases hiatv : Go.asF64 (Go.mapGet j.Claims ['i','a','t']) with ⟨iatX, iatOk⟩
        rcases hnbfv : Go.mapGet2 j.Claims ['n','b','f'] with ⟨nbfV, nbfOk⟩
        have hI : (Code.verifyIssuer issS.toList iss).isNone = !decide (issS ≠ String.ofList iss) := by
          have := verifyIssuer_isSome issS.toList iss
          cases hv : Code.verifyIssuer issS.toList iss <;> simp [hv] at this ⊢
          · rw [← this]; simp
          · intro h; apply this; rw [h]; simp
        simp only [hI]
        have hsub' : Option.isNone (if (!(Go.asStr (Go.mapGet j.Claims ['s','u','b'])).snd ||
              (Go.asStr (Go.mapGet j.Claims ['s','u','b'])).fst == ([] : Go.Str)) = true then
            (some ['m','i','s','s','i','n','g',' ','o','r',' ','e','m','p','t','y',' ','\'','s','u','b','\'',' ','c','l','a','i','m'] : Go.Err)
            else none) = S := by
          rw [← hsub]
        generalize (if (!(Go.asStr (Go.mapGet j.Claims ['s','u','b'])).snd ||
              (Go.asStr (Go.mapGet j.Claims ['s','u','b'])).fst == ([] : Go.Str)) = true then
            (some ['m','i','s','s','i','n','g',' ','o','r',' ','e','m','p','t','y',' ','\'','s','u','b','\'',' ','c','l','a','i','m'] : Go.Err)
            else none) = SB at hsub' ⊢
        have hA := verifyAudience_isNone audV cid
        have hE : (Code.verifyExpiration now expX).isNone = !decide (now > sat expX.trunc * 1000000000 + codeFacts.skewFuture) := by
          have := verifyExpiration_isSome now expX
          cases hv : Code.verifyExpiration now expX <;> simp [hv, codeFacts] at this ⊢ <;> first | omega | exact decide_eq_false (by omega) | exact decide_eq_true (by omega)
        have hT : (Code.verifyIssuedAt now iatX).isNone = !decide (now < sat iatX.trunc * 1000000000 - codeFacts.skewPast) := by
          have := verifyIssuedAt_isSome now iatX
          cases hv : Code.verifyIssuedAt now iatX <;> simp [hv, codeFacts] at this ⊢ <;> first | omega | exact decide_eq_false (by omega) | exact decide_eq_true (by omega)
        have hN : codeFacts.nbfTypeChecked = true := rfl
        have ok1 : ∀ r, isOk (.error r) = false := fun _ => rfl
        by_cases hi : issS = String.ofList iss
        · cases audOk
          · simp [audOK]
          · cases expOk
            · simp [ok1]
            · cases iatOk
              · simp [ok1, isOk_ite]
              · cases nbfOk
                · simp [ok1, isOk_ite, hi, hA, hE, hT, nbfClass, hS, hsub']
                · rcases hx : Go.asF64 nbfV with ⟨nbfX, nbfXok⟩
                  have hB : (Code.verifyNotBefore now nbfX).isNone = !decide (now < sat nbfX.trunc * 1000000000 - codeFacts.skewPast) := by
                    have := verifyNotBefore_isSome now nbfX
                    cases hv : Code.verifyNotBefore now nbfX <;> simp [hv, codeFacts] at this ⊢ <;> first | omega | exact decide_eq_false (by omega) | exact decide_eq_true (by omega)
                  cases nbfXok
                  · simp [ok1, isOk_ite, hi, hA, hE, hT, nbfClass_absJ, hx, hN]
                  · simp [ok1, isOk_ite, hi, hA, hE, hT, nbfClass_absJ, hx, hS, hsub', isNone_ite_err, hB]
        · simp [hi]

/-! ## main.go `VerifyJWTSignatureAndClaims` as translated is the model's whole verifier

The key set, the JWK-to-PEM conversion and the signature check are calls into code that is not translated; they enter as fields
of the instance record, characterised by the hypotheses: `jwkToPEM` succeeds exactly for the key types it supports, and
`verifySignature` returns nil exactly when it knows a hash for `alg`, the key's family serves `alg`, and the signature is valid
(`sig`: the reference verdict).  The rest — `kid`/`alg` typing, key selection by `kid`, the order of the checks, the claims — is
the translated code. -/
def absKey (fam : Go.JWK → Family) (k : Go.JWK) : Key := ⟨String.ofList k.Kid, fam k⟩

theorem forRange_find {α ρ : Type} (xs : List α) (p : α → Bool) (f : α → Option α → Go.Ctl (Option α) ρ)
    (hf : ∀ x s, f x s = if p x then .brk (some x) else .next s) (m0 : Option α) :
    Go.forRange xs m0 f = .next (match xs.find? p with | some x => some x | none => m0) := by
  induction xs generalizing m0 with
  | nil => simp [Go.forRange]
  | cons x xs ih =>
    unfold Go.forRange
    rw [hf]
    cases hp : p x
    · simp only [Bool.false_eq_true, if_false, List.find?_cons, hp]; exact ih m0
    · simp [hp]

/-- a loop whose body never returns does not return -/
theorem forRange_no_ret {α σ ρ : Type} (xs : List α) (f : α → σ → Go.Ctl σ ρ) (hf : ∀ x s r, f x s ≠ .ret r) :
    ∀ s r, Go.forRange xs s f ≠ .ret r := by
  induction xs with
  | nil => intro s r; simp [Go.forRange]
  | cons x t ih =>
    intro s r
    unfold Go.forRange
    cases hfx : f x s with
    | next s' => exact ih s' r
    | brk s' => simp
    | ret r' => exact absurd hfx (hf x s r')

theorem find_absKey (fam : Go.JWK → Family) (ks : List Go.JWK) (kid : String) :
    (ks.map (absKey fam)).find? (fun x => x.kid == kid) = (ks.find? (fun k => k.Kid == kid.toList)).map (absKey fam) := by
  induction ks with
  | nil => rfl
  | cons k ks ih =>
    simp only [List.map_cons, List.find?_cons, absKey]
    have : (String.ofList k.Kid == kid) = (k.Kid == kid.toList) := by
      rw [Bool.eq_iff_iff]; simp only [beq_iff_eq]
      constructor
      · intro h; rw [← h]; simp
      · intro h; rw [h]; simp
    rw [this]
    cases (k.Kid == kid.toList)
    · simpa [absKey] using ih
    · rfl

theorem VerifyJWTSignatureAndClaims_refines (now : Int) (t : Go.Inst) (j : Go.JWT) (tok : Go.Str)
    (fam : Go.JWK → Family) (sig : Bool) (jwks : Go.JWKSet)
    (hj : t.getJWKS = (jwks, none))
    (hpem : ∀ k, (t.jwkToPEM (some k)).2.isNone = decide (fam k ≠ .unsupported))
    (hsig : ∀ k alg, (t.verifySignature tok (t.jwkToPEM (some k)).1 alg).isNone =
        (Oidc.Facts.nine.contains (String.ofList alg) && decide (familyOfAlg (String.ofList alg) = fam k) && sig)) :
    (Code.TraefikOidc_VerifyJWTSignatureAndClaims now t j tok).isNone =
      accept codeFacts (String.ofList t.issuerURL) (String.ofList t.clientID) (jwks.Keys.map (absKey fam)) now
        { absTok j with sigValid := sig } := by
  obtain ⟨ex, ad, ar, gp, ecf, ecl, pj, iu, ci, gj, tp, vs⟩ := t
  simp only at hj hpem hsig ⊢
  rw [accept_eq]
  have hcl : claimsStage codeFacts (String.ofList iu) (String.ofList ci) now { absTok j with sigValid := sig } =
      claimsStage codeFacts (String.ofList iu) (String.ofList ci) now (absTok j) := rfl
  rw [hcl, ← JWT_Verify_refines]
  have hkid : ({ absTok j with sigValid := sig } : Tok).kid = absField j.Header ['k','i','d'] := rfl
  have halg : ({ absTok j with sigValid := sig } : Tok).alg = absField j.Header ['a','l','g'] := rfl
  unfold Code.TraefikOidc_VerifyJWTSignatureAndClaims sigStage
  rw [hkid, halg, hj]
  simp only [Option.isSome_none, Bool.false_eq_true, if_false]
  rw [asStr_field j.Header ['k','i','d']]
  cases hk : asStr (absField j.Header ['k','i','d']) with
  | none => simp [isOk, absTok]
  | some kid =>
    simp only [Bool.not_true, Bool.false_eq_true, if_false]
    rw [asStr_field j.Header ['a','l','g']]
    cases ha : asStr (absField j.Header ['a','l','g']) with
    | none => simp [isOk, absTok]
    | some alg =>
      simp only [Bool.not_true, Bool.false_eq_true, if_false]
      rw [forRange_find jwks.Keys (fun k => k.Kid == kid.toList) _ (by intro x s; rfl), find_absKey]
      cases hf : jwks.Keys.find? (fun k => k.Kid == kid.toList) with
      | none => simp [isOk, absTok]
      | some key =>
        have hp := hpem key
        have hs := hsig key alg.toList
        simp only [String.ofList_toList] at hs
        clear hcl hkid halg hsig hpem hj
        simp only [Option.map_some, Option.isNone_some, Bool.false_eq_true, if_false, absKey, absTok, Bool.not_true]
        rcases hpe : tp (some key) with ⟨pem, perr⟩
        rw [hpe] at hp hs
        simp only at hp hs
        by_cases hu : fam key = .unsupported
        · have : perr.isSome = true := by cases perr <;> simp [hu] at hp ⊢
          simp [this, hu, isOk]
        · have : perr.isSome = false := by cases perr <;> simp [hu] at hp ⊢
          simp only [this, Bool.false_eq_true, if_false, hu]
          by_cases hn : alg ∈ codeFacts.hashAlgs
          · have hmem : alg ∈ Oidc.Facts.nine := hn
            by_cases hfm : familyOfAlg alg = fam key
            · cases sig
              · have : (vs tok pem alg.toList).isSome = true := by
                  cases hv : vs tok pem alg.toList <;> simp [hv, hmem, hfm] at hs ⊢
                simp [this, hn, hfm, isOk]
              · have : (vs tok pem alg.toList).isSome = false := by
                  cases hv : vs tok pem alg.toList <;> simp [hv, hmem, hfm] at hs ⊢
                simp only [this, Bool.false_eq_true, if_false]
                cases hJ : Code.JWT_Verify now j iu ci <;> simp [hn, hfm, isOk]
            · have : (vs tok pem alg.toList).isSome = true := by
                cases hv : vs tok pem alg.toList <;> simp [hv, hmem, hfm] at hs ⊢
              simp [this, hn, hfm, isOk]
          · have hmem : alg ∉ Oidc.Facts.nine := hn
            have : (vs tok pem alg.toList).isSome = true := by
              cases hv : vs tok pem alg.toList <;> simp [hv, hmem] at hs ⊢
            simp [this, hn, isOk]

end Oidc.CodeRefine
