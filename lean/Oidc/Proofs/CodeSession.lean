import Oidc.Generated.Code
import Oidc.Proofs.CodeHandler
import Oidc.Proofs.CodeCache
import Oidc.Proofs.Session
import Std.Data.String.ToInt
/-!
# session.go: the token setters and getters as translated from the source

`SetAccessToken` / `GetAccessToken` / `expireAccessTokenChunks` (and the refresh-token triple) are translated over a heap of gorilla
sessions identified by their cookie names (`Go.SessData`).  Shown here: what a setter leaves in memory is exactly what the getter
reads back — for tokens of any size, through the chunking — and the other token's sessions are not touched.
-/
namespace Oidc.CodeRefine
open Oidc Oidc.Generated

/-! ## the heap: association lists -/
theorem find_key_filter_ne {α β : Type} [BEq α] [LawfulBEq α] (l : List (α × β)) (a b : α) (h : b ≠ a) :
    (l.filter (fun p => p.1 != a)).find? (fun p => p.1 == b) = l.find? (fun p => p.1 == b) := by
  induction l with
  | nil => rfl
  | cons x xs ih =>
    by_cases hx : x.1 = a
    · have hb : (x.1 == b) = false := by rw [hx]; exact beq_false_of_ne (Ne.symm h)
      have hf : (x.1 != a) = false := by simp [hx]
      rw [List.filter_cons, List.find?_cons]
      simp only [hf, hb, Bool.false_eq_true, if_false]
      exact ih
    · have hx' : (x.1 != a) = true := by simpa using hx
      rw [List.filter_cons, List.find?_cons]
      simp only [hx', if_true]
      rw [List.find?_cons, ih]

theorem regGet_regSet_same (reg : List (Go.Str × Go.GSess)) (n : Go.Str) (g : Go.GSess) : Go.regGet (Go.regSet reg n g) n = g := by
  simp [Go.regGet, Go.regSet, List.find?]

theorem regGet_regSet_ne (reg : List (Go.Str × Go.GSess)) (n m : Go.Str) (g : Go.GSess) (h : m ≠ n) :
    Go.regGet (Go.regSet reg n g) m = Go.regGet reg m := by
  unfold Go.regGet Go.regSet
  have : ((n, g).1 == m) = false := beq_false_of_ne (Ne.symm h)
  simp only [List.find?, this, find_key_filter_ne reg n m h]

theorem mapGet_mapSet_same (m : Go.Obj) (k : Go.Str) (v : Go.Any) : Go.mapGet (Go.mapSet m k v) k = v := by
  simp [Go.mapGet, Go.mapSet, List.find?]

theorem mapGet_mapSet_ne (m : Go.Obj) (k k' : Go.Str) (v : Go.Any) (h : k' ≠ k) : Go.mapGet (Go.mapSet m k v) k' = Go.mapGet m k' := by
  unfold Go.mapGet Go.mapSet
  have : ((k, v).1 == k') = false := beq_false_of_ne (Ne.symm h)
  simp only [List.find?, this, find_key_filter_ne m k k' h]

theorem imapGet_imapSet_same (m : List (Int × Go.SessPtr)) (i : Int) (s : Go.SessPtr) : Go.imapGet (Go.imapSet m i s) i = (s, true) := by
  simp [Go.imapGet, Go.imapSet, List.find?]

theorem imapGet_imapSet_ne (m : List (Int × Go.SessPtr)) (i j : Int) (s : Go.SessPtr) (h : j ≠ i) :
    Go.imapGet (Go.imapSet m i s) j = Go.imapGet m j := by
  unfold Go.imapGet Go.imapSet
  have : ((i, s).1 == j) = false := beq_false_of_ne (Ne.symm h)
  simp only [List.find?, this, find_key_filter_ne m i j h]

/-! ## cookie names -/
theorem chunkName_inj (b : Go.Str) (i j : Int) (h : Go.chunkName b i = Go.chunkName b j) : i = j := by
  unfold Go.chunkName at h
  have h1 := List.append_cancel_left h
  have h2 : (toString i) = (toString j) := String.toList_inj.mp h1
  exact Int.repr_injective h2

theorem chunkName_ne_base (b : Go.Str) (i : Int) : Go.chunkName b i ≠ b := by
  intro h
  have := congrArg List.length h
  simp [Go.chunkName] at this

theorem chunkName_bases (b b' : Go.Str) (i j : Int) (hl : b.length = b'.length) (hne : b ≠ b') : Go.chunkName b i ≠ Go.chunkName b' j := by
  intro h
  unfold Go.chunkName at h
  rw [List.append_assoc, List.append_assoc] at h
  exact hne (List.append_inj h hl).1

theorem chunkName_ne_other (b b' : Go.Str) (i : Int) (hl : b.length = b'.length) : Go.chunkName b i ≠ b' := by
  intro h
  have := congrArg List.length h
  simp [Go.chunkName] at this
  omega

/-! ## the two tokens: one development for both (`Side` = which session, which chunk map, which cookie name) -/
structure Side where
  base : Go.Str
  ptr : Go.SessData → Go.SessPtr
  chunks : Go.SessData → List (Int × Go.SessPtr)
  setChunks : Go.SessData → List (Int × Go.SessPtr) → Go.SessData

def accessSide : Side := ⟨Code.accessTokenCookie, (·.accessSession), (·.accessTokenChunks), fun sd m => { sd with accessTokenChunks := m }⟩
def refreshSide : Side := ⟨Code.refreshTokenCookie, (·.refreshSession), (·.refreshTokenChunks), fun sd m => { sd with refreshTokenChunks := m }⟩

/-- what the development needs of a side: the chunk map and the pointer are fields next to the heap -/
structure SideOk (S : Side) : Prop where
  reg_set : ∀ sd m, (S.setChunks sd m).reg = sd.reg
  chunks_set : ∀ sd m, S.chunks (S.setChunks sd m) = m
  ptr_set : ∀ sd m, S.ptr (S.setChunks sd m) = S.ptr sd
  comp_set : ∀ sd m, (S.setChunks sd m).compress = sd.compress ∧ (S.setChunks sd m).decompress = sd.decompress
  ptr_reg : ∀ sd r, S.ptr { sd with reg := r } = S.ptr sd
  chunks_reg : ∀ sd r, S.chunks { sd with reg := r } = S.chunks sd

theorem accessSide_ok : SideOk accessSide := ⟨fun _ _ => rfl, fun _ _ => rfl, fun _ _ => rfl, fun _ _ => ⟨rfl, rfl⟩, fun _ _ => rfl, fun _ _ => rfl⟩
theorem refreshSide_ok : SideOk refreshSide := ⟨fun _ _ => rfl, fun _ _ => rfl, fun _ _ => rfl, fun _ _ => ⟨rfl, rfl⟩, fun _ _ => rfl, fun _ _ => rfl⟩

abbrev kTok : Go.Str := ['t','o','k','e','n']
abbrev kComp : Go.Str := ['c','o','m','p','r','e','s','s','e','d']
abbrev kChunk : Go.Str := ['t','o','k','e','n','_','c','h','u','n','k']

/-! ### reading and writing through the heap -/
theorem storeGet_ptr (sd : Go.SessData) (n : Go.Str) : (Go.storeGet sd n).1 = (n, none) := by
  unfold Go.storeGet; split <;> rfl

theorem storeGet_reg_only (sd : Go.SessData) (n : Go.Str) : ∃ r, (Go.storeGet sd n).2 = { sd with reg := r } := by
  unfold Go.storeGet; split
  · exact ⟨sd.reg, rfl⟩
  · exact ⟨_, rfl⟩

theorem regHas_true_find (reg : List (Go.Str × Go.GSess)) (n : Go.Str) (h : Go.regHas reg n = true) :
    ∃ p, reg.find? (fun p => p.1 == n) = some p := by
  unfold Go.regHas at h
  rw [List.any_eq_true] at h
  obtain ⟨x, hx, hxn⟩ := h
  cases hf : reg.find? (fun p => p.1 == n) with
  | some p => exact ⟨p, rfl⟩
  | none => rw [List.find?_eq_none] at hf; exact absurd hxn (hf x hx)

theorem storeGet_regGet_ne (sd : Go.SessData) (n m : Go.Str) (h : m ≠ n) :
    Go.regGet (Go.storeGet sd n).2.reg m = Go.regGet sd.reg m := by
  unfold Go.storeGet; split
  · rfl
  · show Go.regGet ((n, _) :: sd.reg) m = _
    unfold Go.regGet
    have : ((n, (match sd.cookie n with
      | some vals => (⟨vals, sd.maxAgeDefault, false⟩ : Go.GSess)
      | none => ⟨[], sd.maxAgeDefault, true⟩)).1 == m) = false := beq_false_of_ne (Ne.symm h)
    rw [List.find?_cons]; simp only [this]

theorem sessVal_setVal_same (sd : Go.SessData) (p k : Go.Str) (v : Go.Any) : Go.sessVal (Go.sessSetVal sd p k v) p k = v := by
  simp [Go.sessVal, Go.sessSetVal, regGet_regSet_same, mapGet_mapSet_same]

theorem sessVal_setVal_key (sd : Go.SessData) (p k k' : Go.Str) (v : Go.Any) (h : k' ≠ k) :
    Go.sessVal (Go.sessSetVal sd p k v) p k' = Go.sessVal sd p k' := by
  simp [Go.sessVal, Go.sessSetVal, regGet_regSet_same, mapGet_mapSet_ne _ _ _ _ h]

theorem sessVal_setVal_ptr (sd : Go.SessData) (p q k k' : Go.Str) (v : Go.Any) (h : q ≠ p) :
    Go.sessVal (Go.sessSetVal sd p k v) q k' = Go.sessVal sd q k' := by
  simp [Go.sessVal, Go.sessSetVal, regGet_regSet_ne _ _ _ _ h]

/-- one chunk stored: the body of the loop in `SetAccessToken` / `SetRefreshToken` -/
def storeChunk (S : Side) (sd : Go.SessData) (x : Int × Go.Str) : Go.SessData :=
  let r := Go.storeGet sd (Go.chunkName S.base x.1)
  let sd1 := Go.sessSetVal r.2 r.1.1 kChunk (Go.Any.str x.2)
  S.setChunks sd1 (Go.imapSet (S.chunks sd1) x.1 r.1.1)

/-- the part of a setter after the old chunks have been expired -/
def setRest (S : Side) (fuel : Nat) (sd0 : Go.SessData) (token : Go.Str) : Option Go.SessData :=
  let sd := S.setChunks sd0 []
  let compressed := sd.compress token
  if decide ((compressed.length : Int) ≤ Code.maxCookieSize) then
    some (Go.sessSetVal (Go.sessSetVal sd (S.ptr sd) kTok (Go.Any.str compressed)) (S.ptr (Go.sessSetVal sd (S.ptr sd) kTok (Go.Any.str compressed))) kComp (Go.Any.bool true))
  else
    let sd1 := Go.sessSetVal sd (S.ptr sd) kTok (Go.Any.str [])
    let sd2 := Go.sessSetVal sd1 (S.ptr sd1) kComp (Go.Any.bool true)
    match Code.splitIntoChunks fuel compressed Code.maxCookieSize with
    | none => none
    | some chunks => some ((Go.enum chunks).foldl (storeChunk S) sd2)

theorem SetAccessToken_eq (fuel : Nat) (sd : Go.SessData) (token : Go.Str) :
    Code.SessionData_SetAccessToken fuel sd token =
      if sd.hasRequest then (Code.SessionData_expireAccessTokenChunks fuel sd false).bind (fun sd => setRest accessSide fuel sd token)
      else setRest accessSide fuel sd token := by
  have rest : ∀ sd : Go.SessData, setRest accessSide fuel sd token = (
      let sd := { sd with accessTokenChunks := ([] : List (Int × Go.SessPtr)) }
      let compressed := (sd.compress token)
      if (decide ((compressed.length : Int) ≤ Code.maxCookieSize)) then
        let sd := Go.sessSetVal sd sd.accessSession kTok (Go.Any.str compressed)
        let sd := Go.sessSetVal sd sd.accessSession kComp (Go.Any.bool true)
        some sd
      else
        let sd := Go.sessSetVal sd sd.accessSession kTok (Go.Any.str ([] : Go.Str))
        let sd := Go.sessSetVal sd sd.accessSession kComp (Go.Any.bool true)
        match (Code.splitIntoChunks fuel compressed Code.maxCookieSize) with
        | none => none
        | some chunks =>
          match Go.forRange (Go.enum chunks) sd (fun (i, chunk) sd =>
            let sessionName := (Go.chunkName Code.accessTokenCookie i)
            let ((session, _u1), sd) := Go.storeGet sd sessionName
            let sd := Go.sessSetVal sd session kChunk (Go.Any.str chunk)
            let sd := { sd with accessTokenChunks := Go.imapSet sd.accessTokenChunks i session }
            (.next sd : Go.Ctl Go.SessData Go.SessData)) with
          | .ret r => some (r)
          | .next sd => some (sd)
          | .brk sd => some (sd)) := by
    intro sd
    unfold setRest
    simp only [accessSide]
    by_cases h : ((sd.compress token).length : Int) ≤ Code.maxCookieSize
    · simp only [h, decide_true, if_true]
    · simp only [h, decide_false, Bool.false_eq_true, if_false]
      cases Code.splitIntoChunks fuel (sd.compress token) Code.maxCookieSize with
      | none => rfl
      | some chunks =>
        simp only []
        rw [forRange_fold _ _ _ (storeChunk ⟨Code.accessTokenCookie, (·.accessSession), (·.accessTokenChunks), fun sd m => { sd with accessTokenChunks := m }⟩) (by intro ⟨i, c⟩ s; rfl)]
  unfold Code.SessionData_SetAccessToken
  split
  · cases Code.SessionData_expireAccessTokenChunks fuel sd false with
    | none => rfl
    | some sd' => simp only [Option.bind_some]; rw [rest]; rfl
  · rw [rest]; rfl

/-! ### the chunk loop of a setter -/
theorem sessVal_of_reg (sd sd' : Go.SessData) (p : Go.Str) (h : Go.regGet sd'.reg p = Go.regGet sd.reg p) (k : Go.Str) :
    Go.sessVal sd' p k = Go.sessVal sd p k := by
  unfold Go.sessVal; rw [h]

theorem storeChunk_step (S : Side) (hS : SideOk S) (sd : Go.SessData) (k : Int) (c : Go.Str) :
    let sd1 := storeChunk S sd (k, c)
    Go.imapGet (S.chunks sd1) k = (Go.chunkName S.base k, true) ∧
    Go.sessVal sd1 (Go.chunkName S.base k) kChunk = Go.Any.str c ∧
    (∀ i, i ≠ k → Go.imapGet (S.chunks sd1) i = Go.imapGet (S.chunks sd) i) ∧
    (∀ q, q ≠ Go.chunkName S.base k → Go.regGet sd1.reg q = Go.regGet sd.reg q) ∧
    S.ptr sd1 = S.ptr sd ∧ sd1.compress = sd.compress ∧ sd1.decompress = sd.decompress := by
  intro sd1
  obtain ⟨r, hr⟩ := storeGet_reg_only sd (Go.chunkName S.base k)
  have hp := storeGet_ptr sd (Go.chunkName S.base k)
  have hne := fun q (h : q ≠ Go.chunkName S.base k) => storeGet_regGet_ne sd (Go.chunkName S.base k) q h
  have e1 : sd1 = S.setChunks (Go.sessSetVal { sd with reg := r } (Go.chunkName S.base k) kChunk (Go.Any.str c))
      (Go.imapSet (S.chunks (Go.sessSetVal { sd with reg := r } (Go.chunkName S.base k) kChunk (Go.Any.str c))) k (Go.chunkName S.base k)) := by
    show storeChunk S sd (k, c) = _
    unfold storeChunk
    simp only [hp, hr]
  have e2 : Go.sessSetVal { sd with reg := r } (Go.chunkName S.base k) kChunk (Go.Any.str c) =
      { sd with reg := Go.regSet r (Go.chunkName S.base k) { Go.regGet r (Go.chunkName S.base k) with Values := Go.mapSet (Go.regGet r (Go.chunkName S.base k)).Values kChunk (Go.Any.str c) } } := rfl
  rw [e2] at e1
  have hreg : sd1.reg = Go.regSet r (Go.chunkName S.base k) { Go.regGet r (Go.chunkName S.base k) with Values := Go.mapSet (Go.regGet r (Go.chunkName S.base k)).Values kChunk (Go.Any.str c) } := by
    rw [e1, hS.reg_set]
  have hch : S.chunks sd1 = Go.imapSet (S.chunks sd) k (Go.chunkName S.base k) := by
    rw [e1, hS.chunks_set, hS.chunks_reg]
  refine ⟨?_, ?_, ?_, ?_, ?_, ?_, ?_⟩
  · rw [hch, imapGet_imapSet_same]
  · unfold Go.sessVal
    rw [hreg, regGet_regSet_same]
    exact mapGet_mapSet_same _ _ _
  · intro i hi; rw [hch, imapGet_imapSet_ne _ _ _ _ hi]
  · intro q hq
    rw [hreg, regGet_regSet_ne _ _ _ _ hq]
    have := hne q hq
    rw [hr] at this
    exact this
  · rw [e1, hS.ptr_set, hS.ptr_reg]
  · rw [e1, (hS.comp_set _ _).1]
  · rw [e1, (hS.comp_set _ _).2]

/-- `for i, chunk := range chunks` from index `k` on -/
def en (k : Nat) (cs : List Go.Str) : List (Int × Go.Str) := (cs.zipIdx k).map (fun p => ((p.2 : Int), p.1))

theorem en_cons (k : Nat) (c : Go.Str) (cs : List Go.Str) : en k (c :: cs) = ((k : Int), c) :: en (k + 1) cs := by
  simp [en, List.zipIdx_cons]

theorem enum_eq_en (cs : List Go.Str) : Go.enum cs = en 0 cs := rfl

theorem storeChunks_inv (S : Side) (hS : SideOk S) (cs : List Go.Str) :
    ∀ (k : Nat) (sd : Go.SessData),
      (∀ j (hj : j < cs.length), Go.imapGet (S.chunks ((en k cs).foldl (storeChunk S) sd)) ((k + j : Nat) : Int) = (Go.chunkName S.base ((k + j : Nat) : Int), true) ∧
          Go.sessVal ((en k cs).foldl (storeChunk S) sd) (Go.chunkName S.base ((k + j : Nat) : Int)) kChunk = Go.Any.str cs[j]) ∧
      (∀ i : Int, (i < (k : Int) ∨ ((k + cs.length : Nat) : Int) ≤ i) → Go.imapGet (S.chunks ((en k cs).foldl (storeChunk S) sd)) i = Go.imapGet (S.chunks sd) i) ∧
      (∀ q, (∀ j, j < cs.length → q ≠ Go.chunkName S.base ((k + j : Nat) : Int)) → Go.regGet ((en k cs).foldl (storeChunk S) sd).reg q = Go.regGet sd.reg q) ∧
      S.ptr ((en k cs).foldl (storeChunk S) sd) = S.ptr sd ∧ ((en k cs).foldl (storeChunk S) sd).compress = sd.compress ∧
      ((en k cs).foldl (storeChunk S) sd).decompress = sd.decompress := by
  induction cs with
  | nil => intro k sd; simp [en]
  | cons c rest ih =>
    intro k sd
    rw [en_cons, List.foldl_cons]
    obtain ⟨s1, s2, s3, s4, s5, s6, s7⟩ := storeChunk_step S hS sd (k : Int) c
    obtain ⟨i1, i2, i3, i4, i5, i6⟩ := ih (k + 1) (storeChunk S sd ((k : Int), c))
    refine ⟨?_, ?_, ?_, ?_, ?_, ?_⟩
    · intro j hj
      cases j with
      | zero =>
        simp only [Nat.add_zero, List.getElem_cons_zero]
        constructor
        · rw [i2 (k : Int) (Or.inl (by omega))]; exact s1
        · rw [sessVal_of_reg _ _ _ (i3 _ (by
            intro j _ h
            have := chunkName_inj _ _ _ h
            omega))]
          exact s2
      | succ j =>
        have hj' : j < rest.length := by simpa using hj
        obtain ⟨a, b⟩ := i1 j hj'
        have e : k + (j + 1) = k + 1 + j := by omega
        simp only [e, List.getElem_cons_succ]
        exact ⟨a, b⟩
    · intro i hi
      rw [i2 i (by
        rcases hi with h | h
        · left; omega
        · right; simp only [List.length_cons] at h; omega)]
      exact s3 i (by
        rcases hi with h | h
        · omega
        · simp only [List.length_cons] at h; omega)
    · intro q hq
      rw [i3 q (by
        intro j hj
        have := hq (j + 1) (by simp; omega)
        have e : k + (j + 1) = k + 1 + j := by omega
        rwa [e] at this)]
      exact s4 q (by simpa using hq 0 (by simp))
    · rw [i4]; exact s5
    · rw [i5]; exact s6
    · rw [i6]; exact s7

/-! ### the chunk loop of a getter -/
theorem getLoop (sd : Go.SessData) (m : List (Int × Go.SessPtr)) (name : Int → Go.Str) (cs : List Go.Str)
    (hm : ∀ j (hj : j < cs.length), Go.imapGet m (j : Int) = (name j, true) ∧ Go.sessVal sd (name j) kChunk = Go.Any.str cs[j])
    (hend : (Go.imapGet m (cs.length : Int)).2 = false)
    (cond : List Go.Str × Int → Bool) (body : List Go.Str × Int → Go.Ctl (List Go.Str × Int) Go.Str)
    (hc : ∀ a, cond a = true)
    (hb : ∀ a i, body (a, i) = (if (!(Go.imapGet m i).2) then .brk (a, i)
        else .next (a ++ [(Go.asStr (Go.sessVal sd (Go.imapGet m i).1 kChunk)).1], i + 1))) :
    ∀ (n : Nat) (k : Nat) (acc : List Go.Str) (fuel : Nat), k + n = cs.length → n < fuel →
      Go.forWhile fuel (acc, (k : Int)) cond body = some (.next (acc ++ cs.drop k, (cs.length : Int))) := by
  intro n
  induction n with
  | zero =>
    intro k acc fuel hk hf
    obtain ⟨f, rfl⟩ : ∃ f, fuel = f + 1 := ⟨fuel - 1, by omega⟩
    have hk' : k = cs.length := by omega
    subst hk'
    unfold Go.forWhile
    rw [hc, hb]
    simp [hend]
  | succ n ih =>
    intro k acc fuel hk hf
    obtain ⟨f, rfl⟩ : ∃ f, fuel = f + 1 := ⟨fuel - 1, by omega⟩
    have hkl : k < cs.length := by omega
    obtain ⟨h1, h2⟩ := hm k hkl
    unfold Go.forWhile
    rw [hc, hb]
    simp only [h1, Bool.not_true, Bool.false_eq_true, if_false, h2, Go.asStr]
    have := ih (k + 1) (acc ++ [cs[k]]) f (by omega) (by omega)
    have e : ((k : Int) + 1) = ((k + 1 : Nat) : Int) := by omega
    rw [e, this]
    congr 3
    rw [List.append_assoc]
    congr 1
    rw [List.drop_eq_getElem_cons hkl]
    rfl

theorem strsJoin_nil (xs : List Go.Str) : Go.strsJoin xs [] = xs.flatten := by
  unfold Go.strsJoin
  induction xs with
  | nil => rfl
  | cons x t ih =>
    cases t with
    | nil => simp [List.intercalate]
    | cons y r =>
      simp [List.intercalate] at ih ⊢
      exact ih

/-- the body of a getter's chunk loop -/
def getBody (S : Side) (sd : Go.SessData) : List Go.Str × Int → Go.Ctl (List Go.Str × Int) Go.Str :=
  fun (chunks, i) =>
    let (session, ok) := Go.imapGet (S.chunks sd) i
    if !ok then .brk (chunks, i)
    else
      let (chunk, _) := Go.asStr (Go.sessVal sd session kChunk)
      .next (chunks ++ [chunk], i + 1)

/-- a getter, generically -/
def getTok (S : Side) (fuel : Nat) (sd : Go.SessData) : Option Go.Str :=
  let token := (Go.asStr (Go.sessVal sd (S.ptr sd) kTok)).1
  if token != [] then
    (if (Go.asBool (Go.sessVal sd (S.ptr sd) kComp)).1 then some (sd.decompress token) else some token)
  else if ((S.chunks sd).length : Int) == 0 then some []
  else
    match Go.forWhile fuel (([] : List Go.Str), (0 : Int)) (fun _ => true) (getBody S sd) with
    | none => none
    | some (.ret r) => some r
    | some (.next (chunks, _)) =>
      let token := Go.strsJoin chunks []
      if (Go.asBool (Go.sessVal sd (S.ptr sd) kComp)).1 then some (sd.decompress token) else some token
    | some (.brk (chunks, _)) =>
      let token := Go.strsJoin chunks []
      if (Go.asBool (Go.sessVal sd (S.ptr sd) kComp)).1 then some (sd.decompress token) else some token

theorem GetAccessToken_eq (fuel : Nat) (sd : Go.SessData) : Code.SessionData_GetAccessToken fuel sd = getTok accessSide fuel sd := rfl
theorem GetRefreshToken_eq (fuel : Nat) (sd : Go.SessData) : Code.SessionData_GetRefreshToken fuel sd = getTok refreshSide fuel sd := rfl

/-! ### what a setter stores is what the getter reads -/
theorem imapGet_true_length (m : List (Int × Go.SessPtr)) (i : Int) (h : (Go.imapGet m i).2 = true) : m.length ≠ 0 := by
  cases m with
  | nil => simp [Go.imapGet] at h
  | cons x t => simp

theorem maxCookieSize_pos : (0 : Int) < Code.maxCookieSize := by decide

theorem asStr_str (x : Go.Str) : Go.asStr (Go.Any.str x) = (x, true) := rfl
theorem asBool_bool (b : Bool) : Go.asBool (Go.Any.bool b) = (b, true) := rfl

theorem getTok_chunked (S : Side) (fuel : Nat) (sd : Go.SessData) (cs : List Go.Str) (n : Int)
    (htok : Go.sessVal sd (S.ptr sd) kTok = Go.Any.str [])
    (hcomp : Go.sessVal sd (S.ptr sd) kComp = Go.Any.bool true)
    (hl : (S.chunks sd).length ≠ 0)
    (hloop : Go.forWhile fuel (([] : List Go.Str), (0 : Int)) (fun _ => true) (getBody S sd) = some (.next (cs, n))) :
    getTok S fuel sd = some (sd.decompress cs.flatten) := by
  unfold getTok
  have hz : ((([] : Go.Str)) != []) = false := by decide
  have hl' : (((S.chunks sd).length : Int) == 0) = false := by
    simp only [beq_eq_false_iff_ne, ne_eq]; omega
  simp only [htok, hcomp, asStr_str, asBool_bool, hz, Bool.false_eq_true, if_false, hl', hloop, strsJoin_nil, if_true]

theorem setRest_get (S : Side) (hS : SideOk S) (sd0 : Go.SessData) (tok : Go.Str)
    (hptr : ∀ i, S.ptr sd0 ≠ Go.chunkName S.base i)
    (hdec : sd0.decompress (sd0.compress tok) = tok) (hne : sd0.compress tok ≠ [])
    (fuel : Nat) (hf : (sd0.compress tok).length < fuel) :
    ∃ sd', setRest S fuel sd0 tok = some sd' ∧ getTok S fuel sd' = some tok ∧
      sd'.decompress = sd0.decompress ∧ sd'.compress = sd0.compress ∧ S.ptr sd' = S.ptr sd0 ∧
      (∀ q, q ≠ S.ptr sd0 → (∀ i, q ≠ Go.chunkName S.base i) → Go.regGet sd'.reg q = Go.regGet sd0.reg q) := by
  have hc0 : (S.setChunks sd0 []).compress = sd0.compress := (hS.comp_set _ _).1
  have hd0 : (S.setChunks sd0 []).decompress = sd0.decompress := (hS.comp_set _ _).2
  have hp0 : S.ptr (S.setChunks sd0 []) = S.ptr sd0 := hS.ptr_set _ _
  have hr0 : (S.setChunks sd0 []).reg = sd0.reg := hS.reg_set _ _
  -- `sessSetVal` only changes the heap
  have setval_reg : ∀ (sd : Go.SessData) p k v, Go.sessSetVal sd p k v = { sd with reg := (Go.sessSetVal sd p k v).reg } := fun _ _ _ _ => rfl
  have ptr_setval : ∀ (sd : Go.SessData) p k v, S.ptr (Go.sessSetVal sd p k v) = S.ptr sd := by
    intro sd p k v; rw [setval_reg]; exact hS.ptr_reg _ _
  have chunks_setval : ∀ (sd : Go.SessData) p k v, S.chunks (Go.sessSetVal sd p k v) = S.chunks sd := by
    intro sd p k v; rw [setval_reg]; exact hS.chunks_reg _ _
  have kne : kTok ≠ kComp := by decide
  unfold setRest
  simp only [hc0]
  by_cases hsmall : ((sd0.compress tok).length : Int) ≤ Code.maxCookieSize
  · simp only [hsmall, decide_true, if_true]
    refine ⟨_, rfl, ?_, ?_, ?_, ?_, ?_⟩
    · unfold getTok
      simp only [ptr_setval, hp0]
      rw [sessVal_setVal_key _ _ _ _ _ kne, sessVal_setVal_same, sessVal_setVal_same]
      have : ((Go.asStr (Go.Any.str (sd0.compress tok))).1 != []) = true := by
        simp [Go.asStr, hne]
      simp only [this, if_true, Go.asBool]
      show some ((S.setChunks sd0 []).decompress _) = _
      rw [hd0]; simp [Go.asStr, hdec]
    · show (S.setChunks sd0 []).decompress = _; exact hd0
    · show (S.setChunks sd0 []).compress = _; exact hc0
    · simp only [ptr_setval, hp0]
    · intro q hq _
      simp only [ptr_setval, hp0]
      show Go.regGet (Go.regSet (Go.regSet (S.setChunks sd0 []).reg _ _) _ _) q = _
      rw [regGet_regSet_ne _ _ _ _ hq, regGet_regSet_ne _ _ _ _ hq, hr0]
  · simp only [hsmall, decide_false, Bool.false_eq_true, if_false, ptr_setval, hp0]
    have hlen : (sd0.compress tok).length < fuel := hf
    rw [splitIntoChunks_refines (sd0.compress tok) Code.maxCookieSize maxCookieSize_pos fuel hlen]
    simp only []
    let sd2 := Go.sessSetVal (Go.sessSetVal (S.setChunks sd0 []) (S.ptr sd0) kTok (Go.Any.str [])) (S.ptr sd0) kComp (Go.Any.bool true)
    let cs := Session.splitN Code.maxCookieSize.toNat (sd0.compress tok)
    obtain ⟨i1, i2, i3, i4, i5, i6⟩ := storeChunks_inv S hS cs 0 sd2
    rw [enum_eq_en]
    refine ⟨_, rfl, ?_, ?_, ?_, ?_, ?_⟩
    · -- the getter on the result
      have hp' : S.ptr ((en 0 cs).foldl (storeChunk S) sd2) = S.ptr sd0 := by
        rw [i4]; show S.ptr (Go.sessSetVal _ _ _ _) = _; rw [ptr_setval, ptr_setval, hp0]
      have hreg_p : Go.regGet ((en 0 cs).foldl (storeChunk S) sd2).reg (S.ptr sd0) = Go.regGet sd2.reg (S.ptr sd0) :=
        i3 _ (fun j _ => hptr _)
      have htok : Go.sessVal ((en 0 cs).foldl (storeChunk S) sd2) (S.ptr sd0) kTok = Go.Any.str [] := by
        rw [sessVal_of_reg _ _ _ hreg_p]
        show Go.sessVal (Go.sessSetVal _ _ _ _) _ _ = _
        rw [sessVal_setVal_key _ _ _ _ _ kne, sessVal_setVal_same]
      have hcomp : Go.sessVal ((en 0 cs).foldl (storeChunk S) sd2) (S.ptr sd0) kComp = Go.Any.bool true := by
        rw [sessVal_of_reg _ _ _ hreg_p]
        show Go.sessVal (Go.sessSetVal _ _ _ _) _ _ = _
        rw [sessVal_setVal_same]
      have hcs_len : 0 < cs.length := by
        cases hcs : cs with
        | nil =>
          have := Session.splitN_flatten Code.maxCookieSize.toNat (sd0.compress tok) (by decide)
          have e : Session.splitN Code.maxCookieSize.toNat (sd0.compress tok) = [] := hcs
          rw [e] at this
          exact absurd this.symm hne
        | cons x t => simp
      have hchunks_ne : (S.chunks ((en 0 cs).foldl (storeChunk S) sd2)).length ≠ 0 :=
        imapGet_true_length _ ((0 + 0 : Nat) : Int) (by rw [(i1 0 hcs_len).1])
      have hend : (Go.imapGet (S.chunks ((en 0 cs).foldl (storeChunk S) sd2)) (cs.length : Int)).2 = false := by
        rw [i2 (cs.length : Int) (Or.inr (by simp))]
        have : S.chunks sd2 = [] := by
          show S.chunks (Go.sessSetVal _ _ _ _) = _
          rw [chunks_setval, chunks_setval, hS.chunks_set]
        rw [this]; rfl
      have hloop := getLoop ((en 0 cs).foldl (storeChunk S) sd2) (S.chunks ((en 0 cs).foldl (storeChunk S) sd2))
        (fun j => Go.chunkName S.base j) cs
        (fun j hj => by simpa using i1 j hj) hend (fun _ => true) (getBody S ((en 0 cs).foldl (storeChunk S) sd2))
        (fun _ => rfl) (fun a i => rfl) cs.length 0 [] fuel (by omega) (by
          have : cs.length ≤ (sd0.compress tok).length := Session.splitN_length_le Code.maxCookieSize.toNat (sd0.compress tok)
          omega)
      have hloop' : Go.forWhile fuel (([] : List Go.Str), (0 : Int)) (fun _ => true) (getBody S ((en 0 cs).foldl (storeChunk S) sd2)) =
          some (.next (cs, (cs.length : Int))) := by
        have e : ((0 : Nat) : Int) = 0 := rfl
        rw [e] at hloop
        simpa using hloop
      rw [getTok_chunked S fuel _ cs (cs.length : Int) (by rw [hp']; exact htok) (by rw [hp']; exact hcomp) hchunks_ne hloop']
      rw [Session.splitN_flatten _ _ (by decide), i6]
      show some ((S.setChunks sd0 []).decompress _) = _
      rw [hd0, hdec]
    · rw [i6]; show (S.setChunks sd0 []).decompress = _; exact hd0
    · rw [i5]; show (S.setChunks sd0 []).compress = _; exact hc0
    · rw [i4]; show S.ptr (Go.sessSetVal _ _ _ _) = _; rw [ptr_setval, ptr_setval, hp0]
    · intro q hq hqc
      rw [i3 q (fun j _ => hqc _)]
      show Go.regGet (Go.regSet (Go.regSet (S.setChunks sd0 []).reg _ _) _ _) q = _
      rw [regGet_regSet_ne _ _ _ _ hq, regGet_regSet_ne _ _ _ _ hq, hr0]

/-! ### expiring the old chunk cookies first (a request is attached) -/
theorem regHas_regSet_ne (reg : List (Go.Str × Go.GSess)) (n m : Go.Str) (g : Go.GSess) (h : m ≠ n) :
    Go.regHas (Go.regSet reg n g) m = Go.regHas reg m := by
  unfold Go.regHas Go.regSet
  have : ((n, g).1 == m) = false := beq_false_of_ne (Ne.symm h)
  rw [List.any_cons, this, Bool.false_or]
  induction reg with
  | nil => rfl
  | cons x xs ih =>
    by_cases hx : x.1 = n
    · have hf : (x.1 != n) = false := by simp [hx]
      have hb : (x.1 == m) = false := by rw [hx]; exact beq_false_of_ne (Ne.symm h)
      rw [List.filter_cons]; simp only [hf, Bool.false_eq_true, if_false, List.any_cons, hb, Bool.false_or]; exact ih
    · have hx' : (x.1 != n) = true := by simpa using hx
      rw [List.filter_cons]; simp only [hx', if_true, List.any_cons, ih]

/-- a state differs from another only in the heap, and there only at the chunk names of `base` -/
structure Frame (base : Go.Str) (sd sd' : Go.SessData) : Prop where
  only_reg : sd' = { sd with reg := sd'.reg }
  get : ∀ q, (∀ i, q ≠ Go.chunkName base i) → Go.regGet sd'.reg q = Go.regGet sd.reg q
  has : ∀ q, (∀ i, q ≠ Go.chunkName base i) → Go.regHas sd'.reg q = Go.regHas sd.reg q

theorem Frame.refl (base : Go.Str) (sd : Go.SessData) : Frame base sd sd := ⟨rfl, fun _ _ => rfl, fun _ _ => rfl⟩

theorem Frame.trans {base : Go.Str} {a b c : Go.SessData} (h1 : Frame base a b) (h2 : Frame base b c) : Frame base a c := by
  refine ⟨?_, fun q hq => (h2.get q hq).trans (h1.get q hq), fun q hq => (h2.has q hq).trans (h1.has q hq)⟩
  have e1 := h1.only_reg
  have e2 := h2.only_reg
  rw [e2, e1]

theorem storeGet_frame (base : Go.Str) (sd : Go.SessData) (i : Int) : Frame base sd (Go.storeGet sd (Go.chunkName base i)).2 := by
  refine ⟨?_, fun q hq => storeGet_regGet_ne sd _ q (hq i), ?_⟩
  · obtain ⟨r, hr⟩ := storeGet_reg_only sd (Go.chunkName base i)
    rw [hr]
  · intro q hq
    unfold Go.storeGet; split
    · rfl
    · show Go.regHas ((Go.chunkName base i, _) :: sd.reg) q = _
      unfold Go.regHas
      have : ((Go.chunkName base i, (match sd.cookie (Go.chunkName base i) with
        | some vals => (⟨vals, sd.maxAgeDefault, false⟩ : Go.GSess)
        | none => ⟨[], sd.maxAgeDefault, true⟩)).1 == q) = false := beq_false_of_ne (Ne.symm (hq i))
      rw [List.any_cons, this, Bool.false_or]

theorem regUpdate_frame (base : Go.Str) (sd : Go.SessData) (i : Int) (g : Go.GSess) :
    Frame base sd { sd with reg := Go.regSet sd.reg (Go.chunkName base i) g } :=
  ⟨rfl, fun q hq => regGet_regSet_ne _ _ _ _ (hq i), fun q hq => regHas_regSet_ne _ _ _ _ (hq i)⟩

/-- whether `store.Get` finds no chunk cookie `i` (which is where `expire…Chunks` stops) -/
def chunkIsNew (base : Go.Str) (sd : Go.SessData) (i : Int) : Bool :=
  Go.sessIsNew (Go.storeGet sd (Go.chunkName base i)).2 (Go.chunkName base i)

/-- one round of `expire…Chunks(nil)` -/
def expireBody (base : Go.Str) : Int × Go.SessData → Go.Ctl (Int × Go.SessData) Go.SessData :=
  fun (i, sd) =>
    let r := Go.storeGet sd (Go.chunkName base i)
    if (r.1.2.isSome || Go.sessIsNew r.2 r.1.1) then .brk (i, r.2)
    else .next (i + 1, Go.sessClearValues (Go.sessSetMaxAge r.2 r.1.1 (-1)) r.1.1)

theorem chunkIsNew_frame_other (base : Go.Str) (sd sd' : Go.SessData) (i : Int)
    (hcookie : sd'.cookie = sd.cookie) (hmax : sd'.maxAgeDefault = sd.maxAgeDefault)
    (hg : Go.regGet sd'.reg (Go.chunkName base i) = Go.regGet sd.reg (Go.chunkName base i))
    (hh : Go.regHas sd'.reg (Go.chunkName base i) = Go.regHas sd.reg (Go.chunkName base i)) :
    chunkIsNew base sd' i = chunkIsNew base sd i := by
  unfold chunkIsNew Go.sessIsNew Go.storeGet
  rw [hh]
  by_cases h : Go.regHas sd.reg (Go.chunkName base i) = true
  · simp only [h, if_true, hg]
  · simp only [h, Bool.false_eq_true, if_false, hcookie, hmax]
    simp [Go.regGet, List.find?]

theorem expireLoop (base : Go.Str) (cond : Int × Go.SessData → Bool) (hc : ∀ a, cond a = true) :
    ∀ (n : Nat) (k : Int) (sd : Go.SessData) (fuel : Nat),
      (∀ j : Nat, j < n → chunkIsNew base sd (k + j) = false) → chunkIsNew base sd (k + n) = true → n < fuel →
      ∃ sd', Go.forWhile fuel (k, sd) cond (expireBody base) = some (.next (k + n, sd')) ∧ Frame base sd sd' := by
  intro n
  induction n with
  | zero =>
    intro k sd fuel _ hnew hf
    obtain ⟨f, rfl⟩ : ∃ f, fuel = f + 1 := ⟨fuel - 1, by omega⟩
    unfold Go.forWhile
    rw [hc]
    have hp := storeGet_ptr sd (Go.chunkName base k)
    have hnew' : Go.sessIsNew (Go.storeGet sd (Go.chunkName base k)).2 (Go.chunkName base k) = true := by
      simpa [chunkIsNew] using hnew
    refine ⟨(Go.storeGet sd (Go.chunkName base k)).2, ?_, storeGet_frame base sd k⟩
    simp [expireBody, hp, hnew']
  | succ n ih =>
    intro k sd fuel hold hnew hf
    obtain ⟨f, rfl⟩ : ∃ f, fuel = f + 1 := ⟨fuel - 1, by omega⟩
    have hp := storeGet_ptr sd (Go.chunkName base k)
    have h0 : Go.sessIsNew (Go.storeGet sd (Go.chunkName base k)).2 (Go.chunkName base k) = false := by
      simpa [chunkIsNew] using hold 0 (by omega)
    let sd1 := (Go.storeGet sd (Go.chunkName base k)).2
    let sd2 := Go.sessClearValues (Go.sessSetMaxAge sd1 (Go.chunkName base k) (-1)) (Go.chunkName base k)
    have f1 : Frame base sd sd1 := storeGet_frame base sd k
    have f2 : Frame base sd1 sd2 := by
      have a : Frame base sd1 (Go.sessSetMaxAge sd1 (Go.chunkName base k) (-1)) := regUpdate_frame base sd1 k _
      have b : Frame base (Go.sessSetMaxAge sd1 (Go.chunkName base k) (-1)) sd2 := regUpdate_frame base _ k _
      exact a.trans b
    have f12 := f1.trans f2
    -- the later chunk sessions are what they were
    have hother : ∀ i : Int, i ≠ k → chunkIsNew base sd2 i = chunkIsNew base sd i := by
      intro i hi
      have hne : Go.chunkName base i ≠ Go.chunkName base k := fun h => hi (chunkName_inj _ _ _ h)
      have e := f12.only_reg
      apply chunkIsNew_frame_other
      · rw [e]
      · rw [e]
      · -- regGet at another chunk name: through the three updates
        show Go.regGet (Go.regSet (Go.regSet sd1.reg _ _) _ _) _ = _
        rw [regGet_regSet_ne _ _ _ _ hne, regGet_regSet_ne _ _ _ _ hne]
        exact storeGet_regGet_ne sd _ _ hne
      · show Go.regHas (Go.regSet (Go.regSet sd1.reg _ _) _ _) _ = _
        rw [regHas_regSet_ne _ _ _ _ hne, regHas_regSet_ne _ _ _ _ hne]
        show Go.regHas (Go.storeGet sd (Go.chunkName base k)).2.reg _ = _
        unfold Go.storeGet; split
        · rfl
        · show Go.regHas ((Go.chunkName base k, _) :: sd.reg) _ = _
          unfold Go.regHas
          have : ((Go.chunkName base k, (match sd.cookie (Go.chunkName base k) with
            | some vals => (⟨vals, sd.maxAgeDefault, false⟩ : Go.GSess)
            | none => ⟨[], sd.maxAgeDefault, true⟩)).1 == Go.chunkName base i) = false := beq_false_of_ne (Ne.symm hne)
          rw [List.any_cons, this, Bool.false_or]
    obtain ⟨sd', hl, hfr⟩ := ih (k + 1) sd2 f
      (fun j hj => by
        rw [hother _ (by omega)]
        have := hold (j + 1) (by omega)
        have e : k + ((j + 1 : Nat) : Int) = k + 1 + (j : Int) := by omega
        rwa [e] at this)
      (by
        rw [hother _ (by omega)]
        have e : k + ((n + 1 : Nat) : Int) = k + 1 + (n : Int) := by omega
        rwa [e] at hnew)
      (by omega)
    refine ⟨sd', ?_, f12.trans hfr⟩
    unfold Go.forWhile
    rw [hc]
    have hb : expireBody base (k, sd) = .next (k + 1, sd2) := by
      simp [expireBody, hp, h0, sd2, sd1]
    rw [hb]
    have e : k + ((n + 1 : Nat) : Int) = k + 1 + (n : Int) := by omega
    rw [e]
    exact hl

theorem expireAccess_eq (fuel : Nat) (sd : Go.SessData) :
    Code.SessionData_expireAccessTokenChunks fuel sd false =
      (match Go.forWhile fuel ((0 : Int), sd) (fun _ => true) (expireBody Code.accessTokenCookie) with
       | none => none
       | some (.ret r) => some r
       | some (.next (_, sd)) => some sd
       | some (.brk (_, sd)) => some sd) := by
  have key : ∀ (cond : Int × Go.SessData → Bool) (body : Int × Go.SessData → Go.Ctl (Int × Go.SessData) Go.SessData),
      (∀ a, cond a = true) → (∀ i sd, body (i, sd) = expireBody Code.accessTokenCookie (i, sd)) →
      (match Go.forWhile fuel ((0 : Int), sd) cond body with
       | none => none
       | some (.ret r) => some r
       | some (.next (_, sd)) => some sd
       | some (.brk (_, sd)) => some sd) =
      (match Go.forWhile fuel ((0 : Int), sd) (fun _ => true) (expireBody Code.accessTokenCookie) with
       | none => none
       | some (.ret r) => some r
       | some (.next (_, sd)) => some sd
       | some (.brk (_, sd)) => some sd) := by
    intro cond body hc hb
    have e1 : cond = fun _ => true := funext hc
    have e2 : body = expireBody Code.accessTokenCookie := funext (fun ⟨i, sd⟩ => hb i sd)
    rw [e1, e2]
  unfold Code.SessionData_expireAccessTokenChunks
  exact key _ _ (fun _ => rfl) (by intro i sd; simp [expireBody])

/-! ### what `expire…Chunks` leaves behind: every chunk session the request carried is emptied and marked for deletion -/
theorem expireBody_next (base : Go.Str) (k : Int) (sd : Go.SessData)
    (h0 : Go.sessIsNew (Go.storeGet sd (Go.chunkName base k)).2 (Go.chunkName base k) = false) :
    expireBody base (k, sd) = .next (k + 1, Go.sessClearValues (Go.sessSetMaxAge (Go.storeGet sd (Go.chunkName base k)).2 (Go.chunkName base k) (-1)) (Go.chunkName base k)) := by
  have hp := storeGet_ptr sd (Go.chunkName base k)
  simp [expireBody, hp, h0]

theorem expireBody_brk (base : Go.Str) (k : Int) (sd : Go.SessData)
    (h0 : Go.sessIsNew (Go.storeGet sd (Go.chunkName base k)).2 (Go.chunkName base k) = true) :
    expireBody base (k, sd) = .brk (k, (Go.storeGet sd (Go.chunkName base k)).2) := by
  have hp := storeGet_ptr sd (Go.chunkName base k)
  simp [expireBody, hp, h0]

/-- one round leaves the other chunk sessions what they were -/
theorem round_regGet_other (base : Go.Str) (k i : Int) (sd : Go.SessData) (hi : i ≠ k) :
    Go.regGet (Go.sessClearValues (Go.sessSetMaxAge (Go.storeGet sd (Go.chunkName base k)).2 (Go.chunkName base k) (-1)) (Go.chunkName base k)).reg (Go.chunkName base i) =
      Go.regGet sd.reg (Go.chunkName base i) := by
  have hne : Go.chunkName base i ≠ Go.chunkName base k := fun h => hi (chunkName_inj _ _ _ h)
  show Go.regGet (Go.regSet (Go.regSet (Go.storeGet sd (Go.chunkName base k)).2.reg _ _) _ _) _ = _
  rw [regGet_regSet_ne _ _ _ _ hne, regGet_regSet_ne _ _ _ _ hne]
  exact storeGet_regGet_ne sd _ _ hne

theorem storeGet_regHas_other (sd : Go.SessData) (n m : Go.Str) (h : m ≠ n) : Go.regHas (Go.storeGet sd n).2.reg m = Go.regHas sd.reg m := by
  unfold Go.storeGet; split
  · rfl
  · show Go.regHas ((n, _) :: sd.reg) m = _
    unfold Go.regHas
    have : ((n, (match sd.cookie n with
      | some vals => (⟨vals, sd.maxAgeDefault, false⟩ : Go.GSess)
      | none => ⟨[], sd.maxAgeDefault, true⟩)).1 == m) = false := beq_false_of_ne (Ne.symm h)
    rw [List.any_cons, this, Bool.false_or]

theorem round_chunkIsNew_other (base : Go.Str) (k i : Int) (sd : Go.SessData) (hi : i ≠ k) :
    chunkIsNew base (Go.sessClearValues (Go.sessSetMaxAge (Go.storeGet sd (Go.chunkName base k)).2 (Go.chunkName base k) (-1)) (Go.chunkName base k)) i = chunkIsNew base sd i := by
  have hne : Go.chunkName base i ≠ Go.chunkName base k := fun h => hi (chunkName_inj _ _ _ h)
  obtain ⟨r, hr⟩ := storeGet_reg_only sd (Go.chunkName base k)
  apply chunkIsNew_frame_other
  · show (Go.storeGet sd (Go.chunkName base k)).2.cookie = _; rw [hr]
  · show (Go.storeGet sd (Go.chunkName base k)).2.maxAgeDefault = _; rw [hr]
  · exact round_regGet_other base k i sd hi
  · show Go.regHas (Go.regSet (Go.regSet (Go.storeGet sd (Go.chunkName base k)).2.reg _ _) _ _) _ = _
    rw [regHas_regSet_ne _ _ _ _ hne, regHas_regSet_ne _ _ _ _ hne]
    exact storeGet_regHas_other sd _ _ hne

/-- the loop from index `k` on does not touch the sessions of the indices below `k` -/
theorem expireLoop_below (base : Go.Str) (cond : Int × Go.SessData → Bool) :
    ∀ (fuel : Nat) (k : Int) (sd : Go.SessData) (m : Int) (sd' : Go.SessData),
      Go.forWhile fuel (k, sd) cond (expireBody base) = some (.next (m, sd')) →
      ∀ i : Int, i < k → Go.regGet sd'.reg (Go.chunkName base i) = Go.regGet sd.reg (Go.chunkName base i) := by
  intro fuel
  induction fuel with
  | zero => intro k sd m sd' h; simp [Go.forWhile] at h
  | succ f ih =>
    intro k sd m sd' h i hi
    have hne : Go.chunkName base i ≠ Go.chunkName base k := fun e => by have := chunkName_inj _ _ _ e; omega
    unfold Go.forWhile at h
    by_cases hc : cond (k, sd) = true
    · simp only [hc, if_true] at h
      by_cases hnew : Go.sessIsNew (Go.storeGet sd (Go.chunkName base k)).2 (Go.chunkName base k) = true
      · rw [expireBody_brk base k sd hnew] at h
        simp only [Option.some.injEq, Go.Ctl.next.injEq, Prod.mk.injEq] at h
        obtain ⟨_, rfl⟩ := h
        exact storeGet_regGet_ne sd _ _ hne
      · have hf : Go.sessIsNew (Go.storeGet sd (Go.chunkName base k)).2 (Go.chunkName base k) = false := by simpa using hnew
        rw [expireBody_next base k sd hf] at h
        exact (ih (k + 1) _ m sd' h i (by omega)).trans (round_regGet_other base k i sd (by omega))
    · simp only [hc, Bool.false_eq_true, if_false, Option.some.injEq, Go.Ctl.next.injEq, Prod.mk.injEq] at h
      obtain ⟨_, rfl⟩ := h
      rfl

/-- after `expire…Chunks(nil)`: every chunk session of this token that the request carried (indices `k … k+n−1`) has no values left
    and `MaxAge = −1`, i.e. the next `Save` of it deletes the cookie -/
theorem expireLoop_post (base : Go.Str) (cond : Int × Go.SessData → Bool) (hc : ∀ a, cond a = true) :
    ∀ (n : Nat) (k : Int) (sd : Go.SessData) (fuel : Nat),
      (∀ j : Nat, j < n → chunkIsNew base sd (k + j) = false) → chunkIsNew base sd (k + n) = true → n < fuel →
      ∃ sd', Go.forWhile fuel (k, sd) cond (expireBody base) = some (.next (k + n, sd')) ∧
        ∀ j : Nat, j < n → (Go.regGet sd'.reg (Go.chunkName base (k + j))).Values = [] ∧ (Go.regGet sd'.reg (Go.chunkName base (k + j))).MaxAge = -1 := by
  intro n
  induction n with
  | zero =>
    intro k sd fuel _ hnew hf
    obtain ⟨sd', h, _⟩ := expireLoop base cond hc 0 k sd fuel (fun j hj => by omega) hnew hf
    exact ⟨sd', h, fun j hj => by omega⟩
  | succ n ih =>
    intro k sd fuel hold hnew hf
    obtain ⟨f, rfl⟩ : ∃ f, fuel = f + 1 := ⟨fuel - 1, by omega⟩
    have h0 : Go.sessIsNew (Go.storeGet sd (Go.chunkName base k)).2 (Go.chunkName base k) = false := by
      simpa [chunkIsNew] using hold 0 (by omega)
    obtain ⟨sd', hl, hpost⟩ := ih (k + 1) (Go.sessClearValues (Go.sessSetMaxAge (Go.storeGet sd (Go.chunkName base k)).2 (Go.chunkName base k) (-1)) (Go.chunkName base k)) f
      (fun j hj => by
        rw [round_chunkIsNew_other base k _ sd (by omega)]
        have := hold (j + 1) (by omega)
        have e : k + ((j + 1 : Nat) : Int) = k + 1 + (j : Int) := by omega
        rwa [e] at this)
      (by
        rw [round_chunkIsNew_other base k _ sd (by omega)]
        have e : k + ((n + 1 : Nat) : Int) = k + 1 + (n : Int) := by omega
        rwa [e] at hnew)
      (by omega)
    have e : k + ((n + 1 : Nat) : Int) = k + 1 + (n : Int) := by omega
    refine ⟨sd', ?_, ?_⟩
    · unfold Go.forWhile
      rw [hc, if_pos rfl, expireBody_next base k sd h0, e]
      exact hl
    · intro j hj
      cases j with
      | zero =>
        have hb := expireLoop_below base cond f (k + 1) _ _ sd' hl k (by omega)
        have e0 : k + ((0 : Nat) : Int) = k := by omega
        rw [e0, hb]
        constructor
        · show (Go.regGet (Go.regSet (Go.regSet (Go.storeGet sd (Go.chunkName base k)).2.reg _ _) _ _) _).Values = []
          rw [regGet_regSet_same]
        · show (Go.regGet (Go.regSet (Go.regSet (Go.storeGet sd (Go.chunkName base k)).2.reg _ _) _ _) _).MaxAge = -1
          rw [regGet_regSet_same]
          show (Go.regGet (Go.regSet (Go.storeGet sd (Go.chunkName base k)).2.reg _ _) _).MaxAge = -1
          rw [regGet_regSet_same]
      | succ j =>
        have := hpost j (by omega)
        have e2 : k + ((j + 1 : Nat) : Int) = k + 1 + (j : Int) := by omega
        rw [e2]
        exact this

/-! ### the round trip -/
/-- **What `SetAccessToken` leaves in memory is what `GetAccessToken` reads.**  For a token of any size — stored whole, or cut
    into any number of chunk sessions — given only that `decompressToken` undoes `compressToken` on it and that the compressed
    text is not empty; whether or not a request is attached (then the old chunk cookies are expired first: the loop ends at the
    first chunk cookie the request does not carry).  Nothing outside the access token's own sessions changes. -/
theorem SetAccessToken_GetAccessToken (sd : Go.SessData) (tok : Go.Str) (fuel : Nat)
    (hwf : sd.accessSession = Code.accessTokenCookie)
    (hdec : sd.decompress (sd.compress tok) = tok) (hne : sd.compress tok ≠ [])
    (hf : (sd.compress tok).length < fuel)
    (hterm : sd.hasRequest = true → ∃ N : Nat, N < fuel ∧ (∀ j : Nat, j < N → chunkIsNew Code.accessTokenCookie sd j = false) ∧
        chunkIsNew Code.accessTokenCookie sd N = true) :
    ∃ sd', Code.SessionData_SetAccessToken fuel sd tok = some sd' ∧ Code.SessionData_GetAccessToken fuel sd' = some tok ∧
      (∀ q, q ≠ Code.accessTokenCookie → (∀ i, q ≠ Go.chunkName Code.accessTokenCookie i) → Go.regGet sd'.reg q = Go.regGet sd.reg q) ∧
      sd'.refreshSession = sd.refreshSession ∧ sd'.refreshTokenChunks = sd.refreshTokenChunks ∧ sd'.mainSession = sd.mainSession := by
  rw [SetAccessToken_eq]
  have hptr : ∀ sdx : Go.SessData, sdx.accessSession = Code.accessTokenCookie → ∀ i, accessSide.ptr sdx ≠ Go.chunkName accessSide.base i := by
    intro sdx h i
    show sdx.accessSession ≠ Go.chunkName Code.accessTokenCookie i
    rw [h]; exact (chunkName_ne_base _ _).symm
  -- fields other than the heap and the access chunk map are not touched by the second phase
  have rest_fields : ∀ (sdx sd' : Go.SessData), setRest accessSide fuel sdx tok = some sd' →
      sd'.refreshSession = sdx.refreshSession ∧ sd'.refreshTokenChunks = sdx.refreshTokenChunks ∧ sd'.mainSession = sdx.mainSession := by
    intro sdx sd' h
    -- the fold only rewrites the heap and the access chunk map
    have fold_fields : ∀ (l : List (Int × Go.Str)) (s : Go.SessData),
        (l.foldl (storeChunk accessSide) s).refreshSession = s.refreshSession ∧
        (l.foldl (storeChunk accessSide) s).refreshTokenChunks = s.refreshTokenChunks ∧
        (l.foldl (storeChunk accessSide) s).mainSession = s.mainSession := by
      intro l
      induction l with
      | nil => intro s; exact ⟨rfl, rfl, rfl⟩
      | cons x t ih =>
        intro s
        rw [List.foldl_cons]
        obtain ⟨a, b, c⟩ := ih (storeChunk accessSide s x)
        obtain ⟨r, hr⟩ := storeGet_reg_only s (Go.chunkName Code.accessTokenCookie x.1)
        have e : storeChunk accessSide s x = { (Go.sessSetVal { s with reg := r } (Go.storeGet s (Go.chunkName Code.accessTokenCookie x.1)).1.1 kChunk (Go.Any.str x.2)) with
            accessTokenChunks := Go.imapSet (Go.sessSetVal { s with reg := r } (Go.storeGet s (Go.chunkName Code.accessTokenCookie x.1)).1.1 kChunk (Go.Any.str x.2)).accessTokenChunks x.1 (Go.storeGet s (Go.chunkName Code.accessTokenCookie x.1)).1.1 } := by
          show storeChunk accessSide s x = _
          unfold storeChunk
          simp only [accessSide, hr]
        have x1 : (storeChunk accessSide s x).refreshSession = s.refreshSession := by rw [e]; rfl
        have x2 : (storeChunk accessSide s x).refreshTokenChunks = s.refreshTokenChunks := by rw [e]; rfl
        have x3 : (storeChunk accessSide s x).mainSession = s.mainSession := by rw [e]; rfl
        exact ⟨a.trans x1, b.trans x2, c.trans x3⟩
    unfold setRest at h
    by_cases hs : (((accessSide.setChunks sdx []).compress tok).length : Int) ≤ Code.maxCookieSize
    · simp only [hs, decide_true, if_true, Option.some.injEq] at h
      subst h; exact ⟨rfl, rfl, rfl⟩
    · simp only [hs, decide_false, Bool.false_eq_true, if_false] at h
      cases hsp : Code.splitIntoChunks fuel ((accessSide.setChunks sdx []).compress tok) Code.maxCookieSize with
      | none => rw [hsp] at h; cases h
      | some chunks =>
        rw [hsp] at h
        simp only [Option.some.injEq] at h
        subst h
        exact fold_fields _ _
  by_cases hreq : sd.hasRequest = true
  · obtain ⟨N, hN, hold, hnew⟩ := hterm hreq
    obtain ⟨sd1, hloop, hfr⟩ := expireLoop Code.accessTokenCookie (fun _ => true) (fun _ => rfl) N 0 sd fuel
      (fun j hj => by simpa using hold j hj) (by simpa using hnew) hN
    have hexp : Code.SessionData_expireAccessTokenChunks fuel sd false = some sd1 := by
      rw [expireAccess_eq, hloop]
    have e1 := hfr.only_reg
    have hacc1 : sd1.accessSession = Code.accessTokenCookie := by rw [e1]; exact hwf
    have hc1 : sd1.compress = sd.compress := by rw [e1]
    have hd1 : sd1.decompress = sd.decompress := by rw [e1]
    obtain ⟨sd', h1, h2, _, _, _, h6⟩ := setRest_get accessSide accessSide_ok sd1 tok (hptr sd1 hacc1)
      (by rw [hc1, hd1]; exact hdec) (by rw [hc1]; exact hne) fuel (by rw [hc1]; exact hf)
    obtain ⟨r1, r2, r3⟩ := rest_fields sd1 sd' h1
    refine ⟨sd', ?_, ?_, ?_, ?_, ?_, ?_⟩
    · simp only [hreq, if_true, hexp, Option.bind_some]; exact h1
    · rw [GetAccessToken_eq]; exact h2
    · intro q hq hqc
      rw [h6 q (by show q ≠ sd1.accessSession; rw [hacc1]; exact hq) hqc]
      exact hfr.get q hqc
    · rw [r1, e1]
    · rw [r2, e1]
    · rw [r3, e1]
  · obtain ⟨sd', h1, h2, _, _, _, h6⟩ := setRest_get accessSide accessSide_ok sd tok (hptr sd hwf) hdec hne fuel hf
    obtain ⟨r1, r2, r3⟩ := rest_fields sd sd' h1
    refine ⟨sd', ?_, ?_, ?_, r1, r2, r3⟩
    · simp only [hreq, Bool.false_eq_true, if_false]; exact h1
    · rw [GetAccessToken_eq]; exact h2
    · intro q hq hqc
      exact h6 q (by show q ≠ sd.accessSession; rw [hwf]; exact hq) hqc


/-! ### the same for the refresh token -/
theorem SetRefreshToken_eq (fuel : Nat) (sd : Go.SessData) (token : Go.Str) :
    Code.SessionData_SetRefreshToken fuel sd token =
      if sd.hasRequest then (Code.SessionData_expireRefreshTokenChunks fuel sd false).bind (fun sd => setRest refreshSide fuel sd token)
      else setRest refreshSide fuel sd token := by
  have rest : ∀ sd : Go.SessData, setRest refreshSide fuel sd token = (
      let sd := { sd with refreshTokenChunks := ([] : List (Int × Go.SessPtr)) }
      let compressed := (sd.compress token)
      if (decide ((compressed.length : Int) ≤ Code.maxCookieSize)) then
        let sd := Go.sessSetVal sd sd.refreshSession kTok (Go.Any.str compressed)
        let sd := Go.sessSetVal sd sd.refreshSession kComp (Go.Any.bool true)
        some sd
      else
        let sd := Go.sessSetVal sd sd.refreshSession kTok (Go.Any.str ([] : Go.Str))
        let sd := Go.sessSetVal sd sd.refreshSession kComp (Go.Any.bool true)
        match (Code.splitIntoChunks fuel compressed Code.maxCookieSize) with
        | none => none
        | some chunks =>
          match Go.forRange (Go.enum chunks) sd (fun (i, chunk) sd =>
            let sessionName := (Go.chunkName Code.refreshTokenCookie i)
            let ((session, _u1), sd) := Go.storeGet sd sessionName
            let sd := Go.sessSetVal sd session kChunk (Go.Any.str chunk)
            let sd := { sd with refreshTokenChunks := Go.imapSet sd.refreshTokenChunks i session }
            (.next sd : Go.Ctl Go.SessData Go.SessData)) with
          | .ret r => some (r)
          | .next sd => some (sd)
          | .brk sd => some (sd)) := by
    intro sd
    unfold setRest
    simp only [refreshSide]
    by_cases h : ((sd.compress token).length : Int) ≤ Code.maxCookieSize
    · simp only [h, decide_true, if_true]
    · simp only [h, decide_false, Bool.false_eq_true, if_false]
      cases Code.splitIntoChunks fuel (sd.compress token) Code.maxCookieSize with
      | none => rfl
      | some chunks =>
        simp only []
        rw [forRange_fold _ _ _ (storeChunk ⟨Code.refreshTokenCookie, (·.refreshSession), (·.refreshTokenChunks), fun sd m => { sd with refreshTokenChunks := m }⟩) (by intro ⟨i, c⟩ s; rfl)]
  unfold Code.SessionData_SetRefreshToken
  split
  · cases Code.SessionData_expireRefreshTokenChunks fuel sd false with
    | none => rfl
    | some sd' => simp only [Option.bind_some]; rw [rest]; rfl
  · rw [rest]; rfl


theorem expireRefresh_eq (fuel : Nat) (sd : Go.SessData) :
    Code.SessionData_expireRefreshTokenChunks fuel sd false =
      (match Go.forWhile fuel ((0 : Int), sd) (fun _ => true) (expireBody Code.refreshTokenCookie) with
       | none => none
       | some (.ret r) => some r
       | some (.next (_, sd)) => some sd
       | some (.brk (_, sd)) => some sd) := by
  have key : ∀ (cond : Int × Go.SessData → Bool) (body : Int × Go.SessData → Go.Ctl (Int × Go.SessData) Go.SessData),
      (∀ a, cond a = true) → (∀ i sd, body (i, sd) = expireBody Code.refreshTokenCookie (i, sd)) →
      (match Go.forWhile fuel ((0 : Int), sd) cond body with
       | none => none
       | some (.ret r) => some r
       | some (.next (_, sd)) => some sd
       | some (.brk (_, sd)) => some sd) =
      (match Go.forWhile fuel ((0 : Int), sd) (fun _ => true) (expireBody Code.refreshTokenCookie) with
       | none => none
       | some (.ret r) => some r
       | some (.next (_, sd)) => some sd
       | some (.brk (_, sd)) => some sd) := by
    intro cond body hc hb
    have e1 : cond = fun _ => true := funext hc
    have e2 : body = expireBody Code.refreshTokenCookie := funext (fun ⟨i, sd⟩ => hb i sd)
    rw [e1, e2]
  unfold Code.SessionData_expireRefreshTokenChunks
  exact key _ _ (fun _ => rfl) (by intro i sd; simp [expireBody])


/-- **What `SetRefreshToken` leaves in memory is what `GetRefreshToken` reads.**  For a token of any size — stored whole, or cut
    into any number of chunk sessions — given only that `decompressToken` undoes `compressToken` on it and that the compressed
    text is not empty; whether or not a request is attached (then the old chunk cookies are expired first: the loop ends at the
    first chunk cookie the request does not carry).  Nothing outside the refresh token's own sessions changes. -/
theorem SetRefreshToken_GetRefreshToken (sd : Go.SessData) (tok : Go.Str) (fuel : Nat)
    (hwf : sd.refreshSession = Code.refreshTokenCookie)
    (hdec : sd.decompress (sd.compress tok) = tok) (hne : sd.compress tok ≠ [])
    (hf : (sd.compress tok).length < fuel)
    (hterm : sd.hasRequest = true → ∃ N : Nat, N < fuel ∧ (∀ j : Nat, j < N → chunkIsNew Code.refreshTokenCookie sd j = false) ∧
        chunkIsNew Code.refreshTokenCookie sd N = true) :
    ∃ sd', Code.SessionData_SetRefreshToken fuel sd tok = some sd' ∧ Code.SessionData_GetRefreshToken fuel sd' = some tok ∧
      (∀ q, q ≠ Code.refreshTokenCookie → (∀ i, q ≠ Go.chunkName Code.refreshTokenCookie i) → Go.regGet sd'.reg q = Go.regGet sd.reg q) ∧
      sd'.accessSession = sd.accessSession ∧ sd'.accessTokenChunks = sd.accessTokenChunks ∧ sd'.mainSession = sd.mainSession := by
  rw [SetRefreshToken_eq]
  have hptr : ∀ sdx : Go.SessData, sdx.refreshSession = Code.refreshTokenCookie → ∀ i, refreshSide.ptr sdx ≠ Go.chunkName refreshSide.base i := by
    intro sdx h i
    show sdx.refreshSession ≠ Go.chunkName Code.refreshTokenCookie i
    rw [h]; exact (chunkName_ne_base _ _).symm
  -- fields other than the heap and the access chunk map are not touched by the second phase
  have rest_fields : ∀ (sdx sd' : Go.SessData), setRest refreshSide fuel sdx tok = some sd' →
      sd'.accessSession = sdx.accessSession ∧ sd'.accessTokenChunks = sdx.accessTokenChunks ∧ sd'.mainSession = sdx.mainSession := by
    intro sdx sd' h
    -- the fold only rewrites the heap and the access chunk map
    have fold_fields : ∀ (l : List (Int × Go.Str)) (s : Go.SessData),
        (l.foldl (storeChunk refreshSide) s).accessSession = s.accessSession ∧
        (l.foldl (storeChunk refreshSide) s).accessTokenChunks = s.accessTokenChunks ∧
        (l.foldl (storeChunk refreshSide) s).mainSession = s.mainSession := by
      intro l
      induction l with
      | nil => intro s; exact ⟨rfl, rfl, rfl⟩
      | cons x t ih =>
        intro s
        rw [List.foldl_cons]
        obtain ⟨a, b, c⟩ := ih (storeChunk refreshSide s x)
        obtain ⟨r, hr⟩ := storeGet_reg_only s (Go.chunkName Code.refreshTokenCookie x.1)
        have e : storeChunk refreshSide s x = { (Go.sessSetVal { s with reg := r } (Go.storeGet s (Go.chunkName Code.refreshTokenCookie x.1)).1.1 kChunk (Go.Any.str x.2)) with
            refreshTokenChunks := Go.imapSet (Go.sessSetVal { s with reg := r } (Go.storeGet s (Go.chunkName Code.refreshTokenCookie x.1)).1.1 kChunk (Go.Any.str x.2)).refreshTokenChunks x.1 (Go.storeGet s (Go.chunkName Code.refreshTokenCookie x.1)).1.1 } := by
          show storeChunk refreshSide s x = _
          unfold storeChunk
          simp only [refreshSide, hr]
        have x1 : (storeChunk refreshSide s x).accessSession = s.accessSession := by rw [e]; rfl
        have x2 : (storeChunk refreshSide s x).accessTokenChunks = s.accessTokenChunks := by rw [e]; rfl
        have x3 : (storeChunk refreshSide s x).mainSession = s.mainSession := by rw [e]; rfl
        exact ⟨a.trans x1, b.trans x2, c.trans x3⟩
    unfold setRest at h
    by_cases hs : (((refreshSide.setChunks sdx []).compress tok).length : Int) ≤ Code.maxCookieSize
    · simp only [hs, decide_true, if_true, Option.some.injEq] at h
      subst h; exact ⟨rfl, rfl, rfl⟩
    · simp only [hs, decide_false, Bool.false_eq_true, if_false] at h
      cases hsp : Code.splitIntoChunks fuel ((refreshSide.setChunks sdx []).compress tok) Code.maxCookieSize with
      | none => rw [hsp] at h; cases h
      | some chunks =>
        rw [hsp] at h
        simp only [Option.some.injEq] at h
        subst h
        exact fold_fields _ _
  by_cases hreq : sd.hasRequest = true
  · obtain ⟨N, hN, hold, hnew⟩ := hterm hreq
    obtain ⟨sd1, hloop, hfr⟩ := expireLoop Code.refreshTokenCookie (fun _ => true) (fun _ => rfl) N 0 sd fuel
      (fun j hj => by simpa using hold j hj) (by simpa using hnew) hN
    have hexp : Code.SessionData_expireRefreshTokenChunks fuel sd false = some sd1 := by
      rw [expireRefresh_eq, hloop]
    have e1 := hfr.only_reg
    have hacc1 : sd1.refreshSession = Code.refreshTokenCookie := by rw [e1]; exact hwf
    have hc1 : sd1.compress = sd.compress := by rw [e1]
    have hd1 : sd1.decompress = sd.decompress := by rw [e1]
    obtain ⟨sd', h1, h2, _, _, _, h6⟩ := setRest_get refreshSide refreshSide_ok sd1 tok (hptr sd1 hacc1)
      (by rw [hc1, hd1]; exact hdec) (by rw [hc1]; exact hne) fuel (by rw [hc1]; exact hf)
    obtain ⟨r1, r2, r3⟩ := rest_fields sd1 sd' h1
    refine ⟨sd', ?_, ?_, ?_, ?_, ?_, ?_⟩
    · simp only [hreq, if_true, hexp, Option.bind_some]; exact h1
    · rw [GetRefreshToken_eq]; exact h2
    · intro q hq hqc
      rw [h6 q (by show q ≠ sd1.refreshSession; rw [hacc1]; exact hq) hqc]
      exact hfr.get q hqc
    · rw [r1, e1]
    · rw [r2, e1]
    · rw [r3, e1]
  · obtain ⟨sd', h1, h2, _, _, _, h6⟩ := setRest_get refreshSide refreshSide_ok sd tok (hptr sd hwf) hdec hne fuel hf
    obtain ⟨r1, r2, r3⟩ := rest_fields sd sd' h1
    refine ⟨sd', ?_, ?_, ?_, r1, r2, r3⟩
    · simp only [hreq, Bool.false_eq_true, if_false]; exact h1
    · rw [GetRefreshToken_eq]; exact h2
    · intro q hq hqc
      exact h6 q (by show q ≠ sd.refreshSession; rw [hwf]; exact hq) hqc


/-! ### writing one token does not change what is read of the other -/
theorem imapGet_mem (m : List (Int × Go.SessPtr)) (i : Int) (h : (Go.imapGet m i).2 = true) : (i, (Go.imapGet m i).1) ∈ m := by
  unfold Go.imapGet at h ⊢
  cases hf : m.find? (fun p => p.1 == i) with
  | none => simp [hf] at h
  | some p =>
    simp only
    have hm := List.mem_of_find?_eq_some hf
    have hp := List.find?_some hf
    have : p.1 = i := by simpa using hp
    rw [← this]
    exact hm

/-- a getter reads the heap only at its own session and at the sessions its chunk map points to -/
theorem getTok_congr (S : Side) (fuel : Nat) (sd sd' : Go.SessData)
    (hp : S.ptr sd' = S.ptr sd) (hc : S.chunks sd' = S.chunks sd) (hd : sd'.decompress = sd.decompress)
    (hr : Go.regGet sd'.reg (S.ptr sd) = Go.regGet sd.reg (S.ptr sd))
    (hrc : ∀ i q, (i, q) ∈ S.chunks sd → Go.regGet sd'.reg q = Go.regGet sd.reg q) :
    getTok S fuel sd' = getTok S fuel sd := by
  have hb : getBody S sd' = getBody S sd := by
    funext ⟨chunks, i⟩
    unfold getBody
    simp only [hc]
    cases hok : (Go.imapGet (S.chunks sd) i).2 with
    | false =>
      have : Go.imapGet (S.chunks sd) i = ((Go.imapGet (S.chunks sd) i).1, false) := by rw [← hok]
      rw [this]
      simp
    | true =>
      have hm := imapGet_mem _ _ hok
      have e := sessVal_of_reg sd sd' _ (hrc _ _ hm) kChunk
      have : Go.imapGet (S.chunks sd) i = ((Go.imapGet (S.chunks sd) i).1, true) := by rw [← hok]
      rw [this]
      simp only [e]
  unfold getTok
  rw [hp, hc, hd, hb, sessVal_of_reg sd sd' _ hr kTok, sessVal_of_reg sd sd' _ hr kComp]

/-- **`SetAccessToken` leaves the refresh token as it was** (what `GetRefreshToken` returns is the same before and after), when the
    sessions are named as `GetSession` names them: the two fixed cookies, and refresh chunks under `_oidc_raczylo_r_<i>` -/
theorem SetAccessToken_keeps_refresh (sd : Go.SessData) (tok : Go.Str) (fuel : Nat)
    (hwf : sd.accessSession = Code.accessTokenCookie) (hwr : sd.refreshSession = Code.refreshTokenCookie)
    (hchunks : ∀ i q, (i, q) ∈ sd.refreshTokenChunks → ∃ j, q = Go.chunkName Code.refreshTokenCookie j)
    (hdec : sd.decompress (sd.compress tok) = tok) (hne : sd.compress tok ≠ [])
    (hf : (sd.compress tok).length < fuel)
    (hterm : sd.hasRequest = true → ∃ N : Nat, N < fuel ∧ (∀ j : Nat, j < N → chunkIsNew Code.accessTokenCookie sd j = false) ∧
        chunkIsNew Code.accessTokenCookie sd N = true) :
    ∃ sd', Code.SessionData_SetAccessToken fuel sd tok = some sd' ∧
      Code.SessionData_GetRefreshToken fuel sd' = Code.SessionData_GetRefreshToken fuel sd := by
  obtain ⟨sd', h1, _, h3, h4, h5, _⟩ := SetAccessToken_GetAccessToken sd tok fuel hwf hdec hne hf hterm
  refine ⟨sd', h1, ?_⟩
  rw [GetRefreshToken_eq, GetRefreshToken_eq]
  have hdd : sd'.decompress = sd.decompress := by
    -- (the setter only changes the heap and the access chunk map)
    obtain ⟨sd'', g1, _, g3, _⟩ : ∃ s, Code.SessionData_SetAccessToken fuel sd tok = some s ∧ True ∧ s.decompress = sd.decompress ∧ True := by
      rw [SetAccessToken_eq]
      have hptr : ∀ sdx : Go.SessData, sdx.accessSession = Code.accessTokenCookie → ∀ i, accessSide.ptr sdx ≠ Go.chunkName accessSide.base i := by
        intro sdx h i
        show sdx.accessSession ≠ Go.chunkName Code.accessTokenCookie i
        rw [h]; exact (chunkName_ne_base _ _).symm
      by_cases hreq : sd.hasRequest = true
      · obtain ⟨N, hN, hold, hnew⟩ := hterm hreq
        obtain ⟨sd1, hloop, hfr⟩ := expireLoop Code.accessTokenCookie (fun _ => true) (fun _ => rfl) N 0 sd fuel
          (fun j hj => by simpa using hold j hj) (by simpa using hnew) hN
        have hexp : Code.SessionData_expireAccessTokenChunks fuel sd false = some sd1 := by rw [expireAccess_eq, hloop]
        have e1 := hfr.only_reg
        have hacc1 : sd1.accessSession = Code.accessTokenCookie := by rw [e1]; exact hwf
        have hc1 : sd1.compress = sd.compress := by rw [e1]
        have hd1 : sd1.decompress = sd.decompress := by rw [e1]
        obtain ⟨s, a1, _, a3, _⟩ := setRest_get accessSide accessSide_ok sd1 tok (hptr sd1 hacc1)
          (by rw [hc1, hd1]; exact hdec) (by rw [hc1]; exact hne) fuel (by rw [hc1]; exact hf)
        exact ⟨s, by simp only [hreq, if_true, hexp, Option.bind_some]; exact a1, trivial, a3.trans hd1, trivial⟩
      · obtain ⟨s, a1, _, a3, _⟩ := setRest_get accessSide accessSide_ok sd tok (hptr sd hwf) hdec hne fuel hf
        exact ⟨s, by simp only [hreq, Bool.false_eq_true, if_false]; exact a1, trivial, a3, trivial⟩
    rw [h1] at g1
    cases g1
    exact g3
  apply getTok_congr refreshSide fuel sd sd'
  · exact h4
  · exact h5
  · exact hdd
  · show Go.regGet sd'.reg sd.refreshSession = Go.regGet sd.reg sd.refreshSession
    rw [hwr]
    exact h3 _ (by decide) (fun i => (chunkName_ne_other _ _ i (by decide)).symm)
  · intro i q hq
    obtain ⟨j, rfl⟩ := hchunks i q hq
    exact h3 _ (chunkName_ne_other _ _ j (by decide)) (fun i => (chunkName_bases _ _ i j (by decide) (by decide)).symm)

/-! ## the main session's string fields (state, nonce, verifier, e-mail, remembered URI) -/
/-- the five setters and getters as translated are one pair, instantiated with the field's key -/
def mainGet (k : Go.Str) (sd : Go.SessData) : Go.Str := (Go.asStr (Go.sessVal sd sd.mainSession k)).1
def mainSet (k : Go.Str) (sd : Go.SessData) (v : Go.Str) : Go.SessData := Go.sessSetVal sd sd.mainSession k (Go.Any.str v)

theorem accessors_are_instances (sd : Go.SessData) (v : Go.Str) :
    Code.SessionData_GetCSRF sd = mainGet ['c','s','r','f'] sd ∧ Code.SessionData_SetCSRF sd v = mainSet ['c','s','r','f'] sd v ∧
    Code.SessionData_GetNonce sd = mainGet ['n','o','n','c','e'] sd ∧ Code.SessionData_SetNonce sd v = mainSet ['n','o','n','c','e'] sd v ∧
    Code.SessionData_GetCodeVerifier sd = mainGet ['c','o','d','e','_','v','e','r','i','f','i','e','r'] sd ∧
    Code.SessionData_SetCodeVerifier sd v = mainSet ['c','o','d','e','_','v','e','r','i','f','i','e','r'] sd v ∧
    Code.SessionData_GetEmail sd = mainGet ['e','m','a','i','l'] sd ∧ Code.SessionData_SetEmail sd v = mainSet ['e','m','a','i','l'] sd v ∧
    Code.SessionData_GetIncomingPath sd = mainGet ['i','n','c','o','m','i','n','g','_','p','a','t','h'] sd ∧
    Code.SessionData_SetIncomingPath sd v = mainSet ['i','n','c','o','m','i','n','g','_','p','a','t','h'] sd v :=
  ⟨rfl, rfl, rfl, rfl, rfl, rfl, rfl, rfl, rfl, rfl⟩

/-- what a setter stores is what its getter returns: the string itself, unchanged -/
theorem mainGet_mainSet (k : Go.Str) (sd : Go.SessData) (v : Go.Str) : mainGet k (mainSet k sd v) = v := by
  unfold mainGet mainSet
  have : (Go.sessSetVal sd sd.mainSession k (Go.Any.str v)).mainSession = sd.mainSession := rfl
  rw [this, sessVal_setVal_same]
  rfl

/-- ... and no other field's getter notices -/
theorem mainGet_mainSet_other (k k' : Go.Str) (h : k' ≠ k) (sd : Go.SessData) (v : Go.Str) : mainGet k' (mainSet k sd v) = mainGet k' sd := by
  unfold mainGet mainSet
  have : (Go.sessSetVal sd sd.mainSession k (Go.Any.str v)).mainSession = sd.mainSession := rfl
  rw [this, sessVal_setVal_key _ _ _ _ _ h]

/-- nor do the token getters, the main session being another session than theirs -/
theorem getTok_mainSet (S : Side) (hS : SideOk S) (fuel : Nat) (k : Go.Str) (sd : Go.SessData) (v : Go.Str)
    (hp : S.ptr sd ≠ sd.mainSession) (hc : ∀ i q, (i, q) ∈ S.chunks sd → q ≠ sd.mainSession) :
    getTok S fuel (mainSet k sd v) = getTok S fuel sd := by
  have e : mainSet k sd v = { sd with reg := (mainSet k sd v).reg } := rfl
  apply getTok_congr S fuel sd (mainSet k sd v)
  · rw [e]; exact hS.ptr_reg _ _
  · rw [e]; exact hS.chunks_reg _ _
  · rfl
  · show Go.regGet (Go.regSet sd.reg sd.mainSession _) _ = _
    exact regGet_regSet_ne _ _ _ _ hp
  · intro i q hq
    show Go.regGet (Go.regSet sd.reg sd.mainSession _) _ = _
    exact regGet_regSet_ne _ _ _ _ (hc i q hq)

/-! ## the authenticated flag and the 24-hour limit -/
abbrev kAuth : Go.Str := ['a','u','t','h','e','n','t','i','c','a','t','e','d']
abbrev kCreated : Go.Str := ['c','r','e','a','t','e','d','_','a','t']

theorem asInt_int (i : Int) : Go.asInt (Go.Any.int i) = (i, true) := rfl

/-- `GetAuthenticated` after `SetAuthenticated(true)` at instant `t0` (the random session id being available): true exactly while no
    more than 24 hours have passed since the whole second `t0` fell into -/
theorem GetAuthenticated_after_set_true (sd : Go.SessData) (t0 t : Int) (hrand : (sd.generateSecureRandomString 32).2 = none) :
    (Code.SessionData_SetAuthenticated t0 sd true).1 = none ∧
    Code.SessionData_GetAuthenticated t (Code.SessionData_SetAuthenticated t0 sd true).2 =
      decide (t - (t0 / 1000000000) * 1000000000 ≤ 24 * Go.Hour) := by
  unfold Code.SessionData_SetAuthenticated
  rcases hr : sd.generateSecureRandomString 32 with ⟨id, err⟩
  rw [hr] at hrand
  simp only at hrand
  subst hrand
  simp only [if_true, Option.isSome_none, Bool.false_eq_true, if_false, true_and]
  unfold Code.SessionData_GetAuthenticated
  have hm : ∀ (s : Go.SessData) p k v, (Go.sessSetVal s p k v).mainSession = s.mainSession := fun _ _ _ _ => rfl
  have kne : kCreated ≠ kAuth := by decide
  simp only [hm]
  rw [sessVal_setVal_same, sessVal_setVal_key _ _ _ _ _ kne, sessVal_setVal_same]
  simp only [asBool_bool, asInt_int, Bool.not_true, Bool.false_eq_true, if_false]
  simp [Go.timeSub, Go.timeUnix, Go.timeToUnix, Code.absoluteSessionTimeout]

/-- ... in particular: true up to 24 hours minus a second later, false from more than 24 hours later on -/
theorem GetAuthenticated_window (sd : Go.SessData) (t0 t : Int) (h0 : 0 ≤ t0) (hrand : (sd.generateSecureRandomString 32).2 = none) :
    (t0 ≤ t → t - t0 ≤ 24 * Go.Hour - Go.Second → Code.SessionData_GetAuthenticated t (Code.SessionData_SetAuthenticated t0 sd true).2 = true) ∧
    (24 * Go.Hour + Go.Second ≤ t - t0 → Code.SessionData_GetAuthenticated t (Code.SessionData_SetAuthenticated t0 sd true).2 = false) := by
  rw [(GetAuthenticated_after_set_true sd t0 t hrand).2]
  have hfl : (t0 / 1000000000) * 1000000000 ≤ t0 ∧ t0 < (t0 / 1000000000) * 1000000000 + 1000000000 := by
    constructor <;> omega
  have hH : (24 : Int) * Go.Hour = 86400000000000 := by decide
  have hS : Go.Second = (1000000000 : Int) := by decide
  constructor
  · intro h1 h2
    rw [hH] at h2 ⊢; rw [hS] at h2
    have h2' : t - t0 ≤ (86400000000000 : Int) - 1000000000 := h2
    exact decide_eq_true (by omega)
  · intro h1
    rw [hH] at h1 ⊢; rw [hS] at h1
    have h1' : (86400000000000 : Int) + 1000000000 ≤ t - t0 := h1
    exact decide_eq_false (by omega)

/-- after `SetAuthenticated(false)`, and for a session that carries no creation time, the answer is "not authenticated" at any time -/
theorem GetAuthenticated_after_set_false (sd : Go.SessData) (t0 t : Int) :
    (Code.SessionData_SetAuthenticated t0 sd false).1 = none ∧
    Code.SessionData_GetAuthenticated t (Code.SessionData_SetAuthenticated t0 sd false).2 = false := by
  unfold Code.SessionData_SetAuthenticated
  simp only [Bool.false_eq_true, if_false, true_and]
  unfold Code.SessionData_GetAuthenticated
  have hm : ∀ (s : Go.SessData) p k v, (Go.sessSetVal s p k v).mainSession = s.mainSession := fun _ _ _ _ => rfl
  simp only [hm]
  rw [sessVal_setVal_same]
  simp [asBool_bool]

theorem GetAuthenticated_needs_created (sd : Go.SessData) (t : Int) (h : (Go.asInt (Go.sessVal sd sd.mainSession kCreated)).2 = false) :
    Code.SessionData_GetAuthenticated t sd = false := by
  unfold Code.SessionData_GetAuthenticated
  rcases hb : Go.asBool (Go.sessVal sd sd.mainSession kAuth) with ⟨a, _⟩
  rcases hi : Go.asInt (Go.sessVal sd sd.mainSession kCreated) with ⟨c, ok⟩
  rw [hi] at h
  simp only at h
  subst h
  cases a <;> simp

end Oidc.CodeRefine
