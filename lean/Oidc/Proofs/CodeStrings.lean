import Oidc.Generated.Code
import Oidc.Model.Handler
import Oidc.Proofs.Strings
/-!
# The translated functions (`Oidc.Generated.Code`, regenerated from /repo on every run) refine the hand-written model

`tools/go2lean` translates the Go source statement by statement; the theorems here show that what it produced computes the
same function as the model the property theorems are about.  A change to one of these Go functions changes
`Generated/Code.lean` on the next run; if it changes the function's meaning, the refinement theorem stops checking.
-/
namespace Oidc.CodeRefine
open Oidc Oidc.Generated

/-! ## loops: `for … range` that returns on the first hit is `any` -/
theorem forRange_ret_true {α : Type} (xs : List α) (p : α → Bool) :
    Go.forRange xs () (fun x () => if p x then (.ret true : Go.Ctl Unit Bool) else .next ()) =
      if xs.any p then .ret true else .next () := by
  induction xs with
  | nil => simp [Go.forRange]
  | cons x xs ih =>
    unfold Go.forRange
    cases hp : p x <;> simp [hp, ih]

/-! ## strings.Split with a one-character separator is the model's `split` -/
theorem splitOn1_eq (c : Char) (s : Str) : Go.splitOn1 c s = Strings.split c s := by
  induction s with
  | nil => rfl
  | cons x xs ih =>
    simp only [Go.splitOn1, Strings.split, ih]
    split
    · rfl
    · cases Strings.split c xs <;> rfl

/-! ## main.go `isAllowedDomain` -/
theorem isAllowedDomain_refines (t : Go.Inst) (email : Str) :
    Code.TraefikOidc_isAllowedDomain t email = Strings.isAllowedDomain t.allowedUserDomains email := by
  unfold Code.TraefikOidc_isAllowedDomain Strings.isAllowedDomain
  cases hd : t.allowedUserDomains with
  | nil => simp
  | cons d ds =>
    simp only [List.length_cons, List.isEmpty_cons, Bool.false_eq_true, if_false, Go.split, splitOn1_eq]
    have h0 : ((↑(ds.length + 1) : Int) == 0) = false := by
      simp only [beq_eq_false_iff_ne, ne_eq]; omega
    simp only [h0, Bool.false_eq_true, if_false]
    match hs : Strings.split '@' email with
    | [] => simp
    | [a] => simp
    | [a, b] => simp [Go.idx, Go.setHas]
    | a :: b :: c :: r =>
      simp
      intro h; omega

/-! ## main.go `determineExcludedURL` -/
theorem determineExcludedURL_refines (t : Go.Inst) (p : Str) :
    Code.TraefikOidc_determineExcludedURL t p = t.excludedURLs.any (fun e => e.isPrefixOf p) := by
  unfold Code.TraefikOidc_determineExcludedURL
  have h := forRange_ret_true t.excludedURLs (fun e => Go.hasPrefix p e)
  simp only [Go.hasPrefix] at h
  simp only [Go.hasPrefix]
  rw [h]
  by_cases hany : t.excludedURLs.any (fun e => e.isPrefixOf p) = true
  · simp only [hany, if_true]
  · simp only [hany, if_false]; simpa using hany

theorem determineExcludedURL_model (t : Go.Inst) (c : Handler.Cfg) (p : Str) (h : c.excluded = t.excludedURLs) :
    Code.TraefikOidc_determineExcludedURL t p = Handler.excludedPath c p := by
  rw [determineExcludedURL_refines, Handler.excludedPath, h]

/-- the answer does not depend on the order in which Go ranges over the map -/
theorem determineExcludedURL_order (t t' : Go.Inst) (p : Str) (h : ∀ e, e ∈ t.excludedURLs ↔ e ∈ t'.excludedURLs) :
    Code.TraefikOidc_determineExcludedURL t p = Code.TraefikOidc_determineExcludedURL t' p := by
  rw [determineExcludedURL_refines, determineExcludedURL_refines, Bool.eq_iff_iff]
  simp only [List.any_eq_true]
  constructor
  · rintro ⟨e, he, hp⟩; exact ⟨e, (h e).mp he, hp⟩
  · rintro ⟨e, he, hp⟩; exact ⟨e, (h e).mpr he, hp⟩

/-! ## main.go `determineScheme`, `determineHost` -/
/-- the request as the translated functions see it -/
def goReq (q : Handler.RawReq) : Go.Request :=
  { header := fun n => Handler.hdrGet q.hdrs n, host := q.host, tls := q.tls }

theorem determineScheme_refines (t : Go.Inst) (q : Handler.RawReq) :
    Code.TraefikOidc_determineScheme t (goReq q) = Handler.determineScheme q := by
  unfold Code.TraefikOidc_determineScheme Handler.determineScheme goReq Go.headerGet
  simp only [bne_iff_ne, ne_eq]
  by_cases h : Handler.hdrGet q.hdrs "X-Forwarded-Proto".toList = []
  · have h' : Handler.hdrGet q.hdrs ['X','-','F','o','r','w','a','r','d','e','d','-','P','r','o','t','o'] = [] := h
    simp [h']
  · have h' : ¬ Handler.hdrGet q.hdrs ['X','-','F','o','r','w','a','r','d','e','d','-','P','r','o','t','o'] = [] := h
    simp [h']

theorem determineHost_refines (t : Go.Inst) (q : Handler.RawReq) :
    Code.TraefikOidc_determineHost t (goReq q) = Handler.determineHost q := by
  unfold Code.TraefikOidc_determineHost Handler.determineHost goReq Go.headerGet
  simp only [bne_iff_ne, ne_eq]
  by_cases h : Handler.hdrGet q.hdrs "X-Forwarded-Host".toList = []
  · have h' : Handler.hdrGet q.hdrs ['X','-','F','o','r','w','a','r','d','e','d','-','H','o','s','t'] = [] := h
    simp [h']
  · have h' : ¬ Handler.hdrGet q.hdrs ['X','-','F','o','r','w','a','r','d','e','d','-','H','o','s','t'] = [] := h
    simp [h']

end Oidc.CodeRefine
