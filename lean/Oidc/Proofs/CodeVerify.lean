import Oidc.Generated.Code
import Oidc.Model.Verify
import Oidc.Proofs.CodeJwt
/-!
# main.go `VerifyToken`, `performPreVerificationChecks`, `cacheVerifiedToken`, `RevokeToken` as translated from the source
refine the model's verifier state machine (`Oidc.Verify.verify`, `Oidc.Verify.revoke`)

The translated functions thread the shared state `w : σ` through the operations of `Go.VOps σ`.  The theorems hold for every
implementation of those operations that, seen through an abstraction `abs : σ → Verify.V`, behaves like the model's two caches
and its limiter (`OpsSpec`); `Oidc.Proofs.CacheImpl` shows that of the three structures of cache.go.
-/
namespace Oidc.CodeRefine
open Oidc Oidc.Generated Oidc.Verify

/-- what the operations on the shared state do, through `abs` -/
structure OpsSpec {σ : Type} (ops : Go.VOps σ) (abs : σ → V) (F : Facts) : Prop where
  tcGet_tc : ∀ w now k, (abs (ops.tokenCacheGet w now k).2).tc = (Cache.get F.se (abs w).tc now (String.ofList k)).1
  tcGet_bl : ∀ w now k, (abs (ops.tokenCacheGet w now k).2).bl = (abs w).bl
  tcGet_lim : ∀ w now k, (abs (ops.tokenCacheGet w now k).2).lim = (abs w).lim
  tcGet_hit : ∀ w now k, (ops.tokenCacheGet w now k).1.2 = (Cache.get F.se (abs w).tc now (String.ofList k)).2.isSome
  tcSet_tc : ∀ w now k c d, (abs (ops.tokenCacheSet w now k c d)).tc = Cache.set F.se (abs w).tc now (String.ofList k) 1 d
  tcSet_bl : ∀ w now k c d, (abs (ops.tokenCacheSet w now k c d)).bl = (abs w).bl
  tcSet_lim : ∀ w now k c d, (abs (ops.tokenCacheSet w now k c d)).lim = (abs w).lim
  tcDel_tc : ∀ w k, (abs (ops.tokenCacheDelete w k)).tc = Cache.delete (abs w).tc (String.ofList k)
  tcDel_bl : ∀ w k, (abs (ops.tokenCacheDelete w k)).bl = (abs w).bl
  tcDel_lim : ∀ w k, (abs (ops.tokenCacheDelete w k)).lim = (abs w).lim
  blGet_bl : ∀ w now k, (abs (ops.blacklistGet w now k).2).bl = (Cache.get F.se (abs w).bl now (String.ofList k)).1
  blGet_tc : ∀ w now k, (abs (ops.blacklistGet w now k).2).tc = (abs w).tc
  blGet_lim : ∀ w now k, (abs (ops.blacklistGet w now k).2).lim = (abs w).lim
  blGet_hit : ∀ w now k, (ops.blacklistGet w now k).1.2 = (Cache.get F.se (abs w).bl now (String.ofList k)).2.isSome
  blSet_bl : ∀ w now k v d, (abs (ops.blacklistSet w now k v d)).bl = Cache.set F.se (abs w).bl now (String.ofList k) 1 d
  blSet_tc : ∀ w now k v d, (abs (ops.blacklistSet w now k v d)).tc = (abs w).tc
  blSet_lim : ∀ w now k v d, (abs (ops.blacklistSet w now k v d)).lim = (abs w).lim
  lim_lim : ∀ w now, (abs (ops.limiterAllow w now).2).lim = (Limiter.allow F.r F.b (abs w).lim now).1
  lim_tc : ∀ w now, (abs (ops.limiterAllow w now).2).tc = (abs w).tc
  lim_bl : ∀ w now, (abs (ops.limiterAllow w now).2).bl = (abs w).bl
  lim_ok : ∀ w now, (ops.limiterAllow w now).1 = (Limiter.allow F.r F.b (abs w).lim now).2

theorem V_eq {a b : V} (h1 : a.tc = b.tc) (h2 : a.bl = b.bl) (h3 : a.lim = b.lim) : a = b := by
  cases a; cases b; simp_all

/-- the `jti` a token string carries, as `performPreVerificationChecks` reads it (unverified claims; none when the claims cannot
    be extracted, the claim is no string, or it is empty) -/
def codeJti (t : Go.Inst) (tok : Go.Str) : Option String :=
  if (t.extractClaims tok).2.isNone then
    (if (Go.asStr (Go.mapGet (t.extractClaims tok).1 ['j','t','i'])).2 && (Go.asStr (Go.mapGet (t.extractClaims tok).1 ['j','t','i'])).1 != [] then
      some (String.ofList (Go.asStr (Go.mapGet (t.extractClaims tok).1 ['j','t','i'])).1)
    else none)
  else none

/-- what the model needs to know of a token string, read off the instance's (untranslated) parsing functions and the translated
    verification -/
def codeTok (t : Go.Inst) : TokOf :=
  { exp := fun id => (Go.asF64 (Go.mapGet (t.extractClaims id.toList).1 ['e','x','p'])).1.trunc * 1000000000
    jti := fun id => codeJti t id.toList
    scratch := fun id now => (t.parseJWT id.toList).2.isNone &&
      (Code.TraefikOidc_VerifyJWTSignatureAndClaims now t (t.parseJWT id.toList).1 id.toList).isNone }

/-! ## `performPreVerificationChecks`: limiter, then the raw token on the revocation list, then its `jti` -/
theorem pre_refines {σ : Type} (ops : Go.VOps σ) (abs : σ → V) (F : Facts) (S : OpsSpec ops abs F)
    (now : Int) (t : Go.Inst) (tok : Go.Str) (w : σ) :
    let r := Code.TraefikOidc_performPreVerificationChecks ops now t tok w
    let a := Limiter.allow F.r F.b (abs w).lim now
    let b1 := Cache.get F.se (abs w).bl now (String.ofList tok)
    let b2 := jtiCheck F (codeTok t) b1.1 now (String.ofList tok)
    (abs r.2).tc = (abs w).tc ∧ (abs r.2).lim = a.1 ∧
    (abs r.2).bl = (if !a.2 then (abs w).bl else if b1.2.isSome then b1.1 else b2.1) ∧
    r.1.isNone = (a.2 && !b1.2.isSome && !b2.2.isSome) := by
  intro r a b1 b2
  have hr : r = Code.TraefikOidc_performPreVerificationChecks ops now t tok w := rfl
  have hjti : (codeTok t).jti (String.ofList tok) = codeJti t tok := by simp [codeTok]
  unfold Code.TraefikOidc_performPreVerificationChecks at hr
  have hok := S.lim_ok w now
  have e1 := S.lim_tc w now
  have e2 := S.lim_bl w now
  have e3 := S.lim_lim w now
  have f0 := fun w1 k => S.blGet_hit w1 now k
  have f1 := fun w1 k => S.blGet_bl w1 now k
  have f2 := fun w1 k => S.blGet_tc w1 now k
  have f3 := fun w1 k => S.blGet_lim w1 now k
  clear S
  unfold codeJti at hjti
  obtain ⟨tcg, tcs, tcd, blg, bls, la⟩ := ops
  obtain ⟨ex, ad, ar, gp, ecf, ecl, pj, iu, ci, gj, tp, vs⟩ := t
  simp only at hok hr e1 e2 e3 f0 f1 f2 f3 hjti
  rcases hla : la w now with ⟨ok, w1⟩
  rw [hla] at hok hr e1 e2 e3
  simp only at hok hr e1 e2 e3
  have hw1lim : (abs w1).lim = a.1 := e3
  cases ok
  · -- refused
    have ha2 : a.2 = false := hok.symm
    simp only [Bool.not_false, if_true] at hr
    rw [hr]
    simp [ha2, e1, e2, hw1lim]
  · have ha2 : a.2 = true := hok.symm
    simp only [Bool.not_true, Bool.false_eq_true, if_false] at hr
    have hhit := f0 w1 tok
    have g1 := f1 w1 tok
    have g2 := f2 w1 tok
    have g3 := f3 w1 tok
    rcases hbg : blg w1 now tok with ⟨⟨v, found⟩, w2⟩
    rw [hbg] at hhit hr g1 g2 g3
    simp only at hhit hr g1 g2 g3
    rw [e2] at g1 hhit
    rw [e1] at g2
    rw [hw1lim] at g3
    have hb1 : b1.2.isSome = found := hhit.symm
    have hb2 : b2 = (match (codeTok ⟨ex, ad, ar, gp, ecf, ecl, pj, iu, ci, gj, tp, vs⟩).jti (String.ofList tok) with
        | some j => Cache.get F.se b1.1 now j | none => (b1.1, none)) := rfl
    rw [hjti] at hb2
    clear hjti
    cases found
    · simp only [Bool.false_eq_true, if_false] at hr
      rcases hec : ecl tok with ⟨claims, eerr⟩
      rw [hec] at hr hb2
      dsimp only at hr hb2
      cases eerr with
      | some m =>
        simp only [Option.isNone_some, Bool.false_eq_true, if_false] at hr hb2
        rw [hr, hb2]
        simp [ha2, hb1, g1, g2, g3] <;> rfl
      | none =>
        simp only [Option.isNone_none, if_true] at hr hb2
        rcases hj : Go.asStr (Go.mapGet claims ['j','t','i']) with ⟨j, jok⟩
        rw [hj] at hr hb2
        dsimp only at hr hb2
        cases jok
        · simp only [Bool.false_and, Bool.false_eq_true, if_false] at hr hb2
          rw [hr, hb2]
          simp [ha2, hb1, g1, g2, g3] <;> rfl
        · by_cases hje : j = []
          · subst hje
            simp only [bne_self_eq_false, Bool.and_false, Bool.false_eq_true, if_false] at hr hb2
            rw [hr, hb2]
            simp [ha2, hb1, g1, g2, g3] <;> rfl
          · have hne : (j != ([] : Go.Str)) = true := by simpa using hje
            simp only [hne, Bool.and_self, if_true] at hr hb2
            have k0 := f0 w2 j
            have k1 := f1 w2 j
            have k2 := f2 w2 j
            have k3 := f3 w2 j
            rcases hbj : blg w2 now j with ⟨⟨v', found'⟩, w3⟩
            rw [hbj] at hr k0 k1 k2 k3
            simp only at hr k0 k1 k2 k3
            rw [g1] at k0 k1
            rw [g2] at k2
            rw [g3] at k3
            cases found'
            · simp only [Bool.false_eq_true, if_false] at hr
              rw [hr, hb2]
              simp [ha2, hb1, k1, k2, k3]
              refine ⟨rfl, ?_⟩
              have k0' : (Cache.get F.se b1.fst now (String.ofList j)).snd.isSome = false := k0.symm
              cases h : (Cache.get F.se b1.fst now (String.ofList j)).snd <;> simp [h] at k0' ⊢
            · simp only [if_true] at hr
              rw [hr, hb2]
              simp [ha2, hb1, k1, k2, k3]
              exact ⟨rfl, k0.symm⟩
    · simp only [if_true] at hr
      rw [hr]
      simp [ha2, hb1, g1, g2, g3]
      rfl

/-! ## `VerifyToken` -/
theorem default_is_24h : Code.defaultBlacklistDuration = 24 * Go.Hour := by decide

theorem VerifyToken_refines {σ : Type} (ops : Go.VOps σ) (abs : σ → V) (F : Facts) (S : OpsSpec ops abs F)
    (now : Int) (t : Go.Inst) (tok : Go.Str) (w : σ)
    (hF : F.blTTL = Code.defaultBlacklistDuration)
    (hAgree : (t.parseJWT tok).2 = none → t.extractClaims tok = ((t.parseJWT tok).1.Claims, none))
    (hne : (ops.tokenCacheGet w now tok).1.2 = true → (ops.tokenCacheGet w now tok).1.1 ≠ []) :
    let r := Code.TraefikOidc_VerifyToken ops now t tok w
    let m := verify F (codeTok t) (abs w) now (String.ofList tok)
    abs r.2 = m.1 ∧ r.1.isNone = m.2 := by
  intro r m
  have hr : r = Code.TraefikOidc_VerifyToken ops now t tok w := rfl
  have hm : m = verifyWith F (codeTok t) (abs w) now (String.ofList tok) (Limiter.allow F.r F.b (abs w).lim now) := rfl
  unfold Code.TraefikOidc_VerifyToken at hr
  unfold verifyWith at hm
  have hpre := fun w1 => pre_refines ops abs F S now t tok w1
  have hcv : ∀ w2 claims, Code.TraefikOidc_cacheVerifiedToken ops now t tok claims w2 =
      ops.tokenCacheSet w2 now tok claims (Go.timeSub (Go.timeUnix (Go.int64 (Go.assertF64 (Go.mapGet claims ['e','x','p']))) 0) now) := by
    intro w2 claims; rfl
  have hscr : (codeTok t).scratch (String.ofList tok) now = ((t.parseJWT tok).2.isNone &&
      (Code.TraefikOidc_VerifyJWTSignatureAndClaims now t (t.parseJWT tok).1 tok).isNone) := by simp [codeTok]
  have hjti : (codeTok t).jti (String.ofList tok) = codeJti t tok := by simp [codeTok]
  have hexp : (codeTok t).exp (String.ofList tok) = (Go.asF64 (Go.mapGet (t.extractClaims tok).1 ['e','x','p'])).1.trunc * 1000000000 := by
    simp [codeTok]
  unfold codeJti at hjti
  -- the facts about the operations, as plain functions
  have c0 := fun w k => S.tcGet_hit w now k
  have c1 := fun w k => S.tcGet_tc w now k
  have c2 := fun w k => S.tcGet_bl w now k
  have c3 := fun w k => S.tcGet_lim w now k
  have s1 := fun w k c d => S.tcSet_tc w now k c d
  have s2 := fun w k c d => S.tcSet_bl w now k c d
  have s3 := fun w k c d => S.tcSet_lim w now k c d
  have b1' := fun w k v d => S.blSet_bl w now k v d
  have b2' := fun w k v d => S.blSet_tc w now k v d
  have b3' := fun w k v d => S.blSet_lim w now k v d
  generalize hPre : Code.TraefikOidc_performPreVerificationChecks ops now t tok = pre at hr hpre
  generalize hVer : Code.TraefikOidc_VerifyJWTSignatureAndClaims now t = ver at hr hscr
  generalize hCv : Code.TraefikOidc_cacheVerifiedToken ops now t tok = cv at hr hcv
  clear hPre hVer hCv S
  obtain ⟨tcg, tcs, tcd, blg, bls, la⟩ := ops
  obtain ⟨ex, ad, ar, gp, ecf, ecl, pj, iu, ci, gj, tp, vs⟩ := t
  simp only at hr c0 c1 c2 c3 s1 s2 s3 b1' b2' b3' hcv hscr hjti hexp hAgree hne
  -- token cache lookup
  have d0 := c0 w tok
  have d1 := c1 w tok
  have d2 := c2 w tok
  have d3 := c3 w tok
  have d4 := hne
  rcases hg : tcg w now tok with ⟨⟨claims, found⟩, w1⟩
  rw [hg] at hr d0 d1 d2 d3 d4
  simp only at hr d0 d1 d2 d3 d4
  cases found
  · -- miss
    have hmiss : (Cache.get F.se (abs w).tc now (String.ofList tok)).2.isSome = false := d0.symm
    simp only [Bool.false_and, Bool.false_eq_true, if_false] at hr
    simp only [hmiss, Bool.false_eq_true, if_false] at hm
    obtain ⟨p1, p2, p3, p4⟩ := hpre w1
    simp only [d1, d2, d3] at p1 p2 p3 p4
    rcases hp : pre w1 with ⟨perr, w2⟩
    rw [hp] at hr p1 p2 p3 p4
    simp only at hr p1 p2 p3 p4
    have hdur : Go.timeSub (Go.timeAdd now Code.defaultBlacklistDuration) now = Code.defaultBlacklistDuration := by
      show ((now + Code.defaultBlacklistDuration) - now : Int) = Code.defaultBlacklistDuration
      omega
    have himp : ∀ d : Int, (decide (d > Code.defaultBlacklistDuration) && decide (d < 24 * Go.Hour)) = false := by
      intro d; rw [default_is_24h]
      by_cases h1 : d > 24 * Go.Hour
      · have : ¬ d < 24 * Go.Hour := by omega
        simp [this]
      · simp [h1]
    simp only [himp, hdur, Bool.false_eq_true, if_false, ite_self] at hr
    generalize hA : Limiter.allow F.r F.b (abs w).lim now = A at hm p2 p3 p4
    generalize hB1 : Cache.get F.se (abs w).bl now (String.ofList tok) = B1 at hm p3 p4
    generalize hB2 : jtiCheck F (codeTok ⟨ex, ad, ar, gp, ecf, ecl, pj, iu, ci, gj, tp, vs⟩) B1.1 now (String.ofList tok) = B2 at hm p3 p4
    cases hperr : perr with
    | some e =>
      -- refused by the limiter, or on the revocation list (raw or jti)
      simp only [hperr, Option.isSome_some, if_true, Option.isNone_some] at hr p4
      rw [hr]
      cases hA2 : A.2
      · simp only [hA2, Bool.not_false, if_true] at hm p3
        rw [hm]
        exact ⟨V_eq p1 p3 p2, rfl⟩
      · simp only [hA2, Bool.not_true, Bool.false_eq_true, if_false, Bool.true_and] at hm p3 p4
        cases hb1 : B1.2.isSome
        · simp only [hb1, Bool.false_eq_true, if_false, Bool.not_false, Bool.true_and] at hm p3 p4
          have hb2 : B2.2.isSome = true := by
            cases h : B2.2.isSome <;> simp [h] at p4 ⊢
          simp only [hb2, if_true] at hm
          rw [hm]
          exact ⟨V_eq p1 p3 p2, rfl⟩
        · simp only [hb1, if_true] at hm p3
          rw [hm]
          exact ⟨V_eq p1 p3 p2, rfl⟩
    | none =>
      simp only [hperr, Option.isSome_none, Bool.false_eq_true, if_false, Option.isNone_none] at hr p4
      have hA2 : A.2 = true := by
        cases h : A.2 <;> simp [h] at p4 ⊢
      have hb1 : B1.2.isSome = false := by
        cases h : B1.2.isSome <;> simp [h, hA2] at p4 ⊢
      have hb2 : B2.2.isSome = false := by
        cases h : B2.2.isSome <;> simp [h, hA2, hb1] at p4 ⊢
      simp only [hA2, hb1, hb2, Bool.not_true, Bool.false_eq_true, if_false] at hm p3
      rw [hscr] at hm
      unfold jtiList at hm
      rw [hjti, hexp] at hm
      cases hpe : (pj tok).2 with
      | some e =>
        simp only [hpe, Option.isSome_some, if_true, Option.isNone_some, Bool.false_and, Bool.not_false] at hr hm
        rw [hr, hm]
        exact ⟨V_eq p1 p3 p2, rfl⟩
      | none =>
        have hag := hAgree hpe
        simp only [hpe, Option.isSome_none, Bool.false_eq_true, if_false, Option.isNone_none, Bool.true_and] at hr hm
        cases hv : ver (pj tok).1 tok with
        | some e =>
          simp only [hv, Option.isSome_some, if_true, Option.isNone_some, Bool.not_false] at hr hm
          rw [hr, hm]
          exact ⟨V_eq p1 p3 p2, rfl⟩
        | none =>
          simp only [hv, Option.isSome_none, Bool.false_eq_true, if_false, Option.isNone_none, Bool.not_true, hag] at hr hm
          have q1 := s1 w2 tok (pj tok).1.Claims (Go.timeSub (Go.timeUnix (Go.int64 (Go.assertF64 (Go.mapGet (pj tok).1.Claims ['e','x','p']))) 0) now)
          have q2 := s2 w2 tok (pj tok).1.Claims (Go.timeSub (Go.timeUnix (Go.int64 (Go.assertF64 (Go.mapGet (pj tok).1.Claims ['e','x','p']))) 0) now)
          have q3 := s3 w2 tok (pj tok).1.Claims (Go.timeSub (Go.timeUnix (Go.int64 (Go.assertF64 (Go.mapGet (pj tok).1.Claims ['e','x','p']))) 0) now)
          rw [← hcv] at q1 q2 q3
          rw [p1] at q1
          rw [p3] at q2
          rw [p2] at q3
          have hd : Go.timeSub (Go.timeUnix (Go.int64 (Go.assertF64 (Go.mapGet (pj tok).1.Claims ['e','x','p']))) 0) now =
              (Go.asF64 (Go.mapGet (pj tok).1.Claims ['e','x','p'])).1.trunc * 1000000000 - now := by
            show (((Go.asF64 (Go.mapGet (pj tok).1.Claims ['e','x','p'])).1.trunc * 1000000000 + 0) - now : Int) = _
            omega
          rw [hd] at q1
          by_cases hj : ((Go.asStr (Go.mapGet (pj tok).1.Claims ['j','t','i'])).2 &&
              (Go.asStr (Go.mapGet (pj tok).1.Claims ['j','t','i'])).1 != []) = true
          · simp only [hj, if_true] at hr hm
            rw [hr, hm]
            refine ⟨V_eq ?_ ?_ ?_, rfl⟩
            · simp only []; rw [b2']; exact q1
            · simp only []; rw [b1', q2, hF]
            · simp only []; rw [b3']; exact q3
          · simp only [hj, Bool.false_eq_true, if_false] at hr hm
            rw [hr, hm]
            exact ⟨V_eq q1 q2 q3, rfl⟩
  · -- hit
    have hne : claims ≠ [] := d4 rfl
    have hlen : decide ((claims.length : Int) > 0) = true := by
      cases claims with
      | nil => exact absurd rfl hne
      | cons a l => simp
    simp only [hlen, Bool.and_self, if_true] at hr
    have hhit : (Cache.get F.se (abs w).tc now (String.ofList tok)).2.isSome = true := d0.symm
    simp only [hhit, if_true] at hm
    rw [hr, hm]
    exact ⟨V_eq d1 d2 d3, rfl⟩

/-! ## `RevokeToken`: off the token cache, onto the revocation list until it can no longer be accepted -/
theorem RevokeToken_refines {σ : Type} (ops : Go.VOps σ) (abs : σ → V) (F : Facts) (S : OpsSpec ops abs F)
    (now : Int) (t : Go.Inst) (tok : Go.Str) (w : σ)
    (hF : F.blTTL = 24 * Go.Hour) (hS : F.skew = Code.ClockSkewToleranceFuture) (hR : F.revokeUntilExp = true)
    (claims : Go.Obj) (hc : t.extractClaims tok = (claims, none)) (hx : (Go.asF64 (Go.mapGet claims ['e','x','p'])).2 = true) :
    abs (Code.TraefikOidc_RevokeToken ops now t tok w) = revoke F (codeTok t) (abs w) now (String.ofList tok) := by
  have hexp : (codeTok t).exp (String.ofList tok) = (Go.asF64 (Go.mapGet claims ['e','x','p'])).1.trunc * 1000000000 := by
    simp [codeTok, hc]
  unfold revoke revTTL
  rw [hR, hexp, hF, hS]
  unfold Code.TraefikOidc_RevokeToken
  have d1 := S.tcDel_tc w tok
  have d2 := S.tcDel_bl w tok
  have d3 := S.tcDel_lim w tok
  have b1 := fun w k v d => S.blSet_bl w now k v d
  have b2 := fun w k v d => S.blSet_tc w now k v d
  have b3 := fun w k v d => S.blSet_lim w now k v d
  clear S hexp
  obtain ⟨tcg, tcs, tcd, blg, bls, la⟩ := ops
  obtain ⟨ex, ad, ar, gp, ecf, ecl, pj, iu, ci, gj, tp, vs⟩ := t
  simp only at d1 d2 d3 b1 b2 b3 hc
  simp only [hc, Option.isNone_none, if_true]
  rcases hxx : Go.asF64 (Go.mapGet claims ['e','x','p']) with ⟨x, ok⟩
  rw [hxx] at hx
  simp only at hx
  subst hx
  simp only [if_true, Go.timeAfter, Go.timeAdd, Go.timeUnix, Go.int64, Go.timeSub]
  have e0 : ((x.trunc * 1000000000 + 0 + Code.ClockSkewToleranceFuture : Int)) = x.trunc * 1000000000 + Code.ClockSkewToleranceFuture := by omega
  by_cases hlong : (now + 24 * Go.Hour : Int) < x.trunc * 1000000000 + 0 + Code.ClockSkewToleranceFuture
  · have hl' : x.trunc * 1000000000 + Code.ClockSkewToleranceFuture - now > 24 * Go.Hour := by omega
    simp only [hlong, decide_true, if_true, hl', ite_true]
    apply V_eq
    · simp only []; rw [b2]; exact d1
    · simp only []; rw [b1, d2]
      congr 1
      show ((x.trunc * 1000000000 + 0 + Code.ClockSkewToleranceFuture) - now : Int) = _
      omega
    · simp only []; rw [b3]; exact d3
  · have hl' : ¬ x.trunc * 1000000000 + Code.ClockSkewToleranceFuture - now > 24 * Go.Hour := by omega
    simp only [hlong, decide_false, Bool.false_eq_true, if_false, hl', ite_false]
    apply V_eq
    · simp only []; rw [b2]; exact d1
    · simp only []; rw [b1, d2]
      congr 1
      show ((now + 24 * Go.Hour) - now : Int) = _
      omega
    · simp only []; rw [b3]; exact d3

/-! ## a property of the state that every operation preserves is preserved by `VerifyToken` and `RevokeToken`

(`tokenCacheSet` needs to preserve it only for the claims `VerifyToken` actually stores: those of a token that parsed and passed
`VerifyJWTSignatureAndClaims`.) -/
theorem VerifyToken_preserves {σ : Type} (ops : Go.VOps σ) (P : σ → Prop) (now : Int) (t : Go.Inst) (tok : Go.Str)
    (hG : ∀ w k, P w → P (ops.tokenCacheGet w now k).2)
    (hS : ∀ w d, P w → (t.parseJWT tok).2 = none →
      Code.TraefikOidc_VerifyJWTSignatureAndClaims now t (t.parseJWT tok).1 tok = none → P (ops.tokenCacheSet w now tok (t.parseJWT tok).1.Claims d))
    (hBG : ∀ w k, P w → P (ops.blacklistGet w now k).2)
    (hBS : ∀ w k v d, P w → P (ops.blacklistSet w now k v d))
    (hL : ∀ w, P w → P (ops.limiterAllow w now).2)
    (w : σ) (hw : P w) : P (Code.TraefikOidc_VerifyToken ops now t tok w).2 := by
  have hpre : ∀ w1, P w1 → P (Code.TraefikOidc_performPreVerificationChecks ops now t tok w1).2 := by
    intro w1 h1
    unfold Code.TraefikOidc_performPreVerificationChecks
    dsimp only
    split
    · exact hL w1 h1
    · split
      · exact hBG _ _ (hL w1 h1)
      · split
        · split
          · split
            · exact hBG _ _ (hBG _ _ (hL w1 h1))
            · exact hBG _ _ (hBG _ _ (hL w1 h1))
          · exact hBG _ _ (hL w1 h1)
        · exact hBG _ _ (hL w1 h1)
  unfold Code.TraefikOidc_VerifyToken
  dsimp only
  split
  · exact hG w tok hw
  · have h2 := hpre _ (hG w tok hw)
    generalize Code.TraefikOidc_performPreVerificationChecks ops now t tok (ops.tokenCacheGet w now tok).2 = pr at h2
    split
    · exact h2
    · split
      · exact h2
      · rename_i hparse
        split
        · exact h2
        · rename_i hver
          have hp' : (t.parseJWT tok).2 = none := by
            cases h : (t.parseJWT tok).2 <;> simp [h] at hparse ⊢
          have hv' : Code.TraefikOidc_VerifyJWTSignatureAndClaims now t (t.parseJWT tok).1 tok = none := by
            cases h : Code.TraefikOidc_VerifyJWTSignatureAndClaims now t (t.parseJWT tok).1 tok <;> simp [h] at hver ⊢
          have h3 : P (Code.TraefikOidc_cacheVerifiedToken ops now t tok (t.parseJWT tok).1.Claims pr.2) :=
            hS _ _ h2 hp' hv'
          repeat' split
          all_goals first | exact h3 | exact hBS _ _ _ _ h3

theorem RevokeToken_preserves {σ : Type} (ops : Go.VOps σ) (P : σ → Prop) (now : Int) (t : Go.Inst) (tok : Go.Str)
    (hD : ∀ w k, P w → P (ops.tokenCacheDelete w k))
    (hBS : ∀ w k v d, P w → P (ops.blacklistSet w now k v d))
    (w : σ) (hw : P w) : P (Code.TraefikOidc_RevokeToken ops now t tok w) := by
  unfold Code.TraefikOidc_RevokeToken
  dsimp only
  repeat' split
  all_goals exact hBS _ _ _ _ (hD _ _ hw)

end Oidc.CodeRefine
