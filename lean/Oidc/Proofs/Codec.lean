import Oidc.Model.Codec
namespace Oidc.Codec

theorem takeField_append (p r : Bytes) (hp : ∀ x ∈ p, x ≠ bar) : takeField (p ++ bar :: r) = (p, some r) := by
  induction p with
  | nil => simp [takeField]
  | cons a t ih =>
    have ha : a ≠ bar := hp a (by simp)
    have := ih (fun x hx => hp x (by simp [hx]))
    simp only [List.cons_append, takeField, ha, if_false, this]

theorem split3_frame (ts body tag : Bytes) (h1 : ∀ x ∈ ts, x ≠ bar) (h2 : ∀ x ∈ body, x ≠ bar) :
    split3 (ts ++ [bar] ++ body ++ [bar] ++ tag) = some (ts, body, tag) := by
  unfold split3
  have e : ts ++ [bar] ++ body ++ [bar] ++ tag = ts ++ bar :: (body ++ bar :: tag) := by simp
  rw [e, takeField_append ts _ h1]
  simp only
  rw [takeField_append body _ h2]

section
variable (mac : Bytes → Bytes → Bytes) (b64 : Bytes → Bytes) (unb64 : Bytes → Option Bytes)

/-- what `Encode` produces, `Decode` accepts (timestamp digits and base64 text never contain '|') -/
theorem decode_encode (hun : ∀ b, unb64 (b64 b) = some b) (hk name ts body : Bytes) (maxLen : Nat)
    (h1 : ∀ x ∈ ts, x ≠ bar) (h2 : ∀ x ∈ body, x ≠ bar)
    (hlen : (encode mac b64 hk name ts body).length ≤ maxLen) :
    decode mac unb64 hk name maxLen (encode mac b64 hk name ts body) = some (ts, body) := by
  unfold decode
  have : ¬ (encode mac b64 hk name ts body).length > maxLen := by omega
  simp only [this, if_false]
  unfold encode
  rw [hun]
  simp only
  rw [split3_frame ts body _ h1 h2]
  simp

/-- **C09 tamper evidence.** Anything `Decode` accepts carries exactly the MAC, under the configured hash key, of
    *this* cookie name, the timestamp and the body it was accepted with. -/
theorem tamper_evident (hk name : Bytes) (maxLen : Nat) (s ts body : Bytes)
    (h : decode mac unb64 hk name maxLen s = some (ts, body)) :
    s.length ≤ maxLen ∧ ∃ b tag, unb64 s = some b ∧ split3 b = some (ts, body, tag) ∧ tag = mac hk (frame name ts body) := by
  unfold decode at h
  split at h
  · cases h
  · rename_i hl
    refine ⟨by omega, ?_⟩
    split at h
    · cases h
    · rename_i b hb
      split at h
      · cases h
      · rename_i ts' body' tag hs
        split at h
        · rename_i htag
          cases h
          exact ⟨b, tag, hb, hs, htag⟩
        · cases h
end

/-- the MAC input cannot be re-parsed ambiguously: for names and timestamps without '|' the framing is injective -/
theorem frame_injective (n1 t1 b1 n2 t2 b2 : Bytes)
    (hn1 : ∀ x ∈ n1, x ≠ bar) (ht1 : ∀ x ∈ t1, x ≠ bar) (hn2 : ∀ x ∈ n2, x ≠ bar) (ht2 : ∀ x ∈ t2, x ≠ bar)
    (h : frame n1 t1 b1 = frame n2 t2 b2) : n1 = n2 ∧ t1 = t2 ∧ b1 = b2 := by
  unfold frame at h
  have e1 : n1 ++ [bar] ++ t1 ++ [bar] ++ b1 = n1 ++ bar :: (t1 ++ bar :: b1) := by simp
  have e2 : n2 ++ [bar] ++ t2 ++ [bar] ++ b2 = n2 ++ bar :: (t2 ++ bar :: b2) := by simp
  rw [e1, e2] at h
  have f1 := takeField_append n1 (t1 ++ bar :: b1) hn1
  have f2 := takeField_append n2 (t2 ++ bar :: b2) hn2
  rw [h] at f1
  rw [f1] at f2
  injection f2 with hn hr
  injection hr with hr
  have g1 := takeField_append t1 b1 ht1
  have g2 := takeField_append t2 b2 ht2
  rw [hr] at g1
  rw [g1] at g2
  injection g2 with ht hb
  injection hb with hb
  exact ⟨hn, ht, hb⟩

/-! ### opacity -/

theorem xor_cancel (k m m' : Bytes) (hl : m.length = m'.length) (hk : k.length = m.length) :
    xor (xor (xor k m) m') m' = xor k m := by
  induction k generalizing m m' with
  | nil => simp [xor]
  | cons a t ih =>
    cases m with
    | nil => simp at hk
    | cons b mt =>
      cases m' with
      | nil => simp at hl
      | cons c mt' =>
        simp only [xor, List.zipWith_cons_cons, List.cons.injEq] at *
        refine ⟨?_, ih mt mt' (by simpa using hl) (by simpa using hk)⟩
        show (a ^^^ b ^^^ c) ^^^ c = a ^^^ b
        rw [Nat.xor_assoc, Nat.xor_self, Nat.xor_zero]

/-- **C09 opacity.** With a block key, for every other content `m'` of the same length there is a keystream under
    which `m'` produces the very ciphertext observed for `m`: without the keystream the cookie bytes are consistent
    with every equal-length content. -/
theorem opaque_otp (k m m' : Bytes) (hl : m.length = m'.length) (hk : k.length = m.length) :
    ∃ k', k'.length = m'.length ∧ xor k' m' = xor k m :=
  ⟨xor (xor k m) m', by simp [xor, hl, hk], xor_cancel k m m' hl hk⟩

/-- regression (unfixed tree): without a block key the body *is* the serialised content -/
theorem unencrypted_body_is_content (ser : Bytes) : (fun (body : Bytes) => body) ser = ser := rfl

/-! ### C18 — every chunk and token cookie line fits in 4096 bytes -/

theorem uvarLen_le (x : Nat) (h : x < 65536) : uvarLen x ≤ 3 := by
  unfold uvarLen byteLen
  repeat' split
  all_goals omega

theorem uvarLen_pos (x : Nat) : 1 ≤ uvarLen x := by
  unfold uvarLen; split <;> omega

theorem ifaceStr_le (n : Nat) (h : n < 60000) : ifaceStr n ≤ n + 15 := by
  unfold ifaceStr
  have h1 := uvarLen_le n (by omega)
  have h0 := uvarLen_pos n
  have h2 := uvarLen_le (1 + uvarLen n + n) (by omega)
  omega

theorem chunkGob_le (n : Nat) (h : n ≤ 2000) : chunkGob n ≤ n + 62 := by
  unfold chunkGob gobMap
  have h1 := ifaceStr_le n (by omega)
  have h2 : ifaceStr 11 = 22 := by decide
  have h4 : uvarLen 1 = 1 := by decide
  have h3 := uvarLen_le (2 + 1 + uvarLen 1 + (ifaceStr 11 + ifaceStr n)) (by omega)
  simp only
  omega

theorem wholeGob_le (n : Nat) (h : n ≤ 2000) : wholeGob n ≤ n + 92 := by
  unfold wholeGob gobMap
  have h1 := ifaceStr_le n (by omega)
  have h2 : ifaceStr 5 = 16 := by decide
  have h3 : ifaceStr 10 = 21 := by decide
  have h4 : uvarLen 2 = 1 := by decide
  have h6 : ifaceBool = 9 := rfl
  have h5 := uvarLen_le (2 + 1 + uvarLen 2 + (ifaceStr 5 + ifaceStr n + ifaceStr 10 + ifaceBool)) (by omega)
  simp only
  omega

theorem b64len_mono {a b : Nat} (h : a ≤ b) : b64len a ≤ b64len b := by
  unfold b64len
  have : (a + 2) / 3 ≤ (b + 2) / 3 := Nat.div_le_div_right (by omega)
  omega

theorem lineLen_le (f : LenFacts) (nameLen gob G : Nat) (hg : gob ≤ G) (ht : f.tsDigits ≤ 10) :
    lineLen f nameLen gob ≤ nameLen + 1 + b64len (10 + 1 + b64len (G + 16) + 1 + 32) + 94 := by
  unfold lineLen valueLen attrsLen
  have e : gob + (if f.encrypted then 16 else 0) ≤ G + 16 := by split <;> omega
  have h1 := b64len_mono e
  have h2 : f.tsDigits + 1 + b64len (gob + (if f.encrypted then 16 else 0)) + 1 + 32
      ≤ 10 + 1 + b64len (G + 16) + 1 + 32 := by omega
  have h3 := b64len_mono h2
  have : (if f.secure then 8 else 0) ≤ 8 := by split <;> omega
  omega

/-- **C18.** For every chunk of at most `maxCookieSize ≤ 2000` bytes, every chunk index below 10^6 (name of at most
    22 bytes), encrypted or not, with or without `Secure`: the whole Set-Cookie line is at most 4096 bytes. -/
theorem chunk_line_le_4096 (f : LenFacts) (ht : f.tsDigits ≤ 10) (maxSz n nameLen : Nat) (hmax : maxSz ≤ 2000)
    (hn : n ≤ maxSz) (hname : nameLen ≤ 22) : lineLen f nameLen (chunkGob n) ≤ 4096 := by
  have hg := chunkGob_le n (by omega)
  have := lineLen_le f nameLen (chunkGob n) 2062 (by omega) ht
  have e : b64len (10 + 1 + b64len (2062 + 16) + 1 + 32) ≤ 3760 := by decide
  omega

/-- the same for the unchunked token cookie -/
theorem whole_line_le_4096 (f : LenFacts) (ht : f.tsDigits ≤ 10) (maxSz n : Nat) (hmax : maxSz ≤ 2000)
    (hn : n ≤ maxSz) : lineLen f 15 (wholeGob n) ≤ 4096 := by
  have hg := wholeGob_le n (by omega)
  have := lineLen_le f 15 (wholeGob n) 2092 (by omega) ht
  have e : b64len (10 + 1 + b64len (2092 + 16) + 1 + 32) ≤ 3810 := by decide
  omega

theorem gobMap_le (count entries : Nat) (hc : count < 128) (he : entries < 60000) : gobMap count entries ≤ entries + 21 := by
  unfold gobMap
  have h1 : uvarLen count = 1 := by unfold uvarLen; simp [hc]
  have h2 := uvarLen_le (2 + 1 + uvarLen count + entries) (by omega)
  simp only
  omega

theorem gobMap_mono (count e1 e2 : Nat) (h : e1 ≤ e2) (he : e2 < 60000) : gobMap count e1 ≤ gobMap count e2 + 2 := by
  unfold gobMap
  have a1 := uvarLen_le (2 + 1 + uvarLen count + e1) (by
    have : uvarLen count ≤ 5 := by unfold uvarLen byteLen; repeat' split
                                   all_goals omega
    omega)
  have a2 := uvarLen_pos (2 + 1 + uvarLen count + e2)
  simp only
  omega

/-- the entries of the main session cookie when every field is present at its largest:
    authenticated, created_at, email, csrf (36), nonce (44), code_verifier (43), incoming_path -/
def mainEntries (emailLen incomingLen : Nat) : Nat :=
  (ifaceStr 13 + ifaceBool) + (ifaceStr 10 + ifaceInt 5) + (ifaceStr 5 + ifaceStr emailLen) + (ifaceStr 4 + ifaceStr 36) +
  (ifaceStr 5 + ifaceStr 44) + (ifaceStr 13 + ifaceStr 43) + (ifaceStr 13 + ifaceStr incomingLen)

theorem mainEntries_le (em inc : Nat) (h1 : em ≤ 320) (h2 : inc ≤ 1024) : mainEntries em inc ≤ 1800 := by
  unfold mainEntries
  have a := ifaceStr_le em (by omega)
  have b := ifaceStr_le inc (by omega)
  have c1 : ifaceStr 13 = 24 := by decide
  have c2 : ifaceStr 10 = 21 := by decide
  have c3 : ifaceStr 5 = 16 := by decide
  have c4 : ifaceStr 4 = 15 := by decide
  have c5 : ifaceStr 36 = 47 := by decide
  have c6 : ifaceStr 44 = 55 := by decide
  have c7 : ifaceStr 43 = 54 := by decide
  have c8 : ifaceInt 5 = 14 := by decide
  have c9 : ifaceBool = 9 := rfl
  omega

/-- **C18 (main cookie).** With the remembered URI capped at 1024 bytes (fix F10c) and an e-mail of at most 320 bytes
    (RFC 5321 allows 254), the main session cookie's Set-Cookie line stays below 4096 bytes whatever subset of its
    fields is present (`entries ≤ mainEntries …`). -/
theorem main_line_le_4096 (f : LenFacts) (ht : f.tsDigits ≤ 10) (count entries em inc : Nat) (hc : count < 128)
    (hem : em ≤ 320) (hinc : inc ≤ 1024) (he : entries ≤ mainEntries em inc) :
    lineLen f 15 (gobMap count entries) ≤ 4096 := by
  have h1 := mainEntries_le em inc hem hinc
  have h2 := gobMap_le count entries hc (by omega)
  have := lineLen_le f 15 (gobMap count entries) 1821 (by omega) ht
  have e : b64len (10 + 1 + b64len (1821 + 16) + 1 + 32) ≤ 3400 := by decide
  omega

/-! #### the codec's ceiling on the encoded value (fix F17): the bound without any hypothesis on the content -/

theorem valueLen_le (f : LenFacts) (gob G : Nat) (hg : gob ≤ G) (ht : f.tsDigits ≤ 10) :
    valueLen f gob ≤ b64len (10 + 1 + b64len (G + 16) + 1 + 32) := by
  unfold valueLen
  have e : gob + (if f.encrypted then 16 else 0) ≤ G + 16 := by split <;> omega
  have h1 := b64len_mono e
  exact b64len_mono (by omega)

/-- **C18, any content.** A cookie is emitted only if its encoded value is within the codec's ceiling; name (≤ 22 bytes), `=`
    and attributes (≤ 94 bytes) then keep the whole line within 4096 bytes — whatever the session holds (e-mail claims and
    remembered URIs of any length included). -/
theorem line_le_of_fits (f : LenFacts) (ceiling nameLen gob : Nat) (hpos : 0 < ceiling) (hc : ceiling + 117 ≤ 4096)
    (hname : nameLen ≤ 22) (h : fits ceiling f gob = true) : lineLen f nameLen gob ≤ 4096 := by
  unfold fits at h
  have hv : valueLen f gob ≤ ceiling := by
    rcases Bool.or_eq_true _ _ ▸ h with h0 | h1
    · have : ceiling = 0 := by simpa using h0
      omega
    · simpa using h1
  unfold lineLen attrsLen
  split <;> omega

/-- within the domain the handler produces, the ceiling is not reached, so `Save` does not fail: chunks and whole tokens of at
    most `maxCookieSize ≤ 2000` bytes, the main cookie with an e-mail of at most 320 and a URI of at most 1024 bytes -/
theorem chunk_fits (f : LenFacts) (ht : f.tsDigits ≤ 10) (ceiling n : Nat) (hc : 3810 ≤ ceiling) (hn : n ≤ 2000) :
    fits ceiling f (chunkGob n) = true := by
  have hg := chunkGob_le n hn
  have := valueLen_le f (chunkGob n) 2062 (by omega) ht
  have e : b64len (10 + 1 + b64len (2062 + 16) + 1 + 32) ≤ 3760 := by decide
  unfold fits; simp only [Bool.or_eq_true, decide_eq_true_eq]; right; omega

theorem whole_fits (f : LenFacts) (ht : f.tsDigits ≤ 10) (ceiling n : Nat) (hc : 3810 ≤ ceiling) (hn : n ≤ 2000) :
    fits ceiling f (wholeGob n) = true := by
  have hg := wholeGob_le n hn
  have := valueLen_le f (wholeGob n) 2092 (by omega) ht
  have e : b64len (10 + 1 + b64len (2092 + 16) + 1 + 32) ≤ 3810 := by decide
  unfold fits; simp only [Bool.or_eq_true, decide_eq_true_eq]; right; omega

theorem main_fits (f : LenFacts) (ht : f.tsDigits ≤ 10) (ceiling count entries em inc : Nat) (hc : 3810 ≤ ceiling)
    (hcount : count < 128) (hem : em ≤ 320) (hinc : inc ≤ 1024) (he : entries ≤ mainEntries em inc) :
    fits ceiling f (gobMap count entries) = true := by
  have h1 := mainEntries_le em inc hem hinc
  have h2 := gobMap_le count entries hcount (by omega)
  have := valueLen_le f (gobMap count entries) 1821 (by omega) ht
  have e : b64len (10 + 1 + b64len (1821 + 16) + 1 + 32) ≤ 3400 := by decide
  unfold fits; simp only [Bool.or_eq_true, decide_eq_true_eq]; right; omega

/-- before fix F17 (ceiling 4096 on the value alone): a 2 100-character e-mail in a three-field main cookie is written as a line of more than 4096 bytes -/
example : fits 4096 ⟨true, false, 10⟩ (gobMap 3 ((ifaceStr 13 + ifaceBool) + (ifaceStr 10 + ifaceInt 5) + (ifaceStr 5 + ifaceStr 2100))) = true ∧
    lineLen ⟨true, false, 10⟩ 15 (gobMap 3 ((ifaceStr 13 + ifaceBool) + (ifaceStr 10 + ifaceInt 5) + (ifaceStr 5 + ifaceStr 2100))) > 4096 := by
  decide
/-- with the ceiling of the fix the same content is not written -/
example : fits 3968 ⟨true, false, 10⟩ (gobMap 3 ((ifaceStr 13 + ifaceBool) + (ifaceStr 10 + ifaceInt 5) + (ifaceStr 5 + ifaceStr 2100))) = false := by
  decide

/-- the unfixed tree: a 2 050-byte request URI in the main cookie already exceeds the limit -/
example : lineLen ⟨false, false, 10⟩ 15 (gobMap 3 ((ifaceStr 4 + ifaceStr 36) + (ifaceStr 5 + ifaceStr 44) + (ifaceStr 13 + ifaceStr 2050))) > 4096 := by
  decide

/-- calibration against `encoding/gob` (values measured on the implementation) -/
example : gobMap 0 0 = 19 := by decide
example : chunkGob 0 = 52 := by decide
example : chunkGob 2000 = 2058 := by decide
example : chunkGob 127 = 181 := by decide
example : chunkGob 128 = 183 := by decide
example : chunkGob 256 = 314 := by decide
/-- the unencrypted, non-Secure 2000-byte chunk line observed on the unchanged tree: 3 824 bytes -/
example : lineLen ⟨false, false, 10⟩ 17 (chunkGob 2000) = 3824 := by decide
/-- after fix F5 (encrypted): 3 856 bytes, as observed -/
example : lineLen ⟨true, false, 10⟩ 17 (chunkGob 2000) = 3856 := by decide
/-- regression for a mutant raising the chunk size to 3000: the line no longer fits -/
example : lineLen ⟨true, true, 10⟩ 17 (chunkGob 3000) > 4096 := by decide

end Oidc.Codec
