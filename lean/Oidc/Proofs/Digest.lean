import Oidc.Model.Handler
/-! `isInfix` is `strings.Contains`, `hdrGet` is `http.Header.Get` on the list of client headers. -/
namespace Oidc.Handler
open Oidc

theorem isPrefixOf_iff (p s : Str) : p.isPrefixOf s = true ↔ ∃ b, s = p ++ b := by
  constructor
  · intro h
    exact ⟨s.drop p.length, (List.prefix_iff_eq_append.mp (List.isPrefixOf_iff_prefix.mp h)).symm⟩
  · rintro ⟨b, rfl⟩
    exact List.isPrefixOf_iff_prefix.mpr (List.prefix_append p b)

/-- `isInfix p s` holds exactly when `p` occurs in `s` -/
theorem isInfix_iff (p s : Str) : isInfix p s = true ↔ ∃ a b, s = a ++ p ++ b := by
  induction s with
  | nil =>
    unfold isInfix
    constructor
    · intro h
      have : p = [] := by simpa using h
      exact ⟨[], [], by simp [this]⟩
    · rintro ⟨a, b, h⟩
      have : p = [] := by
        have := congrArg List.length h
        simp at this
        exact List.length_eq_zero_iff.mp (by omega)
      simp [this]
  | cons c t ih =>
    unfold isInfix
    rw [Bool.or_eq_true, ih, isPrefixOf_iff]
    constructor
    · rintro (⟨b, h⟩ | ⟨a, b, h⟩)
      · exact ⟨[], b, by simpa using h⟩
      · exact ⟨c :: a, b, by simp [h]⟩
    · rintro ⟨a, b, h⟩
      cases a with
      | nil => exact .inl ⟨b, by simpa using h⟩
      | cons x a' =>
        simp only [List.cons_append, List.cons.injEq] at h
        exact .inr ⟨a', b, by rw [h.2]⟩

/-- a request that sends no `Accept` header (or one that does not mention it) is not a JSON client -/
theorem not_json_without_accept (q : RawReq) (h : hdrGet q.hdrs "Accept".toList = []) : (digest q).json = false := by
  show isInfix "application/json".toList (hdrGet q.hdrs "Accept".toList) = false
  rw [h]; rfl

end Oidc.Handler
