import Oidc.Model.Discovery
namespace Oidc.Discovery

theorem backoff_le (f : Facts) (i : Nat) : backoff f i ≤ f.maxDelay := by
  unfold backoff; split <;> omega

theorem backoff_nonneg (f : Facts) (i : Nat) (hb : 0 ≤ f.baseDelay) (hm : 0 ≤ f.maxDelay) : 0 ≤ backoff f i := by
  unfold backoff
  split
  · exact hm
  · exact Int.mul_nonneg hb (Int.natCast_nonneg _)

def failDur {Doc} : Outcome Doc → Int
  | .fail d => d
  | .ok _ d => d

def allFail {Doc} : List (Outcome Doc) → Prop
  | [] => True
  | .fail d :: t => 0 ≤ d ∧ allFail t
  | .ok _ _ :: _ => False

/-- a list of failed attempts (durations unconstrained) -/
def allFail' {Doc} : List (Outcome Doc) → Prop
  | [] => True
  | .fail _ :: t => True ∧ allFail' t
  | .ok _ _ :: _ => False

def totalDur {Doc} : List (Outcome Doc) → Int
  | [] => 0
  | o :: t => failDur o + totalDur t

/-- **C20 (healing).** Whatever finite sequence of failed attempts precedes it — of any length, of any kinds — the
    first healthy answer initialises the instance with that document, and it does so no later than the durations of
    the failed attempts plus `maxDelay + retryInterval` per failure. -/
theorem heals {Doc : Type} (f : Facts) (hl : f.loops = true) (hb : 0 ≤ f.baseDelay) (hm : 0 ≤ f.maxDelay)
    (hr : 0 ≤ f.retryInterval) (fs : List (Outcome Doc)) (hf : allFail fs) (d : Doc) (dur : Int) (t : Int) (i : Nat) :
    (initRun f (fs ++ [.ok d dur]) t i).2 = some d ∧
    (initRun f (fs ++ [.ok d dur]) t i).1 ≤ t + totalDur fs + (fs.length : Int) * (f.maxDelay + f.retryInterval) + dur ∧
    t + dur ≤ (initRun f (fs ++ [.ok d dur]) t i).1 := by
  induction fs generalizing t i with
  | nil => simp [initRun, totalDur]
  | cons o rest ih =>
    cases o with
    | ok d' dur' => exact absurd hf (by simp [allFail])
    | fail du =>
      obtain ⟨hdu, hrest⟩ := hf
      have hbo := backoff_le f i
      have hbn := backoff_nonneg f i hb hm
      simp only [List.cons_append, initRun, hl, if_true]
      have e : ((rest.length + 1 : Nat) : Int) * (f.maxDelay + f.retryInterval)
          = (rest.length : Int) * (f.maxDelay + f.retryInterval) + (f.maxDelay + f.retryInterval) := by
        rw [Int.natCast_add, Int.add_mul]; simp
      split
      · have := ih hrest (t + du + backoff f i) (i + 1)
        refine ⟨this.1, ?_, ?_⟩
        · simp only [totalDur, failDur, List.length_cons]
          rw [e]; omega
        · omega
      · have := ih hrest (t + du + backoff f i + f.retryInterval) 0
        refine ⟨this.1, ?_, ?_⟩
        · simp only [totalDur, failDur, List.length_cons]
          rw [e]; omega
        · omega

/-- regression (unfixed tree): with a single `GetMetadata` call, `maxRetries` consecutive failures end the
    initialisation for good, whatever the provider answers afterwards -/
theorem unfixed_gives_up {Doc : Type} (f : Facts) (hl : f.loops = false) (fs tail : List (Outcome Doc))
    (hf : allFail fs) (i : Nat) (hlen : f.maxRetries ≤ i + fs.length) (hpos : fs ≠ []) (t : Int) :
    (initRun f (fs ++ tail) t i).2 = none := by
  induction fs generalizing t i with
  | nil => exact absurd rfl hpos
  | cons o rest ih =>
    cases o with
    | ok d' dur' => exact absurd hf (by simp [allFail])
    | fail du =>
      simp only [List.cons_append, initRun, hl]
      split
      · rename_i hlt
        have hne : rest ≠ [] := by
          intro h0; subst h0; simp at hlen; omega
        exact ih hf.2 (i + 1) (by simp at hlen ⊢; omega) hne _
      · simp

theorem giveUpAnswer_ne_serve (d : Int) (g : Option Int) : giveUpAnswer d g ≠ .serve := by
  unfold giveUpAnswer
  cases g with
  | none => simp
  | some x => simp only; split <;> simp

/-- **C20 (fail closed).** Until a discovery has succeeded no request is served: the answer is 503, or 408 if the
    client gave up first. -/
theorem fail_closed (f : Facts) (issuerEmpty : Bool) (reqAt : Int) (g : Option Int) :
    early f none issuerEmpty reqAt g ≠ .serve := giveUpAnswer_ne_serve _ _

/-- a request is not served if initialisation completes only after its waiting time -/
theorem not_served_before_init (f : Facts) (hw : 0 ≤ f.initWait) (t : Int) (issuerEmpty : Bool) (reqAt : Int)
    (g : Option Int) (h : reqAt + f.initWait < t) : early f (some t) issuerEmpty reqAt g ≠ .serve := by
  unfold early
  have h1 : decide (t ≤ reqAt) = false := by simp; omega
  have h2 : decide (t ≤ reqAt + f.initWait) = false := by simp; omega
  simp only [h1, h2, Bool.false_and, Bool.or_self, Bool.false_eq_true, if_false]
  exact giveUpAnswer_ne_serve _ _

/-- … and while the obtained document lacks an issuer -/
theorem empty_issuer_never_served (f : Facts) (initAt : Option Int) (reqAt : Int) (g : Option Int) :
    early f initAt true reqAt g ≠ .serve := by
  unfold early
  cases initAt with
  | none => exact giveUpAnswer_ne_serve _ _
  | some t =>
    simp only
    split
    · simp
    · exact giveUpAnswer_ne_serve _ _

/-- once initialised (with an issuer), every later request is served -/
theorem served_after_init (f : Facts) (t reqAt : Int) (g : Option Int) (h : t ≤ reqAt) :
    early f (some t) false reqAt g = .serve := by
  unfold early
  have : decide (t ≤ reqAt) = true := by simpa using h
  simp [this]


/-! ### hourly refresh -/

/-- a refresh round that yields a document yields the first healthy answer, found within the retry budget -/
theorem round_some {Doc : Type} (f : Facts) (script : List (Outcome Doc)) (t : Int) (i : Nat) (d : Doc)
    (h : (round f script t i).2.1 = some d) :
    ∃ pre dur post, script = pre ++ .ok d dur :: post ∧ allFail' pre ∧ (pre = [] ∨ pre.length + i < f.maxRetries) := by
  induction script generalizing t i with
  | nil => simp [round] at h
  | cons o rest ih =>
    cases o with
    | ok d' dur' =>
      simp only [round] at h
      injection h with h
      subst h
      exact ⟨[], dur', rest, rfl, trivial, Or.inl rfl⟩
    | fail du =>
      simp only [round] at h
      split at h
      · rename_i hlt
        obtain ⟨pre, dur, post, e, hp, hl⟩ := ih _ _ h
        refine ⟨.fail du :: pre, dur, post, by rw [e]; rfl, ⟨trivial, hp⟩, Or.inr ?_⟩
        rcases hl with hl | hl
        · subst hl; simp only [List.length_cons, List.length_nil]; omega
        · simp only [List.length_cons]; omega
      · simp at h

/-- **C20 (latest wins).** After a refresh tick the endpoints are those of the document the round obtained, if it ran and
    obtained one; a failed refresh, or a tick while the cached document is still valid, keeps the previous ones. -/
theorem refreshTick_doc {Doc : Type} (f : Facts) (hour fiveMin : Int) (s : RState Doc) (now : Int) (script : List (Outcome Doc)) :
    (refreshTick f hour fiveMin s now script).1.doc =
      (if now < s.expires then s.doc else match (round f script now 0).2.1 with | some d => d | none => s.doc) := by
  unfold refreshTick
  split
  · rfl
  · cases h : (round f script now 0).2.1 <;> simp [h]

/-! ### only complete documents are ever obtained -/

/-- the document the initialisation ends with is one of the script's healthy answers -/
theorem initRun_mem {Doc : Type} (f : Facts) (script : List (Outcome Doc)) (t : Int) (i : Nat) (d : Doc)
    (h : (initRun f script t i).2 = some d) : ∃ dur, Outcome.ok d dur ∈ script := by
  induction script generalizing t i with
  | nil => simp [initRun] at h
  | cons o rest ih =>
    cases o with
    | ok d' dur' =>
      simp only [initRun] at h
      injection h with h
      subst h
      exact ⟨dur', List.mem_cons_self⟩
    | fail du =>
      simp only [initRun] at h
      split at h
      · obtain ⟨dur, hm⟩ := ih _ _ h; exact ⟨dur, List.mem_cons_of_mem _ hm⟩
      · split at h
        · obtain ⟨dur, hm⟩ := ih _ _ h; exact ⟨dur, List.mem_cons_of_mem _ hm⟩
        · simp at h

theorem round_mem {Doc : Type} (f : Facts) (script : List (Outcome Doc)) (t : Int) (i : Nat) (d : Doc)
    (h : (round f script t i).2.1 = some d) : ∃ dur, Outcome.ok d dur ∈ script := by
  obtain ⟨pre, dur, post, e, _, _⟩ := round_some f script t i d h
  exact ⟨dur, by rw [e]; simp⟩

/-- a healthy outcome of a classified script comes from a 200 answer carrying every required member -/
theorem classify_ok {Doc : Type} (required : List String) (present : Doc → List String) (a : Answer Doc) (d : Doc) (dur : Int)
    (h : classify required present a = .ok d dur) : a = .json d dur ∧ ∀ m ∈ required, m ∈ present d := by
  cases a with
  | noAnswer x => simp [classify] at h
  | notMetadata x => simp [classify] at h
  | json doc du =>
    simp only [classify] at h
    split at h
    · rename_i hc
      injection h with h1 h2
      subst h1; subst h2
      refine ⟨rfl, ?_⟩
      intro m hm
      have := List.all_eq_true.mp hc m hm
      simpa using this
    · simp at h

theorem mem_classified {Doc : Type} (required : List String) (present : Doc → List String) (answers : List (Answer Doc)) (d : Doc)
    (dur : Int) (h : Outcome.ok d dur ∈ answers.map (classify required present)) : ∀ m ∈ required, m ∈ present d := by
  obtain ⟨a, _, ha⟩ := List.mem_map.mp h
  exact (classify_ok required present a d dur ha).2

/-- an incomplete answer is a failed attempt of the same duration -/
theorem classify_incomplete {Doc : Type} (required : List String) (present : Doc → List String) (d : Doc) (dur : Int) (m : String)
    (hm : m ∈ required) (hn : m ∉ present d) : classify required present (.json d dur) = .fail dur := by
  simp only [classify]
  split
  · rename_i hc
    have := List.all_eq_true.mp hc m hm
    exact absurd (by simpa using this) hn
  · rfl

/-- an answer that is not provider metadata (and takes a non-negative time) -/
def BadAnswer {Doc : Type} (required : List String) (present : Doc → List String) : Answer Doc → Prop
  | .noAnswer dur => 0 ≤ dur
  | .notMetadata dur => 0 ≤ dur
  | .json doc dur => 0 ≤ dur ∧ complete required (present doc) = false

theorem allFail_classified {Doc : Type} (required : List String) (present : Doc → List String) (bad : List (Answer Doc))
    (h : ∀ a ∈ bad, BadAnswer required present a) : allFail (bad.map (classify required present)) := by
  induction bad with
  | nil => trivial
  | cons a rest ih =>
    have ha := h a List.mem_cons_self
    have hr := ih (fun b hb => h b (List.mem_cons_of_mem _ hb))
    cases a with
    | noAnswer du => exact ⟨ha, hr⟩
    | notMetadata du => exact ⟨ha, hr⟩
    | json doc du =>
      obtain ⟨h0, hc⟩ := ha
      simp only [List.map_cons, classify, hc]
      exact ⟨h0, hr⟩

theorem totalDur_classified_length {Doc : Type} (required : List String) (present : Doc → List String) (bad : List (Answer Doc)) :
    (bad.map (classify required present)).length = bad.length := by simp

end Oidc.Discovery
