import Oidc.Model.Handler
import Oidc.Proofs.Session
import Oidc.Proofs.Strings
namespace Oidc.Handler
open Oidc Oidc.Session Oidc.Strings

def Resp.isForward : Resp → Bool
  | .forward _ => true
  | _ => false

theorem errPage_not_forward (r : Req) (code : Nat) (msg : Str) : (errPage r code msg).isForward = false := by
  unfold errPage; split <;> rfl

theorem initiate_resp (c : Cfg) (e : Env) (r : Req) (v : View) (earlier calls) :
    ∃ st no ch ru, (initiate c e r v earlier calls).resp = .redirectAuth st no ch ru := by
  unfold initiate; exact ⟨_, _, _, _, rfl⟩

theorem initiate_not_forward (c e r v earlier calls) : (initiate c e r v earlier calls).resp.isForward = false := by
  obtain ⟨_, _, _, _, h⟩ := initiate_resp c e r v earlier calls
  rw [h]; rfl

theorem initiate_calls (c e r v earlier calls) : (initiate c e r v earlier calls).calls = calls := rfl

theorem initiate_eq' (c : Cfg) (e : Env) (r : Req) (v : View) (earlier calls) :
    ∃ v3, (initiate c e r v earlier calls).saved = earlier ++ [clearView v, v3] := ⟨_, rfl⟩

/-- the role/group gate as `authorized` evaluates it -/
def roleGate (c : Cfg) (e : Env) (tokRaw : Str) : Bool :=
  if c.allowRoles.isEmpty then true
  else if (e.tok tokRaw).parses then rolesGate c.allowRoles (e.tok tokRaw).groups (e.tok tokRaw).roles else false

/-- **the only forward site**: what `processAuthorizedRequest` demands -/
theorem authorized_forward (c : Cfg) (e : Env) (r : Req) (v : View) (earlier calls) (h : List (Str × Str))
    (hf : (authorized c e r v earlier calls).resp = .forward h) :
    getEmail v ≠ [] ∧ isAllowedDomain c.allowDomains (getEmail v) = true ∧
    roleGate c e (getToken e.decompress v .access) = true ∧ r.preflight = false ∧
    h = downstreamHdrs c e r (getEmail v) (getToken e.decompress v .access) ∧
    (authorized c e r v earlier calls).calls = calls ∧ (authorized c e r v earlier calls).saved = earlier := by
  unfold authorized at hf ⊢
  by_cases h1 : getEmail v = []
  · simp only [h1, if_true] at hf
    have := initiate_not_forward c e r v earlier calls
    rw [hf] at this; cases this
  simp only [h1, if_false] at hf ⊢
  cases h2 : isAllowedDomain c.allowDomains (getEmail v) with
  | false =>
    simp only [h2, Bool.not_false, if_true] at hf
    have := errPage_not_forward r 403 "Access denied".toList
    rw [hf] at this; cases this
  | true =>
  simp only [h2, Bool.not_true, Bool.false_eq_true, if_false] at hf ⊢
  have hg : (if c.allowRoles.isEmpty = true then true
      else if (e.tok (getToken e.decompress v .access)).parses = true then
        rolesGate c.allowRoles (e.tok (getToken e.decompress v .access)).groups (e.tok (getToken e.decompress v .access)).roles
      else false) = roleGate c e (getToken e.decompress v .access) := rfl
  rw [hg] at hf ⊢
  cases h3 : roleGate c e (getToken e.decompress v .access) with
  | false =>
    simp only [h3, Bool.not_false, if_true] at hf
    have := errPage_not_forward r 403 "Access denied".toList
    rw [hf] at this; cases this
  | true =>
  simp only [h3, Bool.not_true, Bool.false_eq_true, if_false] at hf ⊢
  cases h4 : r.preflight with
  | true => simp [h4] at hf
  | false =>
    simp only [h4, Bool.false_eq_true, if_false] at hf ⊢
    injection hf with hh
    exact ⟨h1, trivial, trivial, trivial, hh.symm, trivial, trivial⟩

/-- when `isUserAuthenticated` says "authenticated", the session flag is set and fresh and the stored token
    parses and is accepted by the verifier at this instant -/
theorem classify_au (c : Cfg) (e : Env) (v : View) (h : (classify c e v).1 = true) :
    getAuth c.maxAge e.now v = true ∧ getToken e.decompress v .access ≠ [] ∧
    (e.tok (getToken e.decompress v .access)).parses = true ∧
    (e.tok (getToken e.decompress v .access)).verdict e.now = .accept := by
  unfold classify at h
  cases ha : getAuth c.maxAge e.now v with
  | false => simp [ha] at h
  | true =>
  simp only [ha, Bool.not_true, Bool.false_eq_true, if_false] at h
  by_cases ht : getToken e.decompress v .access = []
  · simp only [ht, if_true] at h; split at h <;> simp at h
  simp only [ht, if_false] at h
  cases hp : (e.tok (getToken e.decompress v .access)).parses with
  | false => simp only [hp, Bool.not_false, if_true] at h; split at h <;> simp at h
  | true =>
  simp only [hp, Bool.not_true, Bool.false_eq_true, if_false] at h
  cases hv : (e.tok (getToken e.decompress v .access)).verdict e.now with
  | accept => exact ⟨rfl, ht, rfl, rfl⟩
  | expired => simp only [hv] at h; split at h <;> simp at h
  | invalid => simp only [hv] at h; split at h <;> simp at h

/-- `needsRefresh` is only ever signalled when a refresh token is stored -/
theorem classify_nr (c : Cfg) (e : Env) (v : View) (h : (classify c e v).2.1 = true) :
    getToken e.decompress v .refresh ≠ [] := by
  intro hrt
  unfold classify at h
  simp only [hrt, ne_eq, not_true_eq_false, decide_false, Bool.false_eq_true, if_false] at h
  repeat' split at h
  all_goals simp at h

theorem not_forward_of {o : Out} (h : o.resp.isForward = false) {hd} : o.resp = .forward hd → False := by
  intro hf; rw [hf] at h; cases h

theorem handleLogout_not_forward (c e r v) : (handleLogout c e r v).resp.isForward = false := by
  unfold handleLogout; simp only; split <;> rfl

theorem cbErr_not_forward (r code msg calls) : (cbErr r code msg calls).resp.isForward = false :=
  errPage_not_forward r code msg

theorem cbToken_not_forward (c e r v idRaw rt calls) : (cbToken c e r v idRaw rt calls).resp.isForward = false := by
  unfold cbToken
  repeat' split
  all_goals first | exact cbErr_not_forward _ _ _ _ | rfl

theorem handleCallback_not_forward (c : Cfg) (e : Env) (r : Req) (v : View) :
    (handleCallback c e r v).resp.isForward = false := by
  unfold handleCallback
  repeat' split
  all_goals first | exact cbErr_not_forward _ _ _ _ | exact cbToken_not_forward _ _ _ _ _ _ _

theorem refreshFail_not_forward (c e r calls earlier vcur) :
    (refreshFail c e r calls earlier vcur).resp.isForward = false := by
  unfold refreshFail
  split
  · rfl
  · exact initiate_not_forward _ _ _ _ _ _

/-- **C08.** the refresh branch forwards only after one grant whose ID token passed `VerifyToken`, parses and
    carries a non-empty e-mail; it then continues with the refreshed view -/
theorem refreshFlow_forward (c : Cfg) (e : Env) (r : Req) (v : View) (h : List (Str × Str))
    (hf : (refreshFlow c e r v).resp = .forward h) :
    ∃ idRaw rt' em, e.refresh (getToken e.decompress v .refresh) = .ok idRaw rt' ∧ idRaw ≠ [] ∧
      e.verifyTok idRaw = true ∧ (e.tok idRaw).parses = true ∧ (e.tok idRaw).email = some em ∧ em ≠ [] ∧
      (authorized c e r (refreshedView c e v idRaw rt' em) [refreshedView c e v idRaw rt' em]
        [Call.refresh (getToken e.decompress v .refresh)]).resp = .forward h ∧
      (refreshFlow c e r v).calls = [Call.refresh (getToken e.decompress v .refresh)] := by
  unfold refreshFlow at hf ⊢
  simp only at hf ⊢
  cases hr : e.refresh (getToken e.decompress v .refresh) with
  | error ig =>
    simp only [hr] at hf
    cases ig with
    | true => simp only [if_true] at hf; exact (not_forward_of (refreshFail_not_forward _ _ _ _ _ _) hf).elim
    | false => simp only [Bool.false_eq_true, if_false] at hf; exact (not_forward_of (refreshFail_not_forward _ _ _ _ _ _) hf).elim
  | ok idRaw rt' =>
    simp only [hr] at hf ⊢
    by_cases h1 : idRaw = []
    · simp only [h1, if_true] at hf; exact (not_forward_of (refreshFail_not_forward _ _ _ _ _ _) hf).elim
    simp only [h1, if_false] at hf ⊢
    cases h2 : e.verifyTok idRaw with
    | false => simp only [h2, Bool.not_false, if_true] at hf; exact (not_forward_of (refreshFail_not_forward _ _ _ _ _ _) hf).elim
    | true =>
    simp only [h2, Bool.not_true, Bool.false_eq_true, if_false] at hf ⊢
    cases h3 : (e.tok idRaw).parses with
    | false => simp only [h3, Bool.not_false, if_true] at hf; exact (not_forward_of (refreshFail_not_forward _ _ _ _ _ _) hf).elim
    | true =>
    simp only [h3, Bool.not_true, Bool.false_eq_true, if_false] at hf ⊢
    cases h4 : (e.tok idRaw).email with
    | none => simp only [h4] at hf; exact (not_forward_of (refreshFail_not_forward _ _ _ _ _ _) hf).elim
    | some em =>
      simp only [h4] at hf ⊢
      by_cases h5 : em = []
      · simp only [h5, if_true] at hf; exact (not_forward_of (refreshFail_not_forward _ _ _ _ _ _) hf).elim
      simp only [h5, if_false] at hf ⊢
      refine ⟨idRaw, rt', em, rfl, h1, h2, h3, h4, h5, hf, ?_⟩
      exact (authorized_forward c e r _ _ _ h hf).2.2.2.2.2.1

/-- **C01: the authentication gate.**  If the response forwards the request to the downstream handler with
    rewritten headers, then the path is not excluded/callback/logout and either
    (a) the session is flagged authenticated and younger than the absolute limit, its stored ID token parses and is
        accepted by the verifier *now*, no provider call was made, or
    (b) exactly one refresh grant was made, the returned ID token passed `VerifyToken`, parses and carries an e-mail;
    in both cases the e-mail passes the domain gate and the token the role/group gate, and the downstream headers
    are exactly the derived ones. -/
theorem gate (c : Cfg) (e : Env) (r : Req) (v : View) (h : List (Str × Str))
    (hf : (serveV c e r v).resp = .forward h) :
    excludedPath c r.path = false ∧ r.path ≠ c.logout ∧ r.path ≠ c.callback ∧
    ( (getAuth c.maxAge e.now v = true ∧ getToken e.decompress v .access ≠ [] ∧
        (e.tok (getToken e.decompress v .access)).parses = true ∧
        (e.tok (getToken e.decompress v .access)).verdict e.now = .accept ∧
        isAllowedDomain c.allowDomains (getEmail v) = true ∧
        roleGate c e (getToken e.decompress v .access) = true ∧
        h = downstreamHdrs c e r (getEmail v) (getToken e.decompress v .access) ∧
        (serveV c e r v).calls = [])
    ∨ (∃ idRaw rt' em, e.refresh (getToken e.decompress v .refresh) = .ok idRaw rt' ∧
        e.verifyTok idRaw = true ∧ (e.tok idRaw).parses = true ∧ (e.tok idRaw).email = some em ∧ em ≠ [] ∧
        isAllowedDomain c.allowDomains (getEmail (refreshedView c e v idRaw rt' em)) = true ∧
        roleGate c e (getToken e.decompress (refreshedView c e v idRaw rt' em) .access) = true ∧
        (serveV c e r v).calls = [Call.refresh (getToken e.decompress v .refresh)]) ) := by
  unfold serveV at hf ⊢
  cases hx : excludedPath c r.path with
  | true => simp [hx] at hf
  | false =>
  simp only [hx, Bool.false_eq_true, if_false] at hf ⊢
  by_cases hl : r.path = c.logout
  · simp only [if_pos hl] at hf
    exact (not_forward_of (handleLogout_not_forward c e r v) hf).elim
  by_cases hc : r.path = c.callback
  · simp only [if_neg hl, if_pos hc] at hf
    exact (not_forward_of (handleCallback_not_forward c e r v) hf).elim
  simp only [if_neg hl, if_neg hc] at hf ⊢
  refine ⟨trivial, hl, hc, ?_⟩
  have hau := classify_au c e v
  have hnr := classify_nr c e v
  rcases hcl : classify c e v with ⟨au, nr, ex⟩
  rw [hcl] at hau hnr
  simp only [hcl] at hf ⊢
  cases ex with
  | true =>
    simp only at hf
    exact (not_forward_of (initiate_not_forward _ _ _ _ _ _) hf).elim
  | false =>
  cases au <;> cases nr <;> simp only at hf ⊢
  · -- not authenticated, no refresh: initiation
    exact (not_forward_of (initiate_not_forward _ _ _ _ _ _) hf).elim
  · -- not authenticated, refresh signalled
    have hrt := hnr rfl
    simp only [hrt, ne_eq, not_false_eq_true, if_true] at hf ⊢
    obtain ⟨idRaw, rt', em, h1, _, h3, h4, h5, h6, h7, h8⟩ := refreshFlow_forward c e r v h hf
    obtain ⟨_, a2, a3, _, _, _, _⟩ := authorized_forward c e r _ _ _ h h7
    exact Or.inr ⟨idRaw, rt', em, h1, h3, h4, h5, h6, a2, a3, h8⟩
  · -- authenticated, no refresh needed
    obtain ⟨ha, ht, hp, hv⟩ := hau rfl
    obtain ⟨_, a2, a3, _, a5, a6, _⟩ := authorized_forward c e r v [] [] h hf
    exact Or.inl ⟨ha, ht, hp, hv, a2, a3, a5, a6⟩
  · -- authenticated, proactive refresh
    have hrt := hnr rfl
    simp only [hrt, ne_eq, not_false_eq_true, if_true] at hf ⊢
    obtain ⟨idRaw, rt', em, h1, _, h3, h4, h5, h6, h7, h8⟩ := refreshFlow_forward c e r v h hf
    obtain ⟨_, a2, a3, _, _, _, _⟩ := authorized_forward c e r _ _ _ h h7
    exact Or.inr ⟨idRaw, rt', em, h1, h3, h4, h5, h6, a2, a3, h8⟩

/-- requests under an excluded prefix pass through untouched: no cookie, no provider call -/
theorem excluded_passthrough (c : Cfg) (e : Env) (r : Req) (v : View) (hx : excludedPath c r.path = true) :
    (serveV c e r v).resp = .passthrough ∧ (serveV c e r v).saved = [] ∧ (serveV c e r v).calls = [] := by
  unfold serveV; simp [hx]

end Oidc.Handler
