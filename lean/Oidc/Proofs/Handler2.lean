import Oidc.Proofs.Handler
namespace Oidc.Handler
open Oidc Oidc.Session Oidc.Strings

/-! ### C03 — callback -/

/-- a callback stores a session only along the single success path -/
theorem cbToken_saved (c e r v idRaw rt calls) (h : (cbToken c e r v idRaw rt calls).saved ≠ []) :
    e.verifyTok idRaw = true ∧ (e.tok idRaw).parses = true ∧
    (∃ n, (e.tok idRaw).nonce = some n ∧ n ≠ [] ∧ n = getNonce v) ∧
    (((e.tok idRaw).email).getD [] ≠ []) ∧ isAllowedDomain c.allowDomains (((e.tok idRaw).email).getD []) = true ∧
    (cbToken c e r v idRaw rt calls).saved = [loggedInView c e v idRaw rt (((e.tok idRaw).email).getD [])] ∧
    (cbToken c e r v idRaw rt calls).resp = .redirectLocal (postLoginTarget c v) := by
  unfold cbToken at h ⊢
  cases h1 : e.verifyTok idRaw with
  | false => simp [h1, cbErr] at h
  | true =>
  simp only [h1, Bool.not_true, Bool.false_eq_true, if_false] at h ⊢
  cases h2 : (e.tok idRaw).parses with
  | false => simp [h2, cbErr] at h
  | true =>
  simp only [h2, Bool.not_true, Bool.false_eq_true, if_false] at h ⊢
  cases h3 : (e.tok idRaw).nonce with
  | none => simp [h3, cbErr] at h
  | some n =>
  simp only [h3] at h ⊢
  by_cases h4 : n = []
  · simp [h4, cbErr] at h
  simp only [h4, if_false] at h ⊢
  by_cases h5 : getNonce v = []
  · simp [h5, cbErr] at h
  simp only [h5, if_false] at h ⊢
  by_cases h6 : n ≠ getNonce v
  · simp [h6, cbErr] at h
  simp only [h6, if_false] at h ⊢
  by_cases h7 : ((e.tok idRaw).email).getD [] = []
  · simp [h7, cbErr] at h
  simp only [h7, if_false] at h ⊢
  cases h8 : isAllowedDomain c.allowDomains (((e.tok idRaw).email).getD []) with
  | false => simp [h8, cbErr] at h
  | true =>
    simp only [Bool.not_true, Bool.false_eq_true, if_false]
    exact ⟨trivial, trivial, ⟨n, rfl, h4, Classical.not_not.mp h6⟩, h7, trivial, trivial, trivial⟩

/-- **C03 (one step).** A callback establishes a session only if the `state` parameter equals the non-empty state
    stored in *this* browser's session, the code was exchanged with the verifier stored there, the returned ID token
    passed `VerifyToken`, and its nonce equals the non-empty nonce stored there. -/
theorem callback_binds (c : Cfg) (e : Env) (r : Req) (v : View) (h : (handleCallback c e r v).saved ≠ []) :
    r.qError = [] ∧ r.qState ≠ [] ∧ r.qState = getCSRF v ∧ r.qCode ≠ [] ∧
    ∃ idRaw rt, e.exchange r.qCode (getVerifier v) (r.base ++ c.callback) = .ok idRaw rt ∧
      e.verifyTok idRaw = true ∧ (∃ n, (e.tok idRaw).nonce = some n ∧ n ≠ [] ∧ n = getNonce v) ∧
      (handleCallback c e r v).calls = [Call.exchange r.qCode (getVerifier v) (r.base ++ c.callback)] ∧
      (handleCallback c e r v).saved = [loggedInView c e v idRaw rt (((e.tok idRaw).email).getD [])] := by
  unfold handleCallback at h ⊢
  by_cases h1 : r.qError ≠ []
  · simp [h1, cbErr] at h
  simp only [h1, if_false] at h ⊢
  by_cases h2 : r.qState = []
  · simp [h2, cbErr] at h
  simp only [h2, if_false] at h ⊢
  by_cases h3 : getCSRF v = []
  · simp [h3, cbErr] at h
  simp only [h3, if_false] at h ⊢
  by_cases h4 : r.qState ≠ getCSRF v
  · simp [h4, cbErr] at h
  simp only [h4, if_false] at h ⊢
  by_cases h5 : r.qCode = []
  · simp [h5, cbErr] at h
  simp only [h5, if_false] at h ⊢
  refine ⟨Classical.not_not.mp h1, h2, Classical.not_not.mp h4, h5, ?_⟩
  cases hx : e.exchange r.qCode (getVerifier v) (r.base ++ c.callback) with
  | rejected4xx => simp [hx, cbErr] at h
  | failed => simp [hx, cbErr] at h
  | ok idRaw rt =>
    simp only [hx] at h ⊢
    obtain ⟨a1, _, a3, _, _, a6, _⟩ := cbToken_saved c e r v idRaw rt _ h
    refine ⟨idRaw, rt, rfl, a1, a3, ?_, a6⟩
    unfold cbToken
    repeat' split
    all_goals rfl

/-- state, nonce and verifier are consumed by a successful login -/
theorem loggedIn_consumed (c : Cfg) (e : Env) (v : View) (idRaw rt em : Str) :
    getCSRF (loggedInView c e v idRaw rt em) = [] ∧ getNonce (loggedInView c e v idRaw rt em) = [] ∧
    getVerifier (loggedInView c e v idRaw rt em) = [] ∧ getIncoming (loggedInView c e v idRaw rt em) = [] := by
  unfold loggedInView
  refine ⟨?_, ?_, ?_, ?_⟩
  · simp [getCSRF, setIncoming, setVerifier, setNonce, setCSRF, setMain,
      pstr_pset_other _ _ _ _ (show "csrf" ≠ "incoming_path" by decide),
      pstr_pset_other _ _ _ _ (show "csrf" ≠ "code_verifier" by decide),
      pstr_pset_other _ _ _ _ (show "csrf" ≠ "nonce" by decide), pstr_pset_same]
  · simp [getNonce, setIncoming, setVerifier, setNonce, setMain,
      pstr_pset_other _ _ _ _ (show "nonce" ≠ "incoming_path" by decide),
      pstr_pset_other _ _ _ _ (show "nonce" ≠ "code_verifier" by decide), pstr_pset_same]
  · simp [getVerifier, setIncoming, setVerifier, setMain,
      pstr_pset_other _ _ _ _ (show "code_verifier" ≠ "incoming_path" by decide), pstr_pset_same]
  · simp [getIncoming, setIncoming, setMain, pstr_pset_same]

/-- a callback on a session without stored state (in particular a replay after success) is answered without
    contacting the token endpoint and stores nothing -/
theorem callback_without_state (c : Cfg) (e : Env) (r : Req) (v : View) (h : getCSRF v = []) :
    (handleCallback c e r v).calls = [] ∧ (handleCallback c e r v).saved = [] := by
  unfold handleCallback
  by_cases h1 : r.qError ≠ []
  · simp [h1, cbErr]
  by_cases h2 : r.qState = []
  · simp [h1, h2, cbErr]
  simp [h1, h2, h, cbErr]

/-! ### C15 / C16 / C11 -/

/-- the post-login redirect is always a local target -/
theorem postLoginTarget_local (c : Cfg) (v : View) : isLocalTarget (postLoginTarget c v) = true := by
  unfold postLoginTarget
  split
  · rename_i h; exact h.2.2
  · rfl

/-- what initiation stores as the URI to return to is a local target of bounded length, for every request URI -/
theorem initiate_stores_local (c : Cfg) (e : Env) (r : Req) (v : View) (earlier calls) :
    ∃ v3, (initiate c e r v earlier calls).saved = earlier ++ [clearView v, v3] ∧
      isLocalTarget (getIncoming v3) = true ∧ (getIncoming v3).length ≤ max c.maxIncoming 1 := by
  unfold initiate
  refine ⟨_, rfl, ?_, ?_⟩ <;>
  · simp only [getIncoming, setIncoming, setMain, pstr_pset_same]
    first | exact sanitize_local _ _ | exact sanitize_len _ _

/-- every HTML body is an escaped message -/
theorem errPage_html (r : Req) (code : Nat) (msg : Str) (c' : Nat) (m : Str)
    (h : errPage r code msg = .status c' (.html m)) : m = htmlEscape msg := by
  unfold errPage at h
  split at h
  · cases h
  · injection h with _ hb; injection hb with hm; exact hm.symm

/-- logout clears every loaded cookie and redirects as documented -/
theorem logout_spec (c : Cfg) (e : Env) (r : Req) (v : View) :
    (handleLogout c e r v).saved = [clearView v] ∧ (handleLogout c e r v).calls = [] ∧
    ((c.endSession ≠ [] ∧ getToken e.decompress v .access ≠ [] ∧
        (handleLogout c e r v).resp = .redirectEndSession (getToken e.decompress v .access) (postLogoutURI c r)) ∨
     ((c.endSession = [] ∨ getToken e.decompress v .access = []) ∧
        (handleLogout c e r v).resp = .redirectPostLogout (postLogoutURI c r))) := by
  unfold handleLogout
  by_cases h : c.endSession ≠ [] ∧ getToken e.decompress v .access ≠ []
  · rw [if_pos h]
    exact ⟨rfl, rfl, Or.inl ⟨h.1, h.2, rfl⟩⟩
  · rw [if_neg h]
    refine ⟨rfl, rfl, Or.inr ⟨?_, rfl⟩⟩
    by_cases h1 : c.endSession = []
    · exact Or.inl h1
    · right
      have : ¬ (getToken e.decompress v .access ≠ []) := fun h2 => h ⟨h1, h2⟩
      exact Classical.not_not.mp this

end Oidc.Handler
