import Oidc.Proofs.Handler2
namespace Oidc.Handler
open Oidc Oidc.Session Oidc.Strings

/-! ### C10 — identity headers -/

/-- **C10.** For every protected header name the values seen downstream are exactly the derived ones: nothing the
    client supplied under that name survives, whatever else the client sent. -/
theorem identity_from_session (c : Cfg) (e : Env) (r : Req) (email tokRaw : Str) (n : Str)
    (hn : n ∈ protectedNames c) :
    (downstreamHdrs c e r email tokRaw).filter (fun h => h.1 == n) =
      (derivedHdrs c e email tokRaw).filter (fun h => h.1 == n) := by
  unfold downstreamHdrs
  rw [List.filter_append]
  have : (r.hdrs.filter (fun h => !(protectedNames c).contains h.1)).filter (fun h => h.1 == n) = [] := by
    rw [List.filter_filter]
    apply List.filter_eq_nil_iff.mpr
    intro h _ hc
    simp only [Bool.and_eq_true, beq_iff_eq, Bool.not_eq_true'] at hc
    obtain ⟨h1, h2⟩ := hc
    rw [h1] at h2
    have : (protectedNames c).contains n = true := by simpa using hn
    rw [this] at h2; cases h2
  rw [this]; rfl

/-- non-interference: two requests that differ only in client headers produce the same protected headers -/
theorem identity_noninterference (c : Cfg) (e : Env) (r1 r2 : Req) (email tokRaw : Str) (n : Str)
    (hn : n ∈ protectedNames c) :
    (downstreamHdrs c e r1 email tokRaw).filter (fun h => h.1 == n) =
      (downstreamHdrs c e r2 email tokRaw).filter (fun h => h.1 == n) := by
  rw [identity_from_session c e r1 email tokRaw n hn, identity_from_session c e r2 email tokRaw n hn]

/-! ### C17 — status codes -/

def Resp.code : Resp → Nat
  | .status c _ => c
  | _ => 0

theorem errPage_code (r : Req) (code : Nat) (msg : Str) : (errPage r code msg).code = code := by
  unfold errPage; split <;> rfl

theorem initiate_code (c e r v earlier calls) : (initiate c e r v earlier calls).resp.code = 0 := by
  obtain ⟨_, _, _, _, h⟩ := initiate_resp c e r v earlier calls
  rw [h]; rfl

theorem authorized_code_lt_500 (c e r v earlier calls) : (authorized c e r v earlier calls).resp.code < 500 := by
  unfold authorized
  simp only
  repeat' split
  all_goals first
    | (rw [initiate_code]; omega)
    | (rw [errPage_code]; omega)
    | simp [Resp.code]

theorem refreshFail_code_lt_500 (c e r calls earlier vcur) : (refreshFail c e r calls earlier vcur).resp.code < 500 := by
  unfold refreshFail
  split
  · simp [Resp.code]
  · rw [initiate_code]; omega

theorem refreshFlow_code_lt_500 (c e r v) : (refreshFlow c e r v).resp.code < 500 := by
  unfold refreshFlow
  simp only
  repeat' split
  all_goals first
    | exact refreshFail_code_lt_500 _ _ _ _ _ _
    | exact authorized_code_lt_500 _ _ _ _ _ _

theorem handleLogout_code (c e r v) : (handleLogout c e r v).resp.code = 0 := by
  unfold handleLogout; simp only []; split <;> rfl

/-- the only 5xx answers of the callback, by cause -/
inductive Cb5xx (c : Cfg) (e : Env) (r : Req) (v : View) : Prop
  | exchangeFailed : e.exchange r.qCode (getVerifier v) (r.base ++ c.callback) = .failed → Cb5xx c e r v
  | tokenRejected (idRaw rt) : e.exchange r.qCode (getVerifier v) (r.base ++ c.callback) = .ok idRaw rt →
      e.verifyTok idRaw = false → Cb5xx c e r v
  | tokenUnparsable (idRaw rt) : e.exchange r.qCode (getVerifier v) (r.base ++ c.callback) = .ok idRaw rt →
      (e.tok idRaw).parses = false → Cb5xx c e r v
  | nonceMissingInToken (idRaw rt) : e.exchange r.qCode (getVerifier v) (r.base ++ c.callback) = .ok idRaw rt →
      ((e.tok idRaw).nonce = none ∨ (e.tok idRaw).nonce = some []) → Cb5xx c e r v
  | nonceMissingInSession (idRaw rt) : e.exchange r.qCode (getVerifier v) (r.base ++ c.callback) = .ok idRaw rt →
      getNonce v = [] → Cb5xx c e r v
  | nonceMismatch (idRaw rt n) : e.exchange r.qCode (getVerifier v) (r.base ++ c.callback) = .ok idRaw rt →
      (e.tok idRaw).nonce = some n → n ≠ getNonce v → Cb5xx c e r v        -- known finding K1
  | emailMissing (idRaw rt) : e.exchange r.qCode (getVerifier v) (r.base ++ c.callback) = .ok idRaw rt →
      ((e.tok idRaw).email).getD [] = [] → Cb5xx c e r v

theorem cbToken_5xx (c e r v idRaw rt calls)
    (hx : e.exchange r.qCode (getVerifier v) (r.base ++ c.callback) = .ok idRaw rt)
    (h : 500 ≤ (cbToken c e r v idRaw rt calls).resp.code) : Cb5xx c e r v := by
  unfold cbToken at h
  cases h1 : e.verifyTok idRaw with
  | false => exact .tokenRejected idRaw rt hx h1
  | true =>
  simp only [h1, Bool.not_true, Bool.false_eq_true, if_false] at h
  cases h2 : (e.tok idRaw).parses with
  | false => exact .tokenUnparsable idRaw rt hx h2
  | true =>
  simp only [h2, Bool.not_true, Bool.false_eq_true, if_false] at h
  cases h3 : (e.tok idRaw).nonce with
  | none => exact .nonceMissingInToken idRaw rt hx (Or.inl h3)
  | some n =>
  simp only [h3] at h
  by_cases h4 : n = []
  · exact .nonceMissingInToken idRaw rt hx (Or.inr (by rw [h3, h4]))
  simp only [h4, if_false] at h
  by_cases h5 : getNonce v = []
  · exact .nonceMissingInSession idRaw rt hx h5
  simp only [h5, if_false] at h
  by_cases h6 : n ≠ getNonce v
  · exact .nonceMismatch idRaw rt n hx h3 h6
  simp only [h6, if_false] at h
  by_cases h7 : ((e.tok idRaw).email).getD [] = []
  · exact .emailMissing idRaw rt hx h7
  simp only [h7, if_false] at h
  split at h
  · simp [cbErr, errPage_code] at h
  · simp [Resp.code] at h

/-- **C17 (status codes).** With an initialised instance, the handler answers 5xx only on the callback path and
    only for one of the listed causes — all of them answers of the token endpoint, except `nonceMismatch` (K1). -/
theorem only_callback_5xx (c : Cfg) (e : Env) (r : Req) (v : View) (h : 500 ≤ (serveV c e r v).resp.code) :
    r.path = c.callback ∧ Cb5xx c e r v := by
  unfold serveV at h
  cases hx : excludedPath c r.path with
  | true => simp [hx, Resp.code] at h
  | false =>
  simp only [hx, Bool.false_eq_true, if_false] at h
  by_cases hl : r.path = c.logout
  · simp only [if_pos hl, handleLogout_code] at h; omega
  by_cases hc : r.path = c.callback
  · simp only [if_neg hl, if_pos hc] at h
    refine ⟨hc, ?_⟩
    unfold handleCallback at h
    by_cases h1 : r.qError ≠ []
    · simp [h1, cbErr, errPage_code] at h
    simp only [h1, if_false] at h
    by_cases h2 : r.qState = []
    · simp [h2, cbErr, errPage_code] at h
    simp only [h2, if_false] at h
    by_cases h3 : getCSRF v = []
    · simp [h3, cbErr, errPage_code] at h
    simp only [h3, if_false] at h
    by_cases h4 : r.qState ≠ getCSRF v
    · simp [h4, cbErr, errPage_code] at h
    simp only [h4, if_false] at h
    by_cases h5 : r.qCode = []
    · simp [h5, cbErr, errPage_code] at h
    simp only [h5, if_false] at h
    cases hxc : e.exchange r.qCode (getVerifier v) (r.base ++ c.callback) with
    | rejected4xx => simp [hxc, cbErr, errPage_code] at h
    | failed => exact .exchangeFailed hxc
    | ok idRaw rt =>
      simp only [hxc] at h
      exact cbToken_5xx c e r v idRaw rt _ hxc h
  · simp only [if_neg hl, if_neg hc] at h
    exfalso
    rcases hcl : classify c e v with ⟨au, nr, ex⟩
    simp only [hcl] at h
    cases ex with
    | true => simp only [initiate_code] at h; omega
    | false =>
      cases au <;> cases nr <;> simp only at h
      · rw [initiate_code] at h; omega
      · split at h
        · have := refreshFlow_code_lt_500 c e r v; omega
        · rw [initiate_code] at h; omega
      · have := authorized_code_lt_500 c e r v [] []; omega
      · split at h
        · have := refreshFlow_code_lt_500 c e r v; omega
        · rw [initiate_code] at h; omega

end Oidc.Handler
