import Oidc.Proofs.Handler3
namespace Oidc.Handler
open Oidc Oidc.Session Oidc.Strings

/-! ### C01 — what a protected path can answer; C08 — failed refresh -/

inductive ProtectedAnswer : Resp → Prop
  | forward (h) : ProtectedAnswer (.forward h)
  | login (a b c d) : ProtectedAnswer (.redirectAuth a b c d)
  | denied403 (b) : ProtectedAnswer (.status 403 b)
  | unauth401 (b) : ProtectedAnswer (.status 401 b)
  | preflight : ProtectedAnswer .preflightOK

theorem errPage_403 (r : Req) (msg : Str) : ∃ b, errPage r 403 msg = .status 403 b := by
  unfold errPage; split <;> exact ⟨_, rfl⟩

theorem authorized_answer (c e r v earlier calls) : ProtectedAnswer (authorized c e r v earlier calls).resp := by
  unfold authorized
  simp only
  repeat' split
  all_goals first
    | (obtain ⟨a, b, c', d, h⟩ := initiate_resp c e r v earlier calls; rw [h]; exact .login _ _ _ _)
    | (obtain ⟨b, h⟩ := errPage_403 r "Access denied".toList; simp only [h]; exact .denied403 _)
    | exact .preflight
    | exact .forward _

theorem refreshFail_answer (c e r calls earlier vcur) : ProtectedAnswer (refreshFail c e r calls earlier vcur).resp := by
  unfold refreshFail
  split
  · exact .unauth401 _
  · obtain ⟨a, b, c', d, h⟩ := initiate_resp c e r vcur earlier calls; rw [h]; exact .login _ _ _ _

theorem refreshFlow_answer (c e r v) : ProtectedAnswer (refreshFlow c e r v).resp := by
  unfold refreshFlow
  simp only
  repeat' split
  all_goals first
    | exact refreshFail_answer _ _ _ _ _ _
    | exact authorized_answer _ _ _ _ _ _

/-- **C01 (the other half).** A request for a path that is neither excluded nor the callback nor the logout path
    is answered by forwarding (under the conditions of `gate`), a redirect to the provider's authorization endpoint,
    403, 401, or the authenticated CORS preflight answer — nothing else. -/
theorem protected_answers (c : Cfg) (e : Env) (r : Req) (v : View)
    (hx : excludedPath c r.path = false) (hl : r.path ≠ c.logout) (hc : r.path ≠ c.callback) :
    ProtectedAnswer (serveV c e r v).resp := by
  unfold serveV
  simp only [hx, Bool.false_eq_true, if_false, if_neg hl, if_neg hc]
  rcases hcl : classify c e v with ⟨au, nr, ex⟩
  cases ex with
  | true =>
    simp only
    obtain ⟨a, b, c', d, h⟩ := initiate_resp c e r
      (setEmail (setToken e.compress c.maxSz (setToken e.compress c.maxSz (setAuthenticated v e.now false) .access []) .refresh []) [])
      [setEmail (setToken e.compress c.maxSz (setToken e.compress c.maxSz (setAuthenticated v e.now false) .access []) .refresh []) []] []
    rw [h]; exact .login _ _ _ _
  | false =>
    cases au <;> cases nr <;> simp only
    · obtain ⟨a, b, c', d, h⟩ := initiate_resp c e r v [] []; rw [h]; exact .login _ _ _ _
    · split
      · exact refreshFlow_answer _ _ _ _
      · obtain ⟨a, b, c', d, h⟩ := initiate_resp c e r v [] []; rw [h]; exact .login _ _ _ _
    · exact authorized_answer _ _ _ _ _ _
    · split
      · exact refreshFlow_answer _ _ _ _
      · obtain ⟨a, b, c', d, h⟩ := initiate_resp c e r v [] []; rw [h]; exact .login _ _ _ _

/-- **C08 (failure).** If the refresh grant fails, nothing is forwarded, the answer is 401 (JSON clients) or a login
    redirect, exactly one grant was attempted, and — when the provider said `invalid_grant` — the view saved first has
    no refresh token any more. -/
theorem refresh_grant_failed (c : Cfg) (e : Env) (r : Req) (v : View) (ig : Bool)
    (hrt : ∀ t, e.decompress (e.compress t) = t) (hne : ∀ t, e.compress t ≠ []) (hm : 0 < c.maxSz)
    (hr : e.refresh (getToken e.decompress v .refresh) = .error ig) :
    (refreshFlow c e r v).resp.isForward = false ∧
    ((r.json = true ∧ ∃ b, (refreshFlow c e r v).resp = .status 401 b) ∨
     (r.json = false ∧ ∃ a b c' d, (refreshFlow c e r v).resp = .redirectAuth a b c' d)) ∧
    (refreshFlow c e r v).calls = [Call.refresh (getToken e.decompress v .refresh)] ∧
    (ig = true → ∃ v1 rest, (refreshFlow c e r v).saved = v1 :: rest ∧ getToken e.decompress v1 .refresh = []) := by
  unfold refreshFlow
  simp only [hr]
  cases ig with
  | true =>
    simp only [if_true]
    refine ⟨refreshFail_not_forward _ _ _ _ _ _, ?_, ?_, ?_⟩
    · unfold refreshFail
      cases hj : r.json with
      | true => exact Or.inl ⟨rfl, .json "Token refresh failed".toList, by simp only [if_true]⟩
      | false =>
        right; refine ⟨rfl, ?_⟩
        simp only [Bool.false_eq_true, if_false]
        exact initiate_resp _ _ _ _ _ _
    · unfold refreshFail; split <;> rfl
    · intro _
      unfold refreshFail
      split
      · exact ⟨_, [], rfl, getToken_setToken e.compress e.decompress hrt hne c.maxSz hm v .refresh []⟩
      · obtain ⟨v3, h3⟩ := initiate_eq' c e r (setToken e.compress c.maxSz v .refresh [])
          [setToken e.compress c.maxSz v .refresh []] [Call.refresh (getToken e.decompress v .refresh)]
        rw [h3]
        exact ⟨_, _, rfl, getToken_setToken e.compress e.decompress hrt hne c.maxSz hm v .refresh []⟩
  | false =>
    simp only [Bool.false_eq_true, if_false]
    refine ⟨refreshFail_not_forward _ _ _ _ _ _, ?_, ?_, fun h => by cases h⟩
    · unfold refreshFail
      cases hj : r.json with
      | true => exact Or.inl ⟨rfl, .json "Token refresh failed".toList, by simp only [if_true]⟩
      | false =>
        right; refine ⟨rfl, ?_⟩
        simp only [Bool.false_eq_true, if_false]
        exact initiate_resp _ _ _ _ _ _
    · unfold refreshFail; split <;> rfl

end Oidc.Handler
