import Oidc.Proofs.Handler2
namespace Oidc.Handler
open Oidc Oidc.Session Oidc.Strings

/-! ### C15 — the only `redirectLocal` is the post-login redirect -/

theorem errPage_ne_local (r : Req) (code : Nat) (msg t : Str) : errPage r code msg ≠ .redirectLocal t := by
  unfold errPage; split <;> simp

theorem cbErr_ne_local (r : Req) (code : Nat) (msg : Str) (calls : List Call) (t : Str) :
    (cbErr r code msg calls).resp ≠ .redirectLocal t := errPage_ne_local r code msg t

theorem cbToken_redirectLocal (c e r v idRaw rt calls) (t : Str)
    (h : (cbToken c e r v idRaw rt calls).resp = .redirectLocal t) : t = postLoginTarget c v := by
  unfold cbToken at h
  cases h1 : e.verifyTok idRaw with
  | false => simp only [h1, Bool.not_false, if_true] at h; exact absurd h (cbErr_ne_local _ _ _ _ _)
  | true =>
  simp only [h1, Bool.not_true, Bool.false_eq_true, if_false] at h
  cases h2 : (e.tok idRaw).parses with
  | false => simp only [h2, Bool.not_false, if_true] at h; exact absurd h (cbErr_ne_local _ _ _ _ _)
  | true =>
  simp only [h2, Bool.not_true, Bool.false_eq_true, if_false] at h
  cases h3 : (e.tok idRaw).nonce with
  | none => simp only [h3] at h; exact absurd h (cbErr_ne_local _ _ _ _ _)
  | some n =>
  simp only [h3] at h
  by_cases h4 : n = []
  · simp only [h4, if_true] at h; exact absurd h (cbErr_ne_local _ _ _ _ _)
  simp only [h4, if_false] at h
  by_cases h5 : getNonce v = []
  · simp only [h5, if_true] at h; exact absurd h (cbErr_ne_local _ _ _ _ _)
  simp only [h5, if_false] at h
  by_cases h6 : n ≠ getNonce v
  · rw [if_pos h6] at h; exact absurd h (cbErr_ne_local _ _ _ _ _)
  rw [if_neg h6] at h
  by_cases h7 : ((e.tok idRaw).email).getD [] = []
  · simp only [h7, if_true] at h; exact absurd h (cbErr_ne_local _ _ _ _ _)
  simp only [h7, if_false] at h
  cases h8 : isAllowedDomain c.allowDomains (((e.tok idRaw).email).getD []) with
  | false => simp only [h8, Bool.not_false, if_true] at h; exact absurd h (cbErr_ne_local _ _ _ _ _)
  | true =>
    simp only [h8, Bool.not_true, Bool.false_eq_true, if_false] at h
    injection h with h
    exact h.symm

theorem handleCallback_redirectLocal (c : Cfg) (e : Env) (r : Req) (v : View) (t : Str)
    (h : (handleCallback c e r v).resp = .redirectLocal t) : t = postLoginTarget c v := by
  unfold handleCallback at h
  by_cases h1 : r.qError ≠ []
  · rw [if_pos h1] at h; exact absurd h (cbErr_ne_local _ _ _ _ _)
  rw [if_neg h1] at h
  by_cases h2 : r.qState = []
  · simp only [h2, if_true] at h; exact absurd h (cbErr_ne_local _ _ _ _ _)
  simp only [h2, if_false] at h
  by_cases h3 : getCSRF v = []
  · simp only [h3, if_true] at h; exact absurd h (cbErr_ne_local _ _ _ _ _)
  simp only [h3, if_false] at h
  by_cases h4 : r.qState ≠ getCSRF v
  · rw [if_pos h4] at h; exact absurd h (cbErr_ne_local _ _ _ _ _)
  rw [if_neg h4] at h
  by_cases h5 : r.qCode = []
  · simp only [h5, if_true] at h; exact absurd h (cbErr_ne_local _ _ _ _ _)
  simp only [h5, if_false] at h
  cases hx : e.exchange r.qCode (getVerifier v) (r.base ++ c.callback) with
  | rejected4xx => simp only [hx] at h; exact absurd h (cbErr_ne_local _ _ _ _ _)
  | failed => simp only [hx] at h; exact absurd h (cbErr_ne_local _ _ _ _ _)
  | ok idRaw rt =>
    simp only [hx] at h
    exact cbToken_redirectLocal c e r v idRaw rt _ t h

end Oidc.Handler
