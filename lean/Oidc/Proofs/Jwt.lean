import Oidc.Model.Jwt
namespace Oidc.Jwt

theorem sub_tail (t : Tok) :
    ((match asStr t.sub with | none => (.error .sub : Except Reject Unit) | some s => if s = "" then .error .sub else .ok ()) = .ok ())
      ↔ ∃ s, asStr t.sub = some s ∧ s ≠ "" := by
  cases h : asStr t.sub with
  | none => simp
  | some s => by_cases hs : s = "" <;> simp [hs]

theorem spec_of_ok (f : Facts) (issuer clientID : String) (keys : List Key) (now : Int) (t : Tok)
    (h : verifyStaged f issuer clientID keys now t = .ok ()) : Spec f issuer clientID keys now t := by
  unfold verifyStaged at h
  cases hp : t.parsed with
  | false => simp [hp] at h
  | true =>
  simp only [hp, Bool.not_true, Bool.false_eq_true, if_false] at h
  cases hkid : asStr t.kid with
  | none => simp [hkid] at h
  | some kid =>
  simp only [hkid] at h
  cases halg : asStr t.alg with
  | none => simp [halg] at h
  | some alg =>
  simp only [halg] at h
  cases hkey : keys.find? (·.kid == kid) with
  | none => simp [hkey] at h
  | some key =>
  simp only [hkey] at h
  by_cases h1 : key.fam = .unsupported
  · simp [h1] at h
  simp only [h1, if_false] at h
  cases h2 : f.hashAlgs.contains alg with
  | false => have : alg ∉ f.hashAlgs := by simpa using h2
             simp [this] at h
  | true =>
  simp only [h2, Bool.not_true, Bool.false_eq_true, if_false] at h
  by_cases h3n : familyOfAlg alg ≠ key.fam
  · simp [h3n] at h
  have h3 : familyOfAlg alg = key.fam := Classical.not_not.mp h3n
  simp only [h3, ne_eq, not_true_eq_false, if_false] at h
  cases h4 : t.sigValid with
  | false => simp [h4] at h
  | true =>
  simp only [h4, Bool.not_true, Bool.false_eq_true, if_false] at h
  cases h5 : f.supportedAlgs.contains alg with
  | false => have : alg ∉ f.supportedAlgs := by simpa using h5
             simp [this] at h
  | true =>
  simp only [h5, Bool.not_true, Bool.false_eq_true, if_false] at h
  cases hiss : asStr t.iss with
  | none => simp [hiss] at h
  | some iss =>
  simp only [hiss] at h
  by_cases h6n : iss ≠ issuer
  · simp [h6n] at h
  have h6 : iss = issuer := Classical.not_not.mp h6n
  simp only [h6, ne_eq, not_true_eq_false, if_false] at h
  cases h7 : audOK clientID t.aud with
  | false => simp [h7] at h
  | true =>
  simp only [h7, Bool.not_true, Bool.false_eq_true, if_false] at h
  cases hexp : asNum t.exp with
  | none => simp [hexp] at h
  | some e =>
  simp only [hexp] at h
  by_cases h8 : now > e + f.skewFuture
  · simp [h8] at h
  simp only [h8, if_false] at h
  cases hiat : asNum t.iat with
  | none => simp [hiat] at h
  | some i =>
  simp only [hiat] at h
  by_cases h9 : now < i - f.skewPast
  · simp [h9] at h
  simp only [h9, if_false] at h
  have e1 : now ≤ e + f.skewFuture := by omega
  have e2 : i - f.skewPast ≤ now := by omega
  unfold Spec
  refine ⟨hp, kid, alg, key, e, i, ?_⟩
  cases hnbf : nbfClass t.nbf with
  | absent =>
    simp only [hnbf] at h
    obtain ⟨s, hs1, hs2⟩ := (sub_tail t).mp h
    exact ⟨s, hkid, halg, hkey, h1, h2, h5, h3, h4, by rw [hiss, h6], h7, hexp, e1, hiat, e2, trivial, hs1, hs2⟩
  | num n =>
    simp only [hnbf] at h
    by_cases h10 : now < n - f.skewPast
    · simp [h10] at h
    · simp only [h10, if_false] at h
      obtain ⟨s, hs1, hs2⟩ := (sub_tail t).mp h
      exact ⟨s, hkid, halg, hkey, h1, h2, h5, h3, h4, by rw [hiss, h6], h7, hexp, e1, hiat, e2, by simp only; omega, hs1, hs2⟩
  | wrongType =>
    simp only [hnbf] at h
    cases hn : f.nbfTypeChecked with
    | true => simp [hn] at h
    | false =>
      simp only [hn, Bool.false_eq_true, if_false] at h
      obtain ⟨s, hs1, hs2⟩ := (sub_tail t).mp h
      exact ⟨s, hkid, halg, hkey, h1, h2, h5, h3, h4, by rw [hiss, h6], h7, hexp, e1, hiat, e2, by simp only, hs1, hs2⟩

theorem ok_of_spec (f : Facts) (issuer clientID : String) (keys : List Key) (now : Int) (t : Tok)
    (h : Spec f issuer clientID keys now t) : verifyStaged f issuer clientID keys now t = .ok () := by
  obtain ⟨hp, kid, alg, key, e, i, s, hkid, halg, hkey, h1, h2, h5, h3, h4, hiss, h7, hexp, e1, hiat, e2, hnbf, hs1, hs2⟩ := h
  unfold verifyStaged
  have g8 : ¬ now > e + f.skewFuture := by omega
  have g9 : ¬ now < i - f.skewPast := by omega
  simp only [hp, hkid, halg, hkey, h1, h2, h3, h4, h5, hiss, h7, hexp, hiat, g8, g9, Bool.not_true,
    Bool.false_eq_true, if_false, ne_eq, not_true_eq_false]
  have tail := (sub_tail t).mpr ⟨s, hs1, hs2⟩
  cases hc : nbfClass t.nbf with
  | absent => simp only; exact tail
  | num n =>
    simp only [hc] at hnbf
    have : ¬ now < n - f.skewPast := by omega
    simp only [this, if_false]; exact tail
  | wrongType =>
    simp only [hc] at hnbf
    simp only [hnbf, Bool.false_eq_true, if_false]; exact tail

/-- **C02: the verifier accepts exactly the tokens the specification describes** -/
theorem accept_iff (f : Facts) (issuer clientID : String) (keys : List Key) (now : Int) (t : Tok) :
    accept f issuer clientID keys now t = true ↔ Spec f issuer clientID keys now t := by
  unfold accept
  constructor
  · intro h
    apply spec_of_ok
    cases hv : verifyStaged f issuer clientID keys now t with
    | ok u => rfl
    | error e => rw [hv] at h; cases h
  · intro h
    rw [ok_of_spec _ _ _ _ _ _ h]

/-- the instants at which a fixed token is accepted form an interval -/
theorem accept_interval (f : Facts) (issuer clientID : String) (keys : List Key) (t1 t2 now : Int) (t : Tok)
    (h1 : accept f issuer clientID keys t1 t = true) (h2 : accept f issuer clientID keys t2 t = true)
    (hle1 : t1 ≤ now) (hle2 : now ≤ t2) : accept f issuer clientID keys now t = true := by
  rw [accept_iff] at *
  obtain ⟨hp, kid, alg, key, e, i, s, hkid, halg, hkey, a1, a2, a5, a3, a4, hiss, a7, hexp, _, hiat, e2, hnbf, hs1, hs2⟩ := h1
  obtain ⟨_, kid', alg', key', e', i', s', hkid', halg', hkey', _, _, _, _, _, _, _, hexp', e1', hiat', _, hnbf', _, _⟩ := h2
  have : e' = e := by rw [hexp] at hexp'; cases hexp'; rfl
  subst this
  refine ⟨hp, kid, alg, key, e', i, s, hkid, halg, hkey, a1, a2, a5, a3, a4, hiss, a7, hexp, by omega, hiat, by omega, ?_, hs1, hs2⟩
  cases hc : nbfClass t.nbf with
  | absent => trivial
  | num n => simp only [hc] at hnbf ⊢; omega
  | wrongType => simp only [hc] at hnbf ⊢; exact hnbf

end Oidc.Jwt
