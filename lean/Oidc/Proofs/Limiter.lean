import Oidc.Model.Limiter
namespace Oidc.Limiter

def Sorted : Int → List Int → Prop
  | _, [] => True
  | lo, t :: ts => lo ≤ t ∧ Sorted t ts

def Inv (b : Int) (l : L) : Prop := 0 ≤ l.tok ∧ l.tok ≤ b

theorem refill_le (r b : Int) (l : L) (now : Int) : refill r b l now ≤ l.tok + r * (now - l.last) := by
  unfold refill; split <;> omega

theorem refill_le_b (r b : Int) (l : L) (now : Int) : refill r b l now ≤ b := by
  unfold refill; split <;> omega

theorem mul_nonneg' {r d : Int} (hr : 0 ≤ r) (hd : 0 ≤ d) : 0 ≤ r * d := Int.mul_nonneg hr hd

theorem refill_ge (r b : Int) (l : L) (now : Int) (hr : 0 ≤ r) (hb : 0 ≤ b) (h : Inv b l) (hn : l.last ≤ now) :
    0 ≤ refill r b l now := by
  unfold refill
  have : 0 ≤ r * (now - l.last) := mul_nonneg' hr (by omega)
  split <;> (unfold Inv at h; omega)

theorem inv_allow (r b : Int) (l : L) (now : Int) (hr : 0 ≤ r) (hb : 0 ≤ b) (h : Inv b l) :
    Inv b (allow r b l now).1 := by
  unfold allow
  split
  · exact h
  · rename_i hn
    have h1 := refill_ge r b l now hr hb h (by omega)
    have h2 := refill_le_b r b l now
    split <;> (unfold Inv; simp only [U] at *; constructor <;> omega)

theorem allow_last (r b : Int) (l : L) (now : Int) (hn : l.last ≤ now) : (allow r b l now).1.last = now := by
  unfold allow
  have : ¬ now < l.last := by omega
  simp only [this, if_false]
  split <;> rfl

/-- potential argument: tokens left + U·admitted ≤ tokens at start + r·elapsed -/
theorem run_bound (r b : Int) (l : L) (ts : List Int) (hi : Int)
    (hs : Sorted l.last ts) (hhi : ∀ t ∈ ts, t ≤ hi) (hl : l.last ≤ hi) :
    (run r b l ts).1.tok + U * (run r b l ts).2 ≤ l.tok + r * ((run r b l ts).1.last - l.last) ∧
    l.last ≤ (run r b l ts).1.last ∧ (run r b l ts).1.last ≤ hi := by
  induction ts generalizing l with
  | nil => simp [run]; exact hl
  | cons t ts ih =>
    simp only [run]
    obtain ⟨h1, h2⟩ := hs
    have hnl : ¬ t < l.last := by omega
    have hthi : t ≤ hi := hhi t (by simp)
    have key : ∀ l' ok, allow r b l t = (l', ok) →
        l'.last = t ∧ l'.tok + U * (if ok then 1 else 0) ≤ l.tok + r * (t - l.last) := by
      intro l' ok h
      unfold allow at h
      simp only [hnl, if_false] at h
      have hle := refill_le r b l t
      split at h <;> (injection h with ha hb; subst ha; subst hb; simp) <;> omega
    rcases hal : allow r b l t with ⟨l', ok⟩
    obtain ⟨hlast, hpot⟩ := key l' ok hal
    have := ih l' (by rw [hlast]; exact h2) (fun x hx => hhi x (by simp [hx])) (by rw [hlast]; exact hthi)
    rcases hrun : run r b l' ts with ⟨l'', n⟩
    rw [hrun] at this
    simp only at this ⊢
    obtain ⟨a1, a2, a3⟩ := this
    refine ⟨?_, by omega, a3⟩
    rw [hlast] at a1
    have e : r * (l''.last - l.last) = r * (l''.last - t) + r * (t - l.last) := by
      rw [← Int.mul_add]; congr 1; omega
    simp only [U] at *
    cases ok <;> simp at hpot ⊢ <;> omega

theorem inv_run (r b : Int) (l : L) (ts : List Int) (hr : 0 ≤ r) (hb : 0 ≤ b) (h : Inv b l) :
    Inv b (run r b l ts).1 := by
  induction ts generalizing l with
  | nil => simpa [run] using h
  | cons t ts ih =>
    simp only [run]
    have := ih (allow r b l t).1 (inv_allow r b l t hr hb h)
    rcases hal : allow r b l t with ⟨l', ok⟩
    rw [hal] at this
    rcases hrun : run r b l' ts with ⟨l'', n⟩
    rw [hrun] at this
    exact this

/-- **C19 upper bound.** From any state whose clock is at the window start `a`, at most `(b + r·w)/U`
    verifications are admitted among arrivals in `[a, a+w]`: one bucket plus the refill of the window. -/
theorem upper (r b : Int) (hr : 0 ≤ r) (hb : 0 ≤ b) (l : L) (h : Inv b l) (w : Int) (ts : List Int)
    (hs : Sorted l.last ts) (hw : ∀ t ∈ ts, t ≤ l.last + w) (hw0 : 0 ≤ w) :
    U * (run r b l ts).2 ≤ b + r * w := by
  have hb1 := run_bound r b l ts (l.last + w) hs hw (by omega)
  have hinv := inv_run r b l ts hr hb h
  obtain ⟨p1, p2, p3⟩ := hb1
  have hmono : r * ((run r b l ts).1.last - l.last) ≤ r * w :=
    Int.mul_le_mul_of_nonneg_left (by omega) hr
  unfold Inv at h hinv
  omega

/-- moving the bookkeeping instant forward to `a` (no arrival in between) does not change later decisions -/
theorem refill_shift (r b : Int) (hr : 0 ≤ r) (l : L) (a t : Int) (h1 : l.last ≤ a) (h2 : a ≤ t) :
    refill r b ⟨refill r b l a, a⟩ t = refill r b l t := by
  have e : r * (t - l.last) = r * (t - a) + r * (a - l.last) := by
    rw [← Int.mul_add]; congr 1; omega
  have p1 : 0 ≤ r * (t - a) := mul_nonneg' hr (by omega)
  unfold refill
  simp only
  split <;> split <;> split <;> omega

/-- **C19 steady stream.** If the bucket holds at least one token (`b ≥ U`), a stream whose consecutive
    arrivals are at least `g` apart with `r·g ≥ U` (i.e. at most `r` per second) is admitted entirely,
    provided the first arrival finds a token. -/
theorem steady_admitted (r b : Int) (hr : 0 ≤ r) (hbU : U ≤ b) (g : Int) (hg : U ≤ r * g) (l : L) (hl : 0 ≤ l.tok)
    (ts : List Int) :
    ∀ (t0 : Int), l.last ≤ t0 → U ≤ refill r b l t0 →
      (∀ (gaps : List Int), True) →
      (List.Pairwise (fun x y => x + g ≤ y) (t0 :: ts)) →
      ∀ d ∈ decisions r b l (t0 :: ts), d = true := by
  induction ts generalizing l with
  | nil =>
    intro t0 h0 hU _ _ d hd
    simp only [decisions, List.mem_cons, List.not_mem_nil, or_false] at hd
    subst hd
    unfold allow
    have : ¬ t0 < l.last := by omega
    simp [this, hU]
  | cons t1 ts ih =>
    intro t0 h0 hU _ hp d hd
    simp only [decisions, List.mem_cons] at hd
    have hnot : ¬ t0 < l.last := by omega
    have hal : allow r b l t0 = (⟨refill r b l t0 - U, t0⟩, true) := by
      unfold allow; simp [hnot, hU]
    rcases hd with hd | hd
    · subst hd; rw [hal]
    · rw [hal] at hd
      simp only at hd
      rw [List.pairwise_cons] at hp
      have hgap : t0 + g ≤ t1 := hp.1 t1 (by simp)
      have hgpos : 0 ≤ g ∨ g < 0 := by omega
      -- refill at t1 from the state after admitting at t0
      have hU1 : U ≤ refill r b ⟨refill r b l t0 - U, t0⟩ t1 := by
        have hm : r * g ≤ r * (t1 - t0) := Int.mul_le_mul_of_nonneg_left (by omega) hr
        generalize refill r b l t0 = x at hU ⊢
        unfold refill
        simp only
        split <;> omega
      have hlast : (⟨refill r b l t0 - U, t0⟩ : L).last ≤ t1 := by
        simp only
        have : 0 ≤ g := by
          rcases hgpos with h | h
          · exact h
          · have : r * g ≤ 0 := by
              have := Int.mul_le_mul_of_nonneg_left (show g ≤ 0 by omega) hr
              simpa using this
            simp only [U] at *; omega
        omega
      exact ih ⟨refill r b l t0 - U, t0⟩ (by simp only; omega) t1 hlast hU1 (fun _ => trivial) hp.2 d
        (by simpa [decisions] using hd)

/-- regression witness (unfixed tree): refill of one token per second with `rateLimit = 10`: a stream of
    one verification every 100 ms is refused at the 11th arrival -/
theorem unfixed_rate_refuses :
    (decisions 1 (10 * U) (init 10) ((List.range 12).map (fun (i : Nat) => (i : Int) * 100000000))).getLast? = some false := by
  decide

/-- with refill `rateLimit` per second the same stream is admitted entirely -/
theorem fixed_rate_admits :
    (decisions 10 (10 * U) (init 10) ((List.range 40).map (fun (i : Nat) => (i : Int) * 100000000))).all id = true := by
  decide

end Oidc.Limiter
