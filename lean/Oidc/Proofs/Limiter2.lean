import Oidc.Proofs.Limiter
/-!
# C19: sustained admission under overload

While the bucket is never full (the refill is never cut off at the bucket size) nothing is lost: tokens at the end + admitted =
tokens at the start + refill.  Under continuous overload — consecutive arrivals at most `g` apart with `r·g ≤ U` (demand at least
`r` per second) starting from a drained bucket — the bucket stays below one token after every arrival, hence is never full, hence
the number admitted over any such stretch exceeds `r·Δ/U − 1`: admission is sustained at the configured rate.
-/
namespace Oidc.Limiter

/-- the refill is not cut off at any arrival of the run -/
def Uncapped (r b : Int) : L → List Int → Prop
  | _, [] => True
  | l, t :: ts => l.tok + r * (t - l.last) ≤ b ∧ Uncapped r b (allow r b l t).1 ts

theorem refill_eq_of_uncapped (r b : Int) (l : L) (t : Int) (h : l.tok + r * (t - l.last) ≤ b) :
    refill r b l t = l.tok + r * (t - l.last) := by
  unfold refill
  have : ¬ l.tok + r * (t - l.last) > b := by omega
  simp [this]

/-- conservation: nothing is lost while the bucket is never full -/
theorem run_exact (r b : Int) (l : L) (ts : List Int) (hs : Sorted l.last ts) (hu : Uncapped r b l ts) :
    (run r b l ts).1.tok + U * (run r b l ts).2 = l.tok + r * ((run r b l ts).1.last - l.last) ∧
    l.last ≤ (run r b l ts).1.last := by
  induction ts generalizing l with
  | nil => simp [run]
  | cons t ts ih =>
    obtain ⟨h1, h2⟩ := hs
    obtain ⟨u1, u2⟩ := hu
    have hnl : ¬ t < l.last := by omega
    have hre := refill_eq_of_uncapped r b l t u1
    simp only [run]
    rcases hal : allow r b l t with ⟨l', ok⟩
    have hl' : l'.last = t ∧ l'.tok + U * (if ok then 1 else 0) = l.tok + r * (t - l.last) := by
      unfold allow at hal
      simp only [hnl, if_false] at hal
      split at hal <;> (injection hal with ha hb; subst ha; subst hb; simp) <;> omega
    have u2' : Uncapped r b l' ts := by rw [hal] at u2; exact u2
    have h2' : Sorted l'.last ts := by rw [hl'.1]; exact h2
    have := ih l' h2' u2'
    rcases hr : run r b l' ts with ⟨l'', n⟩
    rw [hr] at this
    simp only at this ⊢
    obtain ⟨e1, e2⟩ := this
    obtain ⟨f1, f2⟩ := hl'
    have hd : r * (l''.last - l.last) = r * (l''.last - l'.last) + r * (t - l.last) := by
      rw [← Int.mul_add]; congr 1; omega
    constructor
    · cases ok
      · simp only [Bool.false_eq_true, if_false, Int.mul_zero, Int.add_zero, Int.natCast_zero, Nat.add_zero] at f2 ⊢
        simp only [U] at *; omega
      · simp only [if_true, Int.mul_one] at f2 ⊢
        have : U * ((n + 1 : Nat) : Int) = U * (n : Int) + U := by rw [Int.natCast_add, Int.mul_add]; simp
        rw [this]; omega
    · omega

/-- consecutive arrivals at most `g` apart, the first at most `g` after the state's clock -/
def Dense (g : Int) : Int → List Int → Prop
  | _, [] => True
  | lo, t :: ts => t ≤ lo + g ∧ Dense g t ts

/-- under continuous overload from a drained bucket the bucket holds less than one token after every arrival and is never full -/
theorem overload_uncapped (r b : Int) (hr : 0 ≤ r) (hb : 2 * U ≤ b) (g : Int) (hg : r * g ≤ U) (l : L)
    (hl0 : 0 ≤ l.tok) (hl : l.tok < U) (ts : List Int) (hs : Sorted l.last ts) (hd : Dense g l.last ts) :
    Uncapped r b l ts ∧ (run r b l ts).1.tok < U ∧ 0 ≤ (run r b l ts).1.tok := by
  induction ts generalizing l with
  | nil => simp [Uncapped, run]; exact ⟨hl, hl0⟩
  | cons t ts ih =>
    obtain ⟨h1, h2⟩ := hs
    obtain ⟨d1, d2⟩ := hd
    have hnl : ¬ t < l.last := by omega
    have hgap : r * (t - l.last) ≤ r * g := Int.mul_le_mul_of_nonneg_left (by omega) hr
    have hpos : 0 ≤ r * (t - l.last) := mul_nonneg' hr (by omega)
    have hcap : l.tok + r * (t - l.last) ≤ b := by simp only [U] at *; omega
    have hre := refill_eq_of_uncapped r b l t hcap
    rcases hal : allow r b l t with ⟨l', ok⟩
    have hl' : l'.last = t ∧ 0 ≤ l'.tok ∧ l'.tok < U := by
      unfold allow at hal
      simp only [hnl, if_false] at hal
      split at hal
      · injection hal with ha hb'
        subst ha
        refine ⟨rfl, ?_, ?_⟩ <;> (simp only [U] at *; omega)
      · injection hal with ha hb'
        subst ha
        refine ⟨rfl, ?_, ?_⟩ <;> (simp only [U] at *; omega)
    have := ih l' hl'.2.1 hl'.2.2 (by rw [hl'.1]; exact h2) (by rw [hl'.1]; exact d2)
    refine ⟨⟨hcap, by rw [hal]; exact this.1⟩, ?_⟩
    simp only [run, hal]
    rcases hr' : run r b l' ts with ⟨l'', n⟩
    rw [hr'] at this
    exact this.2

/-- **C19 (sustained rate).** Over any stretch of continuous overload starting from a drained bucket (less than one token), the
    number admitted satisfies `U·(admitted + 1) > r·Δ`, `Δ` the length of the stretch: at least `r` per second are admitted. -/
theorem overload_throughput (r b : Int) (hr : 0 ≤ r) (hb : 2 * U ≤ b) (g : Int) (hg : r * g ≤ U) (l : L)
    (hl0 : 0 ≤ l.tok) (hl : l.tok < U) (ts : List Int) (hs : Sorted l.last ts) (hd : Dense g l.last ts) :
    r * ((run r b l ts).1.last - l.last) < U * ((run r b l ts).2 + 1) := by
  obtain ⟨hu, hend, _⟩ := overload_uncapped r b hr hb g hg l hl0 hl ts hs hd
  obtain ⟨he, _⟩ := run_exact r b l ts hs hu
  have : U * ((run r b l ts).2 + 1 : Int) = U * (run r b l ts).2 + U := by rw [Int.mul_add]; simp
  omega

end Oidc.Limiter
