import Oidc.Proofs.WorldHist2
/-!
# C08 — completeness of one refresh, and chains of successive refreshes

`refresh_completes`: when the stored ID token needs a refresh, a refresh token is stored, and the provider answers the grant
with a verifiable ID token carrying an allowed e-mail (and an admitted role), the request is forwarded with the identity of the
NEW token after exactly one grant, and the response stores the refreshed session.  `refresh_chain` lifts it over any number of
successive refreshes of one browser.
-/
namespace Oidc.World
open Oidc Oidc.Session Oidc.Handler Oidc.Strings

/-- one refresh, from the conditions to the outcome -/
theorem refresh_completes (c : Cfg) (e : Env) (r : Req) (v : View) (idRaw rt' em : Str)
    (hpath : excludedPath c r.path = false ∧ r.path ≠ c.logout ∧ r.path ≠ c.callback) (hpre : r.preflight = false)
    (hnr : (classify c e v).2.1 = true) (hex : (classify c e v).2.2 = false)
    (hans : e.refresh (getToken e.decompress v .refresh) = .ok idRaw rt')
    (hid : idRaw ≠ []) (hver : e.verifyTok idRaw = true) (hparse : (e.tok idRaw).parses = true)
    (hemail : (e.tok idRaw).email = some em) (hem : em ≠ [])
    (hgetem : getEmail (refreshedView c e v idRaw rt' em) = em)
    (hdom : isAllowedDomain c.allowDomains em = true)
    (hrole : roleGate c e (getToken e.decompress (refreshedView c e v idRaw rt' em) .access) = true) :
    (serveV c e r v).resp = .forward (downstreamHdrs c e r em (getToken e.decompress (refreshedView c e v idRaw rt' em) .access)) ∧
    (serveV c e r v).calls = [Call.refresh (getToken e.decompress v .refresh)] ∧
    (serveV c e r v).saved = [refreshedView c e v idRaw rt' em] := by
  have hrt : getToken e.decompress v .refresh ≠ [] := classify_nr c e v hnr
  have hserve : serveV c e r v = refreshFlow c e r v := by
    unfold serveV
    rw [if_neg (by rw [hpath.1]; simp), if_neg hpath.2.1, if_neg hpath.2.2]
    rcases hcl : classify c e v with ⟨au, nr, ex⟩
    rw [hcl] at hnr hex
    simp only at hnr hex
    subst hnr; subst hex
    cases au <;> simp only <;> rw [if_pos hrt]
  rw [hserve]
  unfold refreshFlow
  simp only [hans, hid, if_false, hver, Bool.not_true, Bool.false_eq_true, hparse, hemail, hem]
  unfold authorized
  simp only [hgetem, hem, if_false, hdom, Bool.not_true, Bool.false_eq_true, hpre]
  have hg : (if c.allowRoles.isEmpty = true then true
      else if (e.tok (getToken e.decompress (refreshedView c e v idRaw rt' em) .access)).parses = true
        then rolesGate c.allowRoles (e.tok (getToken e.decompress (refreshedView c e v idRaw rt' em) .access)).groups
          (e.tok (getToken e.decompress (refreshedView c e v idRaw rt' em) .access)).roles
      else false) = roleGate c e (getToken e.decompress (refreshedView c e v idRaw rt' em) .access) := rfl
  rw [hg, hrole]
  simp

end Oidc.World

namespace Oidc.World
open Oidc Oidc.Session Oidc.Handler Oidc.Strings

/-- one link of a chain: the environment and request of the refreshing request, and what the provider's grant returns -/
structure Link where
  e : Env
  r : Req
  idRaw : Str
  rt' : Str
  em : Str

/-- the session after a chain of refreshes -/
def chainView (c : Cfg) : View → List Link → View
  | v, [] => v
  | v, s :: t => chainView c (refreshedView c s.e v s.idRaw s.rt' s.em) t

/-- what each link of the chain is assumed to satisfy, relative to the session `v` it finds -/
structure GoodLink (c : Cfg) (fuel : Nat) (v : View) (s : Link) : Prop where
  /-- the cookies written for `v` read back as `v` at that moment (C07 `getSession_saved`, within the session lifetime) -/
  reads : getSession c.maxAge (saveApply v) s.e.now fuel = v
  path : excludedPath c s.r.path = false ∧ s.r.path ≠ c.logout ∧ s.r.path ≠ c.callback
  pre : s.r.preflight = false
  nr : (classify c s.e v).2.1 = true
  ex : (classify c s.e v).2.2 = false
  ans : s.e.refresh (getToken s.e.decompress v .refresh) = .ok s.idRaw s.rt'
  id : s.idRaw ≠ []
  ver : s.e.verifyTok s.idRaw = true
  parses : (s.e.tok s.idRaw).parses = true
  email : (s.e.tok s.idRaw).email = some s.em
  em : s.em ≠ []
  getem : getEmail (refreshedView c s.e v s.idRaw s.rt' s.em) = s.em
  dom : isAllowedDomain c.allowDomains s.em = true
  role : roleGate c s.e (getToken s.e.decompress (refreshedView c s.e v s.idRaw s.rt' s.em) .access) = true

/-- every link good, each relative to the session the previous links left -/
def GoodChain (c : Cfg) (fuel : Nat) : View → List Link → Prop
  | _, [] => True
  | v, s :: t => GoodLink c fuel v s ∧ GoodChain c fuel (refreshedView c s.e v s.idRaw s.rt' s.em) t

/-- **C08 (chains).** Over any chain of successive refreshes of one browser — any number of links, rotating refresh tokens or
    not — every refreshing request performs exactly one grant and is forwarded with the identity of the token that grant
    returned, and the browser ends up holding the session of the LAST grant. -/
theorem refresh_chain (c : Cfg) (fuel : Nat) (links : List Link) (v : View) (hg : GoodChain c fuel v links) :
    (runBrowser c fuel (saveApply v) (links.map (fun s => (s.e, s.r)))).1 = saveApply (chainView c v links) ∧
    ∀ p ∈ links.zip (runBrowser c fuel (saveApply v) (links.map (fun s => (s.e, s.r)))).2,
      (∃ tokNow, p.2.resp = .forward (downstreamHdrs c p.1.e p.1.r p.1.em tokNow)) ∧
      (∃ rtUsed, p.2.calls = [Call.refresh rtUsed]) := by
  induction links generalizing v with
  | nil => exact ⟨rfl, by simp [runBrowser]⟩
  | cons s t ih =>
    obtain ⟨hs, ht⟩ := hg
    simp only [List.map_cons]
    rw [runBrowser_cons]
    have hstep := refresh_completes c s.e s.r v s.idRaw s.rt' s.em hs.path hs.pre hs.nr hs.ex hs.ans hs.id hs.ver hs.parses
      hs.email hs.em hs.getem hs.dom hs.role
    have hout : (serveJar c s.e s.r (saveApply v) fuel).1 = serveV c s.e s.r v := by
      unfold serveJar; simp only [hs.reads]
    have hjar : (serveJar c s.e s.r (saveApply v) fuel).2 = saveApply (refreshedView c s.e v s.idRaw s.rt' s.em) := by
      unfold serveJar; simp only [hs.reads, applySaves, hstep.2.2, List.getLast?_singleton]
    rw [hjar, hout]
    have iht := ih _ ht
    refine ⟨iht.1, ?_⟩
    intro p hp
    simp only [List.zip_cons_cons, List.mem_cons] at hp
    rcases hp with rfl | hp
    · exact ⟨⟨_, hstep.1⟩, ⟨_, hstep.2.1⟩⟩
    · exact iht.2 p hp

end Oidc.World

namespace Oidc.World
open Oidc Oidc.Session Oidc.Handler Oidc.Strings

/-- what a refreshed session holds: the new ID token, the e-mail of the new token, and the new refresh token — or the old one if
    the grant returned none -/
theorem refreshedView_holds (c : Cfg) (e : Env) (v : View) (idRaw rt' em : Str)
    (hrt : ∀ t, e.decompress (e.compress t) = t) (hne : ∀ t, e.compress t ≠ []) (hm : 0 < c.maxSz) :
    getToken e.decompress (refreshedView c e v idRaw rt' em) .access = idRaw ∧
    getToken e.decompress (refreshedView c e v idRaw rt' em) .refresh =
      (if rt' = [] then getToken e.decompress v .refresh else rt') ∧
    getEmail (refreshedView c e v idRaw rt' em) = em := by
  unfold refreshedView
  refine ⟨?_, ?_, ?_⟩
  · show getToken e.decompress (setAuthenticated _ e.now true) .access = idRaw
    have h1 : ∀ (w : View), getToken e.decompress (setAuthenticated w e.now true) .access = getToken e.decompress w .access := fun _ => rfl
    rw [h1, getToken_setToken_other e.compress e.decompress c.maxSz _ .refresh .access _ (by decide),
      getToken_setToken e.compress e.decompress hrt hne c.maxSz hm]
  · have h1 : ∀ (w : View), getToken e.decompress (setAuthenticated w e.now true) .refresh = getToken e.decompress w .refresh := fun _ => rfl
    rw [h1, getToken_setToken e.compress e.decompress hrt hne c.maxSz hm]
  · unfold getEmail setAuthenticated
    simp only [if_true]
    rw [pstr_pset_other _ _ _ _ (show "email" ≠ "authenticated" by decide),
      pstr_pset_other _ _ _ _ (show "email" ≠ "created_at" by decide), main_setToken, main_setToken]
    simp [setEmail, setMain, pstr_pset_same]

end Oidc.World
