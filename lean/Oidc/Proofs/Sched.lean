import Oidc.Model.Sched
namespace Oidc.Sched

def idle {D} : Th D := ⟨[], none, []⟩

/-- regression (unfixed tree): `Clear` hands the object back while the request goes on using it.  Request A
    (anonymous: load 0, clear-to-pool, set state 7, save) and request B (logged in: load 100, save): under the
    schedule A A B A A B both responses carry 107 — A's state written into B's session, B's session sent to A —
    instead of 7 and 100. -/
theorem unfixed_pool_counterexample :
    let A : List (Act Nat) := [.get 0, .clear true, .write (· + 7), .emit]
    let B : List (Act Nat) := [.get 100, .emit]
    let s0 : St Nat := { heap := fun _ => 0, pool := [], fresh := 0,
                         ths := fun i => if i = 0 then ⟨A, none, []⟩ else if i = 1 then ⟨B, none, []⟩ else idle }
    ((runSched 0 s0 [0, 0, 1, 0, 0, 1]).ths 0).out = [107] ∧ ((runSched 0 s0 [0, 0, 1, 0, 0, 1]).ths 1).out = [107] ∧
    solo 0 A none = [7] ∧ solo 0 B none = [100] := by
  decide

/-- the same programs with the fixed `Clear` (object not handed back) are isolated under that schedule -/
theorem fixed_pool_example :
    let A : List (Act Nat) := [.get 0, .clear false, .write (· + 7), .emit]
    let B : List (Act Nat) := [.get 100, .emit]
    let s0 : St Nat := { heap := fun _ => 0, pool := [], fresh := 0,
                         ths := fun i => if i = 0 then ⟨A, none, []⟩ else if i = 1 then ⟨B, none, []⟩ else idle }
    ((runSched 0 s0 [0, 0, 1, 0, 0, 1]).ths 0).out = [7] ∧ ((runSched 0 s0 [0, 0, 1, 0, 0, 1]).ths 1).out = [100] := by
  decide

/-! ### isolation when nothing is handed back to the pool while in use -/

/-- invariant: every request's object is its own (below the fresh counter, not pooled, not shared), no program will
    ever hand an object back, and output-so-far ++ what-it-will-still-emit is the solo output -/
structure Good {D} (cleared : D) (s : St D) (orig : Nat → List (Act D)) : Prop where
  poolFresh : ∀ o ∈ s.pool, o < s.fresh
  poolNodup : s.pool.Nodup
  refFresh : ∀ i o, (s.ths i).ref = some o → o < s.fresh ∧ o ∉ s.pool
  refDistinct : ∀ i j o, i ≠ j → (s.ths i).ref = some o → (s.ths j).ref ≠ some o
  noPut : ∀ i, usesPool (s.ths i).prog = false
  outOk : ∀ i, (s.ths i).out ++ solo cleared (s.ths i).prog ((s.ths i).ref.map s.heap) = solo cleared (orig i) none

theorem setHeap_same {D} (h : Nat → D) (o : Nat) (d : D) : setHeap h o d o = d := by simp [setHeap]
theorem setHeap_other {D} (h : Nat → D) (o x : Nat) (d : D) (hx : x ≠ o) : setHeap h o d x = h x := by simp [setHeap, hx]

theorem usesPool_tail {D} (a : Act D) (rest : List (Act D)) (h : usesPool (a :: rest) = false) :
    usesPool rest = false := by
  cases a with
  | clear b => cases b <;> simp_all [usesPool]
  | get d => simpa [usesPool] using h
  | write f => simpa [usesPool] using h
  | emit => simpa [usesPool] using h

theorem ths_step_self {D} (cleared : D) (s : St D) (i : Nat) :
    (stepTh cleared s i).ths i = (act cleared s.heap s.pool s.fresh (s.ths i)).2.2.2 := by simp [stepTh]
theorem ths_step_other {D} (cleared : D) (s : St D) (i j : Nat) (h : j ≠ i) :
    (stepTh cleared s i).ths j = s.ths j := by simp [stepTh, h]

/-- a step that touches only the request's own object and neither pool nor counter -/
theorem good_local {D} (cleared : D) (s : St D) (orig : Nat → List (Act D)) (i : Nat) (g : Good cleared s orig)
    (heap' : Nat → D) (t' : Th D)
    (hact : act cleared s.heap s.pool s.fresh (s.ths i) = (heap', s.pool, s.fresh, t'))
    (href : t'.ref = (s.ths i).ref)
    (hheap : ∀ x, (s.ths i).ref ≠ some x → heap' x = s.heap x)
    (hnp : usesPool t'.prog = false)
    (hout : t'.out ++ solo cleared t'.prog (t'.ref.map heap') = solo cleared (orig i) none) :
    Good cleared (stepTh cleared s i) orig := by
  have hH : (stepTh cleared s i).heap = heap' := by simp [stepTh, hact]
  have hP : (stepTh cleared s i).pool = s.pool := by simp [stepTh, hact]
  have hF : (stepTh cleared s i).fresh = s.fresh := by simp [stepTh, hact]
  have hTi : (stepTh cleared s i).ths i = t' := by rw [ths_step_self, hact]
  have hrefs : ∀ j, ((stepTh cleared s i).ths j).ref = (s.ths j).ref := by
    intro j
    by_cases hj : j = i
    · subst hj; rw [hTi, href]
    · rw [ths_step_other _ _ _ _ hj]
  refine ⟨?_, ?_, ?_, ?_, ?_, ?_⟩
  · rw [hP, hF]; exact g.poolFresh
  · rw [hP]; exact g.poolNodup
  · intro j x hx; rw [hrefs] at hx; rw [hF, hP]; exact g.refFresh j x hx
  · intro j k x hjk hx; rw [hrefs] at hx ⊢; exact g.refDistinct j k x hjk hx
  · intro j
    by_cases hj : j = i
    · subst hj; rw [hTi]; exact hnp
    · rw [ths_step_other _ _ _ _ hj]; exact g.noPut j
  · intro j
    rw [hH]
    by_cases hj : j = i
    · subst hj; rw [hTi]; exact hout
    · rw [ths_step_other _ _ _ _ hj]
      have := g.outOk j
      cases hr : (s.ths j).ref with
      | none => rw [hr] at this; simpa using this
      | some x =>
        rw [hr] at this
        have hx : (s.ths i).ref ≠ some x := fun h => g.refDistinct i j x (fun e => hj e.symm) h hr
        simpa [hheap x hx] using this

/-- one step of any request preserves the invariant -/
theorem good_step {D} (cleared : D) (s : St D) (orig : Nat → List (Act D)) (i : Nat) (g : Good cleared s orig) :
    Good cleared (stepTh cleared s i) orig := by
  have hnp := g.noPut i
  have hout := g.outOk i
  cases hp : (s.ths i).prog with
  | nil =>
    -- nothing to do: the state is unchanged
    have hact : act cleared s.heap s.pool s.fresh (s.ths i) = (s.heap, s.pool, s.fresh, s.ths i) := by
      unfold act; simp [hp]
    have hths : (stepTh cleared s i).ths = s.ths := by
      funext j
      by_cases hj : j = i
      · subst hj; rw [ths_step_self, hact]
      · rw [ths_step_other _ _ _ _ hj]
    have hs : stepTh cleared s i = s := by
      have h1 : (stepTh cleared s i).heap = s.heap := by simp [stepTh, hact]
      have h2 : (stepTh cleared s i).pool = s.pool := by simp [stepTh, hact]
      have h3 : (stepTh cleared s i).fresh = s.fresh := by simp [stepTh, hact]
      cases hst : stepTh cleared s i with
      | mk a b c d =>
        rw [hst] at h1 h2 h3 hths
        simp only at h1 h2 h3 hths
        subst h1; subst h2; subst h3; subst hths
        rfl
    rw [hs]; exact g
  | cons a rest =>
    rw [hp] at hnp hout
    have hrest := usesPool_tail a rest hnp
    cases a with
    | get d =>
      cases hpool : s.pool with
      | cons o p =>
        have hact : act cleared s.heap s.pool s.fresh (s.ths i) =
            (setHeap s.heap o d, p, s.fresh, ⟨rest, some o, (s.ths i).out⟩) := by
          unfold act; simp [hp, hpool]
        have ho_pool : o ∈ s.pool := by rw [hpool]; simp
        have hnd := g.poolNodup
        rw [hpool] at hnd
        have ho_notp : o ∉ p := (List.nodup_cons.mp hnd).1
        have hH : (stepTh cleared s i).heap = setHeap s.heap o d := by simp [stepTh, hact]
        have hP : (stepTh cleared s i).pool = p := by simp [stepTh, hact]
        have hF : (stepTh cleared s i).fresh = s.fresh := by simp [stepTh, hact]
        have hTi : (stepTh cleared s i).ths i = ⟨rest, some o, (s.ths i).out⟩ := by rw [ths_step_self, hact]
        have hsub : ∀ x ∈ p, x ∈ s.pool := by intro x hx; rw [hpool]; simp [hx]
        refine ⟨?_, ?_, ?_, ?_, ?_, ?_⟩
        · intro x hx; rw [hP] at hx; rw [hF]; exact g.poolFresh x (hsub x hx)
        · rw [hP]; exact (List.nodup_cons.mp hnd).2
        · intro j x hx
          rw [hF, hP]
          by_cases hj : j = i
          · subst hj; rw [hTi] at hx; simp only [Option.some.injEq] at hx; subst hx
            exact ⟨g.poolFresh _ ho_pool, ho_notp⟩
          · rw [ths_step_other _ _ _ _ hj] at hx
            have := g.refFresh j x hx
            exact ⟨this.1, fun h => this.2 (hsub x h)⟩
        · intro j k x hjk hx
          by_cases hj : j = i
          · subst hj; rw [hTi] at hx; simp only [Option.some.injEq] at hx; subst hx
            have hk : k ≠ j := fun h => hjk h.symm
            rw [ths_step_other _ _ _ _ hk]
            intro hc
            exact (g.refFresh k _ hc).2 ho_pool
          · rw [ths_step_other _ _ _ _ hj] at hx
            by_cases hk : k = i
            · subst hk; rw [hTi]; simp only [ne_eq, Option.some.injEq]
              intro hc; subst hc
              exact (g.refFresh j _ hx).2 ho_pool
            · rw [ths_step_other _ _ _ _ hk]; exact g.refDistinct j k x hjk hx
        · intro j
          by_cases hj : j = i
          · subst hj; rw [hTi]; exact hrest
          · rw [ths_step_other _ _ _ _ hj]; exact g.noPut j
        · intro j
          rw [hH]
          by_cases hj : j = i
          · subst hj; rw [hTi]
            simp only [Option.map_some, setHeap_same]
            simpa [solo] using hout
          · rw [ths_step_other _ _ _ _ hj]
            have := g.outOk j
            cases hr : (s.ths j).ref with
            | none => rw [hr] at this; simpa using this
            | some x =>
              rw [hr] at this
              have hx : x ≠ o := fun h => (g.refFresh j x hr).2 (h ▸ ho_pool)
              simpa [setHeap_other _ _ _ _ hx] using this
      | nil =>
        have hact : act cleared s.heap s.pool s.fresh (s.ths i) =
            (setHeap s.heap s.fresh d, [], s.fresh + 1, ⟨rest, some s.fresh, (s.ths i).out⟩) := by
          unfold act; simp [hp, hpool]
        have hH : (stepTh cleared s i).heap = setHeap s.heap s.fresh d := by simp [stepTh, hact]
        have hP : (stepTh cleared s i).pool = [] := by simp [stepTh, hact]
        have hF : (stepTh cleared s i).fresh = s.fresh + 1 := by simp [stepTh, hact]
        have hTi : (stepTh cleared s i).ths i = ⟨rest, some s.fresh, (s.ths i).out⟩ := by rw [ths_step_self, hact]
        refine ⟨?_, ?_, ?_, ?_, ?_, ?_⟩
        · intro x hx; rw [hP] at hx; cases hx
        · rw [hP]; exact List.nodup_nil
        · intro j x hx
          rw [hF, hP]
          by_cases hj : j = i
          · subst hj; rw [hTi] at hx; simp only [Option.some.injEq] at hx; subst hx
            exact ⟨by omega, by simp⟩
          · rw [ths_step_other _ _ _ _ hj] at hx
            have := g.refFresh j x hx
            exact ⟨by omega, by simp⟩
        · intro j k x hjk hx
          by_cases hj : j = i
          · subst hj; rw [hTi] at hx; simp only [Option.some.injEq] at hx; subst hx
            have hk : k ≠ j := fun h => hjk h.symm
            rw [ths_step_other _ _ _ _ hk]
            intro hc
            have := (g.refFresh k _ hc).1; omega
          · rw [ths_step_other _ _ _ _ hj] at hx
            by_cases hk : k = i
            · subst hk; rw [hTi]; simp only [ne_eq, Option.some.injEq]
              intro hc; subst hc
              have := (g.refFresh j _ hx).1; omega
            · rw [ths_step_other _ _ _ _ hk]; exact g.refDistinct j k x hjk hx
        · intro j
          by_cases hj : j = i
          · subst hj; rw [hTi]; exact hrest
          · rw [ths_step_other _ _ _ _ hj]; exact g.noPut j
        · intro j
          rw [hH]
          by_cases hj : j = i
          · subst hj; rw [hTi]
            simp only [Option.map_some, setHeap_same]
            simpa [solo] using hout
          · rw [ths_step_other _ _ _ _ hj]
            have := g.outOk j
            cases hr : (s.ths j).ref with
            | none => rw [hr] at this; simpa using this
            | some x =>
              rw [hr] at this
              have hx : x ≠ s.fresh := by have := (g.refFresh j x hr).1; omega
              simpa [setHeap_other _ _ _ _ hx] using this
    | write f =>
      cases hr : (s.ths i).ref with
      | some o =>
        rw [hr] at hout
        apply good_local cleared s orig i g (setHeap s.heap o (f (s.heap o))) { s.ths i with prog := rest }
        · unfold act; simp [hp, hr]
        · rfl
        · intro x hx; rw [hr] at hx; exact setHeap_other _ _ _ _ (fun h => hx (by rw [h]))
        · exact hrest
        · simp only [hr, Option.map_some, setHeap_same]
          simpa [solo] using hout
      | none =>
        rw [hr] at hout
        apply good_local cleared s orig i g s.heap { s.ths i with prog := rest }
        · unfold act; simp [hp, hr]
        · rfl
        · intro x _; rfl
        · exact hrest
        · simp only [hr, Option.map_none]
          simpa [solo] using hout
    | emit =>
      cases hr : (s.ths i).ref with
      | some o =>
        rw [hr] at hout
        apply good_local cleared s orig i g s.heap { s.ths i with prog := rest, out := (s.ths i).out ++ [s.heap o] }
        · unfold act; simp [hp, hr]
        · rfl
        · intro x _; rfl
        · exact hrest
        · simp only [hr, Option.map_some]
          simpa [solo, List.append_assoc] using hout
      | none =>
        rw [hr] at hout
        apply good_local cleared s orig i g s.heap { s.ths i with prog := rest }
        · unfold act; simp [hp, hr]
        · rfl
        · intro x _; rfl
        · exact hrest
        · simp only [hr, Option.map_none]
          simpa [solo] using hout
    | clear b =>
      have hb : b = false := by
        cases b with
        | false => rfl
        | true => simp [usesPool] at hnp
      subst hb
      cases hr : (s.ths i).ref with
      | some o =>
        rw [hr] at hout
        apply good_local cleared s orig i g (setHeap s.heap o cleared) { s.ths i with prog := rest }
        · unfold act; simp [hp, hr]
        · rfl
        · intro x hx; rw [hr] at hx; exact setHeap_other _ _ _ _ (fun h => hx (by rw [h]))
        · exact hrest
        · simp only [hr, Option.map_some, setHeap_same]
          simpa [solo] using hout
      | none =>
        rw [hr] at hout
        apply good_local cleared s orig i g s.heap { s.ths i with prog := rest }
        · unfold act; simp [hp, hr]
        · rfl
        · intro x _; rfl
        · exact hrest
        · simp only [hr, Option.map_none]
          simpa [solo] using hout

theorem good_run {D} (cleared : D) (orig : Nat → List (Act D)) (sched : List Nat) (s : St D) (g : Good cleared s orig) :
    Good cleared (runSched cleared s sched) orig := by
  unfold runSched
  induction sched generalizing s with
  | nil => exact g
  | cons i t ih => exact ih _ (good_step cleared s orig i g)

/-- the initial state: every request about to start, an arbitrary pool of idle objects -/
def start {D} (h0 : Nat → D) (pool : List Nat) (fresh : Nat) (progs : Nat → List (Act D)) : St D :=
  { heap := h0, pool := pool, fresh := fresh, ths := fun i => ⟨progs i, none, []⟩ }

/-- **C05 (isolation).** If no request ever hands its session object back to the pool while it may still use it
    (the regenerated pool facts), then under **every** schedule of **any** number of requests, whatever objects the
    pool held, each request that has run to completion emitted exactly what it emits when served alone. -/
theorem isolation {D} (cleared : D) (h0 : Nat → D) (pool : List Nat) (fresh : Nat) (progs : Nat → List (Act D))
    (hpool : ∀ o ∈ pool, o < fresh) (hnd : pool.Nodup) (hno : ∀ i, usesPool (progs i) = false)
    (sched : List Nat) (i : Nat)
    (hdone : ((runSched cleared (start h0 pool fresh progs) sched).ths i).prog = []) :
    ((runSched cleared (start h0 pool fresh progs) sched).ths i).out = solo cleared (progs i) none := by
  have g0 : Good cleared (start h0 pool fresh progs) progs := by
    refine ⟨hpool, hnd, ?_, ?_, hno, ?_⟩
    · intro j o h; simp [start] at h
    · intro j k o _ h; simp [start] at h
    · intro j; simp [start]
  have g := good_run cleared progs sched _ g0
  have := g.outOk i
  rw [hdone] at this
  simpa [solo] using this

end Oidc.Sched
