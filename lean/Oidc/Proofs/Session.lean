import Oidc.Model.Session
namespace Oidc.Session

/-! ### payload laws -/

theorem pget_pset_same (p : Payload) (k : String) (v : Val) : pget (pset p k v) k = some v := by
  induction p with
  | nil => simp [pset, pget]
  | cons a t ih =>
    obtain ⟨k', v'⟩ := a
    simp only [pset]
    cases h : (k' == k) with
    | true => simp [pget]
    | false =>
      simp only [Bool.false_eq_true, if_false]
      simp only [pget, List.find?_cons, h] at ih ⊢
      exact ih

theorem pget_pset_other (p : Payload) (k k' : String) (v : Val) (hne : k' ≠ k) :
    pget (pset p k v) k' = pget p k' := by
  have h2 : (k == k') = false := by simpa using fun h => hne h.symm
  induction p with
  | nil => simp [pset, pget, h2]
  | cons a t ih =>
    obtain ⟨k0, v0⟩ := a
    simp only [pset]
    cases h : (k0 == k) with
    | true =>
      have hk : k0 = k := by simpa using h
      have h3 : (k0 == k') = false := by rw [hk]; exact h2
      simp [pget, h2, h3]
    | false =>
      simp only [Bool.false_eq_true, if_false]
      simp only [pget, List.find?_cons] at ih ⊢
      cases h4 : (k0 == k') with
      | true => simp
      | false => simp only; exact ih

theorem pstr_pset_same (p k v) : pstr (pset p k (.s v)) k = v := by simp [pstr, pget_pset_same]
theorem pbool_pset_same (p k v) : pbool (pset p k (.b v)) k = v := by simp [pbool, pget_pset_same]
theorem pint_pset_same (p k v) : pint (pset p k (.i v)) k = some v := by simp [pint, pget_pset_same]
theorem pstr_pset_other (p k k' x) (h : k' ≠ k) : pstr (pset p k x) k' = pstr p k' := by
  simp [pstr, pget_pset_other _ _ _ _ h]
theorem pbool_pset_other (p k k' x) (h : k' ≠ k) : pbool (pset p k x) k' = pbool p k' := by
  simp [pbool, pget_pset_other _ _ _ _ h]
theorem pint_pset_other (p k k' x) (h : k' ≠ k) : pint (pset p k x) k' = pint p k' := by
  simp [pint, pget_pset_other _ _ _ _ h]

/-! ### what the next request loads is exactly what was saved -/

theorem loadChunks_saved (v : View) (k : TokKind) (i fuel : Nat) (h : (v.chunks k).length ≤ i + fuel) :
    loadChunks (saveApply v) k i fuel = (v.chunks k).drop i := by
  induction fuel generalizing i with
  | zero => simp [loadChunks]; omega
  | succ f ih =>
    simp only [loadChunks, saveApply]
    cases hc : (v.chunks k)[i]? with
    | none =>
      simp
      have := List.getElem?_eq_none_iff.mp hc
      omega
    | some p =>
      simp only [Option.map_some]
      rw [ih (i+1) (by omega)]
      obtain ⟨hlt, hp⟩ := List.getElem?_eq_some_iff.mp hc
      rw [List.drop_eq_getElem_cons hlt, hp]

theorem rawView_saved (v : View) (fuel : Nat) (h : ∀ k, (v.chunks k).length ≤ fuel) :
    rawView (saveApply v) fuel = v := by
  unfold rawView
  have hc : (fun k => loadChunks (saveApply v) k 0 fuel) = v.chunks := by
    funext k
    rw [loadChunks_saved v k 0 fuel (by have := h k; omega)]
    simp
  rw [hc]
  cases v
  simp [loadOne, saveApply]

/-- **C07 core.** Whatever the jar held before, after a successful `Save` of view `v` the next request's
    `GetSession` delivers `v` again (unless the session is over-age, in which case it delivers the cleared view). -/
theorem getSession_saved (maxAge : Int) (v : View) (now : Int) (fuel : Nat) (h : ∀ k, (v.chunks k).length ≤ fuel) :
    getSession maxAge (saveApply v) now fuel = ageCheck maxAge now v := by
  unfold getSession
  rw [rawView_saved v fuel h]

/-! ### token round trip through chunking -/

theorem splitN_flatten (n : Nat) (s : Str) (hn : 0 < n) : (splitN n s).flatten = s := by
  induction s using splitN.induct n with
  | case1 s h =>
    rw [splitN]; simp [h]
    rcases h with h | h
    · omega
    · exact h
  | case2 s h ih =>
    rw [splitN]; simp [h, ih]

theorem splitN_length_le (n : Nat) (s : Str) : (splitN n s).length ≤ s.length := by
  induction s using splitN.induct n with
  | case1 s h => rw [splitN]; simp [h]
  | case2 s h ih =>
    rw [splitN]; simp [h]
    simp only [List.length_drop] at ih
    have : s.length > 0 := by cases s <;> simp_all
    omega

theorem splitN_piece_le (n : Nat) (s : Str) : ∀ c ∈ splitN n s, c.length ≤ n ∧ c ≠ [] := by
  induction s using splitN.induct n with
  | case1 s h => rw [splitN]; simp [h]
  | case2 s h ih =>
    rw [splitN]; simp only [h, dite_false, List.mem_cons]
    intro c hc
    rcases hc with rfl | hc
    · refine ⟨by simp [List.length_take]; omega, ?_⟩
      intro h0
      have hs : s ≠ [] := fun e => h (Or.inr e)
      have hn : n ≠ 0 := fun e => h (Or.inl e)
      cases s with
      | nil => exact hs rfl
      | cons a t =>
        cases n with
        | zero => exact hn rfl
        | succ m => simp at h0
    · exact ih c hc

variable (compress decompress : Str → Str)

theorem upd_same {α} (f : TokKind → α) (k) (x : α) : upd f k x k = x := by simp [upd]
theorem upd_other {α} (f : TokKind → α) (k k') (x : α) (h : k' ≠ k) : upd f k x k' = f k' := by simp [upd, h]

/-- a token of any length and content reads back exactly (empty, whole, or any number of chunks) -/
theorem getToken_setToken (hrt : ∀ t, decompress (compress t) = t) (hne : ∀ t, compress t ≠ [])
    (maxSz : Nat) (hm : 0 < maxSz) (v : View) (k : TokKind) (t : Str) :
    getToken decompress (setToken compress maxSz v k t) k = t := by
  unfold setToken getToken
  by_cases hsz : (compress t).length ≤ maxSz
  · simp only [hsz, if_true, upd_same]
    rw [pstr_pset_other _ _ _ _ (by decide), pstr_pset_same, pbool_pset_same]
    simp [hne, hrt]
  · simp only [hsz, if_false, upd_same]
    rw [pstr_pset_other _ _ _ _ (by decide), pstr_pset_same, pbool_pset_same]
    have hz : splitN maxSz (compress t) ≠ [] := by
      rw [splitN]; simp [hne]; omega
    have hmap : (List.map (pieceText ∘ fun c => [("token_chunk", Val.s c)]) (splitN maxSz (compress t)))
        = splitN maxSz (compress t) := by
      have : (pieceText ∘ fun c => [("token_chunk", Val.s c)]) = id := by
        funext c; simp [pieceText, pstr, pget]
      rw [this]; simp
    simp [hz, List.map_map, hmap, splitN_flatten maxSz _ hm, hrt]

/-- writing one token never disturbs the other (no mixing) -/
theorem getToken_setToken_other (maxSz : Nat) (v : View) (k k' : TokKind) (t : Str) (h : k' ≠ k) :
    getToken decompress (setToken compress maxSz v k t) k' = getToken decompress v k' := by
  unfold setToken getToken
  by_cases hsz : (compress t).length ≤ maxSz <;> simp [hsz, upd_other _ _ _ _ h]

/-- … nor the main-cookie fields -/
theorem main_setToken (maxSz : Nat) (v : View) (k : TokKind) (t : Str) :
    (setToken compress maxSz v k t).main = v.main := by
  unfold setToken; by_cases hsz : (compress t).length ≤ maxSz <;> simp [hsz]

theorem getToken_setMain (v : View) (key : String) (x : Val) (k : TokKind) :
    getToken decompress (setMain v key x) k = getToken decompress v k := rfl

theorem chunks_len_setToken (maxSz : Nat) (v : View) (k k' : TokKind) (t : Str) :
    ((setToken compress maxSz v k t).chunks k').length ≤ max ((v.chunks k').length) (compress t).length := by
  unfold setToken
  by_cases hsz : (compress t).length ≤ maxSz
  · by_cases h : k' = k
    · simp [hsz, upd, h]
    · simp [hsz, upd, h]; omega
  · by_cases h : k' = k
    · simp [hsz, upd, h]
      have := splitN_length_le maxSz (compress t); omega
    · simp [hsz, upd, h]; omega

/-! ### clearing -/

theorem getAuth_clear (maxAge now) (v : View) : getAuth maxAge now (clearView v) = false := by
  simp [getAuth, clearView, pbool, pget]

theorem getToken_clear (v : View) (k : TokKind) : getToken decompress (clearView v) k = [] := by
  unfold getToken clearView
  simp only [pstr, pget, pbool]
  simp
  intro _
  induction v.chunks k with
  | nil => simp
  | cons a t ih => simp [pieceText, pstr, pget]

theorem clear_main_fields (v : View) :
    getEmail (clearView v) = [] ∧ getCSRF (clearView v) = [] ∧ getNonce (clearView v) = [] ∧
    getVerifier (clearView v) = [] ∧ getIncoming (clearView v) = [] := by
  simp [getEmail, getCSRF, getNonce, getVerifier, getIncoming, clearView, pstr, pget]

/-- **C17.** an unusable (undecodable) cookie is indistinguishable from a missing one -/
theorem bad_is_absent (maxAge : Int) (j : Jar) (n : Name) (now : Int) (fuel : Nat) (hb : j n = some .bad) :
    getSession maxAge j now fuel = getSession maxAge (fun m => if m = n then none else j m) now fuel := by
  have hone : ∀ m, loadOne j m = loadOne (fun m => if m = n then none else j m) m := by
    intro m; unfold loadOne
    by_cases h : m = n
    · simp [h, hb]
    · simp [h]
  have hch : ∀ k i f, loadChunks j k i f = loadChunks (fun m => if m = n then none else j m) k i f := by
    intro k i f
    induction f generalizing i with
    | zero => rfl
    | succ f ih =>
      simp only [loadChunks]
      by_cases h : Name.chunk k i = n
      · simp [h, hb]
      · simp only [h, if_false]
        cases j (Name.chunk k i) with
        | none => rfl
        | some c => cases c <;> simp [ih]
  unfold getSession rawView
  simp only [hone, hch]

end Oidc.Session
