import Oidc.Proofs.Session
/-!
# C07 over histories: the cookie-backed session store refines a plain record of fields

`W` are the write operations of the `SessionData` API, `Fields` is what the getters return.  `fieldsOf ∘ applyW = stepF ∘
fieldsOf` (every getter returns the last written value, untouched fields keep theirs), and across a `Save` / `GetSession`
pair nothing changes but the absolute-age rule — whatever cookies the browser held before.
-/
namespace Oidc.Session
open Oidc

inductive W where
  | tok (k : TokKind) (t : Str)
  | email (s : Str) | csrf (s : Str) | nonce (s : Str) | ver (s : Str) | inc (s : Str)
  | auth (b : Bool)
  | clear

structure Fields where
  tok : TokKind → Str
  email : Str
  csrf : Str
  nonce : Str
  ver : Str
  inc : Str
  flag : Bool
  created : Option Int

def clearedFields : Fields := ⟨fun _ => [], [], [], [], [], [], false, none⟩

section
variable (compress decompress : Str → Str)

def fieldsOf (v : View) : Fields :=
  ⟨fun k => getToken decompress v k, getEmail v, getCSRF v, getNonce v, getVerifier v, getIncoming v,
   pbool v.main "authenticated", pint v.main "created_at"⟩

def applyW (maxSz : Nat) (now : Int) (v : View) : W → View
  | .tok k t => setToken compress maxSz v k t
  | .email s => setEmail v s
  | .csrf s => setCSRF v s
  | .nonce s => setNonce v s
  | .ver s => setVerifier v s
  | .inc s => setIncoming v s
  | .auth b => setAuthenticated v now b
  | .clear => clearView v

def stepF (now : Int) (f : Fields) : W → Fields
  | .tok k t => { f with tok := upd f.tok k t }
  | .email s => { f with email := s }
  | .csrf s => { f with csrf := s }
  | .nonce s => { f with nonce := s }
  | .ver s => { f with ver := s }
  | .inc s => { f with inc := s }
  | .auth b => { f with flag := b, created := if b then some now else f.created }
  | .clear => clearedFields

/-- the absolute-age rule of `GetSession` on the record -/
def ageF (maxAge now : Int) (f : Fields) : Fields :=
  match f.created with
  | some t => if now - t > maxAge then clearedFields else f
  | none => f

theorem fieldsOf_clear (v : View) : fieldsOf decompress (clearView v) = clearedFields := by
  unfold fieldsOf clearedFields
  have h := clear_main_fields v
  have ht : (fun k => getToken decompress (clearView v) k) = fun _ => [] := by
    funext k; exact getToken_clear decompress v k
  rw [ht, h.1, h.2.1, h.2.2.1, h.2.2.2.1, h.2.2.2.2]
  simp [clearView, pbool, pint, pget]

/-- a write to one main-cookie key: the getters -/
theorem fieldsOf_setMain_str (v : View) (key : String) (s : Str) :
    fieldsOf decompress (setMain v key (.s s)) =
      { tok := (fieldsOf decompress v).tok,
        email := if key = "email" then s else (fieldsOf decompress v).email,
        csrf := if key = "csrf" then s else (fieldsOf decompress v).csrf,
        nonce := if key = "nonce" then s else (fieldsOf decompress v).nonce,
        ver := if key = "code_verifier" then s else (fieldsOf decompress v).ver,
        inc := if key = "incoming_path" then s else (fieldsOf decompress v).inc,
        flag := if key = "authenticated" then false else (fieldsOf decompress v).flag,
        created := if key = "created_at" then none else (fieldsOf decompress v).created } := by
  unfold fieldsOf
  have ht : (fun k => getToken decompress (setMain v key (.s s)) k) = fun k => getToken decompress v k := by
    funext k; exact getToken_setMain decompress v key (.s s) k
  rw [ht]
  simp only [getEmail, getCSRF, getNonce, getVerifier, getIncoming, setMain]
  congr 1
  all_goals
    first
    | (by_cases h : key = "email"
       · subst h; simp [pstr_pset_same]
       · simp only [h, if_false]; exact pstr_pset_other _ _ _ _ (Ne.symm h))
    | (by_cases h : key = "csrf"
       · subst h; simp [pstr_pset_same]
       · simp only [h, if_false]; exact pstr_pset_other _ _ _ _ (Ne.symm h))
    | (by_cases h : key = "nonce"
       · subst h; simp [pstr_pset_same]
       · simp only [h, if_false]; exact pstr_pset_other _ _ _ _ (Ne.symm h))
    | (by_cases h : key = "code_verifier"
       · subst h; simp [pstr_pset_same]
       · simp only [h, if_false]; exact pstr_pset_other _ _ _ _ (Ne.symm h))
    | (by_cases h : key = "incoming_path"
       · subst h; simp [pstr_pset_same]
       · simp only [h, if_false]; exact pstr_pset_other _ _ _ _ (Ne.symm h))
    | (by_cases h : key = "authenticated"
       · subst h; simp [pbool, pget_pset_same]
       · simp only [h, if_false]; exact pbool_pset_other _ _ _ _ (Ne.symm h))
    | (by_cases h : key = "created_at"
       · subst h; simp [pint, pget_pset_same]
       · simp only [h, if_false]; exact pint_pset_other _ _ _ _ (Ne.symm h))


/-- **every getter returns the last written value, and a write touches only its own field** -/
theorem fieldsOf_applyW (hrt : ∀ t, decompress (compress t) = t) (hne : ∀ t, compress t ≠ []) (maxSz : Nat) (hm : 0 < maxSz)
    (now : Int) (v : View) (w : W) :
    fieldsOf decompress (applyW compress maxSz now v w) = stepF now (fieldsOf decompress v) w := by
  cases w with
  | tok k t =>
    simp only [applyW, stepF]
    unfold fieldsOf
    have hmain := main_setToken compress maxSz v k t
    simp only [getEmail, getCSRF, getNonce, getVerifier, getIncoming, hmain]
    congr 1
    funext k'
    by_cases h : k' = k
    · subst h; rw [upd_same]; exact getToken_setToken compress decompress hrt hne maxSz hm v k' t
    · rw [upd_other _ _ _ _ h]; exact getToken_setToken_other compress decompress maxSz v k k' t h
  | email s => simp only [applyW, stepF, setEmail]; rw [fieldsOf_setMain_str]; simp
  | csrf s => simp only [applyW, stepF, setCSRF]; rw [fieldsOf_setMain_str]; simp
  | nonce s => simp only [applyW, stepF, setNonce]; rw [fieldsOf_setMain_str]; simp
  | ver s => simp only [applyW, stepF, setVerifier]; rw [fieldsOf_setMain_str]; simp
  | inc s => simp only [applyW, stepF, setIncoming]; rw [fieldsOf_setMain_str]; simp
  | clear => simp only [applyW, stepF]; exact fieldsOf_clear decompress v
  | auth b =>
    simp only [applyW, stepF]
    unfold fieldsOf setAuthenticated
    have ht : ∀ (m : Payload), (fun k => getToken decompress ({ v with main := m } : View) k) = fun k => getToken decompress v k := by
      intro m; funext k; rfl
    cases b with
    | false =>
      simp only [Bool.false_eq_true, if_false, getEmail, getCSRF, getNonce, getVerifier, getIncoming]
      rw [ht]
      congr 1
      · exact pstr_pset_other _ _ _ _ (by decide)
      · exact pstr_pset_other _ _ _ _ (by decide)
      · exact pstr_pset_other _ _ _ _ (by decide)
      · exact pstr_pset_other _ _ _ _ (by decide)
      · exact pstr_pset_other _ _ _ _ (by decide)
      · exact pbool_pset_same _ _ _
      · exact pint_pset_other _ _ _ _ (by decide)
    | true =>
      simp only [if_true, getEmail, getCSRF, getNonce, getVerifier, getIncoming]
      rw [ht]
      congr 1
      · rw [pstr_pset_other _ _ _ _ (by decide), pstr_pset_other _ _ _ _ (by decide)]
      · rw [pstr_pset_other _ _ _ _ (by decide), pstr_pset_other _ _ _ _ (by decide)]
      · rw [pstr_pset_other _ _ _ _ (by decide), pstr_pset_other _ _ _ _ (by decide)]
      · rw [pstr_pset_other _ _ _ _ (by decide), pstr_pset_other _ _ _ _ (by decide)]
      · rw [pstr_pset_other _ _ _ _ (by decide), pstr_pset_other _ _ _ _ (by decide)]
      · exact pbool_pset_same _ _ _
      · rw [pint_pset_other _ _ _ _ (by decide)]; exact pint_pset_same _ _ _

theorem fieldsOf_foldl (hrt : ∀ t, decompress (compress t) = t) (hne : ∀ t, compress t ≠ []) (maxSz : Nat) (hm : 0 < maxSz)
    (now : Int) (ws : List W) (v : View) :
    fieldsOf decompress (ws.foldl (applyW compress maxSz now) v) = ws.foldl (stepF now) (fieldsOf decompress v) := by
  induction ws generalizing v with
  | nil => rfl
  | cons w t ih => simp only [List.foldl_cons]; rw [ih, fieldsOf_applyW compress decompress hrt hne maxSz hm]

theorem fieldsOf_ageCheck (maxAge now : Int) (v : View) :
    fieldsOf decompress (ageCheck maxAge now v) = ageF maxAge now (fieldsOf decompress v) := by
  unfold ageCheck ageF
  have : (fieldsOf decompress v).created = pint v.main "created_at" := rfl
  rw [this]
  cases pint v.main "created_at" with
  | none => rfl
  | some t =>
    simp only
    split
    · exact fieldsOf_clear decompress v
    · rfl

/-- one request: `GetSession` → writes → `Save`; what the *next* request's `GetSession` delivers, whatever the jar held before -/
def requestView (maxAge : Int) (maxSz : Nat) (fuel : Nat) (j : Jar) (now : Int) (ws : List W) : View :=
  ws.foldl (applyW compress maxSz now) (getSession maxAge j now fuel)

/-- the browser's jar after a history of requests `(now, writes)`, each ending in a `Save` -/
def runHist (maxAge : Int) (maxSz : Nat) (fuel : Nat) : Jar → List (Int × List W) → Jar
  | j, [] => j
  | j, (now, ws) :: t => runHist maxAge maxSz fuel (saveApply (requestView compress maxAge maxSz fuel j now ws)) t

/-- the same history on the plain record -/
def specHist (maxAge : Int) : Fields → List (Int × List W) → Fields
  | f, [] => f
  | f, (now, ws) :: t => specHist maxAge (ws.foldl (stepF now) (ageF maxAge now f)) t

/-- every saved view fits the chunk-loading bound (tokens of at most `fuel · maxSz` compressed bytes) -/
def Fits (maxAge : Int) (maxSz : Nat) (fuel : Nat) : Jar → List (Int × List W) → Prop
  | _, [] => True
  | j, (now, ws) :: t =>
    (∀ k, ((requestView compress maxAge maxSz fuel j now ws).chunks k).length ≤ fuel) ∧
    Fits maxAge maxSz fuel (saveApply (requestView compress maxAge maxSz fuel j now ws)) t

/-- **C07 (history).** For every history of requests of one browser — any writes, clears and saves, tokens of any length and
    content — the next request's getters return exactly what the same history leaves in a plain record of fields: the most
    recently written value of each field (subject only to the 24-hour rule), never truncated, padded with remnants of an
    earlier longer value, or mixed with another field. -/
theorem read_back (hrt : ∀ t, decompress (compress t) = t) (hne : ∀ t, compress t ≠ []) (maxAge : Int) (maxSz : Nat)
    (hm : 0 < maxSz) (fuel : Nat) (hist : List (Int × List W)) (j : Jar) (now : Int)
    (hfit : Fits compress maxAge maxSz fuel j hist) :
    ∀ (f0 : Fields), (∀ t, fieldsOf decompress (getSession maxAge j t fuel) = ageF maxAge t f0) →
    fieldsOf decompress (getSession maxAge (runHist compress maxAge maxSz fuel j hist) now fuel)
      = ageF maxAge now (specHist maxAge f0 hist) := by
  induction hist generalizing j with
  | nil => intro f0 h0; exact h0 now
  | cons r t ih =>
    obtain ⟨nw, ws⟩ := r
    intro f0 h0
    simp only [runHist, specHist]
    obtain ⟨hf1, hf2⟩ := hfit
    apply ih _ hf2
    intro t'
    rw [getSession_saved _ _ _ _ hf1, fieldsOf_ageCheck]
    congr 1
    unfold requestView
    rw [fieldsOf_foldl compress decompress hrt hne maxSz hm, h0 nw]

/-- the empty jar reads as the cleared record -/
theorem fieldsOf_empty (maxAge t : Int) (fuel : Nat) :
    fieldsOf decompress (getSession maxAge (fun _ => none) t fuel) = ageF maxAge t clearedFields := by
  have : getSession maxAge (fun _ => none) t fuel = { main := [], whole := fun _ => [], chunks := fun _ => [] } := by
    unfold getSession rawView ageCheck
    have hl : ∀ k, loadChunks (fun _ => none) k 0 fuel = [] := by
      intro k; cases fuel <;> simp [loadChunks]
    simp [loadOne, hl, pint, pget]
  rw [this]
  simp [fieldsOf, ageF, clearedFields, getToken, getEmail, getCSRF, getNonce, getVerifier, getIncoming, pstr, pbool, pint, pget]

end
end Oidc.Session
