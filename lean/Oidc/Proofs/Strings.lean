import Oidc.Model.Strings
namespace Oidc.Strings

theorem split_ne_nil (c : Char) (s : Str) : split c s ≠ [] := by
  induction s with
  | nil => simp [split]
  | cons x xs ih =>
    simp only [split]; split
    · simp
    · split <;> simp

theorem split_one (c : Char) (s p : Str) : split c s = [p] ↔ (s = p ∧ c ∉ s) := by
  induction s generalizing p with
  | nil => simp [split, eq_comm]
  | cons x xs ih =>
    simp only [split]
    split
    · rename_i h; subst h
      have := split_ne_nil x xs
      simp [this]
    · rename_i hne
      split
      · rename_i h; exact absurd h (split_ne_nil c xs)
      · rename_i q qs h
        constructor
        · intro heq
          simp only [List.cons.injEq] at heq
          obtain ⟨hp, hqs⟩ := heq
          subst hqs
          have := (ih q).mp h
          subst hp
          refine ⟨by rw [this.1], ?_⟩
          simp only [List.mem_cons, not_or]
          exact ⟨fun hc => hne hc.symm, this.2⟩
        · intro ⟨hs, hc⟩
          subst hs
          simp only [List.mem_cons, not_or] at hc
          have := (ih xs).mpr ⟨rfl, hc.2⟩
          rw [this] at h
          simp only [List.cons.injEq] at h
          simp [h.1, h.2]

theorem split_two (c : Char) (s a b : Str) :
    split c s = [a, b] ↔ (s = a ++ c :: b ∧ c ∉ a ∧ c ∉ b) := by
  induction s generalizing a with
  | nil => simp [split]
  | cons x xs ih =>
    simp only [split]
    split
    · rename_i h; subst h
      constructor
      · intro heq
        simp only [List.cons.injEq] at heq
        obtain ⟨ha, hb⟩ := heq
        subst ha
        have := (split_one x xs b).mp hb
        exact ⟨by simp [this.1], by simp, by rw [← this.1]; exact this.2⟩
      · intro ⟨hs, ha, hb⟩
        cases a with
        | nil =>
          simp at hs; subst hs
          simp [(split_one x xs xs).mpr ⟨rfl, hb⟩]
        | cons y ys =>
          simp at hs; simp [hs.1] at ha
    · rename_i hne
      split
      · rename_i h; exact absurd h (split_ne_nil c xs)
      · rename_i q qs h
        constructor
        · intro heq
          simp only [List.cons.injEq] at heq
          obtain ⟨ha, hqs⟩ := heq
          subst hqs; subst ha
          have := (ih q).mp h
          refine ⟨by simp [this.1], ?_, this.2.2⟩
          simp only [List.mem_cons, not_or]
          exact ⟨fun hc => hne hc.symm, this.2.1⟩
        · intro ⟨hs, ha, hb⟩
          cases a with
          | nil => simp at hs; exact absurd hs.1 hne
          | cons y ys =>
            simp at hs
            simp only [List.mem_cons, not_or] at ha
            have := (ih ys).mpr ⟨hs.2, ha.2, hb⟩
            rw [this] at h
            simp only [List.cons.injEq] at h
            simp [hs.1, h.1, h.2]

/-- **C06 (domain).** -/
theorem isAllowedDomain_iff (doms : List Str) (email : Str) (hd : doms ≠ []) :
    isAllowedDomain doms email = true ↔
      ∃ l d, email = l ++ '@' :: d ∧ '@' ∉ l ∧ '@' ∉ d ∧ d ∈ doms := by
  unfold isAllowedDomain
  have : doms.isEmpty = false := by cases doms <;> simp_all
  simp only [this]
  constructor
  · intro h
    simp only [Bool.false_eq_true, if_false] at h
    split at h
    · rename_i l d heq
      have := (split_two '@' email l d).mp heq
      exact ⟨l, d, this.1, this.2.1, this.2.2, by simpa using h⟩
    · simp at h
  · intro ⟨l, d, he, hl, hd', hm⟩
    have := (split_two '@' email l d).mpr ⟨he, hl, hd'⟩
    simp [this, hm]

theorem isAllowedDomain_empty (email : Str) : isAllowedDomain [] email = true := by
  simp [isAllowedDomain]

/-- **C06 (roles/groups).** With an allow-list configured the gate opens iff both claims are absent or arrays and
    some *string* element of one of the arrays is listed. -/
theorem rolesGate_iff (allow : List Str) (groups roles : Claim) (ha : allow ≠ []) :
    rolesGate allow groups roles = true ↔
      ∃ g r, extract groups roles = some (g, r) ∧ ∃ v, (v ∈ g ∨ v ∈ r) ∧ v ∈ allow := by
  unfold rolesGate
  have : allow.isEmpty = false := by cases allow <;> simp_all
  simp only [this, Bool.false_eq_true, if_false]
  cases h : extract groups roles with
  | none => simp
  | some p =>
    obtain ⟨g, r⟩ := p
    simp only [List.any_eq_true, List.mem_append, Option.some.injEq, Prod.mk.injEq]
    constructor
    · rintro ⟨v, hv, hc⟩
      exact ⟨g, r, ⟨rfl, rfl⟩, v, hv, by simpa using hc⟩
    · rintro ⟨g', r', ⟨rfl, rfl⟩, v, hv, hc⟩
      exact ⟨v, hv, by simpa using hc⟩

theorem extract_fail_closed (allow : List Str) (groups roles : Claim) (ha : allow ≠ [])
    (h : extract groups roles = none) : rolesGate allow groups roles = false := by
  unfold rolesGate
  have : allow.isEmpty = false := by cases allow <;> simp_all
  simp [this, h]

theorem extract_none_iff (groups roles : Claim) :
    extract groups roles = none ↔ (groups matches .other) ∨ (roles matches .other) := by
  cases groups <;> cases roles <;> simp [extract]

theorem rolesGate_empty (groups roles : Claim) : rolesGate [] groups roles = true := by simp [rolesGate]

/-- **C16.** -/
theorem esc1_safe (c : Char) : ∀ x ∈ esc1 c, x ≠ '<' ∧ x ≠ '>' ∧ x ≠ '"' ∧ x ≠ '\'' := by
  intro x hx
  unfold esc1 at hx
  repeat' split at hx
  all_goals simp at hx
  all_goals first
    | (rcases hx with rfl | rfl | rfl | rfl | rfl <;> decide)
    | (rcases hx with rfl | rfl | rfl | rfl <;> decide)
    | (subst hx; simp_all)

theorem htmlEscape_safe (s : Str) : ∀ x ∈ htmlEscape s, x ≠ '<' ∧ x ≠ '>' ∧ x ≠ '"' ∧ x ≠ '\'' := by
  intro x hx
  unfold htmlEscape at hx
  obtain ⟨c, _, hc⟩ := List.mem_flatMap.mp hx
  exact esc1_safe c x hc

/-- **C15.** what is stored (and later used as `Location`) is always a local target -/
theorem sanitize_local (maxLen : Nat) (uri : Str) : isLocalTarget (sanitizeIncoming maxLen uri) = true := by
  unfold sanitizeIncoming
  split
  · rename_i h; simp at h; exact h.1
  · rfl

theorem sanitize_len (maxLen : Nat) (uri : Str) : (sanitizeIncoming maxLen uri).length ≤ max maxLen 1 := by
  unfold sanitizeIncoming
  split
  · rename_i h; simp at h; omega
  · simp; omega

/-- a local target without tab/CR/LF resolves on the base origin -/
theorem local_same_origin (t : Str) (h : isLocalTarget t = true) (hc : ∀ c ∈ t, isTabNl c = false) :
    resolveOrigin t = .same := by
  unfold resolveOrigin
  have hf : t.filter (fun c => !isTabNl c) = t := by
    apply List.filter_eq_self.mpr
    intro c hcm; simp [hc c hcm]
  cases t with
  | nil => simp [isLocalTarget] at h
  | cons a rest =>
    simp only [isLocalTarget, Bool.and_eq_true, beq_iff_eq] at h
    obtain ⟨ha, hr⟩ := h
    subst ha
    have hd : (('/' :: rest).dropWhile isC0Space) = '/' :: rest := by
      simp [List.dropWhile, isC0Space]
    rw [hd, hf]
    have hs : hasScheme ('/' :: rest) = false := by simp [hasScheme]
    simp only [hs, Bool.false_eq_true, if_false]
    cases rest with
    | nil => rfl
    | cons c r2 =>
      simp only at hr
      have : isSlash c = false := by
        simp [isSlash]; simpa using hr
      simp [this]

end Oidc.Strings
