import Oidc.Model.Verify
import Oidc.Proofs.CacheComplete
namespace Oidc.Verify
open Oidc Oidc.Cache

/-- everything in the token cache was accepted by a from-scratch verification at some earlier instant and is kept
    exactly until the token's own expiry -/
def TcInv (T : TokOf) (tc : Cache.C) (last : Int) : Prop :=
  ∀ e ∈ tc.order, e.exp = T.exp e.key ∧ ∃ ts, ts ≤ last ∧ T.scratch e.key ts = true

theorem get_mem (se) (c : Cache.C) (now k) : ∀ e ∈ (Cache.get se c now k).1.order, e ∈ c.order := by
  intro e he
  unfold Cache.get at he
  split at he
  · exact he
  · rename_i e0 hl
    split at he
    · exact (mem_remove he).1
    · simp only [List.mem_append, List.mem_singleton] at he
      rcases he with he | he
      · exact (mem_remove he).1
      · subst he; exact (lookup_some hl).1

theorem set_mem (se) (c : Cache.C) (now k v ttl) :
    ∀ e ∈ (Cache.set se c now k v ttl).order, e ∈ c.order ∨ e = ⟨k, v, now + ttl⟩ := by
  intro e he
  unfold Cache.set at he
  split at he
  · simp only [List.mem_append, List.mem_singleton] at he
    rcases he with he | he
    · exact Or.inl (mem_remove he).1
    · exact Or.inr he
  · simp only [List.mem_append, List.mem_singleton] at he
    rcases he with he | he
    · left
      split at he
      · exact mem_evict he
      · exact he
    · exact Or.inr he

theorem tcInv_mono (T) (tc) {a b : Int} (h : TcInv T tc a) (hab : a ≤ b) : TcInv T tc b := by
  intro e he
  obtain ⟨h1, ts, h2, h3⟩ := h e he
  exact ⟨h1, ts, Int.le_trans h2 hab, h3⟩

theorem tcInv_sub (T) (tc tc' : Cache.C) (last) (h : TcInv T tc last) (hs : ∀ e ∈ tc'.order, e ∈ tc.order) :
    TcInv T tc' last := fun e he => h e (hs e he)

/-- the token cache after `verify`: what `Get` left, plus the new entry iff the verdict is positive and uncached -/
theorem verify_tc (F : Facts) (T : TokOf) (v : V) (now : Int) (id : String) :
    (verify F T v now id).1.tc = (Cache.get F.se v.tc now id).1 ∨
    ((verify F T v now id).1.tc = Cache.set F.se (Cache.get F.se v.tc now id).1 now id 1 (T.exp id - now) ∧
      T.scratch id now = true ∧ (verify F T v now id).2 = true ∧ (Cache.get F.se v.tc now id).2.isSome = false) := by
  unfold verify verifyWith
  simp only
  cases h1 : (Cache.get F.se v.tc now id).2.isSome with
  | true => simp
  | false =>
  simp only [Bool.false_eq_true, if_false]
  cases h2 : (Limiter.allow F.r F.b v.lim now).2 with
  | false => simp
  | true =>
  simp only [Bool.not_true, Bool.false_eq_true, if_false]
  cases h3 : (Cache.get F.se v.bl now id).2.isSome with
  | true => simp
  | false =>
  simp only [Bool.false_eq_true, if_false]
  cases h4 : (jtiCheck F T (Cache.get F.se v.bl now id).1 now id).2.isSome with
  | true => simp
  | false =>
  simp only [Bool.false_eq_true, if_false]
  cases h5 : T.scratch id now with
  | false => simp
  | true => simp

/-- `verify` keeps the token-cache invariant -/
theorem verify_tcInv (F : Facts) (T : TokOf) (v : V) (now : Int) (id : String) (last : Int) (hl : last ≤ now)
    (h : TcInv T v.tc last) : TcInv T (verify F T v now id).1.tc now := by
  have hget : TcInv T (Cache.get F.se v.tc now id).1 now :=
    tcInv_sub T v.tc _ now (tcInv_mono T v.tc h hl) (get_mem F.se v.tc now id)
  rcases verify_tc F T v now id with h1 | ⟨h1, hs, _, _⟩
  · rw [h1]; exact hget
  · rw [h1]
    intro e he
    rcases set_mem F.se _ now id 1 (T.exp id - now) e he with h2 | h2
    · exact hget e h2
    · subst h2
      exact ⟨by simp only; omega, now, Int.le_refl _, hs⟩

/-- a positive answer comes either from the cache or from a from-scratch verification now -/
theorem verify_true (F : Facts) (T : TokOf) (v : V) (now : Int) (id : String) (hok : (verify F T v now id).2 = true) :
    (Cache.get F.se v.tc now id).2.isSome = true ∨ T.scratch id now = true := by
  unfold verify verifyWith at hok
  simp only at hok
  cases h1 : (Cache.get F.se v.tc now id).2.isSome with
  | true => exact Or.inl rfl
  | false =>
  simp only [h1, Bool.false_eq_true, if_false] at hok
  cases h2 : (Limiter.allow F.r F.b v.lim now).2 with
  | false => simp [h2] at hok
  | true =>
  simp only [h2, Bool.not_true, Bool.false_eq_true, if_false] at hok
  cases h3 : (Cache.get F.se v.bl now id).2.isSome with
  | true => simp [h3] at hok
  | false =>
  simp only [h3, Bool.false_eq_true, if_false] at hok
  cases h4 : (jtiCheck F T (Cache.get F.se v.bl now id).1 now id).2.isSome with
  | true => simp [h4] at hok
  | false =>
  simp only [h4, Bool.false_eq_true, if_false] at hok
  cases h5 : T.scratch id now with
  | false => simp [h5] at hok
  | true => exact Or.inr rfl

/-- **C14.** Whenever `VerifyToken` reports a token valid, a from-scratch verification at that very instant accepts
    it too — provided the instants at which a token is accepted form an interval reaching to its expiry (proved for
    the verifier in `Oidc.Jwt.accept_interval`).  A cached accept is served no later than the token's own expiry. -/
theorem valid_implies_scratch (F : Facts) (T : TokOf) (v : V) (now : Int) (id : String) (last : Int) (hl : last ≤ now)
    (hint : ∀ id a n, T.scratch id a = true → a ≤ n → n ≤ T.exp id → T.scratch id n = true)
    (h : TcInv T v.tc last) (hok : (verify F T v now id).2 = true) :
    T.scratch id now = true ∧
    ((Cache.get F.se v.tc now id).2.isSome = true → now ≤ T.exp id) := by
  have hexp : (Cache.get F.se v.tc now id).2.isSome = true → now ≤ T.exp id ∧ T.scratch id now = true := by
    intro hs
    rw [get_out] at hs
    cases hlk : lookup v.tc.order id with
    | none => simp [hlk] at hs
    | some e =>
      simp only [hlk] at hs
      obtain ⟨hmem, hkey⟩ := lookup_some hlk
      obtain ⟨h1, ts, h2, h3⟩ := h e hmem
      rw [hkey] at h1 h3
      have hne : expired F.se now e = false := by
        cases hx : expired F.se now e with
        | true => simp [hx] at hs
        | false => rfl
      have hle : now ≤ T.exp id := by
        unfold expired at hne
        rw [h1] at hne
        cases hse : F.se <;> simp [hse] at hne <;> omega
      exact ⟨hle, hint id ts now h3 (by omega) hle⟩
  rcases verify_true F T v now id hok with h1 | h1
  · exact ⟨(hexp h1).2, fun _ => (hexp h1).1⟩
  · exact ⟨h1, fun hc => (hexp hc).1⟩

/-- a verification that failed caches nothing -/
theorem failed_never_cached (F : Facts) (T : TokOf) (v : V) (now : Int) (id : String)
    (hfail : (verify F T v now id).2 = false) :
    ∀ e ∈ (verify F T v now id).1.tc.order, e ∈ v.tc.order := by
  rcases verify_tc F T v now id with h1 | ⟨_, _, h3, _⟩
  · rw [h1]; exact get_mem F.se v.tc now id
  · rw [h3] at hfail; cases hfail

theorem lookup_set_same (se) (c : Cache.C) (now k v ttl) :
    lookup (Cache.set se c now k v ttl).order k = some ⟨k, v, now + ttl⟩ := by
  have key : ∀ l : List Entry, (∀ e ∈ l, e.key ≠ k) → lookup (l ++ [⟨k, v, now + ttl⟩]) k = some ⟨k, v, now + ttl⟩ := by
    intro l hl
    unfold lookup
    rw [List.find?_append]
    have : List.find? (fun x => x.key == k) l = none := by
      apply List.find?_eq_none.mpr
      intro x hx; simpa using hl x hx
    simp [this]
  unfold Cache.set
  split
  · exact key _ (fun e he => (mem_remove he).2)
  · rename_i hnone
    simp only
    apply key
    intro e he
    have : e ∈ c.order := by
      split at he
      · exact mem_evict he
      · exact he
    exact lookup_none hnone e this

/-- **C14: revocation takes effect on the very next verification** — from any state, at any instant within the
    listing period (24 h, and with fix F7 until the token can no longer be accepted). -/
theorem revoke_immediate (F : Facts) (T : TokOf) (v : V) (tr now : Int) (id : String)
    (h2 : now < tr + revTTL F T tr id) :
    (verify F T (revoke F T v tr id) now id).2 = false := by
  have hmiss : (Cache.get F.se (revoke F T v tr id).tc now id).2.isSome = false := by
    rw [get_out]
    have : lookup (revoke F T v tr id).tc.order id = none := by
      unfold revoke Cache.delete lookup
      apply List.find?_eq_none.mpr
      intro x hx
      have := (mem_remove hx).2
      simpa using this
    simp [this]
  have hhit : (Cache.get F.se (revoke F T v tr id).bl now id).2.isSome = true := by
    rw [get_out]
    have : lookup (revoke F T v tr id).bl.order id = some ⟨id, 1, tr + revTTL F T tr id⟩ := by
      unfold revoke
      exact lookup_set_same F.se v.bl tr id 1 _
    simp only [this]
    have : expired F.se now ⟨id, 1, tr + revTTL F T tr id⟩ = false := by
      unfold expired
      cases hse : F.se <;> simp <;> omega
    simp [this]
  unfold verify verifyWith
  simp only [hmiss, Bool.false_eq_true, if_false]
  cases (Limiter.allow F.r F.b (revoke F T v tr id).lim now).2 with
  | false => simp
  | true => simp [hhit]

/-- with fix F7 the listing period covers the whole time a from-scratch verification could still accept -/
theorem revTTL_covers (F : Facts) (T : TokOf) (tr : Int) (id : String) (h : F.revokeUntilExp = true) :
    T.exp id + F.skew ≤ tr + revTTL F T tr id ∧ tr + F.blTTL ≤ tr + revTTL F T tr id := by
  unfold revTTL
  simp only [h, if_true]
  split <;> omega

/-- **C19: a verification refused by the limiter is not performed** — it leaves the revocation list untouched and
    the token cache exactly as the cache lookup left it; no from-scratch verification takes place (the answer is
    negative whatever `scratch` says). -/
theorem refused_not_performed (F : Facts) (T : TokOf) (v : V) (now : Int) (id : String)
    (hmiss : (Cache.get F.se v.tc now id).2.isSome = false)
    (href : (Limiter.allow F.r F.b v.lim now).2 = false) :
    (verify F T v now id).2 = false ∧ (verify F T v now id).1.bl = v.bl ∧
    (verify F T v now id).1.tc = (Cache.get F.se v.tc now id).1 := by
  unfold verify verifyWith
  simp [hmiss, href]

theorem step_tcInv (F : Facts) (T : TokOf) (v : V) (op : Op) (last : Int) (hl : last ≤ op.time)
    (h : TcInv T v.tc last) : TcInv T (step F T v op).1.tc op.time := by
  cases op with
  | verify now id => exact verify_tcInv F T v now id last hl h
  | revoke now id =>
    simp only [step, revoke, Op.time]
    exact tcInv_sub T v.tc _ now (tcInv_mono T v.tc h hl) (fun e he => (mem_remove he).1)
  | tick now =>
    simp only [step, Op.time]
    exact tcInv_sub T v.tc _ now (tcInv_mono T v.tc h hl) (fun e he => (List.mem_filter.mp he).1)

def Mono : Int → List Op → Prop
  | _, [] => True
  | lo, op :: t => lo ≤ op.time ∧ Mono op.time t

/-- all answers along a history, paired with the operation that produced them -/
def answers (F : Facts) (T : TokOf) : V → List Op → List (Op × Option Bool)
  | _, [] => []
  | v, op :: t => (op, (step F T v op).2) :: answers F T (step F T v op).1 t

/-- **C14 over histories.** Along every history of verifications, revocations and clean-ups with a non-decreasing
    clock, started from any state whose token cache satisfies the invariant (e.g. the empty one), every positive
    answer of `VerifyToken` is one a from-scratch verification at that instant gives as well. -/
theorem history_valid_implies_scratch (F : Facts) (T : TokOf)
    (hint : ∀ id a n, T.scratch id a = true → a ≤ n → n ≤ T.exp id → T.scratch id n = true)
    (ops : List Op) (v : V) (last : Int) (h : TcInv T v.tc last) (hm : Mono last ops) :
    ∀ now id, (Op.verify now id, some true) ∈ answers F T v ops → T.scratch id now = true := by
  induction ops generalizing v last with
  | nil => intro now id hmem; cases hmem
  | cons op t ih =>
    intro now id hmem
    obtain ⟨h1, h2⟩ := hm
    simp only [answers, List.mem_cons] at hmem
    rcases hmem with heq | hmem
    · injection heq with hop hans
      subst hop
      simp only [step] at hans
      have : (verify F T v now id).2 = true := by
        injection hans with hans; exact hans.symm
      exact (valid_implies_scratch F T v now id last h1 hint h this).1
    · exact ih _ op.time (step_tcInv F T v op last h1 h) h2 now id hmem

theorem empty_tcInv (T : TokOf) (cap : Nat) (last : Int) : TcInv T (Cache.init cap) last := by
  intro e he; simp [Cache.init] at he

end Oidc.Verify
